"""C26 — PROXY protocol parsing preserves the stream exactly (pkg/broker/proxyproto.go)."""
import ipaddress
import struct

from checks import lib

PROPERTY = "C26"
LEAN_MODULES = ["KafVerif.Props.C26", "KafVerif.Props.C26Conns"]
OBLIGATIONS = [
    "KafVerif.C26.total",
    "KafVerif.C26.passthrough",
    "KafVerif.C26.remainder_suffix",
    "KafVerif.C26.v2_local_roundtrip",
    "KafVerif.C26.v2_inet_roundtrip",
    "KafVerif.C26.v2_inet6_roundtrip",
    "KafVerif.C26.v1_roundtrip",
    "KafVerif.C26.v1_unknown_roundtrip",
    "KafVerif.C26.v1_port_decimal",
    "KafVerif.C26.parseOld_misreads_tcp6",
    "KafVerif.C26.v1_roundtrip_decimal_ports",
    "KafVerif.C26.v1_port_not_range_checked",
    "KafVerif.C26.v1_max_length_roundtrip",
    "KafVerif.C26.v1_overlong_rejected",
    "KafVerif.C26.v2_unhandled_family",
    "KafVerif.C26.v2_transport_and_version_nibbles_ignored",
    "KafVerif.C26.v2_max_length_local",
    "KafVerif.C26.v2_max_length_inet",
    "KafVerif.C26.v2_max_length_inet6",
    "KafVerif.C26.v2_short_address_rejected",
    "KafVerif.C26.v2_truncated_rejected",
    "KafVerif.C26.err_remainder_suffix",
    "KafVerif.C26.conn_independent",
    "KafVerif.C26.conn_delivers_own_remainder",
    "KafVerif.C26.conn_drained_delivers_rest",
]
BUILDS = {"h": ("root", "./cmd/verif_c26", ["C26"])}
LEVEL_TEXT = ("Lean theorems over the model of ReadProxyProtocol: never panics, passthrough without a header, remainder is "
              "a suffix of the input, v1 and v2 (LOCAL / TCP4 / TCP6 + TLVs) round trips for every address, port and "
              "trailing stream, boundary theorems (v1 line of exactly 256 bytes accepted, longer rejected after exactly 256 bytes; "
              "v2 length 0xFFFF; unhandled address families give no info with the stream preserved; short/truncated v2 rejected); tied to the code by a differential run through net.Pipe with seeded chunking and an "
              "independent per-op oracle.  Connection lifecycles: in every interleaving of accepts, reads and (repeated) closes of any number "
              "of connections each wrapped connection reports the parse of its own stream and delivers exactly its own remainder "
              "(non-interference theorem), tied to the code by multi-connection sessions (sequential with double closes, 4-8 concurrent).")
TECHNIQUE = "Lean 4 proof over an executable model + differential correspondence + direct monitor"
ASSUMPTIONS = [
    "bytes.Fields/bytes.ToUpper are modelled for ASCII; non-ASCII v1 lines are exercised by the monitor stream only",
    "v2 addresses are compared as raw bytes: the harness parses net.IP.String() back (dotted text -> 4 bytes)",
    "bufio.Reader (4096 bytes) Peek/ReadByte/ReadFull semantics; the stream ends with EOF (net.Pipe close)",
    "no state is shared between connections: every ReadProxyProtocol call owns its reader and Close may be called repeatedly "
    "(the model keeps one record per connection; validated by the multi-connection session stream: sequential lifecycles with "
    "double closes and 4-8 concurrently open connections, each with its own header and a distinct trailing stream); reads after "
    "Close are outside the modelled domain",
]

SIG = b"\r\n\r\n\x00\r\nQUIT\n"
TRAILS = [b"", b"\x00\x00\x00\x0e\x00\x12\x00\x03\x00\x00\x00\x01\x00\x04kafk", b"rest", b"\n", b"\r\n\r\n", b"PROXY TCP4 9.9.9.9 8.8.8.8 1 2\r\n", SIG + b"\x20\x00\x00\x00", bytes(range(256))]


def hx(b):
    return b.hex() if b else "-"


def join_host_port(h, p):
    return (b"[" + h + b"]:" + p) if b":" in h else (h + b":" + p)


def atoi(tok):
    out = 0
    for c in tok:
        if c < 48 or c > 57:
            return 0
        out = (out * 10 + (c - 48)) & 0xFFFFFFFFFFFFFFFF
        # Go int wraps; the running value is kept as uint64 and interpreted at the end, which is the same mod 2^64
    return out - (1 << 64) if out >= (1 << 63) else out


def v4mapped(b):
    return b[12:] if len(b) == 16 and b[:12] == b"\x00" * 10 + b"\xff\xff" else b


def gen_v1(rng):
    """(stream, expected line or None)"""
    proto = rng.choice([b"TCP4", b"TCP6", b"TCP4", b"tcp4", b"X", b"UNKNOWN", b"unknown", b"UnKnOwN", b"UNKNOWNS"])
    ips = [b"1.2.3.4", b"10.0.0.1", b"255.255.255.255", b"::1", b"fe80::1", b"2001:db8::ff00:42:8329", b"host", b"1.2.3.4:5", b"%", b"a"]
    ports = [b"0", b"1", b"80", b"65535", b"65536", b"007", b"18446744073709551617", b"9223372036854775808", b"99999999999999999999999", b"12a", b"-1", b"+5", b"x"]
    src, dst, spt, dpt = rng.choice(ips), rng.choice(ips), rng.choice(ports), rng.choice(ports)
    toks = [b"PROXY", proto, src, dst, spt, dpt]
    k = rng.below(12)
    if k == 0:
        toks = toks[: rng.range(1, 5)]
    elif k == 1:
        toks = toks + [b"extra", b"tokens"]
    elif k == 2:
        toks[0] = b"PROXYX"
    seps = [b" "] * 6 + [b"  ", b"\t", b" \t ", b"\x0b", b"\x0c"]
    line = b""
    for i, t in enumerate(toks):
        line += t
        if i + 1 < len(toks):
            line += rng.choice(seps)
    term = rng.choice([b"\r\n"] * 6 + [b"\n", b" \r\n", b"\r\r\n", b""])
    pad = rng.below(20)
    if pad == 0:      # line length around the 256 limit
        want = rng.choice([254, 255, 256, 257, 300])
        line += b" " * max(0, want - len(line) - len(term))
    line += term
    trail = rng.choice(TRAILS)
    stream = line + trail
    # oracle (the PROXY v1 format as the property reads it: whitespace separated tokens up to the first LF)
    exp = None
    nl = stream.find(b"\n")
    if nl < 0 or nl >= 256:
        exp = "err"
    else:
        fields = stream[: nl + 1].split()
        rest = stream[nl + 1:]
        if len(fields) >= 2 and fields[1].upper() == b"UNKNOWN":
            exp = "ok local rest=" + hx(rest)
        elif len(fields) < 6:
            exp = "err"
        else:
            s, d, sp_, dp_ = fields[2], fields[3], fields[4], fields[5]
            exp = "ok v1 src=%s dst=%s sp=%d dp=%d sa=%s da=%s rest=%s" % (hx(s), hx(d), atoi(sp_), atoi(dp_), hx(join_host_port(s, sp_)), hx(join_host_port(d, dp_)), hx(rest))
    return stream, exp


def gen_v2(rng):
    vercmd = rng.choice([0x20, 0x21, 0x21, 0x21, 0x21, 0x22, 0x2F, 0x11, 0x01])
    fam = rng.choice([0x11, 0x11, 0x21, 0x21, 0x12, 0x22, 0x00, 0x31, 0x32, 0x10, 0x20, 0x01, 0x02, 0xFF, 0x41])
    hi = fam >> 4
    src4, dst4 = rng.bytes(4), rng.bytes(4)
    src6 = rng.choice([rng.bytes(16), b"\x00" * 15 + b"\x01", b"\x00" * 10 + b"\xff\xff" + rng.bytes(4), b"\xfe\x80" + b"\x00" * 13 + b"\x01"])
    dst6 = rng.choice([rng.bytes(16), b"\x00" * 16, b"\x00" * 10 + b"\xff\xff" + rng.bytes(4)])
    sp_, dp_ = rng.choice([0, 1, 80, 9092, 65535, rng.below(65536)]), rng.choice([0, 443, 65535, rng.below(65536)])
    ports = struct.pack(">HH", sp_, dp_)
    tlv = rng.choice([b"", b"", b"\x03\x00\x04\x01\x02\x03\x04", b"\x04\x00\x00", rng.bytes(rng.below(40))])
    if hi == 1:
        addr = src4 + dst4 + ports
    elif hi == 2:
        addr = src6 + dst6 + ports
    elif hi == 3:
        addr = rng.bytes(216)
    else:
        addr = rng.bytes(rng.choice([0, 0, 12, 36]))
    payload = addr + tlv
    k = rng.below(12)
    if k == 0:
        payload = payload[: rng.below(len(payload) + 1)]   # short address block
    declared = len(payload)
    trail = rng.choice(TRAILS)
    body = payload + trail
    if k == 1:
        declared = len(payload) + len(trail) + rng.choice([1, 5, 1000])  # declared longer than the stream
    elif k == 2:
        declared = max(0, len(payload) - rng.choice([1, 2, 12]))        # part of the payload is really trailing data
    stream = SIG + bytes([vercmd, fam]) + struct.pack(">H", declared & 0xFFFF) + body
    if k == 3:
        stream = stream[: rng.range(5, 16)]
    # oracle per the PROXY v2 specification (family = HIGH nibble of byte 13)
    exp = None
    if len(stream) < 12:
        exp = "err"
    elif len(stream) < 16 or len(stream) - 16 < declared:
        exp = "err"
    else:
        pay, rest = stream[16:16 + declared], stream[16 + declared:]
        if vercmd & 0x0F == 0:
            exp = "ok local rest=" + hx(rest)
        elif hi == 1:
            exp = "err" if len(pay) < 12 else "ok v2 src=%s dst=%s sp=%d dp=%d addr=ok rest=%s" % (
                hx(pay[0:4]), hx(pay[4:8]), struct.unpack(">H", pay[8:10])[0], struct.unpack(">H", pay[10:12])[0], hx(rest))
        elif hi == 2:
            exp = "err" if len(pay) < 36 else "ok v2 src=%s dst=%s sp=%d dp=%d addr=ok rest=%s" % (
                hx(v4mapped(pay[0:16])), hx(v4mapped(pay[16:32])), struct.unpack(">H", pay[32:34])[0], struct.unpack(">H", pay[34:36])[0], hx(rest))
        else:
            exp = "ok none rest=" + hx(rest)
    return stream, exp


def gen_plain(rng):
    k = rng.below(8)
    if k == 0:
        s = rng.bytes(rng.below(5))
    elif k == 1:
        s = b"PROXY"[: rng.below(5)] + rng.bytes(rng.below(3))
    elif k == 2:
        n = rng.below(12)
        s = SIG[:n] + bytes([SIG[n] ^ (1 << rng.below(8))]) + rng.bytes(rng.below(20))
    elif k == 3:
        body = rng.bytes(rng.below(40))
        s = struct.pack(">i", len(body)) + body
    elif k == 4:
        s = b"PROXZ TCP4 1.2.3.4 5.6.7.8 1 2\r\n" + rng.bytes(4)
    elif k == 5:
        s = b"proxy TCP4 1.2.3.4 5.6.7.8 1 2\r\n"
    else:
        s = rng.bytes(rng.range(5, 64))
    if s[:5] == b"PROXY" or s[:5] == SIG[:5]:
        return s, None
    return s, "ok none rest=" + hx(s)


def spec_oracle(stream):
    """The expected result line for ANY stream, from the PROXY protocol text alone (same reading as gen_v1/gen_v2/gen_plain)."""
    if stream[:5] == b"PROXY":
        nl = stream.find(b"\n")
        if nl < 0 or nl >= 256:
            return "err"
        fields, rest = stream[: nl + 1].split(), stream[nl + 1:]
        if len(fields) >= 2 and fields[1].upper() == b"UNKNOWN":
            return "ok local rest=" + hx(rest)
        if len(fields) < 6:
            return "err"
        s, d, sp_, dp_ = fields[2], fields[3], fields[4], fields[5]
        return "ok v1 src=%s dst=%s sp=%d dp=%d sa=%s da=%s rest=%s" % (hx(s), hx(d), atoi(sp_), atoi(dp_), hx(join_host_port(s, sp_)), hx(join_host_port(d, dp_)), hx(rest))
    if len(stream) >= 5 and stream[:5] == SIG[:5]:
        if len(stream) < 12:
            return "err"
        if stream[:12] != SIG:
            return "ok none rest=" + hx(stream)
        if len(stream) < 16:
            return "err"
        vercmd, fam = stream[12], stream[13]
        declared = struct.unpack(">H", stream[14:16])[0]
        if len(stream) - 16 < declared:
            return "err"
        pay, rest = stream[16:16 + declared], stream[16 + declared:]
        if vercmd & 0x0F == 0:
            return "ok local rest=" + hx(rest)
        if fam >> 4 == 1:
            return "err" if len(pay) < 12 else "ok v2 src=%s dst=%s sp=%d dp=%d addr=ok rest=%s" % (
                hx(pay[0:4]), hx(pay[4:8]), struct.unpack(">H", pay[8:10])[0], struct.unpack(">H", pay[10:12])[0], hx(rest))
        if fam >> 4 == 2:
            return "err" if len(pay) < 36 else "ok v2 src=%s dst=%s sp=%d dp=%d addr=ok rest=%s" % (
                hx(v4mapped(pay[0:16])), hx(v4mapped(pay[16:32])), struct.unpack(">H", pay[32:34])[0], struct.unpack(">H", pay[34:36])[0], hx(rest))
        return "ok none rest=" + hx(rest)
    return "ok none rest=" + hx(stream)


def boundary_cases(rng, thorough):
    """The boundaries the C26 boundary theorems are about, as `econn` ops (a rejection also reports what was consumed):
    v1 lines of 254..258 bytes made of tokens only, LF at index 254..257, no LF at all, port tokens around 65535 / 18-20 digits;
    v2 length field 0 / 0xFFFF (full and one byte short), every family/transport byte, every command nibble, address blocks one
    byte short / exact."""
    streams = []
    trails = [b"", b"rest", TRAILS[1], b"\n", b"\r\n"]
    for total in (250, 254, 255, 256, 257, 258, 300):
        for proto, tail in ((b"TCP4", b" 10.0.0.2 1234 80"), (b"TCP6", b" ::1 65535 65536"), (b"UNKNOWN", b" x 1 2"), (b"unknown", b"")):
            fixed = len(b"PROXY " + proto + b" ") + len(tail) + 2
            src = (b"h" * 300)[: total - fixed]
            line = b"PROXY " + proto + b" " + src + tail + b"\r\n"
            assert len(line) == total
            for tr in trails[:3] if not thorough else trails:
                streams.append(line + tr)
    for n in (200, 254, 255, 256, 257, 258, 511, 512, 513):
        streams.append(b"PROXY TCP4 " + b"a" * (n - 11))                       # no LF at all: EOF / gives up after 256
        streams.append(b"PROXY TCP4 1.1.1.1 2.2.2.2 1 2" + b" " * (n - 31) + b"\n" + b"tail")   # LF at index n-1
    for port in (b"0", b"65535", b"65536", b"00080", b"99999", b"9" * 18, b"9" * 19, b"9223372036854775807", b"9223372036854775808",
                 b"18446744073709551615", b"18446744073709551616", b"18446744073709551617", b"1" * 30, b"6553x", b"", b"+1", b"-0"):
        if port:
            streams.append(b"PROXY TCP4 1.2.3.4 5.6.7.8 " + port + b" " + port + b"\r\nrest")
    # v2
    a4 = bytes([10, 0, 0, 1, 10, 0, 0, 2]) + struct.pack(">HH", 1234, 65535)
    a6 = bytes.fromhex("20010db8000000000000000000000001") + bytes.fromhex("20010db8000000000000000000000002") + struct.pack(">HH", 65535, 9092)
    def v2(vercmd, fam, payload, declared=None, trail=b""):
        return SIG + bytes([vercmd, fam]) + struct.pack(">H", len(payload) if declared is None else declared) + payload + trail
    combos = ((0x20, 0x00, b""), (0x20, 0x11, a4), (0x21, 0x11, a4), (0x21, 0x12, a4), (0x21, 0x21, a6), (0x21, 0x22, a6),
              (0x21, 0x00, b""), (0x21, 0x31, rng.bytes(216)))
    if not thorough:      # 64 KiB streams are slow in the model interpreter: one per theorem in the quick tier
        combos = (combos[0], combos[2], combos[4], combos[6])
    for vercmd, fam, addr in combos:
        full = addr + rng.bytes(65535 - len(addr))
        for tr in (b"rest",) if not thorough else (b"", b"rest", TRAILS[1]):
            streams.append(v2(vercmd, fam, full, trail=tr))                        # length field 0xFFFF, whole payload present
        if thorough or fam == 0x11:
            streams.append(v2(vercmd, fam, full[:-1], declared=0xFFFF))            # one byte short of the declared 0xFFFF
        streams.append(v2(vercmd, fam, b"", declared=0xFFFF))
        streams.append(v2(vercmd, fam, b"", trail=b"rest"))                        # length field 0
    for fam in range(256):                                                          # every family/transport byte, PROXY command
        pay = (a4 if fam >> 4 == 1 else a6 if fam >> 4 == 2 else rng.bytes(40)) + b"\x04\x00\x01\x00"
        streams.append(v2(0x21, fam, pay, trail=b"rest"))
        if thorough or fam % 16 in (0, 1, 2):
            streams.append(v2(0x21, fam, pay[:11], trail=b"rest"))
            streams.append(v2(0x21, fam, b"", trail=b"rest"))
    for vercmd in list(range(0x20, 0x30)) + [0x00, 0x01, 0x11, 0x31, 0xF1, 0xFF, 0x10]:   # every command nibble, odd version nibbles
        for fam, addr in ((0x11, a4), (0x21, a6), (0x00, b"xx")):
            streams.append(v2(vercmd, fam, addr, trail=b"rest"))
    for n in (0, 11, 12, 13):
        streams.append(v2(0x21, 0x11, a4[:n] if n <= 12 else a4 + b"\x00", trail=b"rest"))
    for n in (12, 35, 36, 37):
        streams.append(v2(0x21, 0x21, a6[:n] if n <= 36 else a6 + b"\x00", trail=b"rest"))
    for n in range(5, 17):                                                          # stream ends inside signature / header
        streams.append(v2(0x21, 0x11, a4)[:n])
    out = []
    for st in streams:
        seed = 0 if rng.chance(1, 2) else rng.range(1, 1 << 30)
        out.append(("econn %d %s" % (seed, hx(st)), st, spec_oracle(st)))
    return out


def monitor(stream, out, exp):
    """Direct property on one implementation line; (fingerprint, what) or None."""
    if out == "panic":
        return "parser-panic", "ReadProxyProtocol panicked"
    if out.startswith("err rest="):
        # econn: a rejection; what is still readable must be a tail of what was sent (how much exactly is compared with the model)
        r = out[9:]
        if r in ("nil-conn", "unreadable"):
            out = "err"
        else:
            r = bytes.fromhex(r) if r != "-" else b""
            if not stream.endswith(r):
                return "remainder-not-suffix", "after a rejected header the wrapped connection delivers bytes that are not the tail of what was sent"
            out = "err"
    if out.startswith("ok"):
        rest = out.split("rest=")[1]
        rest = bytes.fromhex(rest) if rest != "-" else b""
        if not stream.endswith(rest):
            return "remainder-not-suffix", "bytes read from the wrapped connection are not the tail of what was sent"
        if "addr=inconsistent" in out:
            return "addr-inconsistent", "SourceAddr/DestAddr do not match SourceIP/DestIP and the ports"
    if exp is not None and out != exp:
        if exp.startswith("ok none") and stream[:5] != SIG[:5] and stream[:5] != b"PROXY":
            return "passthrough-modified", "a connection without PROXY header did not pass through unchanged"
        if exp.startswith("ok v2") or (stream[:12] == SIG and out.startswith("ok v2")):
            fam = stream[13]
            if fam == 0x21 and out.startswith("ok v2"):
                return "v2-tcp6-read-as-ipv4", "PROXY v2 TCP-over-IPv6 header (family byte 0x21): reported addresses differ from the encoded ones"
            return "v2-wrong-result", "PROXY v2 header: reported addresses/remainder differ from what the header encodes (family byte 0x%02x)" % fam
        if exp.startswith("ok v1") or exp.startswith("ok local"):
            return "header-wrong-result", "valid PROXY header: reported addresses/remainder differ from what the header encodes"
        return "wrong-result", "result differs from the PROXY protocol reading of the stream"
    return None


def make_ops(rng, n):
    cases = []
    for i in range(n):
        k = rng.below(10)
        stream, exp = gen_v1(rng) if k < 4 else gen_v2(rng) if k < 8 else gen_plain(rng)
        seed = 0 if rng.chance(1, 3) else rng.range(1, 1 << 30)
        cases.append(("conn %d %s" % (seed, hx(stream)), stream, exp))
    return cases


def fixed_cases():
    out = []
    # TCP over IPv6, the header every real sender uses for IPv6 clients
    pay = bytes.fromhex("20010db8000000000000000000000001") + bytes.fromhex("20010db8000000000000000000000002") + struct.pack(">HH", 51234, 9092)
    s = SIG + b"\x21\x21" + struct.pack(">H", len(pay)) + pay + TRAILS[1]
    out.append(("conn 0 " + hx(s), s, "ok v2 src=%s dst=%s sp=51234 dp=9092 addr=ok rest=%s" % (hx(pay[:16]), hx(pay[16:32]), hx(TRAILS[1]))))
    pay4 = bytes([10, 0, 0, 1, 10, 0, 0, 2]) + struct.pack(">HH", 1234, 5678)
    for fam in (0x11, 0x12):
        s = SIG + bytes([0x21, fam]) + struct.pack(">H", len(pay4)) + pay4 + b"rest"
        out.append(("conn 3 " + hx(s), s, "ok v2 src=0a000001 dst=0a000002 sp=1234 dp=5678 addr=ok rest=72657374"))
    s = b"PROXY TCP4 192.168.0.1 192.168.0.11 56324 443\r\n" + TRAILS[1]
    out.append(("conn 5 " + hx(s), s, "ok v1 src=%s dst=%s sp=56324 dp=443 sa=%s da=%s rest=%s" % (
        hx(b"192.168.0.1"), hx(b"192.168.0.11"), hx(b"192.168.0.1:56324"), hx(b"192.168.0.11:443"), hx(TRAILS[1]))))
    return out


def nonascii_cases(rng, n):
    out = []
    for _ in range(n):
        toks = [b"PROXY", rng.choice([b"TCP4", b"UNKNOWN", b"\xc5\xbfunknown", b"unknow\xc5\x84"]), b"1.2.3.4", b"5.6.7.8", b"1", b"2"]
        sep = rng.choice([b"\xc2\xa0", b"\xc2\x85", b"\xe2\x80\x83", b" ", b"\xff", b"\xc2"])
        s = sep.join(toks) + b"\r\n" + rng.bytes(rng.below(8))
        out.append(("conn %d %s" % (rng.below(100), hx(s)), s, None))
    return out



# ---- connection lifecycles: several connections through ReadProxyProtocol in one process ----

def commas(s):
    return s.replace(" ", ",")


def own_trail(rng, idx):
    """trailing bytes that identify the connection they belong to (first byte = letter of the connection)"""
    n = rng.choice([0, 1, 3, 4, 4, 17, 40, 64, 300, 300] + ([5000] if rng.chance(1, 6) else []))
    if n and rng.chance(1, 6):            # a Kafka-like frame
        body = bytes([0x41 + idx % 26]) * (n + 3)
        return struct.pack(">i", len(body)) + body
    return bytes([0x41 + idx % 26] + [(j * 7 + idx * 31 + 1) & 0xFF for j in range(max(0, n - 1))])[:n]


def own_stream(rng, idx):
    """one connection's byte stream: a header of some kind (addresses depend on idx) + its own trailing bytes"""
    trail = own_trail(rng, idx)
    k = rng.below(12)
    a, b = 1 + idx % 200, 1 + (idx * 13) % 200
    if k < 3:
        hdr = b"PROXY TCP4 10.0.%d.%d 10.1.%d.%d %d %d\r\n" % (a, b, b, a, 1000 + idx, 9092)
    elif k == 3:
        hdr = b"PROXY TCP6 2001:db8::%x ::%x %d 9093\r\n" % (a, b, 40000 + idx)
    elif k == 4:
        hdr = b"PROXY UNKNOWN\r\n"
    elif k == 5:
        hdr = SIG + b"\x20\x00\x00\x00"
    elif k < 8:
        tlv = rng.choice([b"", b"\x04\x00\x02\x00\x00", rng.bytes(rng.below(20))])
        pay = bytes([10, 0, a, b, 10, 1, b, a]) + struct.pack(">HH", 1000 + idx, 9092) + tlv
        hdr = SIG + b"\x21\x11" + struct.pack(">H", len(pay)) + pay
    elif k == 8:
        pay = bytes.fromhex("20010db8") + bytes(11) + bytes([a]) + bytes.fromhex("20010db8") + bytes(11) + bytes([b]) + struct.pack(">HH", 50000 + idx, 9092)
        hdr = SIG + b"\x21\x21" + struct.pack(">H", len(pay)) + pay
    elif k == 9 and rng.chance(1, 2):
        hdr = rng.choice([b"PROXY TCP4 1.2.3.4\r\n", SIG + b"\x21\x11\x00\x04abcd", b"PROXY " + b"x" * 300])   # rejected headers
    else:
        hdr = b""                          # no PROXY header: plain Kafka connection
        if not trail:
            trail = bytes([0x41 + idx % 26])
    return hdr + trail


def gen_sess(rng):
    n = rng.range(2, 6)
    streams = [own_stream(rng, i) for i in range(n)]
    def life(i, force_drain=False, closes=None):
        ev = ["a%d=%s" % (i, hx(streams[i]))]
        if not force_drain:
            for _ in range(rng.below(4)):
                ev.append("r%d=%d" % (i, rng.choice([0, 1, 2, 4, 5, 16, 100, 4096, 6000])))
        if force_drain or rng.chance(3, 4):
            ev.append("d%d" % i)
        k = closes if closes is not None else rng.choice([0, 1, 1, 2, 2, 3])
        return ev + ["c%d" % i] * k
    if rng.chance(1, 2):
        # free interleaving of the connections' own event sequences
        lives = [life(i) for i in range(n)]
        toks = []
        while any(lives):
            l = rng.choice([x for x in lives if x])
            toks.append(l.pop(0))
    else:
        # phase 1: some connections live and die one after the other (closed once, twice, three times);
        # phase 2: the others are all accepted first, then read in turns, then closed
        g1 = rng.range(1, min(3, n - 1))
        toks = []
        for i in range(g1):
            toks += life(i, force_drain=rng.chance(2, 3), closes=rng.choice([1, 2, 2, 2, 3]))
        rest = [life(i) for i in range(g1, n)]
        toks += [l.pop(0) for l in rest]
        order = list(range(len(rest)))
        if rng.chance(1, 2):
            order.reverse()
        while any(rest):
            for j in order:
                if rest[j]:
                    toks.append(rest[j].pop(0))
    return "sess %d %s" % (0 if rng.chance(1, 3) else rng.range(1, 1 << 30), " ".join(toks))


def gen_par(rng):
    rounds = []
    idx = 0
    for r in range(rng.range(2, 3)):
        specs = []
        for _ in range(rng.range(4, 8)):
            k = rng.choice([2, 2, 1, 3]) if r == 0 else rng.choice([1, 1, 2, 0])
            specs.append("%d:%s" % (k, hx(own_stream(rng, idx))))
            idx += 1
        rounds.append(" ".join(specs))
    return "par %d %s" % (0 if rng.chance(1, 3) else rng.range(1, 1 << 30), " / ".join(rounds))


def expect_session(op):
    """Expected output tokens of a `sess` / `par` line, from the PROXY reading of EACH CONNECTION'S OWN stream (spec_oracle);
    None where the spec does not say (bytes left over after a rejected header).  Returns (tokens, streams by connection)."""
    f = op.split()
    exp, streams = [], {}
    if f[0] == "par":
        for n, t in enumerate(f[2:]):
            if t == "/":
                exp.append("/")
                continue
            st = bytes.fromhex(t.split(":")[1]) if t.split(":")[1] != "-" else b""
            streams[n] = st
            o = spec_oracle(st)
            exp.append(None if o == "err" else commas(o.split(" rest=")[0]) + ",rest=" + o.split(" rest=")[1])
        return exp, streams
    pend = {}
    for t in f[2:]:
        kind, body = t[0], t[1:]
        i = int(body.split("=")[0])
        if kind == "a":
            h = body.split("=")[1]
            st = bytes.fromhex(h) if h != "-" else b""
            streams[i] = st
            o = spec_oracle(st)
            if o == "err":
                pend[i] = None
                exp.append("a%d:err" % i)
            else:
                r = o.split(" rest=")[1]
                pend[i] = bytes.fromhex(r) if r != "-" else b""
                exp.append("a%d:%s" % (i, commas(o.split(" rest=")[0])))
        elif kind in "rd":
            if pend.get(i) is None:
                exp.append(None)
            else:
                n = int(body.split("=")[1]) if kind == "r" else len(pend[i])
                exp.append("r%d:%s" % (i, hx(pend[i][:n])))
                pend[i] = pend[i][n:]
        else:
            exp.append("c%d" % i)
    return exp, streams


def monitor_session(op, out):
    """(fingerprint, what, token index) or None: every connection must report its own header and deliver its own remainder."""
    exp, streams = expect_session(op)
    toks = out.split()
    if "panic" in out:
        return "parser-panic", "ReadProxyProtocol / the wrapped connection panicked in a multi-connection session", 0
    if len(toks) != len(exp):
        return "session-output-shape", "session output has %d tokens, expected %d" % (len(toks), len(exp)), 0
    for k, (t, e) in enumerate(zip(toks, exp)):
        if e is None or t == e:
            continue
        if t[0] == "r" or ",rest=" in t:
            return ("cross-connection-bytes", "with several connections (closed twice / open at the same time) a wrapped connection did not deliver "
                    "exactly the bytes that follow ITS OWN header: got %s, expected %s" % (t[:80], e[:80]), k)
        return "session-header-wrong", "in a multi-connection session ReadProxyProtocol reported %s, the connection's own header says %s" % (t[:80], e[:80]), k
    return None


def session_ops(rng, quick):
    ns, np_ = (200, 40) if quick else (3000, 500)
    ops = []
    for i in range(ns + np_):
        ops.append(gen_par(rng) if i % 6 == 5 and np_ > 0 else gen_sess(rng))
    return ops


def run_sessions(ck, binary, ops, tag):
    """all session ops through ONE harness process (state a buggy implementation keeps between connections carries over)"""
    fn = ck.path("ops_%s.txt" % tag)
    open(fn, "w").write("\n".join(ops) + "\n")
    rc, out, err = ck.run_bin(binary, stdin_path=fn, timeout=600)
    impl = out.split("\n")[:-1]
    if rc != 0 or len(impl) != len(ops):
        k = min(len(impl), len(ops) - 1)
        ck.violation("parser-crash", "the harness process died in a multi-connection session: %s" % err[-300:],
                     {"ops": ops[max(0, k - 40):k + 1], "session": True, "actual": "exit %s" % rc})
        return None, fn
    return impl, fn


def check_sessions(ck, ops, impl, verbose=False):
    bad = False
    for k, (op, o) in enumerate(zip(ops, impl)):
        f = op.split()
        nconn = sum(1 for t in f[2:] if t[0] == "a" or ":" in t)
        dbl = ("par" == f[0] and any(t[0] in "23" for t in f[2:] if ":" in t)) or any(f[2:].count(t) > 1 for t in f[2:] if t[0] == "c")
        ck.count("%s:conns=%d%s" % (f[0], nconn, ":double-close" if dbl else ""))
        ck.case(op, nontrivial=nconn >= 2, sample={"op": op[:160], "impl": o[:160]} if k < 2 else None)
        if verbose:
            print("  %s\n    -> %s" % (op[:160], o[:300]))
        m = monitor_session(op, o)
        if m and not bad:
            bad = True
            exp, _ = expect_session(op)
            ck.violation(m[0], m[1], {"ops": ops[max(0, k - 40):k + 1], "session": True,
                                      "expected": " ".join(e if e is not None else "?" for e in exp), "actual": o})
    return bad


def run_impl(ck, binary, cases, tag):
    fn = ck.path("ops_%s.txt" % tag)
    open(fn, "w").write("\n".join(c[0] for c in cases) + "\n")
    rc, out, err = ck.run_bin(binary, stdin_path=fn, timeout=300)
    impl = out.split("\n")[:-1]
    if rc != 0 or len(impl) != len(cases):
        k = min(len(impl), len(cases) - 1)
        ck.violation("parser-crash", "the harness process died in ReadProxyProtocol: %s" % err[-300:], {"ops": [cases[k][0]], "actual": "exit %s" % rc})
        return None, fn
    return impl, fn


def run(ck):
    bins = ck.build_all()
    if bins is None:
        return
    n = 4000 if ck.quick() else 60000
    ck.cov["rule"] = ("one op = one connection byte stream (v1 lines with boundary tokens/separators/terminators/lengths around 256, "
                      "v2 headers over all command/family nibbles with TLVs, short and lying lengths, plain streams incl. near-miss "
                      "prefixes; boundary set: token-only v1 lines of 254..258 bytes, LF at index 254..257, ports around 65535 and 2^63/2^64, "
                      "v2 length field 0 and 0xFFFF (whole / one byte short), every family/transport byte and command nibble), written through net.Pipe in seeded chunk sizes; "
                      "plus session ops = 2-6 connections driven by one goroutine (interleaved accept / partial reads / read to EOF / Close 0-3 times) and "
                      "rounds of 4-8 concurrently running connections, each connection with its own header and distinct trailing bytes; non-trivial = the stream starts with a PROXY/v2 "
                      "prefix and is not rejected; distinct = distinct streams")
    bnd = boundary_cases(ck.rng, not ck.quick())
    ck.count("boundary_cases", len(bnd))
    cases = fixed_cases() + bnd + make_ops(ck.rng, n)
    impl, fn = run_impl(ck, bins["h"], cases, "main")
    if impl is None:
        return
    first_bad = None
    for (op, stream, exp), o in zip(cases, impl):
        kind = "v1" if stream[:5] == b"PROXY" else "v2" if stream[:5] == SIG[:5] else "plain"
        ck.count(kind + ":" + " ".join(o.split()[:2]))
        ck.case(stream, nontrivial=(kind != "plain" and o != "err"), sample={"op": op[:120], "impl": o[:160]} if o.startswith("ok v") else None)
        m = monitor(stream, o, exp)
        if m:
            ck.violation(m[0], m[1], {"ops": [op], "expected": exp, "actual": o})
            first_bad = first_bad or m
    model = ck.lean_run("C26", fn)
    ck.cov["traces_validated_against_impl"] += 1
    d = lib.first_diff(impl, model)
    if d is not None and not ck.violations:
        ck.cov["disagreements_checked"] += 1
        ck.broke("correspondence model/implementation (ReadProxyProtocol)",
                 "op %r\nimpl : %s\nmodel: %s" % (cases[d][0][:300], impl[d][:300], model[d][:300] if d < len(model) else None))
    # connection lifecycles: several connections (closed twice, open concurrently) in one process
    sops = session_ops(ck.rng, ck.quick())
    ck.log("single-connection streams done; %d multi-connection session ops" % len(sops))
    simpl, sfn = run_sessions(ck, bins["h"], sops, "sessions")
    if simpl is not None:
        ck.count("session_ops", len(sops))
        check_sessions(ck, sops, simpl)
        ck.log("sessions through the implementation done")
        smodel = ck.lean_run("C26", sfn)
        ck.log("sessions through the model done")
        ck.cov["traces_validated_against_impl"] += 1
        d = lib.first_diff(simpl, smodel)
        if d is not None and not ck.violations:
            ck.cov["disagreements_checked"] += 1
            ck.broke("correspondence model/implementation (connection lifecycles through ReadProxyProtocol)",
                     "op %r\nimpl : %s\nmodel: %s" % (sops[d][:300], simpl[d][:300], smodel[d][:300] if d < len(smodel) else None))
    # outside the modelled domain (non-ASCII whitespace / case mapping): monitor only
    extra = nonascii_cases(ck.rng, 300 if ck.quick() else 3000)
    impl2, _ = run_impl(ck, bins["h"], extra, "nonascii")
    if impl2 is not None:
        for (op, stream, exp), o in zip(extra, impl2):
            ck.count("nonascii:" + o.split()[0])
            ck.cov["evaluations"] += 1
            m = monitor(stream, o, None)
            if m:
                ck.violation(m[0], m[1], {"ops": [op], "actual": o})


def replay(ck, path):
    import json
    rep = json.load(open(path))
    bins = ck.build_all()
    if bins is None:
        return
    ops = rep["ops"]
    if rep.get("session"):
        impl, _ = run_sessions(ck, bins["h"], ops, "replay")
        if impl is not None:
            check_sessions(ck, ops, impl, verbose=True)
        ck.cov["distinct_nontrivial"] = max(ck.cov["distinct_nontrivial"], 2)
        return
    cases = []
    for op in ops:
        h = op.split()[-1]
        cases.append((op, bytes.fromhex(h) if h != "-" else b"", rep.get("expected")))
    impl, fn = run_impl(ck, bins["h"], cases, "replay")
    if impl is None:
        return
    for (op, stream, exp), o in zip(cases, impl):
        print("  %s\n    -> %s\n    expected %s" % (op[:100], o, exp))
        ck.case(stream, sample={"op": op[:120], "impl": o})
        m = monitor(stream, o, exp)
        if m:
            ck.violation(m[0], m[1], {"ops": [op], "expected": exp, "actual": o})
    ck.cov["distinct_nontrivial"] = max(ck.cov["distinct_nontrivial"], 2)
