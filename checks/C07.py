"""C07 — segment files written by the broker decode identically everywhere."""
import json

from checks import lib
from checks import C07shared as S
from checks import S3chunks as S3C

PROPERTY = "C07"
LEAN_MODULES = ["KafVerif.Props.C07", "KafVerif.Model.KafkaDriver", S3C.LEAN_MODULE, "KafVerif.Props.C08", "KafVerif.Model.KafkaPitrDriver"]
OBLIGATIONS = [
    "KafVerif.C07.beDec_beEnc",
    "KafVerif.C07.varint64_roundtrip",
    "KafVerif.C07.varint32_sql_roundtrip",
    "KafVerif.C07.sql_varint32_loses_timestamp",
    "KafVerif.C07.decodeRecord_encRec_iceberg",
    "KafVerif.C07.decodeRecord_encRec_sql",
    "KafVerif.C07.scanRecord_encRec",
    "KafVerif.C07.decodeRecords_encRecs",
    "KafVerif.C07.decodeBatchRecords_encBatch",
    "KafVerif.C07.count_check_admits_wellformed",
    "KafVerif.C07.count_check_divisor_8_rejects_minimal",
    "KafVerif.C07.decodeSegment_buildSegment",
    "KafVerif.C07.buildSegment_wf",
    "KafVerif.C07.index_entries_sound",
    "KafVerif.C07.parseIndex_indexBytes",
    "KafVerif.C07.parseFooter_segment",
    "KafVerif.C07.sqlOld_loses_timestamp",
    "KafVerif.C07.skeleton_recovers_nothing",
] + S3C.OBLIGATIONS_C07
ASSUMPTIONS = [
    "record batches are uncompressed (attributes & 7 = 0); the processors' decoders reject compressed batches by design",
    "CRC-32C is a parameter of the theorems (an executable table-driven function in the driver, checked against hash/crc32 by the correspondence)",
    "field magnitudes: key/value/header lengths, header count and offset delta below 2^30 for the sql decoder (it reads them as 32-bit varints); segment shorter than 2^31 bytes (index positions are int32)",
    "the franz-go kmsg codec (used by the harness to serialise the generated records) is the producers' wire format",
    S3C.ASSUMPTION,
]
BUILDS = {
    "root": ("root", "./cmd/verif_c07", ["C07"]),
    "iceberg": ("iceberg", "./cmd/verif_c07", ["C07"]),
    "sql": ("sql", "./cmd/verif_c07", ["C07"]),
    "skeleton": ("skeleton", "./cmd/verif_c07", ["C07"]),
    # the PITR scanner REWRITES batches (truncateRecordBatchToTimestamp): the rewritten segment must decode identically
    # too, so C07 also runs C08's restore stream (its byte-level monitor re-decodes every rewritten batch)
    "pitr": ("root", "./cmd/verif_c08", ["C07", "C08"]),
}
# lower seam: the iceberg / sql s3Decoder (getObject + decodeSegment) over the chunking / faulting S3 fake
BUILDS.update(S3C.DEC_BUILDS)
LEVEL_TEXT = ("proof: Lean 4 theorems over an executable model of BuildSegment / IndexBuilder / footer / ParseIndex and of the "
              "iceberg, sql and PITR record decoders (round trip decode∘encode = id for every record, batch and segment); "
              "tied to the code by byte-exact correspondence of segment+index bytes and of every decoder's output")
LEVEL_NOTE = "skeleton decoder is a placeholder (known finding); sql theorem carries the 2^30 field-magnitude hypothesis"
TECHNIQUE = "lean4-proof + differential correspondence (Go overlay harness vs Lean driver) + direct byte-level monitor"

INTERVALS = [1, 1, 2, 3, 5, 100, 0, -1, 2 ** 31 - 1]
SKELETON_FP = "skeleton-decoder-is-placeholder"


def gen_case(rng, wide_ts=True, shape=None):
    batches = S.gen_shape_batches(rng, None if shape == "mixed" else shape) if shape else S.gen_batches(rng, wide_ts=wide_ts)
    interval = rng.choice(INTERVALS)
    created = rng.choice([0, 1700000000123, 1700000000123, 4102444800000])
    return {"interval": interval, "created": created, "batches": batches}


def case_op(c):
    return S.build_op(c["interval"], c["created"], c["batches"])


def check_case(c, built, decs, scan, pidx):
    """Direct monitor.  Returns list of (fingerprint, what, module)."""
    out = []
    if not built.startswith("built "):
        return [("segment-build-failed", "BuildSegment answered %r for well-formed batches" % built[:40], "root")]
    f = S.kv(built)
    seg, idx = S.unhex(f["seg"]), S.unhex(f["idx"])
    meta = [(b["base"], b["lod"], len(b["recs"])) for b in c["batches"]]
    wf = S.segment_wf(seg, idx, c["interval"], meta)
    if wf:
        out.append((wf[0], wf[1], "root"))
    if f.get("log") == "diff" or f.get("log") == "err":
        out.append(("broker-flush-differs-from-buildsegment", "PartitionLog.AppendBatch+Flush stored different segment/index bytes or key (log=%s)" % f.get("log"), "root"))
    exp = S.expected_records(c["batches"])
    for mod, line in decs.items():
        want = ("ok %d %s" % (len(exp), " ".join(exp))).strip()
        if line != want:
            if mod == "skeleton":
                out.append((SKELETON_FP, "skeleton decoder returned %r for a segment holding %d records" % (line[:30], len(exp)), mod))
            else:
                got = line.split()[2:] if line.startswith("ok ") else []
                what = "decoder %s answered %r" % (mod, line[:60])
                fp = "decoder-%s-records-differ" % mod
                if len(got) == len(exp):
                    for g, e in zip(got, exp):
                        if g != e:
                            ge, ee = g.split(":"), e.split(":")
                            field = [n for n, a, b2 in zip(["offset", "timestamp", "key", "value", "headers"], ge, ee) if a != b2]
                            what = "decoder %s: record %s decoded as %s (%s differ)" % (mod, e[:80], g[:80], ",".join(field))
                            if field == ["timestamp"]:
                                fp = "decoder-%s-timestamp-differs" % mod
                            break
                out.append((fp, what, mod))
    want_scan = ("ok %d %s" % (len(exp), " ".join(":".join(e.split(":")[:2]) for e in exp))).strip()
    if scan != want_scan:
        out.append(("pitr-scanner-records-differ", "PITR scanRecord projection %r, expected %r" % (scan[:80], want_scan[:80]), "root"))
    want_pidx = "ok %d %s" % (c["interval"] if c["interval"] > 0 else 1, f.get("entries", "?"))
    if pidx != want_pidx:
        out.append(("parseindex-roundtrip", "ParseIndex(BuildBytes) = %r, builder entries %r" % (pidx[:80], want_pidx[:80]), "root"))
    return out


def run_cases(ck, bins, cases, tag, model=True):
    """Runs the whole pipeline on a list of cases (one Lean invocation for all model streams)."""
    ops = [case_op(c) for c in cases]
    built, _ = S.run_harness(ck, bins["root"], ops, "b" + tag)
    segs = []
    for b in built:
        f = S.kv(b) if b.startswith("built ") else {}
        segs.append((f.get("seg", "00"), f.get("idx", "00")))
    dec_ops = ["dec " + s for s, _ in segs]
    root_ops = []
    for s, i in segs:
        root_ops += ["scanrecs " + s, "pidx " + i]
    res = {"built": built}
    for mod in ("iceberg", "sql", "skeleton"):
        res["i_" + mod], _ = S.run_harness(ck, bins[mod], dec_ops, mod + tag)
    res["i_root2"], _ = S.run_harness(ck, bins["root"], root_ops, "r" + tag)
    res["dec_ops"], res["root_ops"], res["ops"] = dec_ops, root_ops, ops
    if model:
        allops = (["@root " + o for o in ops] + ["@iceberg " + o for o in dec_ops] + ["@sql " + o for o in dec_ops] +
                  ["@skeleton " + o for o in dec_ops] + ["@root " + o for o in root_ops])
        m = S.run_model(ck, "C07", "root", allops, tag)
        n, d = len(ops), len(dec_ops)
        res["mbuilt"], res["m_iceberg"], res["m_sql"], res["m_skeleton"], res["m_root2"] = (
            m[:n], m[n:n + d], m[n + d:n + 2 * d], m[n + 2 * d:n + 3 * d], m[n + 3 * d:])
    return res


def shrink(ck, bins, c, fp, mod):
    """Greedy reduction of a failing case: drop batches, then records, then headers."""
    def fails(cc):
        r = run_cases(ck, bins, [cc], "s", model=False)
        decs = {m: r["i_" + m][0] for m in ("iceberg", "sql", "skeleton")}
        return any(v[0] == fp for v in check_case(cc, r["built"][0], decs, r["i_root2"][0], r["i_root2"][1]))
    budget = [12]

    def attempt(cc):
        if budget[0] <= 0:
            return False
        budget[0] -= 1
        try:
            return fails(cc)
        except Exception:
            return False
    cur = c
    for b in list(cur["batches"]):
        if len(cur["batches"]) > 1:
            cand = dict(cur, batches=[x for x in cur["batches"] if x is not b])
            if attempt(cand):
                cur = cand
    for bi, b in enumerate(list(cur["batches"])):
        for r in list(b["recs"]):
            bb = cur["batches"][bi]
            if len(bb["recs"]) > 1 and r is not bb["recs"][0]:
                nb = dict(bb, recs=[x for x in bb["recs"] if x is not r])
                nb["lod"] = nb["recs"][-1]["od"]
                nb["max"] = max(nb["first"] + x["tsd"] for x in nb["recs"])
                cand = dict(cur, batches=cur["batches"][:bi] + [nb] + cur["batches"][bi + 1:])
                if attempt(cand):
                    cur = cand
    return cur


def run(ck):
    _run_c07(ck)
    if not ck.broken or True:
        from checks import C08 as _C08
        ck.log("PITR rewrite stream (shared with C08)")
        _C08.run(ck)


def _run_c07(ck):
    bins = ck.build_all()
    if bins is None:
        return
    n = 60 if ck.quick() else 600
    ck.cov["rule"] = ("cases = generated sequences of well-formed uncompressed record batches (1-6 batches, 1-9 records, null/empty/"
                      "non-empty keys and values, 0-5 headers, timestamp deltas from a boundary table incl. negative and |d| >= 2^30, "
                      "sparse offset deltas, index intervals incl. <= 0) serialised with kmsg, written by BuildSegment and by "
                      "PartitionLog.Flush, decoded by the iceberg/sql/skeleton decoders and the PITR scanner; a case is non-trivial "
                      "when it has >= 2 records and at least one header or null key/value; distinct = distinct build ops")
    # one third of the cases are boundary shapes (minimal 7-byte records, single-record batches, varint width edges,
    # many/empty headers, null vs empty); each named shape appears at least twice in the quick tier
    shapes = sorted(set(S.SHAPES))
    cases = []
    for i in range(n):
        if i % 3 == 2:
            k = i // 3
            cases.append(gen_case(ck.rng.fork(), shape=(shapes[k % len(shapes)] if k < 2 * len(shapes) else "mixed")))
        else:
            cases.append(gen_case(ck.rng.fork(), wide_ts=(i % 4 != 3)))
    # corpus first: the replays that pinned the defects found so far
    import glob, os
    for k, fn in enumerate(sorted(glob.glob(os.path.join(lib.REPLAYS, "C07", "*.json")))):
        try:
            cases[1 + k] = S.parse_build_op(json.load(open(fn))["op"])
        except Exception as e:
            ck.notes.append("corpus file %s unreadable: %r" % (fn, e))
    # fixed boundary cases first
    r0 = {"attrs": 0, "tsd": 0, "od": 0, "key": None, "val": None, "hdrs": []}
    cases[0] = {"interval": 1, "created": 0, "batches": [{"base": 0, "first": 0, "max": 2 ** 31, "lod": 1, "recs": [
        r0, dict(r0, od=1, tsd=2 ** 31, key=b"", val=b"v", hdrs=[(b"h", None), (b"", b"")])]}]}
    # fixed: one minimal (7-byte) record alone, and three keyless tombstones (21 bytes of record data)
    cases[-1] = {"interval": 1, "created": 0, "batches": [{"base": 0, "first": 0, "max": 0, "lod": 0, "recs": [r0]}]}
    cases[-2] = {"interval": 2, "created": 0, "batches": [{"base": 7, "first": 5, "max": 7, "lod": 2, "recs": [
        r0, dict(r0, od=1, tsd=1, val=b""), dict(r0, od=2, tsd=2, key=b"")]}]}
    res = run_cases(ck, bins, cases, "q")
    for k, c in enumerate(cases):
        nrec = sum(len(b["recs"]) for b in c["batches"])
        rich = any(r["hdrs"] or r["key"] is None or r["val"] is None for b in c["batches"] for r in b["recs"])
        ck.count("batches", len(c["batches"])); ck.count("records", nrec)
        ck.count("records_with_headers", sum(1 for b in c["batches"] for r in b["recs"] if r["hdrs"]))
        ck.count("null_keys", sum(1 for b in c["batches"] for r in b["recs"] if r["key"] is None))
        ck.count("ts_delta_ge_2^30", sum(1 for b in c["batches"] for r in b["recs"] if abs(r["tsd"]) >= 2 ** 30))
        ck.count("negative_ts_delta", sum(1 for b in c["batches"] for r in b["recs"] if r["tsd"] < 0))
        ck.count("batches_all_minimal_7_byte_records", sum(1 for b in c["batches"] if all(
            not r["hdrs"] and not r["key"] and not r["val"] and -64 <= r["tsd"] <= 63 and r["od"] <= 63 for r in b["recs"])))
        ck.count("single_record_batches", sum(1 for b in c["batches"] if len(b["recs"]) == 1))
        ck.count("empty_but_present_key_or_value", sum(1 for b in c["batches"] for r in b["recs"] if r["key"] == b"" or r["val"] == b""))
        ck.count("headers_with_empty_key_or_null_value", sum(1 for b in c["batches"] for r in b["recs"] for hk, hv in r["hdrs"] if hk == b"" or hv is None))
        ck.case(res["ops"][k], nontrivial=(nrec >= 2 and rich),
                sample={"op": res["ops"][k][:300], "iceberg": res["i_iceberg"][k][:200]})
        ck.cov["traces_validated_against_impl"] += 1
    # -- direct monitor on the implementation's answers
    found = False
    for k, c in enumerate(cases):
        decs = {m: res["i_" + m][k] for m in ("iceberg", "sql", "skeleton")}
        for fp, what, mod in check_case(c, res["built"][k], decs, res["i_root2"][2 * k], res["i_root2"][2 * k + 1]):
            found = found or fp != SKELETON_FP
            small = c
            if fp != SKELETON_FP and fp not in [v["fingerprint"] for v in ck.violations]:
                small = shrink(ck, bins, c, fp, mod)
            ck.violation(fp, what, {"op": case_op(small), "module": mod, "actual": what,
                                    "expected": "every decoder returns exactly the generated records; segment/index well-formed"})
    # -- correspondence model vs implementation (all five streams)
    pairs = [("segment+index bytes (BuildSegment, IndexBuilder, footer)", "ops", "built", "mbuilt"),
             ("iceberg decodeSegment", "dec_ops", "i_iceberg", "m_iceberg"),
             ("sql decodeSegment", "dec_ops", "i_sql", "m_sql"),
             ("skeleton Decode", "dec_ops", "i_skeleton", "m_skeleton"),
             ("PITR scanRecord / ParseIndex", "root_ops", "i_root2", "m_root2")]
    for name, o, i, m in pairs:
        d = lib.first_diff(res[i], res[m])
        if d is not None:
            ck.cov["disagreements_checked"] += 1
            ck.broke("correspondence model/implementation: " + name,
                     "op   : %s\nimpl : %s\nmodel: %s" % (res[o][d][:400] if d < len(res[o]) else None,
                                                          res[i][d][:400] if d < len(res[i]) else None,
                                                          res[m][d][:400] if d < len(res[m]) else None))
    # -- lower seam: Decode of the iceberg / sql s3Decoder fetching these segments from S3 (bodies in several Reads,
    #    Content-Length set / unset / over-reported, transfers cut mid-body): exactly the records, or an error
    pick = [k for k in range(len(cases)) if res["built"][k].startswith("built ")]
    pick = sorted(pick, key=lambda k: -len(res["built"][k]))[:2] + pick[:(6 if ck.quick() else 18)]
    pick = sorted(set(pick))
    segs = [S.kv(res["built"][k])["seg"] for k in pick]
    s3ok = S3C.run_decoders(ck, bins, segs, [S.expected_records(cases[k]["batches"]) for k in pick], S.run_harness)
    found = found or not s3ok
    if ck.broken and not found:
        hunt(ck, bins)


def hunt(ck, bins):
    """Correspondence broke without a monitor hit: widen the search for a concrete failing input."""
    for rnd in range(6):
        cases = [gen_case(ck.rng.fork(), shape=("mixed" if j % 2 else None)) for j in range(80)]
        res = run_cases(ck, bins, cases, "h%d" % rnd, model=False)
        ck.cov["evaluations"] += len(cases)
        for k, c in enumerate(cases):
            decs = {m: res["i_" + m][k] for m in ("iceberg", "sql", "skeleton")}
            for fp, what, mod in check_case(c, res["built"][k], decs, res["i_root2"][2 * k], res["i_root2"][2 * k + 1]):
                if fp != SKELETON_FP:
                    ck.violation(fp, what, {"op": case_op(c), "module": mod, "actual": what})
                    return


def replay(ck, path):
    rep = json.load(open(path))
    bins = ck.build_all()
    if bins is None:
        return
    if rep.get("harness") == "s3dec":
        out, _ = S.run_harness(ck, bins[rep["module"] + "_s3"], rep["ops"], "rp")
        print("  %s" % out[0][:300])
        ck.case(rep["ops"][0][:200], sample={"op": rep["ops"][0][:200]})
        ck.cov["distinct_nontrivial"] = max(ck.cov["distinct_nontrivial"], 2)
        if out[0].split(" | ")[0] != rep.get("want", "err") and out[0].split(" | ")[0] != "err":
            ck.violation(rep["fingerprint"], rep["what"], {"harness": "s3dec", "module": rep["module"], "ops": rep["ops"], "want": rep.get("want", "err")})
        return
    c = S.parse_build_op(rep["op"])
    res = run_cases(ck, bins, [c], "rp", model=False)
    decs = {m: res["i_" + m][0] for m in ("iceberg", "sql", "skeleton")}
    for name in ("built", "i_iceberg", "i_sql", "i_skeleton", "i_root2"):
        print("  %-12s %s" % (name, res[name][0][:300]))
    ck.case(res["ops"][0], sample={"op": res["ops"][0][:300]})
    ck.cov["distinct_nontrivial"] = max(ck.cov["distinct_nontrivial"], 2)
    for fp, what, mod in check_case(c, res["built"][0], decs, res["i_root2"][0], res["i_root2"][1]):
        ck.violation(fp, what, {"op": case_op(c), "module": mod, "actual": what})
