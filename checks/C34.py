"""C34 — segment decoders never crash on any bytes (and never allocate more than a multiple of the input)."""
import json
import struct

from checks import lib
from checks import C07shared as S

PROPERTY = "C34"
LEAN_MODULES = ["KafVerif.Props.C34", "KafVerif.Model.KafkaDriver"]
OBLIGATIONS = [
    "KafVerif.C34.decodeSegment_iceberg_total",
    "KafVerif.C34.decodeSegment_sql_total",
    "KafVerif.C34.decodeSegment_alloc_bounded",
    "KafVerif.C34.parseIndex_total",
    "KafVerif.C34.pitr_collect_total",
    "KafVerif.C34.pitr_plan_total",
    "KafVerif.C34.count_guard_is_widened",
    "KafVerif.C34.int32_product_guard_admits_unbounded_count",
    "KafVerif.C34.icebergOld_headerCount_panics",
    "KafVerif.C34.sqlOld_headerCount_panics",
    "KafVerif.C34.icebergOld_recordLength_unbounded",
    "KafVerif.C34.parseIndexOld_negative_count_panics",
]
ASSUMPTIONS = [
    "Go make panics (or the runtime dies) exactly when the size is negative or exceeds the allocator limit `lim`; the theorems hold for every lim >= 112*len(input), i.e. no single allocation exceeds 112 bytes per input byte",
    "bytes.Reader / io.ReadFull / binary.Read are modelled as consuming a list of unread bytes; slice expressions keep Go panic semantics",
    "topic/partition strings and the S3 download in front of decodeSegment are not modelled (glue)",
]
BUILDS = {
    "root": ("root", "./cmd/verif_c07", ["C07"]),
    "iceberg": ("iceberg", "./cmd/verif_c07", ["C07"]),
    "sql": ("sql", "./cmd/verif_c07", ["C07"]),
}
LEVEL_TEXT = ("proof: for every byte string the modelled iceberg and sql decodeSegment/parseIndex and the PITR "
              "collectRecoverableBatches/buildRestorePlan return a value or an error (never panic) under an allocator that refuses "
              "anything above 112 bytes per input byte; tied to the code by correspondence on arbitrary and structured-adversarial bytes")
LEVEL_NOTE = "total allocation (sum over all makes) is bounded by the monitor, per-allocation bound by the theorem"
TECHNIQUE = "lean4-proof + differential correspondence (child-process Go harness under RLIMIT_AS) + allocation monitor"

# allocation monitor: bytes allocated by one decoder call <= ALLOC_K * len(input) + ALLOC_C
ALLOC_K = 600
ALLOC_C = 16384

HUGE = [2 ** 31 - 1, 2 ** 31, 2 ** 32 - 1, 2 ** 40, 2 ** 62, 2 ** 63 - 1]


def zz(v):
    return (v << 1) ^ (v >> 63) if v >= 0 else ((-v) << 1) - 1


def uvar(u):
    out = bytearray()
    while True:
        if u < 128:
            out.append(u)
            return bytes(out)
        out.append((u & 0x7F) | 0x80)
        u >>= 7


def var(v):
    return uvar(zz(v))


# ---- integer-overflow bands -------------------------------------------------------------------
# A guard of the form `v*k > len` or an allocation of `v*k` bytes computed in int32 (or int64) goes wrong for the
# values v where k*v wraps negative or small-positive.  For every small multiplier k (element sizes, "minimum
# record length" constants, 12-byte index entries, 40/112-byte structs, 61/64) the bands start at ceil(2^31/k) and
# ceil(2^32/k) (int32) resp. ceil(2^63/k), ceil(2^64/k) (int64).
MULTIPLIERS = list(range(2, 17)) + [24, 40, 61, 64, 112]


def overflow_values(bits=32):
    half, full = 1 << (bits - 1), 1 << bits
    vals = set([half - 1, -half, -1, 1 << (bits - 2), (1 << (bits - 2)) + 1, half - 2])
    for k in MULTIPLIERS:
        a, b = -(-half // k), -(-full // k)             # ceil
        for d in (-1, 0, 1):
            vals.update([a + d, b + d])
        vals.add((a + b) // 2)                          # middle of the wrap-negative band
        vals.add(a + (b - a) // 4)
        vals.add(b + (b - a) // 2)                      # wraps to a small positive
        vals.add(-a)
    return sorted(v for v in vals if -half <= v < half)


OVF32 = overflow_values(32)
OVF64 = overflow_values(64)


def ovf(rng, bits=32):
    if rng.chance(1, 6):
        return rng.range(-(1 << (bits - 1)), (1 << (bits - 1)) - 1)
    return rng.choice(OVF32 if bits == 32 or rng.chance(1, 2) else OVF64)


def adv_int(rng, honest, remaining=None):
    """A varint value: mostly honest, sometimes a lie."""
    k = rng.below(14)
    if k >= 12:
        return ovf(rng, 64)
    if k < 7:
        return honest
    if k == 7:
        return -1
    if k == 8:
        return rng.choice(HUGE)
    if k == 9:
        return -rng.choice(HUGE)
    if k == 10 and remaining is not None:
        return remaining + rng.choice([-1, 0, 1, 2])
    return honest + rng.choice([-2, -1, 1, 2, 5])


def adv_record(rng, od):
    key = S.gen_bytes(rng, maxlen=12)
    val = S.gen_bytes(rng, maxlen=20)
    nh = rng.choice([0, 0, 1, 2, 3])
    hdr = b""
    for _ in range(nh):
        hk = rng.bytes(rng.choice([0, 1, 3]))
        hv = S.gen_bytes(rng, maxlen=6)
        hdr += var(adv_int(rng, len(hk))) + hk
        hdr += var(adv_int(rng, -1 if hv is None else len(hv))) + (hv or b"")
    body = bytes([rng.choice([0, 0, 0, 1, 255])])
    tsd = rng.choice(S.TS_DELTAS + HUGE + [-2 ** 63])
    body += var(tsd) if rng.chance(9, 10) else b"\xff" * rng.choice([5, 9, 10, 11])
    body += var(adv_int(rng, od))
    body += var(adv_int(rng, -1 if key is None else len(key))) + (key or b"")
    body += var(adv_int(rng, -1 if val is None else len(val))) + (val or b"")
    body += var(adv_int(rng, nh, remaining=len(hdr))) + hdr
    if rng.chance(1, 8):
        body += rng.bytes(rng.choice([1, 2, 7]))      # trailing garbage inside the record
    if rng.chance(1, 8):
        body = body[:rng.below(len(body) + 1)]        # truncated record
    return var(adv_int(rng, len(body), remaining=len(body))) + body


def adv_batch(rng, base):
    n = rng.choice([0, 1, 1, 2, 3, 5])
    recs = b"".join(adv_record(rng, i) for i in range(n))
    first = rng.choice([0, 1700000000000, -5, 2 ** 63 - 1])
    mx = first + rng.choice([0, 1, 1000, 10 ** 6])
    if mx >= 2 ** 63:
        mx = 2 ** 63 - 1
    attrs = rng.choice([0, 0, 0, 0, 0, 8, 16, 1, 4, 0x7fff, -8])
    count = adv_int(rng, n, remaining=len(recs)) if rng.chance(5, 6) else ovf(rng, 32)
    count = max(-2 ** 31, min(2 ** 31 - 1, count))
    lod = rng.choice([n - 1, 0, -1, 2 ** 31 - 1, -2 ** 31])
    tail = struct.pack(">hiqqqhii", attrs, lod, first, mx, -1, -1, -1, count) + recs
    blen = 9 + len(tail)
    k = rng.below(14)
    if k == 0:
        blen = 0
    elif k == 1:
        blen = rng.choice([1, 5, 48, 49, 50])          # frames shorter than a batch header
    elif k == 2:
        blen += rng.choice([-3, -1, 1, 2, 1000])
    elif k == 3:
        blen = rng.choice([2 ** 31 - 1, 2 ** 31, 2 ** 32 - 1, ovf(rng, 32)])
    head = struct.pack(">qIiB", base, blen & 0xFFFFFFFF, 0, 2) + struct.pack(">I", S.crc32c(tail) if rng.chance(3, 4) else 0)
    return head + tail


def adv_segment(rng):
    nb = rng.choice([0, 1, 1, 2, 3])
    body = b"".join(adv_batch(rng, rng.choice([0, 7, -1, 2 ** 62])) for _ in range(nb))
    if rng.chance(1, 6):
        body += rng.bytes(rng.choice([1, 11, 12, 13, 30]))
    created = rng.choice([0, 1700000000123])
    hdr = b"KAFS" + struct.pack(">HHqiqI", 1, 0, 0, 0, created, 0)
    foot = struct.pack(">Iq", S.crc32c(body), 0) + b"END!"
    seg = hdr + body + foot
    k = rng.below(10)
    if k == 0:
        seg = seg[:rng.below(len(seg) + 1)]
    elif k == 1:
        seg = b"KAFX" + seg[4:]
    return seg


def mutate(rng, data):
    b = bytearray(data)
    k = rng.below(5)
    if not b:
        return bytes(b)
    if k == 0:
        for _ in range(rng.choice([1, 1, 2, 5])):
            i = rng.below(len(b))
            b[i] ^= 1 << rng.below(8)
    elif k == 1:
        b = b[:rng.below(len(b) + 1)]
    elif k == 2:
        i = rng.below(len(b))
        b[i:i + 1] = rng.choice([b"\xff\xff\xff\xff\x0f", b"\xff" * 9 + b"\x01", b"\x01", b"\xfe\xff\xff\xff\xff\xff\xff\xff\xff\x01", b"\x80" * 10])
    elif k == 3:
        i = rng.below(len(b))
        b[i:i + 4] = struct.pack(">I", rng.choice([0, 1, 0x7fffffff, 0x80000000, 0xffffffff, len(b)]))
    else:
        i = rng.below(len(b))
        del b[i:i + rng.choice([1, 2, 8])]
    return bytes(b)


def adv_index(rng):
    n = rng.choice([0, 1, 2, 3, 10])
    ents = b"".join(struct.pack(">qi", rng.choice([0, 5, -1, 2 ** 40]), rng.choice([32, 100, -1])) for _ in range(n))
    count = rng.choice([n, n, n, n + 1, n - 1, -1, -2 ** 31, 2 ** 31 - 1, 0x7fffffff // 12, 2 ** 28, ovf(rng, 32), ovf(rng, 32)]) & 0xFFFFFFFF
    ver = rng.choice([1, 1, 1, 1, 0, 2])
    idx = (b"IDX\x00" if rng.chance(9, 10) else b"IDX\x01") + struct.pack(">HIiH", ver, count, rng.choice([1, 100, -1, 0]), 0) + ents
    if rng.chance(1, 6):
        idx = idx[:rng.below(len(idx) + 1)]
    if rng.chance(1, 8):
        idx += rng.bytes(rng.choice([1, 11, 12]))
    return idx


MIN_REC = b"\x0c\x00\x00\x00\x01\x01\x00"          # the 7-byte record: null key, null value, no headers


def field_probe(field, v):
    """A small, otherwise well-formed segment (or index) in which exactly one length/count field holds v."""
    if field == "recordCount":
        return "seg", wrap_seg(mk_batch(max(-2 ** 31, min(2 ** 31 - 1, v)), MIN_REC * 3))
    if field == "batchLen":
        b = bytearray(mk_batch(1, MIN_REC))
        b[8:12] = struct.pack(">I", v & 0xFFFFFFFF)
        return "seg", wrap_seg(bytes(b) + MIN_REC * 2)
    if field == "recordLen":
        return "seg", wrap_seg(mk_batch(1, var(v) + MIN_REC[1:] + b"\x00" * 4))
    if field == "keyLen":
        return "seg", wrap_seg(mk_batch(1, rec(b"\x00\x00\x00" + var(v) + b"kk" + b"\x01\x00")))
    if field == "valueLen":
        return "seg", wrap_seg(mk_batch(1, rec(b"\x00\x00\x00\x01" + var(v) + b"vv" + b"\x00")))
    if field == "headerCount":
        return "seg", wrap_seg(mk_batch(1, rec(b"\x00\x00\x00\x01\x01" + var(v) + b"\x02k\x02v")))
    if field == "headerKeyLen":
        return "seg", wrap_seg(mk_batch(1, rec(b"\x00\x00\x00\x01\x01\x02" + var(v) + b"k\x02v")))
    if field == "headerValueLen":
        return "seg", wrap_seg(mk_batch(1, rec(b"\x00\x00\x00\x01\x01\x02\x02k" + var(v) + b"v")))
    if field == "indexCount":
        return "idx", b"IDX\x00" + struct.pack(">HIiH", 1, v & 0xFFFFFFFF, 1, 0) + struct.pack(">qi", 0, 32) * 2
    raise KeyError(field)


FIELDS32 = ["recordCount", "batchLen", "indexCount"]          # fixed-width 32-bit header fields
FIELDSVAR = ["recordLen", "keyLen", "valueLen", "headerCount", "headerKeyLen", "headerValueLen"]   # varints (sql: int32, iceberg/PITR: int64)


def overflow_probes(rng, per_var_field):
    """Systematic stream: every 32-bit field over ALL int32 overflow-band values; every varint field over a sample of the
    int32 and int64 bands."""
    segs, idxs = [], []
    for f in FIELDS32:
        for v in OVF32:
            kind, data = field_probe(f, v)
            (segs if kind == "seg" else idxs).append(data)
    for f in FIELDSVAR:
        vals = [rng.choice(OVF32) for _ in range(per_var_field)] + [rng.choice(OVF64) for _ in range(per_var_field // 2)]
        for v in vals:
            segs.append(field_probe(f, v)[1])
    return segs, idxs


def gen_inputs(ck, n, valid_segments):
    """n segment-like inputs and n//3 index-like inputs, as bytes."""
    segs, idxs = [], []
    rng = ck.rng
    for i in range(n):
        k = i % 10
        if k == 0:
            segs.append(rng.bytes(rng.choice([0, 1, 4, 47, 48, 49, 60, 109, 200])))
        elif k in (1, 2, 3) and valid_segments:
            segs.append(mutate(rng, rng.choice(valid_segments)))
        elif k == 4 and valid_segments:
            segs.append(rng.choice(valid_segments))
        else:
            segs.append(adv_segment(rng))
    for i in range(max(4, n // 3)):
        idxs.append(adv_index(rng))
    return segs, idxs


def rec(body):
    return var(len(body)) + body


FIXED = [
    # headerCount = -1 (makeslice: cap out of range in the unfixed decoders)
    ("hdrcount-minus-one", lambda: wrap_seg(mk_batch(1, rec(b"\x00\x00\x00\x01\x01\x01")))),
    # record length 2^40 (fatal out-of-memory in the unfixed iceberg decoder)
    ("record-length-2^40", lambda: wrap_seg(mk_batch(1, var(2 ** 40) + b"\x00" * 8))),
    # key length 2^31-1 / 2^40
    ("key-length-2^31", lambda: wrap_seg(mk_batch(1, rec(b"\x00\x00\x00" + var(2 ** 31 - 1) + b"\x00" * 7)))),
    ("key-length-2^40", lambda: wrap_seg(mk_batch(1, rec(b"\x00\x00\x00" + var(2 ** 40) + b"\x00" * 7)))),
    # record count 2^31-1 with no records
    ("record-count-2^31", lambda: wrap_seg(mk_batch(2 ** 31 - 1, b""))),
    ("header-count-2^31", lambda: wrap_seg(mk_batch(1, rec(b"\x00\x00\x00\x01\x01" + var(2 ** 31 - 1) + b"\x00" * 4)))),
    ("header-count-2^40", lambda: wrap_seg(mk_batch(1, rec(b"\x00\x00\x00\x01\x01" + var(2 ** 40) + b"\x00" * 4)))),
]


def mk_batch(count, recs, base=0):
    tail = struct.pack(">hiqqqhii", 0, 0, 0, 2 ** 62, -1, -1, -1, count) + recs
    return struct.pack(">qIiB", base, 9 + len(tail), 0, 2) + struct.pack(">I", S.crc32c(tail)) + tail


def wrap_seg(body):
    return b"KAFS" + struct.pack(">HHqiqI", 1, 0, 0, 0, 0, 0) + body + struct.pack(">Iq", S.crc32c(body), 0) + b"END!"


def make_ops(segs, idxs, rng):
    """(target, op, input_len) triples."""
    out = []
    for s in segs:
        h = S.tokb(s)
        out.append(("iceberg", "dec " + h, len(s)))
        out.append(("sql", "dec " + h, len(s)))
        out.append(("root", "scanrecs " + h, len(s)))
        cut = rng.choice([0, 1, 1000, 1700000000000, 1700000000500, 2 ** 62, -1])
        out.append(("root", "collect %d %s" % (cut, h), len(s)))
    for k, i in enumerate(idxs):
        h = S.tokb(i)
        out.append(("iceberg", "didx " + h, len(i)))
        out.append(("sql", "didx " + h, len(i)))
        out.append(("root", "pidx " + h, len(i)))
        s = segs[k % len(segs)]
        out.append(("root", "plan %d %d %s %s" % (rng.choice([0, 1000, 1700000000500, 2 ** 62]), 1700000000123, S.tokb(s), h), len(s) + len(i)))
    return out


def classify(line):
    return line.split(" ", 1)[0] if line else "crash"


def evaluate(ck, triples, impl, allocs):
    """Direct monitor: no panic, no crash, bounded allocation."""
    hits = []
    for (target, op, n), line, a in zip(triples, impl, allocs):
        cls = classify(line)
        kind = op.split(" ", 1)[0]
        fn = {"dec": "decodeSegment", "didx": "parseIndex", "scanrecs": "scanRecord", "collect": "collectRecoverableBatches",
              "plan": "buildRestorePlan", "pidx": "ParseIndex"}.get(kind, kind)
        if cls == "panic":
            hits.append(("%s-%s-panics" % (target, fn), "%s %s panicked on %d input bytes" % (target, fn, n), target, op))
        elif cls == "skipped":
            continue
        elif cls == "crash":
            hits.append(("%s-%s-fatal" % (target, fn), "%s %s killed the process (fatal error / out of memory) on %d input bytes" % (target, fn, n), target, op))
        elif a > ALLOC_K * n + ALLOC_C:
            hits.append(("%s-%s-unbounded-allocation" % (target, fn),
                         "%s %s allocated %d bytes for %d input bytes (bound %d*n+%d)" % (target, fn, a, n, ALLOC_K, ALLOC_C), target, op))
    return hits


def run_all(ck, bins, triples, tag, model=True):
    impl = [None] * len(triples)
    allocs = [0] * len(triples)
    for target in ("iceberg", "sql", "root"):
        idxs = [i for i, t in enumerate(triples) if t[0] == target]
        lines, al = S.run_harness(ck, bins[target], [triples[i][1] for i in idxs], target + tag, as_gb=4, timeout=240, max_crashes=6)
        for i, l, a in zip(idxs, lines, al):
            impl[i], allocs[i] = l, a
    mod = None
    if model:
        mod = S.run_model(ck, "C34", "root", ["@%s %s" % (t[0], t[1]) for t in triples], tag)
    return impl, allocs, mod


def shrink_bytes(ck, bins, target, op, fp):
    """Shorten the hex argument of a failing op while the same fingerprint persists."""
    parts = op.split(" ")
    hexarg = parts[-1]
    data = bytearray(S.unhex(hexarg))

    def fails(d):
        o = " ".join(parts[:-1] + [S.tokb(bytes(d))])
        impl, al, _ = run_all(ck, bins, [(target, o, len(d))], "sh", model=False)
        return any(h[0] == fp for h in evaluate(ck, [(target, o, len(d))], impl, al))
    budget = 25
    chunk = max(1, len(data) // 2)
    while chunk >= 1 and budget > 0:
        i, progressed = 48 if len(data) > 64 else 0, False
        while i < len(data) - 16 and budget > 0:
            cand = data[:i] + data[i + chunk:]
            budget -= 1
            if len(cand) >= 48 and fails(cand):
                data, progressed = cand, True
            else:
                i += chunk
        chunk = chunk // 2 if not progressed or chunk > 1 else 0
    return " ".join(parts[:-1] + [S.tokb(bytes(data))])


def run(ck):
    bins = ck.build_all()
    if bins is None:
        return
    n = 120 if ck.quick() else 1500
    ck.cov["rule"] = ("inputs = random byte strings, hand-structured adversarial segments (valid framing; lying record/key/value/header "
                      "lengths and counts: -1, +-1 around the bytes remaining, 2^31..2^63; truncated records; compressed/odd attributes; "
                      "lying batch lengths), mutations (bit flips, truncation, spliced huge varints, overwritten 32-bit fields) of "
                      "broker-written segments, adversarial index files, and overflow-band probes (each 32-bit count/length field "
                      "set to every value ceil(2^31/k)+-1, ceil(2^32/k)+-1, band middles, for k in 2..16,24,40,61,64,112; varint fields "
                      "sampled from the int32 and int64 bands); each fed to iceberg/sql decodeSegment+parseIndex and to the PITR "
                      "scanner/collector/plan builder; non-trivial = passes the magic/size checks (reaches the batch loop); distinct = distinct ops")
    # valid segments to mutate: written by the real BuildSegment
    vrng = ck.rng.fork()
    vcases = [{"interval": vrng.choice([1, 2, 100]), "created": 1700000000123, "batches": S.gen_batches(vrng, nb=vrng.choice([1, 2, 3]), wide_ts=False)}
              for _ in range(8 if ck.quick() else 40)]
    built, _ = S.run_harness(ck, bins["root"], [S.build_op(c["interval"], c["created"], c["batches"]) for c in vcases], "v")
    valid = [S.unhex(S.kv(b)["seg"]) for b in built if b.startswith("built ")]
    valid = [v for v in valid if len(v) < 1500] or valid[:2]
    segs, idxs = gen_inputs(ck, n, valid)
    psegs, pidxs = overflow_probes(ck.rng.fork(), 10 if ck.quick() else 60)
    ck.count("overflow_band_probes", len(psegs) + len(pidxs))
    segs = [f() for _, f in FIXED] + psegs + segs
    idxs = pidxs + idxs
    triples = make_ops(segs, idxs, ck.rng.fork())
    import glob, os
    for fn in sorted(glob.glob(os.path.join(lib.REPLAYS, "C34", "*.json"))):     # corpus first
        try:
            rep = json.load(open(fn))
            triples.insert(0, (rep["target"], rep["op"], len(S.unhex(rep["op"].split(" ")[-1]))))
        except Exception as e:
            ck.notes.append("corpus file %s unreadable: %r" % (fn, e))
    ck.partial = ("proved: no panic and every single allocation <= 112 bytes per input byte, for every byte string; "
                  "not proved: a bound on the SUM of all allocations of one call (checked by the allocation monitor: "
                  "<= %d*len+%d bytes measured with runtime.MemStats)" % (ALLOC_K, ALLOC_C))
    impl, allocs, mod = run_all(ck, bins, triples, "q")
    worst = 0.0
    for (target, op, ln), line, a in zip(triples, impl, allocs):
        cls = classify(line)
        ck.count("%s:%s" % (op.split(" ", 1)[0], cls))
        nontrivial = not (cls == "err" and ln < 48)
        if ln:
            worst = max(worst, a / float(ln))
        ck.case((target, op), nontrivial=(cls == "ok" or ln >= 61), sample={"target": target, "op": op[:160], "impl": line[:120], "alloc": a})
        ck.cov["traces_validated_against_impl"] += 1
    ck.cov["distribution"]["max_alloc_bytes_per_input_byte"] = round(worst, 1)
    hits = evaluate(ck, triples, impl, allocs)
    for fp, what, target, op in hits:
        small = op
        if fp not in [v["fingerprint"] for v in ck.violations] and len(ck.violations) < 6:
            try:
                small = shrink_bytes(ck, bins, target, op, fp)
            except Exception:
                small = op
        ck.violation(fp, what, {"target": target, "op": small, "actual": what, "expected": "ok or err, allocation <= %d*len+%d" % (ALLOC_K, ALLOC_C)})
    mod = [("skipped" if i < len(impl) and impl[i] == "skipped" else m) for i, m in enumerate(mod)]
    d = lib.first_diff(impl, mod)
    if d is not None:
        ck.cov["disagreements_checked"] += 1
        t = triples[d] if d < len(triples) else None
        ck.broke("correspondence model/implementation (%s %s)" % (t[0] if t else "?", t[1].split(" ")[0] if t else "?"),
                 "op   : @%s %s\nimpl : %s\nmodel: %s" % (t[0] if t else None, t[1][:600] if t else None,
                                                          impl[d][:300] if d < len(impl) else None, mod[d][:300] if d < len(mod) else None))
        if not hits:
            hunt(ck, bins, valid)


def hunt(ck, bins, valid):
    for rnd in range(5):
        segs, idxs = gen_inputs(ck, 300, valid)
        triples = make_ops(segs, idxs, ck.rng.fork())
        impl, allocs, _ = run_all(ck, bins, triples, "h%d" % rnd, model=False)
        ck.cov["evaluations"] += len(triples)
        hits = evaluate(ck, triples, impl, allocs)
        if hits:
            fp, what, target, op = hits[0]
            ck.violation(fp, what, {"target": target, "op": op, "actual": what})
            return


def replay(ck, path):
    rep = json.load(open(path))
    bins = ck.build_all()
    if bins is None:
        return
    t = [(rep["target"], rep["op"], len(S.unhex(rep["op"].split(" ")[-1])))]
    impl, allocs, _ = run_all(ck, bins, t, "rp", model=False)
    print("  @%s %s\n  -> %s alloc=%d" % (t[0][0], t[0][1][:200], impl[0][:200], allocs[0]))
    ck.case(t[0], sample={"op": t[0][1][:200], "impl": impl[0][:200]})
    ck.cov["distinct_nontrivial"] = max(ck.cov["distinct_nontrivial"], 2)
    for fp, what, target, op in evaluate(ck, t, impl, allocs):
        ck.violation(fp, what, {"target": target, "op": op, "actual": what})
