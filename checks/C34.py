"""C34 — segment decoders never crash on any bytes (and never allocate more than a multiple of the input)."""
import json
import struct

from checks import lib
from checks import C07shared as S

PROPERTY = "C34"
LEAN_MODULES = ["KafVerif.Props.C34", "KafVerif.Model.KafkaDriver", "KafVerif.Model.KafkaAlloc"]
OBLIGATIONS = [
    "KafVerif.C34.decodeSegment_iceberg_total",
    "KafVerif.C34.decodeSegment_sql_total",
    "KafVerif.C34.decodeSegment_alloc_bounded",
    "KafVerif.C34.parseIndex_total",
    "KafVerif.C34.pitr_collect_total",
    "KafVerif.C34.pitr_plan_total",
    "KafVerif.C34.decodeSegment_total_alloc",
    "KafVerif.C34.parseIndex_total_alloc",
    "KafVerif.C34.pitr_total_alloc",
    "KafVerif.C34.icebergOld_total_alloc_unbounded",
    "KafVerif.C34.count_guard_is_widened",
    "KafVerif.C34.int32_product_guard_admits_unbounded_count",
    "KafVerif.C34.varint_overflow_is_error",
    "KafVerif.C34.scanRecord_total",
    "KafVerif.C34.icebergOld_headerCount_panics",
    "KafVerif.C34.sqlOld_headerCount_panics",
    "KafVerif.C34.icebergOld_recordLength_unbounded",
    "KafVerif.C34.parseIndexOld_negative_count_panics",
]
ASSUMPTIONS = [
    "Go make panics (or the runtime dies) exactly when the size is negative or exceeds the allocator limit `lim`; the theorems hold for every lim >= 112*len(input), i.e. no single allocation exceeds 112 bytes per input byte",
    "total allocation: the theorems bound the SUM of the sizes of all make calls of one call (every allocation whose size an input field controls, plus the truncated-batch copy); what the Go runtime adds on top - size-class rounding, amortised append growth of the result slices, fixed-size objects per consumed record/entry (bytes.Reader, escaping temporaries, *IndexEntry, error values), BuildSegment's output buffers - is not modelled and is covered by the monitor's allowance RT_FACTOR/RT_PER_BYTE/RT_CONST",
    "bytes.Reader / io.ReadFull / binary.Read are modelled as consuming a list of unread bytes; slice expressions keep Go panic semantics",
    "topic/partition strings and the S3 download in front of decodeSegment are not modelled (glue)",
]
BUILDS = {
    "root": ("root", "./cmd/verif_c07", ["C07"]),
    "iceberg": ("iceberg", "./cmd/verif_c07", ["C07"]),
    "sql": ("sql", "./cmd/verif_c07", ["C07"]),
}
LEVEL_TEXT = ("proof: for every byte string the modelled iceberg and sql decodeSegment/parseIndex and the PITR "
              "collectRecoverableBatches/buildRestorePlan return a value or an error (never panic) under an allocator that refuses "
              "anything above 112 bytes per input byte; tied to the code by correspondence on arbitrary and structured-adversarial bytes")
LEVEL_NOTE = ("per-allocation bound (112 bytes per input byte) and total-allocation bound (sum of all makes of one call: 154*len for "
              "decodeSegment, 2*len / 1*len for parseIndex / ParseIndex, 3*len for collectRecoverableBatches) are theorems; the monitor "
              "compares the measured Go allocation with these constants plus a stated runtime allowance")
TECHNIQUE = "lean4-proof + differential correspondence (child-process Go harness under RLIMIT_AS) + allocation monitor"

# Allocation monitor.  The proved constants (a, b) with  sum-of-makes <= a*len(input) + b  are read from the Lean driver
# (`allocbounds` prints the definitions the theorems KafVerif.C34.*_total_alloc are stated with).  The bytes one call
# allocates as measured with runtime.MemStats must stay below
#       RT_FACTOR * (a*len + b)  +  RT_PER_BYTE * len  +  RT_CONST
# RT_FACTOR   : size-class rounding of each allocation (<= 1.25x) and amortised append growth, with margin;
# RT_PER_BYTE : fixed-size runtime objects per consumed record / index entry / batch (bytes.Reader 48 B per >= 7-byte record,
#               *IndexEntry + escaping temporaries ~ 48 B per 12-byte entry, result-slice growth 112 B per record, BuildSegment output);
# RT_CONST    : per-call constants (error values, fmt state, first size classes).
RT_FACTOR = 2
RT_PER_BYTE = 64
RT_CONST = 16384
# kind of op -> which proved pair applies (scanrecs is the harness loop around the real scanRecord: the collect constants)
BOUND_OF = {"dec": "decode", "didx": "didx", "pidx": "pidx", "collect": "collect", "scanrecs": "collect", "plan": "collect"}


def parse_bounds(line):
    """'bounds decode=154,0 pidx=1,0 ...' -> {'decode': (154, 0), ...}"""
    t = line.split()
    if not t or t[0] != "bounds":
        return None
    out = {}
    for kvp in t[1:]:
        k, _, v = kvp.partition("=")
        a, _, b = v.partition(",")
        out[k] = (int(a), int(b))
    return out


def proved_bound(bounds, kind, lens):
    """a*len+b of the theorem that covers this op; lens = (segment-or-input length, index length or 0)."""
    a, b = bounds[BOUND_OF[kind]]
    v = a * lens[0] + b
    if kind == "plan":
        ai, bi = bounds["pidx"]
        v += ai * lens[1] + bi
    return v


def alloc_limit(bounds, kind, lens):
    return RT_FACTOR * proved_bound(bounds, kind, lens) + RT_PER_BYTE * (lens[0] + lens[1]) + RT_CONST


HUGE = [2 ** 31 - 1, 2 ** 31, 2 ** 32 - 1, 2 ** 40, 2 ** 62, 2 ** 63 - 1]


def zz(v):
    return (v << 1) ^ (v >> 63) if v >= 0 else ((-v) << 1) - 1


def uvar(u):
    out = bytearray()
    while True:
        if u < 128:
            out.append(u)
            return bytes(out)
        out.append((u & 0x7F) | 0x80)
        u >>= 7


def var(v):
    return uvar(zz(v))


# ---- integer-overflow bands -------------------------------------------------------------------
# A guard of the form `v*k > len` or an allocation of `v*k` bytes computed in int32 (or int64) goes wrong for the
# values v where k*v wraps negative or small-positive.  For every small multiplier k (element sizes, "minimum
# record length" constants, 12-byte index entries, 40/112-byte structs, 61/64) the bands start at ceil(2^31/k) and
# ceil(2^32/k) (int32) resp. ceil(2^63/k), ceil(2^64/k) (int64).
MULTIPLIERS = list(range(2, 17)) + [24, 40, 61, 64, 112]


def overflow_values(bits=32):
    half, full = 1 << (bits - 1), 1 << bits
    vals = set([half - 1, -half, -1, 1 << (bits - 2), (1 << (bits - 2)) + 1, half - 2])
    for k in MULTIPLIERS:
        a, b = -(-half // k), -(-full // k)             # ceil
        for d in (-1, 0, 1):
            vals.update([a + d, b + d])
        vals.add((a + b) // 2)                          # middle of the wrap-negative band
        vals.add(a + (b - a) // 4)
        vals.add(b + (b - a) // 2)                      # wraps to a small positive
        vals.add(-a)
    return sorted(v for v in vals if -half <= v < half)


OVF32 = overflow_values(32)
OVF64 = overflow_values(64)


def ovf(rng, bits=32):
    if rng.chance(1, 6):
        return rng.range(-(1 << (bits - 1)), (1 << (bits - 1)) - 1)
    return rng.choice(OVF32 if bits == 32 or rng.chance(1, 2) else OVF64)


def adv_int(rng, honest, remaining=None):
    """A varint value: mostly honest, sometimes a lie."""
    k = rng.below(14)
    if k >= 12:
        return ovf(rng, 64)
    if k < 7:
        return honest
    if k == 7:
        return -1
    if k == 8:
        return rng.choice(HUGE)
    if k == 9:
        return -rng.choice(HUGE)
    if k == 10 and remaining is not None:
        return remaining + rng.choice([-1, 0, 1, 2])
    return honest + rng.choice([-2, -1, 1, 2, 5])


def avar(rng, v):
    """Encoding of a varint field of the random stream: mostly canonical, sometimes an over-long / overflowing encoding."""
    if rng.chance(1, 16):
        return rng.choice(OVERLONG)
    return var(v)


def adv_record(rng, od):
    key = S.gen_bytes(rng, maxlen=12)
    val = S.gen_bytes(rng, maxlen=20)
    nh = rng.choice([0, 0, 1, 2, 3])
    hdr = b""
    for _ in range(nh):
        hk = rng.bytes(rng.choice([0, 1, 3]))
        hv = S.gen_bytes(rng, maxlen=6)
        hdr += avar(rng, adv_int(rng, len(hk))) + hk
        hdr += avar(rng, adv_int(rng, -1 if hv is None else len(hv))) + (hv or b"")
    body = bytes([rng.choice([0, 0, 0, 1, 255])])
    tsd = rng.choice(S.TS_DELTAS + HUGE + [-2 ** 63])
    body += avar(rng, tsd) if rng.chance(9, 10) else b"\xff" * rng.choice([5, 9, 10, 11])
    body += avar(rng, adv_int(rng, od))
    body += avar(rng, adv_int(rng, -1 if key is None else len(key))) + (key or b"")
    body += avar(rng, adv_int(rng, -1 if val is None else len(val))) + (val or b"")
    body += avar(rng, adv_int(rng, nh, remaining=len(hdr))) + hdr
    if rng.chance(1, 8):
        body += rng.bytes(rng.choice([1, 2, 7]))      # trailing garbage inside the record
    if rng.chance(1, 8):
        body = body[:rng.below(len(body) + 1)]        # truncated record
    return avar(rng, adv_int(rng, len(body), remaining=len(body))) + body


def adv_batch(rng, base):
    n = rng.choice([0, 1, 1, 2, 3, 5])
    recs = b"".join(adv_record(rng, i) for i in range(n))
    first = rng.choice([0, 1700000000000, -5, 2 ** 63 - 1])
    mx = first + rng.choice([0, 1, 1000, 10 ** 6])
    if mx >= 2 ** 63:
        mx = 2 ** 63 - 1
    attrs = rng.choice([0, 0, 0, 0, 0, 8, 16, 1, 4, 0x7fff, -8])
    count = adv_int(rng, n, remaining=len(recs)) if rng.chance(5, 6) else ovf(rng, 32)
    count = max(-2 ** 31, min(2 ** 31 - 1, count))
    lod = rng.choice([n - 1, 0, -1, 2 ** 31 - 1, -2 ** 31])
    tail = struct.pack(">hiqqqhii", attrs, lod, first, mx, -1, -1, -1, count) + recs
    blen = 9 + len(tail)
    k = rng.below(14)
    if k == 0:
        blen = 0
    elif k == 1:
        blen = rng.choice([1, 5, 48, 49, 50])          # frames shorter than a batch header
    elif k == 2:
        blen += rng.choice([-3, -1, 1, 2, 1000])
    elif k == 3:
        blen = rng.choice([2 ** 31 - 1, 2 ** 31, 2 ** 32 - 1, ovf(rng, 32)])
    head = struct.pack(">qIiB", base, blen & 0xFFFFFFFF, 0, 2) + struct.pack(">I", S.crc32c(tail) if rng.chance(3, 4) else 0)
    return head + tail


def adv_segment(rng):
    nb = rng.choice([0, 1, 1, 2, 3])
    body = b"".join(adv_batch(rng, rng.choice([0, 7, -1, 2 ** 62])) for _ in range(nb))
    if rng.chance(1, 6):
        body += rng.bytes(rng.choice([1, 11, 12, 13, 30]))
    created = rng.choice([0, 1700000000123])
    hdr = b"KAFS" + struct.pack(">HHqiqI", 1, 0, 0, 0, created, 0)
    foot = struct.pack(">Iq", S.crc32c(body), 0) + b"END!"
    seg = hdr + body + foot
    k = rng.below(10)
    if k == 0:
        seg = seg[:rng.below(len(seg) + 1)]
    elif k == 1:
        seg = b"KAFX" + seg[4:]
    return seg


def mutate(rng, data):
    b = bytearray(data)
    k = rng.below(5)
    if not b:
        return bytes(b)
    if k == 0:
        for _ in range(rng.choice([1, 1, 2, 5])):
            i = rng.below(len(b))
            b[i] ^= 1 << rng.below(8)
    elif k == 1:
        b = b[:rng.below(len(b) + 1)]
    elif k == 2:
        i = rng.below(len(b))
        b[i:i + 1] = rng.choice([b"\xff\xff\xff\xff\x0f", b"\xff" * 9 + b"\x01", b"\x01", b"\xfe\xff\xff\xff\xff\xff\xff\xff\xff\x01", b"\x80" * 10])
    elif k == 3:
        i = rng.below(len(b))
        b[i:i + 4] = struct.pack(">I", rng.choice([0, 1, 0x7fffffff, 0x80000000, 0xffffffff, len(b)]))
    else:
        i = rng.below(len(b))
        del b[i:i + rng.choice([1, 2, 8])]
    return bytes(b)


def adv_index(rng):
    n = rng.choice([0, 1, 2, 3, 10])
    ents = b"".join(struct.pack(">qi", rng.choice([0, 5, -1, 2 ** 40]), rng.choice([32, 100, -1])) for _ in range(n))
    count = rng.choice([n, n, n, n + 1, n - 1, -1, -2 ** 31, 2 ** 31 - 1, 0x7fffffff // 12, 2 ** 28, ovf(rng, 32), ovf(rng, 32)]) & 0xFFFFFFFF
    ver = rng.choice([1, 1, 1, 1, 0, 2])
    idx = (b"IDX\x00" if rng.chance(9, 10) else b"IDX\x01") + struct.pack(">HIiH", ver, count, rng.choice([1, 100, -1, 0]), 0) + ents
    if rng.chance(1, 6):
        idx = idx[:rng.below(len(idx) + 1)]
    if rng.chance(1, 8):
        idx += rng.bytes(rng.choice([1, 11, 12]))
    return idx


MIN_REC = b"\x0c\x00\x00\x00\x01\x01\x00"          # the 7-byte record: null key, null value, no headers


def field_probe(field, v):
    """A small, otherwise well-formed segment (or index) in which exactly one length/count field holds v."""
    if field == "recordCount":
        return "seg", wrap_seg(mk_batch(max(-2 ** 31, min(2 ** 31 - 1, v)), MIN_REC * 3))
    if field == "batchLen":
        b = bytearray(mk_batch(1, MIN_REC))
        b[8:12] = struct.pack(">I", v & 0xFFFFFFFF)
        return "seg", wrap_seg(bytes(b) + MIN_REC * 2)
    if field == "recordLen":
        return "seg", wrap_seg(mk_batch(1, var(v) + MIN_REC[1:] + b"\x00" * 4))
    if field == "keyLen":
        return "seg", wrap_seg(mk_batch(1, rec(b"\x00\x00\x00" + var(v) + b"kk" + b"\x01\x00")))
    if field == "valueLen":
        return "seg", wrap_seg(mk_batch(1, rec(b"\x00\x00\x00\x01" + var(v) + b"vv" + b"\x00")))
    if field == "headerCount":
        return "seg", wrap_seg(mk_batch(1, rec(b"\x00\x00\x00\x01\x01" + var(v) + b"\x02k\x02v")))
    if field == "headerKeyLen":
        return "seg", wrap_seg(mk_batch(1, rec(b"\x00\x00\x00\x01\x01\x02" + var(v) + b"k\x02v")))
    if field == "headerValueLen":
        return "seg", wrap_seg(mk_batch(1, rec(b"\x00\x00\x00\x01\x01\x02\x02k" + var(v) + b"v")))
    if field == "indexCount":
        return "idx", b"IDX\x00" + struct.pack(">HIiH", 1, v & 0xFFFFFFFF, 1, 0) + struct.pack(">qi", 0, 32) * 2
    raise KeyError(field)


FIELDS32 = ["recordCount", "batchLen", "indexCount"]          # fixed-width 32-bit header fields
FIELDSVAR = ["recordLen", "keyLen", "valueLen", "headerCount", "headerKeyLen", "headerValueLen"]   # varints (sql: int32, iceberg/PITR: int64)


def overflow_probes(rng, per_var_field):
    """Systematic stream: every 32-bit field over ALL int32 overflow-band values; every varint field over a sample of the
    int32 and int64 bands."""
    segs, idxs = [], []
    for f in FIELDS32:
        for v in OVF32:
            kind, data = field_probe(f, v)
            (segs if kind == "seg" else idxs).append(data)
    for f in FIELDSVAR:
        vals = [rng.choice(OVF32) for _ in range(per_var_field)] + [rng.choice(OVF64) for _ in range(per_var_field // 2)]
        for v in vals:
            segs.append(field_probe(f, v)[1])
    return segs, idxs


# ---- over-long / overflowing varints ------------------------------------------------------------
# A varint reader that is not the hand-written loop (encoding/binary.Varint, a copied protobuf reader, ...) reports a
# 64-bit overflow differently: binary.Varint returns a NEGATIVE byte count, others wrap silently.  The encodings
# below are the boundary of what fits 64 bits (nine 0xff + 0x01 / + 0x00: legal), what does not (10th byte > 1), what
# runs past 10 bytes (11+, all-0xff runs, 0x80 padding) and the same boundary for the sql decoder's int32 reader
# (5th byte; `shift > 28`).
OVERLONG = [
    b"\xff" * 9 + b"\x01",          # legal: 2^64-1
    b"\xff" * 9 + b"\x00",          # legal, non-canonical
    b"\xff" * 9 + b"\x02",          # 10th byte > 1: overflows 64 bits (binary.Varint: n = -10)
    b"\xff" * 9 + b"\x7f",
    b"\x80" * 9 + b"\x02",
    b"\x80" * 9 + b"\x01",          # legal: 2^63
    b"\xff" * 10 + b"\x01",         # 11 bytes
    b"\xff" * 10 + b"\x00",
    b"\x80" * 10 + b"\x00",
    b"\xff" * 11,                   # all-0xff runs (the bytes after the run belong to the same varint)
    b"\xff" * 12 + b"\x00",
    b"\xff" * 20 + b"\x01",
    b"\xff" * 4 + b"\x0f",          # int32 reader boundary: legal
    b"\xff" * 4 + b"\x10",          # 5th byte overflows 32 bits
    b"\xff" * 4 + b"\x7f",
    b"\xff" * 5 + b"\x00",          # 6 bytes: past the int32 reader's `shift > 28`
    b"\x80" * 5 + b"\x01",
]
VARINT_POS = ["recordLen", "tsDelta", "offDelta", "keyLen", "valueLen", "headerCount", "headerKeyLen", "headerValueLen"]
VP_FIRST, VP_MAX = 1700000000000, 1700000001000      # the probe batch: firstTimestamp <= cut-off < maxTimestamp
VP_CUTS = [VP_FIRST, VP_FIRST + 500, VP_MAX - 1]
VP_INDEX = b"IDX\x00" + struct.pack(">HIiH", 1, 1, 1, 0) + struct.pack(">qi", 0, 32)


def varint_record(pos, enc, od=0):
    """A well-formed record (key, value, one header) whose varint at position `pos` is replaced by the bytes `enc`."""
    f = {"tsDelta": var(0), "offDelta": var(od), "keyLen": var(1), "valueLen": var(2), "headerCount": var(1),
         "headerKeyLen": var(1), "headerValueLen": var(1)}
    if pos in f:
        f[pos] = enc
    body = (b"\x00" + f["tsDelta"] + f["offDelta"] + f["keyLen"] + b"k" + f["valueLen"] + b"vv" + f["headerCount"] +
            f["headerKeyLen"] + b"h" + f["headerValueLen"] + b"x")
    return (enc if pos == "recordLen" else var(len(body))) + body


def mk_batch_ts(count, recs, first, mx, base=0):
    tail = struct.pack(">hiqqqhii", 0, max(0, count - 1), first, mx, -1, -1, -1, count) + recs
    return struct.pack(">qIiB", base, 9 + len(tail), 0, 2) + struct.pack(">I", S.crc32c(tail)) + tail


def good_record(od):
    return varint_record(None, b"", od)


def varint_probes(rng, quick):
    """(segment, cut-off) pairs: every varint position x every OVERLONG encoding, the crafted record placed first /
    in the middle / last in an uncompressed 3-record batch that straddles the cut-off (so that the PITR scanner runs
    scanRecord over it and the decoders reach it after well-formed records)."""
    out = []
    k = 0
    for pos in VARINT_POS:
        for enc in OVERLONG:
            places = (0, 1, 2) if (not quick or pos in ("recordLen", "tsDelta", "offDelta")) else (rng.below(3),)
            for place in places:
                recs = [good_record(i) for i in range(3)]
                recs[place] = varint_record(pos, enc, place)
                seg = wrap_seg(mk_batch_ts(3, b"".join(recs), VP_FIRST, VP_MAX))
                out.append((seg, VP_CUTS[k % 3]))
                k += 1
    # the crafted record as the only record, and in the second batch after a batch that is kept whole
    for pos in ("tsDelta", "offDelta"):
        for enc in OVERLONG:
            out.append((wrap_seg(mk_batch_ts(1, varint_record(pos, enc), VP_FIRST, VP_MAX)), VP_CUTS[k % 3]))
            whole = mk_batch_ts(2, good_record(0) + good_record(1), VP_FIRST - 10, VP_FIRST - 5)
            out.append((wrap_seg(whole + mk_batch_ts(2, good_record(0) + varint_record(pos, enc, 1), VP_FIRST, VP_MAX, base=2)),
                        VP_CUTS[k % 3]))
            k += 1
    return out


def varint_ops(probes):
    out = []
    for j, (s, cut) in enumerate(probes):
        h = S.tokb(s)
        out.append(("iceberg", "dec " + h, (len(s), 0)))
        out.append(("sql", "dec " + h, (len(s), 0)))
        out.append(("root", "scanrecs " + h, (len(s), 0)))
        out.append(("root", "collect %d %s" % (cut, h), (len(s), 0)))
        if j % 4 == 0:
            out.append(("root", "plan %d %d %s %s" % (cut, 1700000000123, h, S.tokb(VP_INDEX)), (len(s), len(VP_INDEX))))
    return out


def gen_inputs(ck, n, valid_segments):
    """n segment-like inputs and n//3 index-like inputs, as bytes."""
    segs, idxs = [], []
    rng = ck.rng
    for i in range(n):
        k = i % 10
        if k == 0:
            segs.append(rng.bytes(rng.choice([0, 1, 4, 47, 48, 49, 60, 109, 200])))
        elif k in (1, 2, 3) and valid_segments:
            segs.append(mutate(rng, rng.choice(valid_segments)))
        elif k == 4 and valid_segments:
            segs.append(rng.choice(valid_segments))
        else:
            segs.append(adv_segment(rng))
    for i in range(max(4, n // 3)):
        idxs.append(adv_index(rng))
    return segs, idxs


def rec(body):
    return var(len(body)) + body


FIXED = [
    # headerCount = -1 (makeslice: cap out of range in the unfixed decoders)
    ("hdrcount-minus-one", lambda: wrap_seg(mk_batch(1, rec(b"\x00\x00\x00\x01\x01\x01")))),
    # record length 2^40 (fatal out-of-memory in the unfixed iceberg decoder)
    ("record-length-2^40", lambda: wrap_seg(mk_batch(1, var(2 ** 40) + b"\x00" * 8))),
    # key length 2^31-1 / 2^40
    ("key-length-2^31", lambda: wrap_seg(mk_batch(1, rec(b"\x00\x00\x00" + var(2 ** 31 - 1) + b"\x00" * 7)))),
    ("key-length-2^40", lambda: wrap_seg(mk_batch(1, rec(b"\x00\x00\x00" + var(2 ** 40) + b"\x00" * 7)))),
    # record count 2^31-1 with no records
    ("record-count-2^31", lambda: wrap_seg(mk_batch(2 ** 31 - 1, b""))),
    ("header-count-2^31", lambda: wrap_seg(mk_batch(1, rec(b"\x00\x00\x00\x01\x01" + var(2 ** 31 - 1) + b"\x00" * 4)))),
    ("header-count-2^40", lambda: wrap_seg(mk_batch(1, rec(b"\x00\x00\x00\x01\x01" + var(2 ** 40) + b"\x00" * 4)))),
]


def mk_batch(count, recs, base=0):
    tail = struct.pack(">hiqqqhii", 0, 0, 0, 2 ** 62, -1, -1, -1, count) + recs
    return struct.pack(">qIiB", base, 9 + len(tail), 0, 2) + struct.pack(">I", S.crc32c(tail)) + tail


def wrap_seg(body):
    return b"KAFS" + struct.pack(">HHqiqI", 1, 0, 0, 0, 0, 0) + body + struct.pack(">Iq", S.crc32c(body), 0) + b"END!"


def large_inputs():
    """Well-formed inputs large enough that the per-byte part of the allocation limit dominates its constant:
    a segment dense with minimal 7-byte records (most runtime objects per input byte), one with 2 KB values, a 1000-entry index."""
    dense = wrap_seg(b"".join(mk_batch(50, MIN_REC * 50, base=i * 50) for i in range(40)))
    fat = wrap_seg(b"".join(mk_batch(2, rec(b"\x00\x00\x00\x01" + var(2048) + b"v" * 2048 + b"\x00") +
                                     rec(b"\x00\x00\x02" + var(600) + b"k" * 600 + b"\x01\x00"), base=i * 2) for i in range(6)))
    idx = b"IDX\x00" + struct.pack(">HIiH", 1, 1000, 1, 0) + b"".join(struct.pack(">qi", i * 50, 32 + i * 411) for i in range(1000))
    # the largest lies the guards admit, on inputs of a few KB: record count = number of record bytes (112 bytes each), header
    # count = number of bytes left in the record (40 bytes each) - the cases that make the proved 154*len tight-ish
    lie_count = wrap_seg(mk_batch(4200, MIN_REC * 600))
    lie_hdrs = wrap_seg(mk_batch(1, rec(b"\x00\x00\x00\x01\x01" + var(4000) + b"\x00" * 4000)))
    # ... and a multiple of what the guards admit (rejected without allocating by the code as it is; a guard loosened by a
    # constant factor would allocate k*112 resp. k*40 bytes per input byte here)
    over = []
    for k in (8, 64):
        over.append(wrap_seg(mk_batch(4200 * k, MIN_REC * 600)))
        over.append(wrap_seg(mk_batch(1, rec(b"\x00\x00\x00\x01\x01" + var(4000 * k) + b"\x00" * 4000))))
    return [dense, fat, lie_count, lie_hdrs] + over, [idx]


def overlap_probes():
    """Objects shorter than header+footer (48 bytes) that nevertheless start with the header magic and end with the footer
    magic: every size check that looks at the header and the footer separately accepts them."""
    out = []
    for n in (16, 20, 31, 32, 33, 40, 47, 48):
        b = bytearray(n)
        b[0:4] = b"KAFS"
        b[4:6] = b"\x00\x01"
        b[n - 4:n] = b"END!"
        out.append(bytes(b))
    return out


def make_ops(segs, idxs, rng):
    """(target, op, (input_len, second_input_len)) triples; the second length is the index of a `plan` op, else 0."""
    out = []
    for s in segs:
        h = S.tokb(s)
        out.append(("iceberg", "dec " + h, (len(s), 0)))
        out.append(("sql", "dec " + h, (len(s), 0)))
        out.append(("root", "scanrecs " + h, (len(s), 0)))
        cut = rng.choice([0, 1, 1000, 1700000000000, 1700000000500, 2 ** 62, -1])
        out.append(("root", "collect %d %s" % (cut, h), (len(s), 0)))
    for k, i in enumerate(idxs):
        h = S.tokb(i)
        out.append(("iceberg", "didx " + h, (len(i), 0)))
        out.append(("sql", "didx " + h, (len(i), 0)))
        out.append(("root", "pidx " + h, (len(i), 0)))
        s = segs[k % len(segs)]
        out.append(("root", "plan %d %d %s %s" % (rng.choice([0, 1000, 1700000000500, 2 ** 62]), 1700000000123, S.tokb(s), h), (len(s), len(i))))
    return out


def classify(line):
    return line.split(" ", 1)[0] if line else "crash"


def op_lens(op):
    """Input lengths of an op, from its hex arguments (used for replays and shrinking)."""
    t = op.split(" ")
    if t[0] == "plan":
        return (len(S.unhex(t[3])), len(S.unhex(t[4])))
    return (len(S.unhex(t[-1])), 0)


def evaluate(ck, triples, impl, allocs, bounds):
    """Direct monitor: no panic, no crash, bounded allocation (proved constants + runtime allowance)."""
    hits = []
    for (target, op, lens), line, a in zip(triples, impl, allocs):
        cls = classify(line)
        kind = op.split(" ", 1)[0]
        n = lens[0] + lens[1]
        fn = {"dec": "decodeSegment", "didx": "parseIndex", "scanrecs": "scanRecord", "collect": "collectRecoverableBatches",
              "plan": "buildRestorePlan", "pidx": "ParseIndex"}.get(kind, kind)
        if cls == "panic":
            hits.append(("%s-%s-panics" % (target, fn), "%s %s panicked on %d input bytes" % (target, fn, n), target, op))
        elif cls == "skipped":
            continue
        elif cls == "crash":
            hits.append(("%s-%s-fatal" % (target, fn), "%s %s killed the process (fatal error / out of memory) on %d input bytes" % (target, fn, n), target, op))
        elif kind in BOUND_OF and a > alloc_limit(bounds, kind, lens):
            hits.append(("%s-%s-unbounded-allocation" % (target, fn),
                         "%s %s allocated %d bytes for %d input bytes (limit %d = %d*(proved %d) + %d*len + %d)"
                         % (target, fn, a, n, alloc_limit(bounds, kind, lens), RT_FACTOR, proved_bound(bounds, kind, lens), RT_PER_BYTE, RT_CONST),
                         target, op))
    return hits


def split_malloc(lines):
    """Model lines -> (lines without the ` #malloc=N` suffix, [N or None])."""
    out, ms = [], []
    for l in lines:
        body, sep, m = l.partition(" #malloc=")
        out.append(body)
        ms.append(int(m) if sep and m.isdigit() else None)
    return out, ms


def run_all(ck, bins, triples, tag, model=True):
    impl = [None] * len(triples)
    allocs = [0] * len(triples)
    for target in ("iceberg", "sql", "root"):
        idxs = [i for i, t in enumerate(triples) if t[0] == target]
        lines, al = S.run_harness(ck, bins[target], [triples[i][1] for i in idxs], target + tag, as_gb=4, timeout=240, max_crashes=6)
        for i, l, a in zip(idxs, lines, al):
            impl[i], allocs[i] = l, a
    mod = None
    if model:
        mod = S.run_model(ck, "C34", "root", ["@%s %s" % (t[0], t[1]) for t in triples], tag)
    return impl, allocs, mod


def shrink_bytes(ck, bins, target, op, fp, bounds):
    """Shorten the hex argument of a failing op while the same fingerprint persists."""
    parts = op.split(" ")
    hexarg = parts[-1]
    data = bytearray(S.unhex(hexarg))

    def fails(d):
        o = " ".join(parts[:-1] + [S.tokb(bytes(d))])
        impl, al, _ = run_all(ck, bins, [(target, o, op_lens(o))], "sh", model=False)
        return any(h[0] == fp for h in evaluate(ck, [(target, o, op_lens(o))], impl, al, bounds))
    budget = 25
    chunk = max(1, len(data) // 2)
    while chunk >= 1 and budget > 0:
        i, progressed = 48 if len(data) > 64 else 0, False
        while i < len(data) - 16 and budget > 0:
            cand = data[:i] + data[i + chunk:]
            budget -= 1
            if len(cand) >= 48 and fails(cand):
                data, progressed = cand, True
            else:
                i += chunk
        chunk = chunk // 2 if not progressed or chunk > 1 else 0
    return " ".join(parts[:-1] + [S.tokb(bytes(data))])


def run(ck):
    bins = ck.build_all()
    if bins is None:
        return
    n = 120 if ck.quick() else 1500
    ck.cov["rule"] = ("inputs = random byte strings, hand-structured adversarial segments (valid framing; lying record/key/value/header "
                      "lengths and counts: -1, +-1 around the bytes remaining, 2^31..2^63; truncated records; compressed/odd attributes; "
                      "lying batch lengths), mutations (bit flips, truncation, spliced huge varints, overwritten 32-bit fields) of "
                      "broker-written segments, adversarial index files, and overflow-band probes (each 32-bit count/length field "
                      "set to every value ceil(2^31/k)+-1, ceil(2^32/k)+-1, band middles, for k in 2..16,24,40,61,64,112; varint fields "
                      "sampled from the int32 and int64 bands), and over-long varint probes (every varint position of a record - record "
                      "length, timestamp delta, offset delta, key/value length, header count, header key/value length - x 17 encodings: "
                      "nine 0xff + 0x00/0x01 (legal boundary), 10th byte > 1, 11+ bytes, all-0xff runs, 0x80 padding, the int32 reader's "
                      "5-byte boundary; crafted record first / middle / last in an uncompressed batch with firstTimestamp <= cut-off < "
                      "maxTimestamp so that the PITR scanner runs scanRecord over it); each fed to iceberg/sql decodeSegment+parseIndex and to the PITR "
                      "scanner/collector/plan builder; non-trivial = passes the magic/size checks (reaches the batch loop); distinct = distinct ops")
    # valid segments to mutate: written by the real BuildSegment
    vrng = ck.rng.fork()
    vcases = [{"interval": vrng.choice([1, 2, 100]), "created": 1700000000123, "batches": S.gen_batches(vrng, nb=vrng.choice([1, 2, 3]), wide_ts=False)}
              for _ in range(8 if ck.quick() else 40)]
    built, _ = S.run_harness(ck, bins["root"], [S.build_op(c["interval"], c["created"], c["batches"]) for c in vcases], "v")
    valid = [S.unhex(S.kv(b)["seg"]) for b in built if b.startswith("built ")]
    valid = [v for v in valid if len(v) < 1500] or valid[:2]
    segs, idxs = gen_inputs(ck, n, valid)
    psegs, pidxs = overflow_probes(ck.rng.fork(), 10 if ck.quick() else 60)
    ck.count("overflow_band_probes", len(psegs) + len(pidxs))
    lsegs, lidxs = large_inputs()
    segs = [f() for _, f in FIXED] + overlap_probes() + lsegs + psegs + segs
    idxs = lidxs + pidxs + idxs
    triples = make_ops(segs, idxs, ck.rng.fork())
    vprobes = varint_probes(ck.rng.fork(), ck.quick())
    ck.count("overlong_varint_probes", len(vprobes))
    triples = varint_ops(vprobes) + triples
    import glob, os
    for fn in sorted(glob.glob(os.path.join(lib.REPLAYS, "C34", "*.json"))):     # corpus first
        try:
            rep = json.load(open(fn))
            triples.insert(0, (rep["target"], rep["op"], op_lens(rep["op"])))
        except Exception as e:
            ck.notes.append("corpus file %s unreadable: %r" % (fn, e))
    bounds = get_bounds(ck)
    if bounds is None:
        return
    ck.partial = ("proved for every byte string: no panic, every single allocation <= 112 bytes per input byte, and the SUM of all "
                  "make calls of one call <= a*len+b (decodeSegment 154, parseIndex 2, ParseIndex 1, collectRecoverableBatches 3; the "
                  "instrumented model is proved to return exactly the model's result); not covered by a theorem: what the Go "
                  "runtime adds to these source-level allocations (size-class rounding, amortised append growth, fixed-size "
                  "objects per record/entry, BuildSegment's output) - the monitor allows %d*(a*len+b) + %d*len + %d bytes as "
                  "measured with runtime.MemStats" % (RT_FACTOR, RT_PER_BYTE, RT_CONST))
    impl, allocs, mod = run_all(ck, bins, triples, "q")
    mod, mallocs = split_malloc(mod)
    worst = 0.0
    worst_kind = {}
    for (target, op, lens), line, a, m in zip(triples, impl, allocs, mallocs):
        cls = classify(line)
        kind = op.split(" ", 1)[0]
        ln = lens[0] + lens[1]
        ck.count("%s:%s" % (kind, cls))
        if ln:
            worst = max(worst, a / float(ln))
            kk = "%s:%s" % (target, kind)
            if ln >= 4096:
                worst_kind[kk] = max(worst_kind.get(kk, 0.0), a / float(ln))
        ck.case((target, op), nontrivial=(cls == "ok" or ln >= 61), sample={"target": target, "op": op[:160], "impl": line[:120], "alloc": a})
        ck.cov["traces_validated_against_impl"] += 1
        # the theorem instance, evaluated: bytes requested by the instrumented model <= a*len + b
        if m is not None and kind in BOUND_OF and kind != "scanrecs":
            ck.count("model_alloc_checked")
            if m > proved_bound(bounds, kind, lens):
                ck.broke("total-allocation theorem instance",
                         "instrumented model requests %d bytes for %s (%s) but the proved bound is %d" % (m, kind, lens, proved_bound(bounds, kind, lens)))
    ck.cov["distribution"]["max_alloc_bytes_per_input_byte"] = round(worst, 1)
    for kk, v in sorted(worst_kind.items()):
        ck.cov["distribution"]["max_alloc_per_input_byte_on_inputs_over_4KiB:" + kk] = round(v, 2)
    ck.cov["distribution"]["proved_alloc_bounds"] = " ".join("%s=%d*len+%d" % (k, v[0], v[1]) for k, v in sorted(bounds.items()))
    hits = evaluate(ck, triples, impl, allocs, bounds)
    for fp, what, target, op in hits:
        small = op
        if fp not in [v["fingerprint"] for v in ck.violations] and len(ck.violations) < 6:
            try:
                small = shrink_bytes(ck, bins, target, op, fp, bounds)
            except Exception:
                small = op
        ck.violation(fp, what, {"target": target, "op": small, "actual": what,
                                "expected": "ok or err, allocation <= %d*(proved a*len+b) + %d*len + %d" % (RT_FACTOR, RT_PER_BYTE, RT_CONST)})
    mod = [("skipped" if i < len(impl) and impl[i] == "skipped" else m) for i, m in enumerate(mod)]
    d = lib.first_diff(impl, mod)
    if d is not None:
        ck.cov["disagreements_checked"] += 1
        t = triples[d] if d < len(triples) else None
        ck.broke("correspondence model/implementation (%s %s)" % (t[0] if t else "?", t[1].split(" ")[0] if t else "?"),
                 "op   : @%s %s\nimpl : %s\nmodel: %s" % (t[0] if t else None, t[1][:600] if t else None,
                                                          impl[d][:300] if d < len(impl) else None, mod[d][:300] if d < len(mod) else None))
        if not hits:
            hunt(ck, bins, valid, bounds)


def get_bounds(ck):
    """The constants of KafVerif.C34.*_total_alloc, printed by the Lean driver from the definitions the theorems use."""
    try:
        out = S.run_model(ck, "C34", "root", ["allocbounds"], "bounds")
        b = parse_bounds(out[0]) if out else None
    except Exception as e:
        b, out = None, [repr(e)]
    if not b or any(k not in b for k in set(BOUND_OF.values()) | {"pidx"}):
        ck.broke("proved allocation constants", "the Lean driver did not print the constants of the total-allocation theorems: %r" % (out[:1],))
        return None
    return b


def hunt(ck, bins, valid, bounds):
    for rnd in range(5):
        segs, idxs = gen_inputs(ck, 300, valid)
        triples = make_ops(segs, idxs, ck.rng.fork())
        impl, allocs, _ = run_all(ck, bins, triples, "h%d" % rnd, model=False)
        ck.cov["evaluations"] += len(triples)
        hits = evaluate(ck, triples, impl, allocs, bounds)
        if hits:
            fp, what, target, op = hits[0]
            ck.violation(fp, what, {"target": target, "op": op, "actual": what})
            return


def replay(ck, path):
    rep = json.load(open(path))
    bins = ck.build_all()
    if bins is None:
        return
    bounds = get_bounds(ck)
    if bounds is None:
        return
    t = [(rep["target"], rep["op"], op_lens(rep["op"]))]
    impl, allocs, _ = run_all(ck, bins, t, "rp", model=False)
    print("  @%s %s\n  -> %s alloc=%d" % (t[0][0], t[0][1][:200], impl[0][:200], allocs[0]))
    ck.case(t[0], sample={"op": t[0][1][:200], "impl": impl[0][:200]})
    ck.cov["distinct_nontrivial"] = max(ck.cov["distinct_nontrivial"], 2)
    for fp, what, target, op in evaluate(ck, t, impl, allocs, bounds):
        ck.violation(fp, what, {"target": target, "op": op, "actual": what})
