"""C25 — Unhealthy S3 rejects produce and fetch with backpressure errors (s3_health.go + handler gate)."""
from checks import lib

PROPERTY = "C25"
LEAN_MODULES = ["KafVerif.Props.C25"]
OBLIGATIONS = [
    "KafVerif.C25.rating_mono",
    "KafVerif.C25.truncate_eq_filter",
    "KafVerif.C25.rating_window_only",
    "KafVerif.C25.empty_healthy",
    "KafVerif.C25.record_bounded",
    "KafVerif.C25.gate_produce",
    "KafVerif.C25.gate_fetch",
    "KafVerif.C25.gate_code_degraded_retriable",
    "KafVerif.C25.gate_code_unavailable_not_retriable",
    "KafVerif.C25.ack_saw_healthy",
    "KafVerif.C25.unhealthy_rest_rejected",
    "KafVerif.C25.once_per_request_violates",
]
BUILDS = {
    "h": ("root", "./cmd/verif_c25", ["C25"]),
    "b": ("root", "./cmd/broker", ["C25"]),
}
LEVEL_TEXT = ("Lean theorems over the model of S3HealthMonitor (window truncation, integer average, rational error rate, "
              "thresholds) and of the produce/fetch gate: monotone rating for every configuration, rating is a function of "
              "the in-window multiset, gate rejects every partition without append / without data; tied to the code by a "
              "differential run of the real monitor (virtual time by timestamp shifting, boundary-exact runs of "
              "truncateLocked/recomputeLocked) and of the real handler with forced ratings.")
TECHNIQUE = "Lean 4 proof over an executable model + differential correspondence + direct monitors (monotonicity pairs, window pairs, gate)"
ASSUMPTIONS = [
    "float64(k)/float64(n) >= threshold equals the rational comparison for n <= 512 and thresholds that are correctly "
    "rounded doubles of p/q with q <= 10^6 (argument in Model/S3Health.lean); generators stay inside this domain",
    "timestamps come from a monotonic clock, so the sample list is time-ordered (hypothesis `Sorted` of rating_window_only)",
    "retriable = franz-go kerr.IsRetriable (same table as the Java client)",
]
# Proposed known finding (coordinator: move into known_findings.json; until then it is honoured from here).
PROPOSED_KNOWN = [{
    "property": "C25", "status": "open",
    "fingerprint": "unavailable-answers-unknown-server-error-not-retriable",
    "what": "while S3 is rated unavailable produce/fetch partitions are rejected with UNKNOWN_SERVER_ERROR (-1), which Kafka "
            "clients treat as NOT retriable (degraded uses REQUEST_TIMED_OUT, retriable); cmd/broker tests "
            "TestProduceBackpressureUnavailable/TestFetchBackpressureUnavailable pin -1, so no fix commit",
}]

RANK = {"healthy": 0, "degraded": 1, "unavailable": 2}
CFGS = [
    # window latWarn latCrit ewn ewd ecn ecd max
    (60000, 500, 3000, 1, 5, 3, 5, 512),
    (0, 0, 0, 0, 1, 0, 1, 0),           # all defaults
    (10000, 100, 1000, 1, 2, 4, 5, 5),
    (30000, 1, 3600000, 1, 2, 4, 5, 3),
    (20000, 1000, 100, 3, 4, 1, 4, 8),  # warn > crit on both axes
    (10000, 50, 50, 1, 3, 1, 3, 1),
    (60000, 500, 3000, 1, 1, 1, 1, 4),  # thresholds 100 %
    (60000, 200, 400, 1, 512, 511, 512, 512),
    (60000, 500, 3000, 3, 10, 7, 10, 6),
]


def kv(line):
    return dict(x.split("=", 1) for x in line.split() if "=" in x)


def gen_seq(rng, nops):
    cfg = rng.choice(CFGS)
    ops = ["new " + " ".join(map(str, cfg))]
    lw = cfg[1] or 500
    lc = cfg[2] or 3000
    lats = [0, 1, lw - 1, lw, lw + 1, lc - 1, lc, lc + 1, 2 * lc + 7, 10, 99]
    for _ in range(nops):
        k = rng.below(10)
        if k < 6:
            ops.append("rec %d %d" % (max(0, rng.choice(lats)), 1 if rng.chance(2, 5) else 0))
        elif k < 8:
            ops.append("tick %d" % rng.choice([1000, 5000, 7000, 10000, 20000, 30000, 60000]))
        else:
            ops.append("state")
    return ops


def exact_line(now, cfg, samples):
    return "exact %d %s %s" % (now, " ".join(map(str, cfg)), " ".join("%d:%d:%d" % s for s in samples))


def gen_exact_group(rng):
    """A base history and derived ones: ('base'|'worse'|'window', op).  Timestamps sorted."""
    cfg = rng.choice(CFGS)
    W = cfg[0] or 60000
    lw = cfg[1] or 500
    lc = cfg[2] or 3000
    now = rng.choice([W, W + 5000, 3 * W])
    n = rng.range(1, 8)
    lats = [0, 1, lw - 1, lw, lw + 1, lc - 1, lc, lc + 1, 10]
    ts = sorted(rng.choice([now - W - 1, now - W, now - W + 1, now - 1, now, now - W // 2]) for _ in range(n))
    base = [(t, max(0, rng.choice(lats)), 1 if rng.chance(1, 3) else 0) for t in ts]
    out = [("base", exact_line(now, cfg, base))]
    # worse: same timestamps, every latency >= and every error flag >=
    worse = [(t, l + rng.choice([0, 0, 1, lw, lc]), 1 if (e or rng.chance(1, 3)) else 0) for (t, l, e) in base]
    out.append(("worse", exact_line(now, cfg, worse)))
    # window: extra samples that are already out of the window, with arbitrary content
    old = [(now - W - rng.choice([0, 1, 1000, W]), rng.choice([0, 10 * lc]), rng.below(2)) for _ in range(rng.range(1, 3))]
    out.append(("window", exact_line(now, cfg, sorted(old) + base)))
    return out


def run_pair(ck, binary, env, ops, driver_ops, tag):
    fn = ck.path("ops_%s.txt" % tag)
    open(fn, "w").write("\n".join(ops) + "\n")
    rc, out, err = ck.run_bin(binary, stdin_path=fn, env=env, timeout=300)
    impl = out.split("\n")[:-1]
    if rc != 0 or len(impl) != len(ops):
        ck.broke("implementation harness (%s) did not answer every op" % tag, "rc=%s answered=%d/%d %s" % (rc, len(impl), len(ops), err[-800:]))
        return None, None
    model = ck.lean_run("C25", fn)
    return impl, model


def report_diff(ck, what, ops, impl, model):
    d = lib.first_diff(impl, model)
    if d is not None:
        ck.cov["disagreements_checked"] += 1
        lo = max(0, d - 6)
        ck.broke("correspondence model/implementation (%s)" % what,
                 "ops %r\nimpl : %s\nmodel: %s" % (ops[lo:d + 1], impl[d] if d < len(impl) else None, model[d] if d < len(model) else None))
        return True
    return False


def run(ck):
    ck.known = list(ck.known) + [k for k in PROPOSED_KNOWN if k["fingerprint"] not in [x.get("fingerprint") for x in ck.known]]
    bins = ck.build_all()
    if bins is None:
        return
    ck.cov["rule"] = ("monitor: op sequences new/rec/tick/state over 9 threshold configurations (defaults, warn>crit, 100 %, 1/512) "
                      "with latencies on the threshold boundaries and window-multiple ticks; exact: histories with timestamps on "
                      "the window boundary, in triples base / pointwise-worse / plus-out-of-window samples; gate: 3 ratings x acks "
                      "{-1,0,1} through the real handler.  Non-trivial = a sequence that visits >= 2 ratings, an exact history with "
                      ">= 1 in-window sample, every gate op; distinct = distinct op texts")
    # ---- 1. monitor sequences
    nseq, nops = (60, 60) if ck.quick() else (600, 120)
    ops, bounds = [], []
    for _ in range(nseq):
        s = gen_seq(ck.rng.fork(), nops)
        bounds.append((len(ops), len(ops) + len(s)))
        ops += s
    impl, model = run_pair(ck, bins["h"], None, ops, None, "seq")
    if impl is None:
        return
    for a, b in bounds:
        states = set(kv(o).get("state") for o in impl[a:b] if "state=" in o)
        for o in impl[a:b]:
            if "state=" in o:
                ck.count("seq:" + kv(o)["state"])
        ck.case(tuple(ops[a:b]), nontrivial=len(states) >= 2, sample={"ops": ops[a:a + 6], "impl": impl[a:a + 6]})
        ck.cov["traces_validated_against_impl"] += 1
        # direct: n never exceeds MaxSamples
        mx = int(ops[a].split()[8]) or 512
        for op, o in zip(ops[a:b], impl[a:b]):
            if "n=" in o and int(kv(o)["n"]) > mx:
                ck.violation("more-than-max-samples", "the monitor keeps %s samples with MaxSamples=%d" % (kv(o)["n"], mx), {"ops": ops[a:b], "actual": o})
    report_diff(ck, "S3HealthMonitor sequences", ops, impl, model)
    # ---- 2. exact groups with the two relational monitors
    ngroups = 800 if ck.quick() else 8000
    eops, kinds = [], []
    for _ in range(ngroups):
        for kind, op in gen_exact_group(ck.rng):
            kinds.append(kind)
            eops.append(op)
    impl, model = run_pair(ck, bins["h"], None, eops, None, "exact")
    if impl is None:
        return
    for i in range(0, len(eops), 3):
        b, w, x = kv(impl[i]), kv(impl[i + 1]), kv(impl[i + 2])
        ck.count("exact:" + b["state"])
        ck.case(eops[i], nontrivial=int(b["n"]) >= 1, sample={"op": eops[i][:160], "impl": impl[i]} if int(b["n"]) >= 2 else None)
        ck.cov["evaluations"] += 2
        if RANK[w["state"]] < RANK[b["state"]]:
            ck.violation("rating-not-monotone", "pointwise higher latencies / more errors gave a BETTER rating (%s -> %s)" % (b["state"], w["state"]),
                         {"ops": [eops[i], eops[i + 1]], "actual": [impl[i], impl[i + 1]]})
        if (x["state"], x["n"], x["avg"], x["k"]) != (b["state"], b["n"], b["avg"], b["k"]):
            ck.violation("rating-depends-on-out-of-window-samples", "samples older than the window changed the rating/aggregates",
                         {"ops": [eops[i], eops[i + 2]], "actual": [impl[i], impl[i + 2]]})
    report_diff(ck, "truncateLocked/recomputeLocked exact histories", eops, impl, model)
    # ---- 3. the handler gate
    gops = ["gate %s %d" % (st, acks) for st in ("healthy", "degraded", "unavailable") for acks in (-1, 1, 0)]
    # one multi-partition produce that starts healthy and crosses the threshold part-way (upload of partition failAt fails)
    gops += ["cross %d %d %d" % (n, at, acks) for n in (2, 3, 4) for at in range(n + 1) for acks in (-1, 1)]
    impl, model = run_pair(ck, bins["b"], {"VERIF_HARNESS": "C25"}, gops, None, "gate")
    if impl is None:
        return
    for op, o in zip(gops, impl):
        if op.startswith("cross"):
            _, n, at, acks = op.split()
            n, at = int(n), int(at)
            ck.count("cross:" + ("crossing" if at < n else "no-failure"))
            ck.case(op, sample={"op": op, "impl": o} if at == 1 else None)
            if not o.startswith("cross "):
                ck.broke("gate harness failed", op + " -> " + o)
                continue
            f = kv(o)
            codes, app = f["codes"].split(","), f["appended"].split(",")
            if at < n and f["final"] == "healthy":
                ck.broke("cross scenario did not leave healthy", op + " -> " + o)
            for i in range(at + 1, n):
                if codes[i] == "0" or app[i] == "1":
                    ck.violation("produce-acknowledged-after-rating-left-healthy",
                                 "one produce over %d partitions: the upload of partition %d failed and S3 was rated %s, yet partition %d of the "
                                 "same request was %s" % (n, at, f["final"], i, "acknowledged (code 0)" if codes[i] == "0" else "appended"),
                                 {"ops": [op], "actual": o})
                    break
            continue
        st = op.split()[1]
        ck.count("gate:" + st)
        ck.case(op, sample={"op": op, "impl": o})
        if not o.startswith("gate "):
            ck.broke("gate harness failed", op + " -> " + o)
            continue
        f = kv(o)
        if st != "healthy":
            if f["appended"] != "false":
                ck.violation("produce-accepted-while-unhealthy", "a produce changed the log/store/S3 while S3 was rated " + st, {"ops": [op], "actual": o})
            if f["records"] != "0" or f["fetch"] in ("0", "none"):
                ck.violation("fetch-served-while-unhealthy", "a fetch returned data or no error while S3 was rated " + st, {"ops": [op], "actual": o})
            if f["produce"] in ("0", "none") or "," in f["produce"]:
                ck.violation("produce-not-rejected-per-partition", "not every produce partition got the backpressure error while S3 was rated " + st, {"ops": [op], "actual": o})
            if f["retriable"] != "all":
                fp = "unavailable-answers-unknown-server-error-not-retriable" if (st == "unavailable" and f["fetch"] == "-1") else "backpressure-code-not-retriable"
                ck.violation(fp, "rated %s: partitions are rejected with a code Kafka clients do not retry (produce=%s fetch=%s)" % (st, f["produce"], f["fetch"]),
                             {"ops": [op], "actual": o})
        else:
            if f["appended"] != "true" or f["records"] != "1":
                ck.violation("healthy-path-broken", "healthy S3 but produce/fetch did not go through", {"ops": [op], "actual": o})
    report_diff(ck, "handler S3-health gate", gops, impl, model)


def replay(ck, path):
    import json
    ck.known = list(ck.known) + PROPOSED_KNOWN
    rep = json.load(open(path))
    bins = ck.build_all()
    if bins is None:
        return
    ops = rep["ops"]
    gate = ops[0].startswith("gate") or ops[0].startswith("cross")
    impl, model = run_pair(ck, bins["b" if gate else "h"], {"VERIF_HARNESS": "C25"} if gate else None, ops, None, "replay")
    if impl is None:
        return
    for op, o, m in zip(ops, impl, model):
        print("  %s\n    impl : %s\n    model: %s" % (op[:150], o, m))
        ck.case(op, sample={"op": op[:150], "impl": o})
    ck.cov["distinct_nontrivial"] = max(ck.cov["distinct_nontrivial"], 2)
    if gate and ops[0].startswith("cross"):
        for op, o, m in zip(ops, impl, model):
            if o != m:
                ck.violation(rep.get("fingerprint", "produce-acknowledged-after-rating-left-healthy"), rep.get("what", o), {"ops": ops, "actual": o})
    elif gate:
        for op, o in zip(ops, impl):
            f = kv(o)
            if op.split()[1] != "healthy" and (f.get("retriable") != "all" or f.get("appended") != "false" or f.get("records") != "0"):
                ck.violation(rep.get("fingerprint", "gate"), rep.get("what", "gate violated"), {"ops": ops, "actual": o})
    elif rep.get("fingerprint") == "rating-not-monotone" and len(impl) == 2:
        if RANK[kv(impl[1])["state"]] < RANK[kv(impl[0])["state"]]:
            ck.violation("rating-not-monotone", rep.get("what", ""), {"ops": ops, "actual": impl})
    elif lib.first_diff(impl, model) is not None:
        ck.broke("correspondence on replay", "%r\n%r" % (impl, model))
