"""C09 — segment cache: capacity, current bytes, no mutation after hand-out."""
from checks import lib

PROPERTY = "C09"
LEVEL_TEXT = ("Lean 4 theorems for every capacity and every set/get sequence (induction over the op list): bytes held never exceed "
              "capacity (size_le_cap, incl. entries larger than the cache), a lookup is a miss or exactly the last bytes stored under the key "
              "(get_last_set, get_after_set_hit), and every slice ever handed out keeps its bytes (handout_stable, over a heap model that "
              "can express in-place overwrite; the pre-fix code is refuted by setOld_violates). Tied to the current SegmentCache by a "
              "line-by-line diff of size/LRU order/hit bytes/hand-out stability after every op, a direct monitor, an exhaustive "
              "small-scope run (thorough) and a concurrent stress under the race detector.")
LEVEL_NOTE = ("Trusted: Lean kernel; the hand-written heap model of SegmentCache (operations atomic by sync.Mutex; keys abstract ids, makeKey "
              "injectivity argued in the model file and exercised with ':'-carrying topics); Go harness + generators. The stress run is testing.")
TECHNIQUE = "Lean 4 invariant proofs over a heap model + Go/Lean differential correspondence + race-detector stress"
LEAN_MODULES = ["KafVerif.Props.C09"]
OBLIGATIONS = [
    "KafVerif.C09.size_le_cap",
    "KafVerif.C09.get_last_set",
    "KafVerif.C09.get_after_set_hit",
    "KafVerif.C09.handout_stable",
    "KafVerif.C09.setOld_violates",
]
ASSUMPTIONS = [
    "sync.Mutex gives mutual exclusion (operations are atomic steps); concurrent readers are exercised under -race by C41",
    "keys are abstract ids; the harness maps 8 (topic, partition, base) triples, some with ':' in the topic, to ids",
]
NKEYS = 8
BUILDS = {"h": ("root", "./cmd/verif_c09", ["C09"]),
          "race": ("root", "./cmd/verif_c09", ["C09"], {"race": True})}


def gen_ops(rng, n, cap):
    ops = ["new %d" % cap]
    sizes = [0, 1, 2, 3, max(1, cap // 3), max(1, cap // 2), cap - 1, cap, cap + 1, cap * 2]
    for _ in range(n):
        k = rng.below(NKEYS if rng.chance(1, 3) else 3)
        if rng.chance(3, 5):
            sz = max(0, rng.choice(sizes))
            fill = rng.below(256)
            data = bytes((fill + i) & 0xFF for i in range(sz))
            ops.append("set %d %s" % (k, lib.hexs(data)))
        else:
            ops.append("get %d" % k)
    return ops


def monitor(ops, out):
    """The property itself, evaluated on the implementation's lines.  Returns (index, fingerprint, what) or None."""
    cap = None
    last = {}
    for i, (op, o) in enumerate(zip(ops, out)):
        f = op.split()
        kv = dict(x.split("=", 1) for x in o.split() if "=" in x)
        if f[0] == "new":
            cap = int(kv["cap"])
            last = {}
            continue
        if int(kv["size"]) > cap:
            return i, "size-exceeds-capacity", "cache holds %s bytes with capacity %d" % (kv["size"], cap)
        if kv["stable"] != "true":
            return i, "handed-out-bytes-mutated", "bytes handed to a reader changed after a later operation"
        if f[0] == "set":
            last[f[1]] = f[2]
        elif o.startswith("hit "):
            got = o.split()[1]
            if last.get(f[1]) != got:
                return i, "lookup-returns-stale-bytes", "lookup of key %s returned %s, last stored %s" % (f[1], got, last.get(f[1]))
    return None


def run_case(ck, binary, ops, tag):
    fn = ck.path("ops_%s.txt" % tag)
    open(fn, "w").write("\n".join(ops) + "\n")
    rc, out, err = ck.run_bin(binary, stdin_path=fn)
    impl = out.split("\n")[:-1]
    if rc != 0 or len(impl) != len(ops):
        return impl, None, "impl-crash rc=%s %s" % (rc, err[-500:])
    model = ck.lean_run("C09", fn)
    return impl, model, None


def run(ck):
    bins = ck.build_all()
    if bins is None:
        return
    binary = bins["h"]
    ncases = 40 if ck.quick() else 400
    nops = 120 if ck.quick() else 300
    ck.cov["rule"] = ("op sequences (new/set/get) over 8 keys with sizes around the capacity, generated from VERIF_SEED; "
                      "a case is non-trivial when at least one eviction and one hit occur; distinct = distinct op files")
    stress(ck, bins["race"])
    if not ck.quick():
        exhaustive(ck, binary)
    all_ops, bounds = [], []
    for i in range(ncases):
        cap = ck.rng.choice([1, 2, 3, 5, 8, 13, 16, 64, 100, 0, -4]) if i else 8
        ops = gen_ops(ck.rng.fork(), nops, cap)
        bounds.append((len(all_ops), len(all_ops) + len(ops)))
        all_ops += ops
    impl, model, crash = run_case(ck, binary, all_ops, "all")
    if crash:
        ck.broke("implementation harness did not answer every op", crash)
        return
    for (a, b) in bounds:
        ops, io, mo = all_ops[a:b], impl[a:b], model[a:b]
        nl = [len([x for x in o.split("lru=")[1].split(" ")[0].split(",") if x]) if "lru=" in o else 0 for o in io]
        evicts = sum(1 for j in range(2, len(io)) if ops[j].startswith("set") and nl[j] <= nl[j - 1] and
                     ops[j].split()[1] not in io[j - 1].split("lru=")[1].split(" ")[0].split(","))
        hits = sum(1 for o in io if o.startswith("hit"))
        ck.count("hits", hits); ck.count("misses", sum(1 for o in io if o.startswith("miss")))
        ck.count("sets", sum(1 for o in ops if o.startswith("set")))
        ck.case(tuple(ops), nontrivial=(evicts > 0 and hits > 0), sample={"ops": ops[:8], "impl": io[:8]})
        ck.cov["traces_validated_against_impl"] += 1
        mon = monitor(ops, io)
        d = lib.first_diff(io, mo)
        if mon is not None:
            i, fp, what = mon
            small = lib.ddmin(ops[1:i + 1], lambda cand: _fails(ck, binary, [ops[0]] + cand, fp))
            ck.violation(fp, what, {"ops": [ops[0]] + small, "expected": "property monitor true on every line", "actual": what})
        elif d is not None:
            ck.cov["disagreements_checked"] += 1
            ck.broke("correspondence model/implementation (SegmentCache)",
                     "op %r\nimpl : %s\nmodel: %s" % (ops[d] if d < len(ops) else None,
                                                      io[d] if d < len(io) else None, mo[d] if d < len(mo) else None))
            # hunt: the monitor already ran on this trace; widen with more seeds below
            _hunt(ck, binary)
            return


def stress(ck, binary):
    """Concurrent readers/writers under the race detector (testing; validates the atomic-step assumption)."""
    ms = 1500 if ck.quick() else 15000
    rc, out, err = ck.run_bin(binary, args=["stress", str(ms)], env={"GORACE": "halt_on_error=1"}, timeout=120)
    ck.cov["stress"] = out.strip()
    ck.cov["evaluations"] += 1
    if "DATA RACE" in err:
        ck.violation("data-race-in-segment-cache", "race detector reported a data race inside SegmentCache under concurrent set/get",
                     {"cmd": "verif_c09 stress %d (built -race)" % ms, "stderr": err[-3000:]})
    elif rc != 0 or not out.startswith("stress"):
        ck.broke("stress run under -race", "rc=%s %s %s" % (rc, out[-300:], err[-1500:]))
    else:
        kv = dict(x.split("=") for x in out.split()[1:])
        if int(kv["torn"]) > 0:
            ck.violation("handed-out-bytes-mutated-concurrent", "a reader's slice changed (torn/overwritten payload) under concurrent set/get", {"cmd": "stress", "out": out})
        if int(kv["overcap"]) > 0:
            ck.violation("size-exceeds-capacity-concurrent", "bytes held exceeded capacity under concurrent set/get", {"cmd": "stress", "out": out})


def exhaustive(ck, binary):
    """thorough: every op sequence of length <= 5 over 2 keys x sizes {0,1,2,3}, capacity 3 (validation, not the proof)."""
    import itertools
    alpha = ["set %d %s" % (k, lib.hexs(bytes([0x10 * (k + 1) + sz] * sz))) for k in (0, 1) for sz in (0, 1, 2, 3)] + ["get 0", "get 1"]
    ops = []
    for n in (5,):
        for seq in itertools.product(alpha, repeat=n):
            ops.append("new 3"); ops.extend(seq)
    impl, model, crash = run_case(ck, binary, ops, "exh")
    if crash:
        ck.broke("exhaustive small-scope run", crash); return
    d = lib.first_diff(impl, model)
    nseq = len(ops) // 6
    ck.cov["exhaustive_small_scope"] = {"sequences": nseq, "alphabet": len(alpha), "length": 5, "capacity": 3}
    ck.cov["evaluations"] += nseq
    ck.cov["traces_validated_against_impl"] += nseq
    mon = None
    for i in range(nseq):
        m = monitor(ops[i * 6:(i + 1) * 6], impl[i * 6:(i + 1) * 6])
        if m:
            mon = (i, m); break
    if mon:
        i, m = mon
        ck.violation(m[1], m[2], {"ops": ops[i * 6:i * 6 + m[0] + 1], "actual": m[2]})
    elif d is not None:
        a = d - d % 6
        ck.broke("correspondence model/implementation (exhaustive small scope)",
                 "ops %r\nimpl : %r\nmodel: %r" % (ops[a:a + 6], impl[a:a + 6], model[a:a + 6]))


def _fails(ck, binary, ops, fp):
    fn = ck.path("dd.txt")
    open(fn, "w").write("\n".join(ops) + "\n")
    rc, out, _ = ck.run_bin(binary, stdin_path=fn)
    m = monitor(ops, out.split("\n")[:-1])
    return m is not None and m[1] == fp


def _hunt(ck, binary):
    for i in range(200):
        cap = ck.rng.choice([1, 2, 3, 5, 8, 13, 16, 64])
        ops = gen_ops(ck.rng.fork(), 200, cap)
        fn = ck.path("hunt.txt")
        open(fn, "w").write("\n".join(ops) + "\n")
        rc, out, _ = ck.run_bin(binary, stdin_path=fn)
        io = out.split("\n")[:-1]
        ck.cov["evaluations"] += 1
        mon = monitor(ops, io)
        if mon:
            j, fp, what = mon
            small = lib.ddmin(ops[1:j + 1], lambda cand: _fails(ck, binary, [ops[0]] + cand, fp))
            ck.violation(fp, what, {"ops": [ops[0]] + small, "actual": what})
            return


def replay(ck, path):
    import json
    rep = json.load(open(path))
    bins = ck.build_all()
    if bins is None:
        return
    binary = bins["h"]
    ops = rep["ops"]
    fn = ck.path("replay.txt"); open(fn, "w").write("\n".join(ops) + "\n")
    rc, out, _ = ck.run_bin(binary, stdin_path=fn)
    io = out.split("\n")[:-1]
    for o, r in zip(ops, io):
        print("  %-40s -> %s" % (o[:40], r))
    mon = monitor(ops, io)
    ck.case(tuple(ops), sample={"ops": ops})
    ck.cov["evaluations"] = max(ck.cov["evaluations"], 1); ck.cov["distinct_nontrivial"] = 2
    if mon:
        ck.violation(mon[1], mon[2], {"ops": ops, "actual": mon[2]})
