"""Lower seam "real S3 client" shared by C03, C06 and C07: the READ side of the S3 clients of the repository driven over
ONE chunking / faulting fake of the S3 API (harness/*/zz_verif_c07_s3chunks_fake.go: GetObject bodies in several Reads,
Content-Length set / unset / over-reported, transfers cut mid-body, range requests; ListObjectsV2 in pages with
continuation tokens, short and empty truncated pages, > 1000 keys).

 (a) root module: the real `awsS3Client` (DownloadSegment / DownloadIndex / ListSegments) and the real `PartitionLog`
     (Read, RestoreFromS3 + AppendBatch) over that client — harness/C03s3/root/cmd/verif_c03s3;
     C03 uses the get / read ops, C06 the list / restore ops;
 (b) iceberg and sql processors: the real `s3Decoder.Decode` (getObject + decodeSegment) — harness/C07/{iceberg,sql}/
     cmd/verif_c07s3 + internal/decoder/zz_verif_c07_s3chunks.go.

Lean: Model/S3Chunks.lean, Lemmas/S3Chunks.lean, Props/S3Chunks.lean (theorems in the namespaces of the three
properties), driver Driver/C03S3.lean (get / list / fetch lines are diffed against the implementation's)."""
import hashlib
import os
import struct

from checks import lib

LEAN_MODULE = "KafVerif.Props.S3Chunks"
OBLIGATIONS_C03 = [
    "KafVerif.C03.readAll_ok_is_whole_body",
    "KafVerif.C03.download_chunked_ok_is_stored",
    "KafVerif.C03.download_range_is_contiguous",
    "KafVerif.C03.download_keeps_endpoint",
    "KafVerif.C03.download_complete_transfer_ok",
    "KafVerif.C03.download_readfull_tolerant_returns_filler",
]
OBLIGATIONS_C06 = [
    "KafVerif.C06.list_complete_or_bucket_missing",
    "KafVerif.C06.list_is_complete",
    "KafVerif.C06.list_keys_are_the_objects",
    "KafVerif.C06.list_short_stop_incomplete",
]
OBLIGATIONS_C07 = [
    "KafVerif.C07.fetch_ok_is_stored",
    "KafVerif.C07.s3_decode_exact_or_error",
    "KafVerif.C07.fetch_complete_transfer_ok",
    "KafVerif.C07.fetch_readatleast_returns_prefix",
]
ROOT_BUILD = ("root", "./cmd/verif_c03s3", ["C03s3"])
DEC_BUILDS = {"iceberg_s3": ("iceberg", "./cmd/verif_c07s3", ["C07"]), "sql_s3": ("sql", "./cmd/verif_c07s3", ["C07"])}
FAKE = "zz_verif_c07_s3chunks_fake.go"
FAKE_COPIES = [os.path.join(lib.HARNESS, "C03s3", "root", "cmd", "verif_c03s3", FAKE),
               os.path.join(lib.HARNESS, "C07", "iceberg", "cmd", "verif_c07s3", FAKE),
               os.path.join(lib.HARNESS, "C07", "sql", "cmd", "verif_c07s3", FAKE)]
ASSUMPTION = ("lower seam (real S3 clients over a fake of the S3 API that answers like HTTP: GetObject bodies arrive in several Reads, a transfer that "
              "ends before the announced Content-Length ends with io.ErrUnexpectedEOF or a connection error, never with a clean EOF; ListObjectsV2 "
              "answers pages of <= 1000 keys, possibly short or empty, with IsTruncated + NextContinuationToken whenever keys remain; the endpoint is not "
              "written to while it is listed): the SDK's HTTP / retry / checksum middleware below the `api` interface is not executed")
SEGKEY = "default/orders/0/segment-%020d"


def fake_copies_identical(ck):
    hs = set()
    for fn in FAKE_COPIES:
        try:
            hs.add(hashlib.sha1(open(fn, "rb").read()).hexdigest())
        except OSError as e:
            ck.broke("S3 fake copy missing", repr(e))
            return False
    if len(hs) != 1:
        ck.broke("the three copies of the S3 fake differ", "\n".join(FAKE_COPIES))
        return False
    return True


# ----------------------------------------------------------------------------- tokens
def chunk_specs(r, L):
    """chunkings of a body of L bytes (ch=… parts), boundary sizes first"""
    out = ["", "ch=" + "/".join(["1"] * max(1, min(L, 70))), "ch=47", "ch=48", "ch=49", "ch=60/1", "ch=0/3/0/5", "ch=511/1", "ch=512", "ch=513/7"]
    if L > 1:
        out += ["ch=%d" % (L - 1), "ch=%d/%d" % (L // 2, L - L // 2), "ch=%d" % (L + 5)]
    out.append("ch=" + "/".join(str(r.choice([1, 2, 3, 7, 16, 48, 100])) for _ in range(r.range(1, 12))))
    return out


def tok(parts):
    parts = [p for p in parts if p]
    return "b:" + ":".join(parts) if parts else "."


def complete(token, L):
    """does the body of this GET token deliver all L selected bytes and end with EOF?"""
    if token in (".", "-", "b"):
        return True
    if not token.startswith("b:"):
        return False
    for p in token.split(":")[1:]:
        if p.startswith("cl=+"):
            return False
        if p.startswith("cut=") and int(p[4:-1]) < L:
            return False
    return True


def get_tokens(r, L, n_random=3):
    """GET tokens for a selection of L bytes: complete chunked bodies, cut bodies, over-announced length, API errors"""
    cs = chunk_specs(r, L)
    out = ["."]
    for i, c in enumerate(cs):
        out.append(tok(["cl=none" if i % 3 == 1 else "", c, "ew" if i % 2 else ""]))
    cuts = sorted(set(j for j in (0, 1, 47, 48, 49, L // 2, L - 1) if 0 <= j < L))
    for i, j in enumerate(cuts):
        out.append(tok([r.choice(cs), "cut=%d%s" % (j, "ur"[i % 2]), "ew" if i % 3 == 0 else ""]))
        out.append(tok(["cut=%du" % j]))
    for k in (1, 16, 1000):
        out.append(tok(["cl=+%d" % k, r.choice(cs)]))
    for _ in range(n_random):
        parts = [r.choice(["", "", "cl=none"]), r.choice(cs)]
        if r.chance(1, 2) and L > 0:
            parts.append("cut=%d%s" % (r.below(L), r.choice("ur")))
        if r.chance(1, 3):
            parts.append("ew")
        out.append(tok(parts))
    out += ["slow", "nokey"]
    return out


def mk_batch(lod=0, count=1, payload=9, marker=1):
    n = 61 + payload
    b = bytearray(n)
    struct.pack_into(">i", b, 8, n - 12)
    b[16] = 2
    struct.pack_into(">i", b, 23, lod)
    b[14] = marker & 0xFF
    struct.pack_into(">i", b, 57, count)
    for i in range(61, n):
        b[i] = ((marker * 7 + i) % 255) + 1          # never 0x00: filler bytes are recognisable
    return bytes(b)


def nz_bytes(r, n):
    return bytes(r.range(1, 255) for _ in range(n))


# ----------------------------------------------------------------------------- root ops
def root_ops(ck, which):
    """op lines for harness/C03s3/root/cmd/verif_c03s3.  which = "C03": get / read; "C06": list / restore."""
    r = ck.rng.fork()
    quick = ck.quick()
    ops = []
    if which == "C03":
        sizes = [0, 1, 12, 100, 600, 1500] if quick else [0, 1, 2, 12, 47, 48, 49, 100, 511, 512, 513, 600, 1500, 5000]
        for w, L in enumerate(sizes):
            ops.append("reset 1")
            key = "p/%d/segment-%020d.kfs" % (w, w)
            data = nz_bytes(r, L)
            ops.append("obj %s %s" % (key, data.hex() or "-"))
            ops.append("obj %s %s" % (key[:-4] + ".index", nz_bytes(r, 28).hex()))
            ranges = ["-", "0:0", "0:%d" % max(L - 1, 0), "3:10", "%d:%d" % (max(L - 5, 0), L + 10), "%d:%d" % (L, L + 1), "5:2",
                      "%d:%d" % (r.below(L + 1), r.below(L + 20))]
            for rng in ranges:
                if rng == "-":
                    sel = L
                else:
                    a, b = map(int, rng.split(":"))
                    sel = 0 if (a > b or a >= L) else min(b, L - 1) - a + 1
                toks = get_tokens(r, sel, 2)
                if rng not in ("-", ranges[2]):
                    toks = [toks[0]] + [r.choice(toks) for _ in range(6)]
                for t in toks:
                    ops.append("get seg %s %s %s" % (key, rng, t))
            for t in get_tokens(r, 28, 1)[:14] + ["nf", "nokey", "slow"]:
                ops.append("get idx %s - %s" % (key[:-4] + ".index", t))
            ops.append("get idx p/%d/none.index - -" % w)
            ops.append("get seg p/%d/none.kfs - -" % w)
        # PartitionLog.Read over the client
        for w in range(3 if quick else 12):
            ops.append("reset 1")
            base = 0
            nseg = r.range(2, 3)
            for s in range(nseg):
                bs = []
                for _ in range(r.range(1, 3)):
                    cnt = r.choice([1, 2, 3])
                    bs.append(mk_batch(lod=cnt - 1, count=cnt, payload=r.choice([1, 9, 40]), marker=r.range(1, 250)))
                ops.append("mkseg %d %s" % (base, " ".join(b.hex() for b in bs)))
                base += sum(struct.unpack(">i", b[23:27])[0] + 1 for b in bs)
            ops.append("open 0 %d" % (w % 2))
            for off in range(base + 1):
                for mb in (1000000, r.choice([61, 80, 200])):
                    # cut / over-announced answers first: on the full-download path a wrong result would also be cached
                    for t in [tok(["cut=%d%s" % (r.choice([0, 1, 20, 33, 60, 100, 150]), r.choice("ur")), r.choice(["", "ch=16"])]),
                              tok(["cl=+%d" % r.choice([1, 48, 500])]),
                              tok([r.choice(["ch=1/1/1/1/1", "ch=48", "ch=7/9/100", "ch=31/0/2"]), r.choice(["", "cl=none"]), r.choice(["", "ew"])]),
                              ".", "."]:
                        ops.append("read %d %d %s" % (off, mb, t))
    else:
        # ListSegments under paging
        small = [0, 1, 2, 3, 5, 7]
        scripts = ["-", "p1", "p2", "p1,p1,p1,p1,p1,p1,p1,p1", "p0,p1", "p0,p0,p2", "p999", "p3,p0,p0,p1", "p2,slow", "slow", "p1,nokey",
                   "nsb", "p1,nf", "p1000,p1", ".,.", "p4"]
        for n in small:
            for b in (1, 0) if n == 0 else (1,):
                ops.append("reset %d" % b)
                if n:
                    ops.append("objs q/ %d %d 3" % (r.choice([0, 5, 98]), n))
                    ops.append("obj q/zzz-last %s" % nz_bytes(r, 2).hex())
                    ops.append("obj other/segment-00000000000000000000.kfs 01")
                    ops.append("obj a/first 0102")
                for sc in scripts:
                    ops.append("list q/ %s" % sc)
                for pfx in ("q/segment-0000000000000000000", "zz/", "other/", "q", "a/first"):
                    ops.append("list %s %s" % (pfx, r.choice(scripts[:9])))
        for n in ([1001, 2100] if quick else [999, 1000, 1001, 1999, 2000, 2100, 3001]):
            ops.append("reset 1")
            ops.append("objs r/ 0 %d 1" % n)
            ops.append("obj s/x 01")
            for sc in ["-", "p999", "p1000,p0", "p999,p0,.,p3", "p1,p1,p1", "p500,p499,p1,.", ".,slow", "p%d" % r.range(1, 998)]:
                ops.append("list r/ %s" % sc)
        # RestoreFromS3 + AppendBatch over the client
        for w in range(4 if quick else 20):
            ops.append("reset 1")
            base, bases = 0, []
            for s in range(r.range(2, 5)):
                bs = [mk_batch(lod=c - 1, count=c, payload=9, marker=r.range(1, 250)) for c in [r.choice([1, 2]) for _ in range(r.range(1, 2))]]
                ops.append("mkseg %d %s" % (base, " ".join(b.hex() for b in bs)))
                bases.append(base)
                base += sum(struct.unpack(">i", b[23:27])[0] + 1 for b in bs)
            nkeys = 2 * len(bases)
            lscripts = ["-", "p1", "p2,p1", "p3", "p1,p0,p2", "p%d,p1" % (nkeys - 1), "p%d" % (nkeys - 2), "p2,slow", "p0,p0,p1",
                        ",".join(["p1"] * nkeys)]
            gscripts = ["-", "b:ch=3/3,b:ch=1/1:cl=none,b:ch=5:ew", "b:ch=15/1,.,b:cut=3u", ".,.,b:cl=+4", "b:ch=16"]
            for start in sorted(set([0, bases[-1], base, bases[len(bases) // 2]])):
                for ls in lscripts:
                    ops.append("restore %d %s %s %s" % (start, ls, r.choice(gscripts) if r.chance(1, 3) else "-", mk_batch(marker=251).hex()))
                for gs in gscripts:
                    ops.append("restore %d - %s %s" % (start, gs, mk_batch(marker=252).hex()))
    return ops


def kv(line):
    return dict(x.split("=", 1) for x in line.split()[1:] if "=" in x)


def hexb(h):
    return b"" if h in ("-", "none") else bytes.fromhex(h)


def digest(keys):
    """keys: sorted list of (key, size) -> the harness' listing digest"""
    if not keys:
        return "-"
    if len(keys) <= 12:
        return ",".join("%s:%d" % k for k in keys)
    inc = all(keys[i][0] < keys[i + 1][0] for i in range(len(keys) - 1))
    return "%s..%s;inc=%s;bytes=%d" % (keys[0][0], keys[-1][0], "true" if inc else "false", sum(k[1] for k in keys))


def script_faulty(sc, kind):
    """does a script contain an injected failure (API error / cut or over-announced body)?"""
    if sc == "-":
        return False
    for t in sc.split(","):
        if t == "." or (kind == "LIST" and t.startswith("p") and t[1:].isdigit()):
            continue
        if kind == "GET" and (t == "b" or t.startswith("b:")) and complete(t, 1 << 40) and "cut=" not in t:
            continue
        return True
    return False


def root_monitor(ops, lines):
    """Independent of the model; ground truth = what was put into the endpoint.  Yields (index, fingerprint, what)."""
    objs, bucket = {}, True
    log = []          # stored batches of the partition: (base, last, bytes as stored)
    for i, (op, line) in enumerate(zip(ops, lines)):
        f = op.split()
        if line.endswith(" panic") or line == "bad-op" or line.endswith("bad-batch") or line.endswith("append-err"):
            yield i, "s3-client-harness-op-failed", "%r -> %s" % (op[:100], line)
            continue
        d = kv(line)
        if f[0] == "reset":
            objs, bucket, log = {}, f[1] == "1", []
        elif f[0] == "obj":
            objs[f[1]] = hexb(f[2])
        elif f[0] == "objs":
            for k in range(int(f[2]), int(f[2]) + int(f[3])):
                objs["%ssegment-%020d.kfs" % (f[1], k)] = bytes([k & 0xFF]) * int(f[4])
        elif f[0] == "get":
            have = objs.get(f[2]) if bucket else None
            sel = have
            if have is not None and f[3] != "-":
                a, b = map(int, f[3].split(":"))
                sel = None if (a < 0 or a > b or a >= len(have)) else have[a:b + 1]
            if d["ret"] == "nil":
                got = hexb(d["data"])
                if sel is None or got != sel:
                    yield i, "download-returns-bytes-not-in-object", (
                        "%s(%s, range %s) under GetObject answer %s returned nil with %d bytes %s; the object's bytes for the range are %s"
                        % ("DownloadSegment" if f[1] == "seg" else "DownloadIndex", f[2], f[3], f[4], len(got), d["data"][:80],
                           "absent" if sel is None else "%d bytes %s" % (len(sel), sel.hex()[:80])))
            elif sel is not None and complete(f[4], len(sel)):
                yield i, "download-of-stored-object-failed", "%s failed although the body delivered all %d bytes (%s)" % (op[:90], len(sel), line[:80])
            if f[1] == "idx" and have is None and bucket and f[4] in ("-", ".", "nokey", "nf") and d["ret"] != "notfound":
                yield i, "missing-index-not-reported-as-not-found", "%s -> %s" % (op[:90], line[:80])
        elif f[0] == "list":
            want = sorted((k, len(v)) for k, v in objs.items() if k.startswith(f[1]))
            toks = [] if f[2] == "-" else f[2].split(",")
            bm = (not bucket) or any(t in ("nsb", "nf") for t in toks)
            if d["ret"] == "nil":
                if (d["n"], d["keys"]) != (str(len(want)), digest(want)) and not (bm and d["n"] == "0"):
                    yield i, "listing-incomplete", ("ListSegments(%s) under paging %s returned %s keys (%s), the bucket holds %d (%s); API calls: %s"
                                                    % (f[1], f[2], d["n"], d["keys"][:120], len(want), digest(want)[:120], d["calls"]))
            elif not script_faulty(f[2], "LIST") and bucket:
                yield i, "listing-fails-without-fault", "%s -> %s" % (op[:90], line[:120])
            if not bucket and d["ret"] == "nil":
                bucket = True          # EnsureBucket created it
        elif f[0] == "mkseg":
            base = int(f[1])
            if d.get("ret") != "nil":
                yield i, "s3-client-harness-op-failed", "%r -> %s" % (op[:100], line[:100])
                continue
            objs[d["key"] + ".kfs"], objs[d["key"] + ".index"] = hexb(d["seg"]), hexb(d["idx"])
            for h in f[2:]:
                raw = bytearray(bytes.fromhex(h))
                lod = struct.unpack(">i", raw[23:27])[0]
                struct.pack_into(">q", raw, 0, base)
                log.append((base, base + lod, bytes(raw)))
                base += lod + 1
        elif f[0] == "restore":
            last = max(b[1] for b in log) if log else -1
            faulty = script_faulty(f[2], "LIST") or script_faulty(f[3], "GET")
            if d["ret"] == "nil":
                if d["last"] != str(last):
                    yield i, "restore-misses-segments", ("RestoreFromS3 (listing paged %s) reports last offset %s, the bucket holds committed segments up to offset %d: "
                                                         "the later acknowledged offsets are unreadable after the restart; API calls: %s" % (f[2], d["last"], last, d["calls"][:200]))
                if d["appendbase"] == "err" or int(d["appendbase"]) <= last:
                    yield i, "offset-reuse-after-restart", ("after RestoreFromS3 (store next offset %s, listing paged %s) AppendBatch assigned base offset %s although committed "
                                                            "segments reach offset %d" % (f[1], f[2], d["appendbase"], last))
            elif not faulty:
                yield i, "restore-fails-without-fault", "%s -> %s" % (op[:80], line[:160])
        elif f[0] == "read":
            off = int(f[1])
            stream = b"".join(b[2] for b in log if b[1] >= off)
            if d["ret"] == "nil":
                got = hexb(d["data"])
                if not got or not stream.startswith(got):
                    yield i, "fetch-returns-bytes-never-acked", ("PartitionLog.Read(%d, %s) under GetObject answer %s returned %d bytes that are not the acknowledged "
                                                                 "bytes from the batch holding the offset on: %s" % (off, f[2], f[3], len(got), d["data"][:160]))
            elif d["ret"] == "oor":
                if stream:
                    yield i, "fetch-of-stored-offset-out-of-range", "%s -> %s" % (op, line[:80])
            elif not script_faulty(f[3], "GET"):
                yield i, "fetch-of-stored-offset-failed", "%s -> %s" % (op, line[:80])


MODEL_OPS = ("reset", "obj", "objs", "get", "list")


def model_ops(ops, lines):
    """the ops the Lean driver runs (reset/obj/objs/get/list); a mkseg becomes the two objects it stored"""
    m_ops, m_impl = [], []
    for op, line in zip(ops, lines):
        f = op.split()
        if f[0] in MODEL_OPS:
            m_ops.append(op)
            m_impl.append(line)
        elif f[0] == "mkseg" and line.startswith("mkseg ret=nil"):
            d = kv(line)
            for sfx, h in ((".kfs", d["seg"]), (".index", d["idx"])):
                m_ops.append("obj %s%s %s" % (d["key"], sfx, h))
                m_impl.append("obj")
    return m_ops, m_impl


def run_root(ck, binary, which, ops=None):
    """Drive the real awsS3Client / PartitionLog over the chunking fake; monitor + diff against the Lean model."""
    if not fake_copies_identical(ck):
        return False
    ops = ops or root_ops(ck, which)
    fn = ck.path("ops_s3c.txt")
    open(fn, "w").write("\n".join(ops) + "\n")
    rc, out, err = ck.run_bin(binary, stdin_path=fn, timeout=300)
    lines = out.split("\n")[:-1]
    if rc != 0 or len(lines) != len(ops):
        ck.broke("S3-chunks harness did not answer every op", "rc=%s lines=%d/%d %s" % (rc, len(lines), len(ops), err[-800:]))
        return False
    starts = [i for i, o in enumerate(ops) if o.startswith("reset")] or [0]
    world = {}
    for a, b in zip(starts, starts[1:] + [len(ops)]):
        for i in range(a, b):
            world[i] = a
        o, l = ops[a:b], lines[a:b]
        nontrivial = any(("cut=" in x or "ch=" in x or ",p" in x or " p" in x) for x in o)
        ck.case(("s3c",) + tuple(o), nontrivial=nontrivial, sample={"stream": "s3-chunks", "ops": [x[:160] for x in o[2:5]], "impl": [x[:160] for x in l[2:5]]})
        for x, y in zip(o, l):
            ck.count("s3c:%s:%s" % (x.split()[0], kv(y).get("ret", "-")))
    ok = True
    for (i, fp, what) in root_monitor(ops, lines):
        a = world.get(i, 0)
        setup = [o for o in ops[a:i] if o.split()[0] in ("reset", "obj", "objs", "mkseg", "open")]
        if ck.violation(fp, what, {"harness": "s3c", "ops": setup + [ops[i]], "actual": lines[i][:2000],
                                   "expected": "a nil result of the S3 client carries exactly the stored bytes / the full key list"}):
            ok = False
    m_ops, m_impl = model_ops(ops, lines)
    mfn = ck.path("mops_s3c.txt")
    open(mfn, "w").write("\n".join(m_ops) + "\n")
    model = ck.lean_run("C03S3", mfn)
    ck.cov["traces_validated_against_impl"] += len(starts)
    d = lib.first_diff(m_impl, model)
    if d is not None and ok:
        ck.cov["disagreements_checked"] += 1
        lo = max([j for j in range(d + 1) if m_ops[j].startswith("reset")] or [0])
        ctx = [o[:200] for o in m_ops[lo:d] if not o.startswith(("get", "list"))][-6:] + [m_ops[d][:300]]
        ck.broke("correspondence model/implementation (S3 client read side over the chunking fake)",
                 "ops %r\nimpl : %s\nmodel: %s" % (ctx, m_impl[d][:400] if d < len(m_impl) else None, model[d][:400] if d < len(model) else None))
        ok = False
    return ok


def replay_root(ck, binary, rep, which):
    run_root(ck, binary, which, rep["ops"])
    ck.cov["distinct_nontrivial"] = max(ck.cov["distinct_nontrivial"], 2)


# ----------------------------------------------------------------------------- decoders (C07)
def dec_ops(r, segs, quick):
    ops, meta = [], []
    for k, seg in enumerate(segs):
        L = len(seg) // 2
        toks = get_tokens(r, L, 2)
        if k >= 3:         # the full token sweep on the first three segments, a sample on the others
            toks = toks[:2] + [r.choice(toks) for _ in range(8 if quick else 14)]
        for t in toks:
            ops.append("s3dec %s %s" % (seg, t))
            meta.append((k, t, L))
    return ops, meta


def run_decoders(ck, bins, segs, expected, run_harness):
    """segs: their segment bytes (hex) as built by the broker code; expected[k] = the
    canonical record strings.  Decode over the chunking fake must return exactly these, or an error."""
    if not fake_copies_identical(ck):
        return False
    r = ck.rng.fork()
    ops, meta = dec_ops(r, segs, ck.quick())
    ok = True
    res = {}
    for mod in ("iceberg", "sql"):
        res[mod], _ = run_harness(ck, bins[mod + "_s3"], ops, mod + "s3c")
    for j, (k, t, L) in enumerate(meta):
        ck.count("s3dec:" + ("complete" if complete(t, L) else "faulty"))
        want = ("ok %d %s" % (len(expected[k]), " ".join(expected[k]))).strip()
        for mod in ("iceberg", "sql"):
            line = res[mod][j]
            body = line.split(" | ")[0]
            fp = what = None
            if body.startswith("ok"):
                if body != want:
                    got = body.split()
                    fp = "decoder-%s-s3fetch-records-differ" % mod
                    what = ("%s decoder over S3 (GetObject answer %s, segment of %d bytes holding %d records): Decode returned %s records and a nil error, "
                            "not the records of the stored segment" % (mod, t, L, len(expected[k]), got[1] if len(got) > 1 else "?"))
            elif body == "err":
                if complete(t, L):
                    fp = "decoder-%s-s3fetch-fails-on-complete-body" % mod
                    what = "%s decoder over S3: Decode failed although the body delivered all %d bytes (GetObject answer %s)" % (mod, L, t)
            else:
                fp, what = "decoder-%s-s3fetch-%s" % (mod, body.split()[0]), "%s decoder over S3: %s" % (mod, line[:80])
            if fp and ck.violation(fp, what, {"harness": "s3dec", "module": mod, "ops": [ops[j]], "case_index": k, "actual": line[:400], "want": want,
                                              "expected": "Decode returns exactly the records of the stored segment, or an error"}):
                ok = False
    ck.case(("s3dec", tuple(m[1] for m in meta[:40])), nontrivial=True, sample={"stream": "s3dec", "op": ops[0][:120], "iceberg": res["iceberg"][0][:120]})
    ck.cov["evaluations"] += len(ops)
    # correspondence with the model's fetch (class of the result: the fetch succeeds iff Decode succeeds, the segments
    # being well-formed; the fetched bytes of the model are the stored segment)
    m_ops = ["reset 1"]
    for k, seg in enumerate(segs):
        m_ops.append("obj k%d %s" % (k, seg))
    for (k, t, L) in meta:
        m_ops.append("fetch k%d %s" % (k, t))
    fn = ck.path("mops_s3dec.txt")
    open(fn, "w").write("\n".join(m_ops) + "\n")
    model = ck.lean_run("C03S3", fn)[1 + len(segs):]
    ck.cov["traces_validated_against_impl"] += len(meta)
    for j, (k, t, L) in enumerate(meta):
        m = model[j] if j < len(model) else "?"
        mclass = "ok" if m.startswith("fetch ret=nil") else "err"
        if mclass == "ok" and m != "fetch ret=nil data=%s" % segs[k]:
            ck.broke("model fetch returned other bytes than the stored segment", "%s -> %s" % (m_ops[1 + len(segs) + j][:100], m[:100]))
            return False
        for mod in ("iceberg", "sql"):
            iclass = res[mod][j].split(" | ")[0].split()[0]
            if iclass != mclass and ok:
                ck.cov["disagreements_checked"] += 1
                ck.broke("correspondence model/implementation (%s s3Decoder object fetch over the chunking fake)" % mod,
                         "GET token %s on a %d-byte segment\nimpl : %s\nmodel: %s" % (t, L, res[mod][j][:200], m[:80]))
                return False
    return ok
