"""C24 — with ACLs on, unauthorized requests change nothing and leak nothing (handler.Handle gate)."""
import json
import os

from checks import lib
from checks import C11 as c11

PROPERTY = "C24"
LEAN_MODULES = ["KafVerif.Gen.C24Guards", "KafVerif.Props.C24"]
OBLIGATIONS = [
    "KafVerif.C24.guards_complete",
    "KafVerif.C24.spec_keys_unique",
    "KafVerif.C24.guarded_arms_have_gate",
    "KafVerif.C24.denied_is_noop",
    "KafVerif.C24.whole_denied_noop",
    "KafVerif.C24.perItem_denied_untouched",
    "KafVerif.C24.perItem_eq_allowed_only",
    "KafVerif.C24.perItem_deny_bits",
    "KafVerif.C24.ungated_violates",
]
BUILDS = {"b": ("root", "./cmd/broker", ["C10", "C11", "C24"])}   # C11 dir: pkg/broker export + `tables` (type name -> key)
LEVEL_TEXT = ("Lean: obligation (decide) over the guard table REGENERATED with go/ast from handler.Handle — every dispatch "
              "arm is classified by the hand-written permission table, and its first h.allow* call has the required resource "
              "kind/action, decides a branch, and precedes every effectful call and every read of protected data; theorems over "
              "the gate model for every effect/store/request: denied => store unchanged and 'denied' answers, per-item gates "
              "leave denied resources untouched.  Tie: generated request sequences over all 21 served request types from "
              "principals with random permission sets (incl. none), auto-create on/off, through the real handler with "
              "in-memory store and counting S3, full per-resource snapshots before/after every request.")
TECHNIQUE = "generated-facts obligation + Lean theorems over the gate model + differential run + direct monitor on snapshots"
ASSUMPTIONS = [
    "the authorizer's verdict is taken from the real acl.Authorizer (C23 is about Allows itself)",
    "the extractor's notion of 'guard precedes effect' is source order within the arm (following h.handle* one level), and "
    "'decides a branch' = the call is inside an if condition; true dominance is not computed",
    "effects recognised by the extractor: h.ensureTopic, h.getPartitionLog, plog.AppendBatch/Flush, h.store.<non-read-only>, "
    "h.coordinator.<non-read-only>; reads: plog.Read, coordinator reads, FetchTopicConfig, NextOffset",
    "Produce acquires partition leases before the ACL check when an etcd lease manager is configured (not with the in-memory "
    "store used here); noted, owned by C19's group",
]
GEN = os.path.join(lib.LEAN, "KafVerif", "Gen", "C24Guards.lean")
ACT = {"": 0, "ActionProduce": 1, "ActionFetch": 2, "ActionGroupRead": 3, "ActionGroupWrite": 4, "ActionGroupAdmin": 5, "ActionAdmin": 6}
RES = {"allowTopic": 1, "allowTopics": 1, "allowGroup": 2, "allowGroups": 2, "allowAdmin": 3, "allowCluster": 3}
AUTH_CODES = {"29", "30", "31"}

# key -> (need, kind of names, single item?)  — the permission the property requires (mirrors AclGate.spec)
REQ = {
    0: ("produce:topic", "topic", False), 1: ("fetch:topic", "topic", False), 2: ("fetch:topic", "topic", False),
    3: ("produce:topic|admin:cluster", "topic", False), 8: ("group_write:group", "group", True), 9: ("group_read:group", "group", True),
    10: ("-", "group", True), 11: ("group_write:group", "group", True), 12: ("group_write:group", "group", True),
    13: ("group_write:group", "group", True), 14: ("group_write:group", "group", True), 15: ("group_read:group", "group", False),
    16: ("group_read:group", "star", True), 18: ("-", "none", True), 19: ("admin:cluster", "topic", False),
    20: ("admin:cluster", "topic", False), 23: ("fetch:topic", "topic", False), 32: ("fetch:topic", "topic", False),
    33: ("admin:cluster", "topic", False), 37: ("admin:cluster", "topic", False), 42: ("group_admin:group", "group", False),
}
REQ[101] = REQ[1]     # Fetch v13 by TopicID
REQ[103] = REQ[3]     # Metadata v12 by TopicID
TOPICS = ["orders", "Orders", "t1", "T1", "t2", "secret"]   # names differing only in letter case are DIFFERENT resources
GROUPS = ["g1", "G1", "g2"]
NAME_ID = {n: i + 1 for i, n in enumerate(TOPICS + GROUPS + ["*", "x", "created-by-nobody"])}


def _fold(a, b):
    return a.lower() == b.lower()


def oracle_allows(acl, principal, action, resource, name):
    """acl.Authorizer.Allows as documented (pkg/acl): deny first, then allow, then default; action/resource are matched
    case-insensitively ('' and '*' match all); NAMES are exact and CASE-SENSITIVE, 'prefix*' and '*' patterns."""
    principal = principal.strip() or "anonymous"
    default = _fold(acl.get("default_policy", "").strip(), "allow")
    rules = None
    for p in acl.get("principals", []):
        if p["name"].strip() == principal:
            rules = p   # last entry of a name wins (C23 is about that)
    if rules is None:
        return default

    def m(r):
        if r.get("action", "") not in ("", "*") and not _fold(r["action"], action):
            return False
        if r.get("resource", "") not in ("", "*") and not _fold(r["resource"], resource):
            return False
        rn = r.get("name", "").strip()
        if rn in ("", "*"):
            return True
        if rn.endswith("*"):
            return name.startswith(rn[:-1])
        return rn == name
    if any(m(r) for r in rules.get("deny") or []):
        return False
    if any(m(r) for r in rules.get("allow") or []):
        return True
    return default


def oracle_bits(acl, who, need, names):
    if need == "-":
        return ["1"] * len(names)
    out = []
    for n in names:
        ok = False
        for alt in need.split("|"):
            a, r = alt.split(":")
            ok = ok or oracle_allows(acl, who, a, r, "cluster" if r == "cluster" else n)
        out.append("1" if ok else "0")
    return out


def generate(ck):
    bins = ck.build_all()
    ck._c24 = {"bins": bins}
    if bins is None:
        raise RuntimeError("harness build failed")
    rc, out, err = ck.run_bin(bins["b"], args=["tables"], env={"VERIF_HARNESS": "C11"})
    if rc != 0:
        raise RuntimeError("tables dump failed: " + err[-400:])
    names = {f[5]: int(f[1]) for f in (l.split() for l in out.split("\n")) if f and f[0] == "kmsg"}
    arms = c11.extract(ck)
    rows = []
    for a in arms:
        for t in a["types"]:
            if t not in names:
                if t != "default":
                    raise RuntimeError("unknown request type in Handle: " + t)
                continue
            evs = []
            for e in a["events"]:
                if e["kind"] == "guard":
                    if e["call"] not in RES or e["action"] not in ACT:
                        raise RuntimeError("unknown guard %r" % (e,))
                    evs.append("⟨0, %d, %d, %s, %s⟩" % (RES[e["call"]], ACT[e["action"]], str(e["inLoop"]).lower(), str(e["inCond"]).lower()))
                elif e["kind"] == "effect":
                    evs.append("⟨1, 0, 0, %s, false⟩" % str(e["inLoop"]).lower())
                elif e["kind"] == "read":
                    evs.append("⟨2, 0, 0, %s, false⟩" % str(e["inLoop"]).lower())
            rows.append("⟨%d, [%s]⟩" % (names[t], ", ".join(evs)))
    ck._c24["arms"] = arms
    src = ("-- GENERATED by checks/C24.py (go/ast over handler.Handle of the current source); do not edit.\n"
           "-- Ev = ⟨kind (0 guard, 1 effect, 2 read), resource kind (1 topic, 2 group, 3 cluster), action (1 produce, 2 fetch,\n"
           "--       3 group_read, 4 group_write, 5 group_admin, 6 admin), inLoop, inCond⟩\n"
           "import KafVerif.Model.AclGate\nnamespace KafVerif.Gen.C24\nopen KafVerif.AclGate\n"
           "def arms : List Arm := [%s]\nend KafVerif.Gen.C24\n") % ", ".join(rows)
    old = open(GEN).read() if os.path.exists(GEN) else None
    if old != src:
        with ck._lake_lock():
            open(GEN, "w").write(src)


def gen_acl(rng):
    """A random ACL: admin (everything), alice/bob with random allows (and a few denies), 'nobody' absent."""
    def rule():
        res = rng.choice(["topic", "topic", "group", "cluster", "*"])
        if res == "topic":
            return {"action": rng.choice(["produce", "fetch", "*", "admin"]), "resource": "topic", "name": rng.choice(TOPICS + ["t*", "*"])}
        if res == "group":
            return {"action": rng.choice(["group_read", "group_write", "group_admin", "*"]), "resource": "group", "name": rng.choice(GROUPS + ["*"])}
        if res == "cluster":
            return {"action": rng.choice(["admin", "*"]), "resource": "cluster", "name": rng.choice(["cluster", "*"])}
        return {"action": rng.choice(["fetch", "produce", "group_read"]), "resource": "*", "name": rng.choice(TOPICS + GROUPS)}
    ps = [{"name": "admin", "allow": [{"action": "*", "resource": "*", "name": "*"}]}]
    for who in ("alice", "bob"):
        ps.append({"name": who, "allow": [rule() for _ in range(rng.below(5))], "deny": [rule() for _ in range(rng.below(2))]})

    def specific():
        k = rng.below(4)
        if k == 0:
            return {"action": rng.choice(["fetch", "*"]), "resource": "topic", "name": rng.choice(["secret", "orders", "Orders", "t1"])}
        if k == 1:
            return {"action": "produce", "resource": "topic", "name": rng.choice(TOPICS)}
        if k == 2:
            return {"action": rng.choice(["group_read", "group_write", "*"]), "resource": "group", "name": rng.choice(GROUPS)}
        return {"action": "admin", "resource": "cluster", "name": "*"}
    # wildcard allow + specific denies (the shape a 'everything except …' policy has)
    ps.append({"name": "carol", "allow": [{"action": "*", "resource": "*", "name": "*"}], "deny": [specific() for _ in range(rng.range(1, 3))]})
    # no allow list at all: relies on the default policy, with specific denies
    ps.append({"name": "dave", "deny": [specific() for _ in range(rng.range(1, 2))]})
    return {"default_policy": rng.choice(["deny", "deny", "allow", "allow"]), "principals": ps}


def gen_session(rng, nops):
    auto = rng.choice(["1", "1", "0"])
    acl = gen_acl(rng)
    ops = ["new %s %s" % (auto, json.dumps(acl).encode().hex())]
    # state worth protecting: records, a group with a member and a committed offset, a config
    ops += ["do admin 19 admin:cluster t1,secret,Orders", "do admin 0 produce:topic orders,secret,t1,Orders",
            "do admin 11 group_write:group g1", "do admin 11 group_write:group G1", "do admin 33 admin:cluster orders"]
    keys = sorted(REQ) + [101, 101, 1, 0]
    for _ in range(nops):
        k = rng.choice(keys)
        need, kind, single = REQ[k]
        who = rng.choice(["nobody", "nobody", "alice", "bob", "alice", "bob", "carol", "carol", "dave", "admin", ""])
        if kind == "topic":
            pool = TOPICS + (["created-by-nobody"] if k in (0, 1, 2, 3, 19) else [])
            if k in (101, 103):
                pool = ["orders", "secret", "t1", "Orders", "t2"]
            names = [rng.choice(pool)] if (single or rng.chance(1, 2)) else list(dict.fromkeys(rng.choice(pool) for _ in range(rng.range(2, 3))))
        elif kind == "group":
            names = [rng.choice(GROUPS)] if (single or rng.chance(1, 2)) else list(GROUPS)
        elif kind == "star":
            names = ["*"]
        else:
            names = ["x"]
        ops.append("do %s %d %s %s" % (who if who else "anonymous", k, need, ",".join(names)))
    return auto, ops, acl


def judge(ck, auto, op, o, acl=None):
    """Direct property monitor on one implementation line: (fingerprint, what) or None."""
    f = op.split()
    if f[0] != "do":
        return None
    who, key, need, names = f[1], int(f[2]), f[3], f[4].split(",")
    byid = key >= 100
    key = key % 100
    if o.startswith("panic"):
        return "handler-panic", "request key %d from %s made the handler panic" % (key, who)
    if not o.startswith("do "):
        return "harness-problem", o[:120]
    kv = dict(x.split("=", 1) for x in o.split() if "=" in x)
    # the verdict the property is judged by comes from the independent reading of the ACL (names are case-sensitive);
    # the real authorizer's verdict (kv["allowed"]) is only what the code believed
    allowed = oracle_bits(acl, "" if who == "anonymous" else who, need, names) if acl is not None else kv["allowed"].split(",")
    changed = [] if kv["changed"] == "-" else kv["changed"].split(";")
    codes = kv.get("codes", "").split(",") if "codes" in kv else []
    prefix = {"topic": "topic:", "group": "group:", "star": "group:", "none": "none:"}[REQ[key][1]]
    denied = [n for n, a in zip(names, allowed) if a == "0"]
    if not denied:
        return None
    whole = all(a == "0" for a in allowed)
    # 1. nothing about a denied resource changes; if every item is denied nothing changes at all
    for n in denied:
        if prefix + n in changed:
            return ("denied-request-changed-state",
                    "%s lacks %s on %s but request key %d changed %s%s" % (who, need, n, key, prefix, n))
    if whole and changed:
        return ("denied-request-changed-state", "%s lacks %s on every named resource but request key %d changed %s" % (who, need, key, ";".join(changed)))
    # 2. no data
    if whole and kv.get("data") == "true":
        return "denied-request-returned-data", "%s lacks %s but request key %d returned record/group/config data" % (who, need, key)
    # 3. an authorization error for every denied item
    if "codes" not in kv:
        return "denied-request-no-error", "%s lacks %s but request key %d got '%s'" % (who, need, key, o.split()[1])
    if len(codes) == len(names):
        exists = kv["exists"].split(",")
        for n, a, c, ex in zip(names, allowed, codes, exists):
            if a == "0" and c not in AUTH_CODES:
                if key == 3 and (ex == "1" or auto == "0" or byid):
                    continue  # Metadata describes existing topics; the guarded effect is the auto-creation (by name) only
                if byid and ex == "0":
                    continue  # unknown topic id: nothing to protect, answered UNKNOWN_TOPIC_ID
                return "denied-item-no-authorization-error", "%s lacks %s on %s but request key %d answered code %s" % (who, need, n, key, c)
    return None


def model_ops(auto, ops, impl, acl=None):
    out = []
    for op, o in zip(ops, impl):
        f = op.split()
        if f[0] != "do" or not o.startswith("do ") or "allowed=" not in o:
            out.append("# " + op[:40])
            continue
        kv = dict(x.split("=", 1) for x in o.split() if "=" in x)
        names = f[4].split(",")
        bits = oracle_bits(acl, "" if f[1] == "anonymous" else f[1], f[3], names) if acl is not None else kv["allowed"].split(",")
        exists = kv["exists"].split(",")
        if int(f[2]) >= 100:
            # by-id forms: an unknown id is answered UNKNOWN_TOPIC_ID before any check; Metadata by id creates nothing
            if int(f[2]) == 103 or "0" in exists:
                out.append("# " + op[:40])
                continue
        items = ["%d:%s:%s" % (NAME_ID.get(n, 99), a, e) for n, a, e in zip(names, bits, exists)]
        out.append("do %d %s %s" % (int(f[2]) % 100, auto, " ".join(items)))
    return out


def run(ck):
    st = getattr(ck, "_c24", None)
    if not st or not st.get("bins"):
        return
    binary = st["bins"]["b"]
    nsess, nops = (25, 60) if ck.quick() else (300, 120)
    ck.cov["rule"] = ("sessions = fresh handler + random ACL (admin, alice, bob with random allow/deny rules over topics/groups/cluster incl. "
                      "prefix/* patterns, absent principal 'nobody', anonymous; default deny or allow; auto-create on/off) + seeded state "
                      "(records, group member, config) + random requests over all 21 served request types with 1-3 named resources.  "
                      "Non-trivial = a request with at least one denied item; distinct = distinct (acl, op) pairs")
    all_ops, autos, acls = [], [], []
    for s in range(nsess):
        auto, ops, acl = gen_session(ck.rng.fork(), nops)
        all_ops += ops
        autos += [auto] * len(ops)
        acls += [acl] * len(ops)
    fn = ck.path("ops_all.txt")
    open(fn, "w").write("\n".join(all_ops) + "\n")
    rc, out, err = ck.run_bin(binary, stdin_path=fn, env={"VERIF_HARNESS": "C24"}, timeout=600)
    impl = out.split("\n")[:-1]
    if rc != 0 or len(impl) != len(all_ops):
        ck.broke("implementation harness did not answer every op", "rc=%s %d/%d %s" % (rc, len(impl), len(all_ops), err[-600:]))
        return
    sess_start = 0
    oracle_diffs = []
    for i, (op, o) in enumerate(zip(all_ops, impl)):
        if op.startswith("new"):
            sess_start = i
            ck.cov["traces_validated_against_impl"] += 1
            continue
        f = op.split()
        obits = oracle_bits(acls[i], "" if f[1] == "anonymous" else f[1], f[3], f[4].split(","))
        has_denied = "0" in obits
        ck.count("key%s:%s" % (f[2], "denied" if has_denied else "allowed"))
        ck.case((all_ops[sess_start], op), nontrivial=has_denied, sample={"op": op, "impl": o[:160]} if has_denied else None)
        if "allowed=" in o and o.split("allowed=")[1].split()[0].split(",") != obits:
            oracle_diffs.append((i, op, o, obits))
        m = judge(ck, autos[i], op, o, acls[i])
        if m:
            pre = [all_ops[sess_start]] + [x for x in all_ops[sess_start + 1:i] if x.startswith("do admin")][:5]
            ck.violation(m[0], m[1], {"ops": pre + [op], "auto": autos[i], "actual": o})
    if oracle_diffs and not ck.violations:
        i, op, o, obits = oracle_diffs[0]
        ck.broke("the authorizer's verdict differs from the documented ACL semantics (names exact and case-sensitive) — C23's subject",
                 "acl=%s\nop %s\nimpl : %s\noracle: %s" % (json.dumps(acls[i]), op, o, ",".join(obits)))
    # correspondence: the gate model (granularity from the regenerated table) predicts the denied items
    mops = []
    for a, op, o, acl in zip(autos, all_ops, impl, acls):
        mops += model_ops(a, [op], [o], acl)
    mfn = ck.path("mops_all.txt")
    open(mfn, "w").write("\n".join(mops) + "\n")
    mod = ck.lean_run("C24", mfn)
    j = 0
    sess_start = 0
    for i, (op, o, mo) in enumerate(zip(all_ops, impl, mops)):
        if op.startswith("new"):
            sess_start = i
        if mo.startswith("#"):
            continue
        m = mod[j]
        j += 1
        kv = dict(x.split("=", 1) for x in o.split() if "=" in x)
        if "codes" not in kv:
            continue
        codes = kv["codes"].split(",")
        if len(codes) != len(op.split()[4].split(",")):
            continue
        got = ",".join("1" if c in AUTH_CODES else "0" for c in codes)
        want = m.split()[0].split("=")[1] if m.startswith("deny=") else m
        # code 29 also means "admin APIs disabled"; compare on denied items and wherever the model predicts a denial
        allowed = [x.split(":")[1] for x in mo.split()[3:]]
        bad = any((w == "1") != (g == "1") for w, g, a in zip(want.split(","), got.split(","), allowed) if a == "0" or w == "1")
        if bad and not ck.violations:
            ck.cov["disagreements_checked"] += 1
            ck.broke("correspondence gate model/implementation (which items are answered with an authorization error)",
                     "session acl=%s\nop %s\nimpl : %s\nmodel: %s" % (bytes.fromhex(all_ops[sess_start].split()[2]).decode(), op, o, m))
            return


def replay(ck, path):
    rep = json.load(open(path))
    generate(ck)
    st = ck._c24
    if not st.get("bins"):
        return
    ops = rep["ops"]
    fn = ck.path("replay.txt")
    open(fn, "w").write("\n".join(ops) + "\n")
    rc, out, err = ck.run_bin(st["bins"]["b"], stdin_path=fn, env={"VERIF_HARNESS": "C24"}, timeout=120)
    impl = out.split("\n")[:-1]
    acl = json.loads(bytes.fromhex(ops[0].split()[2]).decode())
    print("  acl:", json.dumps(acl))
    for op, o in zip(ops, impl):
        print("  %s\n     -> %s" % (op[:100] if op.startswith("do") else op[:12] + "…", o))
        ck.case(op, sample={"op": op[:100], "impl": o[:160]})
        m = judge(ck, rep.get("auto", ops[0].split()[1]), op, o, acl)
        if m:
            ck.violation(m[0], m[1], {"ops": ops, "actual": o})
    ck.cov["distinct_nontrivial"] = max(ck.cov["distinct_nontrivial"], 2)
