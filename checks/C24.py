"""C24 — with ACLs on, unauthorized requests change nothing and leak nothing (handler.Handle gate)."""
import json
import os

from checks import lib
from checks import C11 as c11

PROPERTY = "C24"
LEAN_MODULES = ["KafVerif.Gen.C24Guards", "KafVerif.Props.C24"]
OBLIGATIONS = [
    "KafVerif.C24.guards_complete",
    "KafVerif.C24.spec_keys_unique",
    "KafVerif.C24.guarded_arms_have_gate",
    "KafVerif.C24.denied_is_noop",
    "KafVerif.C24.whole_denied_noop",
    "KafVerif.C24.perItem_denied_untouched",
    "KafVerif.C24.perItem_eq_allowed_only",
    "KafVerif.C24.perItem_deny_bits",
    "KafVerif.C24.ungated_violates",
    "KafVerif.C24.decision_depends_only_on_request",
    "KafVerif.C24.decision_depends_only_on_request_init",
    "KafVerif.C24.session_decisions_eq",
    "KafVerif.C24.decision_history_independent",
    "KafVerif.C24.session_denied_noop",
    "KafVerif.C24.session_perItem_denied_untouched",
    "KafVerif.C24.memoised_decisions_violate",
    "KafVerif.C24.principal_depends_only_on_request_and_conn",
    "KafVerif.C24.principal_history_independent",
    "KafVerif.C24.conn_decision_depends_only_on_request_and_conn",
    "KafVerif.C24.conn_session_denied_noop",
    "KafVerif.C24.sticky_principal_violates",
]
BUILDS = {"b": ("root", "./cmd/broker", ["C10", "C11", "C24"])}   # C11 dir: pkg/broker export + `tables` (type name -> key)
LEVEL_TEXT = ("Lean: obligation (decide) over the guard table REGENERATED with go/ast from handler.Handle — every dispatch "
              "arm is classified by the hand-written permission table, and its first h.allow* call has the required resource "
              "kind/action, decides a branch, and precedes every effectful call and every read of protected data; theorems over "
              "the gate model for every effect/store/request: denied => store unchanged and 'denied' answers, per-item gates "
              "leave denied resources untouched.  Tie: generated request sequences over all 21 served request types from "
              "principals with random permission sets (incl. none), auto-create on/off, through the real handler with "
              "in-memory store and counting S3, full per-resource snapshots before/after every request.  Session model "
              "(one handler = authorizer + denial log + denial counters, step : State -> Request -> State x Decision): for "
              "every state and every history of earlier requests the decision of the next request is Acl.allows cfg "
              "(principal, action, resource, name); composed with the gate: after any history a request the ACL denies changes "
              "nothing.  Tie: multi-principal sessions on ONE handler whose principal ids / resource names contain separator "
              "characters and are separator-joined concatenations of each other; EVERY request is judged by the independent "
              "ACL reading (Python oracle = Lean Acl.allows = Lean session step, compared per request), in both directions.  "
              "Connection model (AclConn: buildConnContextFunc + principalFromContext + one handler serving several connections): "
              "for every broker configuration, every served connection and every history of earlier requests on any connection, "
              "the principal of a request is principalSpec(configuration, the connection's immutable attributes, THAT request's "
              "client id) and its decision is Acl.allows for that principal; a request that principal may not make changes nothing.  "
              "Tie: connection sessions through the real broker.Server connection loop with the real buildConnContextFunc for every "
              "principal source x PROXY-protocol setting (PROXY v1/v2/LOCAL/missing/malformed headers, remote addresses with and "
              "without port), requests with different client ids interleaved on each connection; principal and ConnContext "
              "compared three ways (Lean connStep, Lean principalSpec, Python oracle; the harness reports the live ConnContext).")
TECHNIQUE = "generated-facts obligation + Lean theorems over the gate model + differential run + direct monitor on snapshots"
ASSUMPTIONS = [
    "the authorizer's verdict is taken from the real acl.Authorizer (C23 is about Allows itself)",
    "the extractor's notion of 'guard precedes effect' is source order within the arm (following h.handle* one level), and "
    "'decides a branch' = the call is inside an if condition; true dominance is not computed",
    "effects recognised by the extractor: h.ensureTopic, h.getPartitionLog, plog.AppendBatch/Flush, h.store.<non-read-only>, "
    "h.coordinator.<non-read-only>; reads: plog.Read, coordinator reads, FetchTopicConfig, NextOffset",
    "Produce acquires partition leases before the ACL check when an etcd lease manager is configured (not with the in-memory "
    "store used here); noted, owned by C19's group",
    "no cross-request authorisation state in the handler: the session model's State carries the fields an h.allow* call and "
    "the denial bookkeeping touch at HEAD (h.authorizer, h.authLogLast, h.authMetrics) and its step reads only the authorizer; "
    "that the real handler keeps nothing else that influences a decision is not derived from the source but validated by the "
    "multi-principal session stream (one handler, colliding principal/resource names, every request judged independently)",
    "connection model: PROXY header parsing (bytes -> ProxyInfo) is not modelled in Lean, the model starts from what "
    "ReadProxyProtocol returns (absent / malformed / LOCAL / source address); the Python oracle parses the generated v1/v2 "
    "headers itself and the harness reports the ConnContext the real parser produced, compared per request.  strings.EqualFold / "
    "ToLower on the principal source are modelled with ASCII folding (the generators stay in ASCII).  That a ConnContext is only "
    "read after buildConnContextFunc returned it is the model's reading of HEAD (connStep), validated by the connection stream "
    "(ConnContext reported after every request), not derived from the source",
]
GEN = os.path.join(lib.LEAN, "KafVerif", "Gen", "C24Guards.lean")
ACT = {"": 0, "ActionProduce": 1, "ActionFetch": 2, "ActionGroupRead": 3, "ActionGroupWrite": 4, "ActionGroupAdmin": 5, "ActionAdmin": 6}
RES = {"allowTopic": 1, "allowTopics": 1, "allowGroup": 2, "allowGroups": 2, "allowAdmin": 3, "allowCluster": 3}
AUTH_CODES = {"29", "30", "31"}

# key -> (need, kind of names, single item?)  — the permission the property requires (mirrors AclGate.spec)
REQ = {
    0: ("produce:topic", "topic", False), 1: ("fetch:topic", "topic", False), 2: ("fetch:topic", "topic", False),
    3: ("produce:topic|admin:cluster", "topic", False), 8: ("group_write:group", "group", True), 9: ("group_read:group", "group", True),
    10: ("-", "group", True), 11: ("group_write:group", "group", True), 12: ("group_write:group", "group", True),
    13: ("group_write:group", "group", True), 14: ("group_write:group", "group", True), 15: ("group_read:group", "group", False),
    16: ("group_read:group", "star", True), 18: ("-", "none", True), 19: ("admin:cluster", "topic", False),
    20: ("admin:cluster", "topic", False), 23: ("fetch:topic", "topic", False), 32: ("fetch:topic", "topic", False),
    33: ("admin:cluster", "topic", False), 37: ("admin:cluster", "topic", False), 42: ("group_admin:group", "group", False),
}
REQ[101] = REQ[1]     # Fetch v13 by TopicID
REQ[103] = REQ[3]     # Metadata v12 by TopicID
TOPICS = ["orders", "Orders", "t1", "T1", "t2", "secret"]   # names differing only in letter case are DIFFERENT resources
GROUPS = ["g1", "G1", "g2"]
NAME_ID = {n: i + 1 for i, n in enumerate(TOPICS + GROUPS + ["*", "x", "created-by-nobody"])}
SEPS = ["|", ":", "/", " ", ","]      # separator characters a joined cache / log / metric key could be built with
_PLAIN = set("abcdefghijklmnopqrstuvwxyzABCDEFGHIJKLMNOPQRSTUVWXYZ0123456789-_.*")


def enc(name):
    """percent-encoding of principals / names on the harness line protocol (plain names are unchanged)"""
    return "".join(c if c in _PLAIN else "".join("%%%02X" % b for b in c.encode()) for c in name)


def dec(s):
    out, i = bytearray(), 0
    b = s.encode()
    while i < len(b):
        if b[i] == 0x25 and i + 2 < len(b):
            try:
                out.append(int(b[i + 1:i + 3].decode(), 16))
                i += 3
                continue
            except ValueError:
                pass
        out.append(b[i])
        i += 1
    return out.decode("utf8", "replace")


def valid_topic_name(n):
    """metadata.ValidTopicName"""
    return n not in ("", ".", "..") and len(n.encode()) <= 249 and all(c in _PLAIN and c != "*" for c in n)


def op_fields(op):
    """(principal, key, need, names) of a `do` line, decoded"""
    f = op.split()
    return dec(f[1]), int(f[2]), f[3], [dec(x) for x in f[4].split(",")]


def name_id(n):
    if n not in NAME_ID:
        NAME_ID[n] = 100 + len(NAME_ID)
    return NAME_ID[n]


def _fold(a, b):
    return a.lower() == b.lower()


def oracle_allows(acl, principal, action, resource, name):
    """acl.Authorizer.Allows as documented (pkg/acl): deny first, then allow, then default; action/resource are matched
    case-insensitively ('' and '*' match all); NAMES are exact and CASE-SENSITIVE, 'prefix*' and '*' patterns."""
    principal = principal.strip() or "anonymous"
    default = _fold(acl.get("default_policy", "").strip(), "allow")
    rules = None
    for p in acl.get("principals", []):
        if p["name"].strip() == principal:
            rules = p   # last entry of a name wins (C23 is about that)
    if rules is None:
        return default

    def m(r):
        if r.get("action", "") not in ("", "*") and not _fold(r["action"], action):
            return False
        if r.get("resource", "") not in ("", "*") and not _fold(r["resource"], resource):
            return False
        rn = r.get("name", "").strip()
        if rn in ("", "*"):
            return True
        if rn.endswith("*"):
            return name.startswith(rn[:-1])
        return rn == name
    if any(m(r) for r in rules.get("deny") or []):
        return False
    if any(m(r) for r in rules.get("allow") or []):
        return True
    return default


def oracle_bits(acl, who, need, names):
    if need == "-":
        return ["1"] * len(names)
    out = []
    for n in names:
        ok = False
        for alt in need.split("|"):
            a, r = alt.split(":")
            ok = ok or oracle_allows(acl, who, a, r, "cluster" if r == "cluster" else n)
        out.append("1" if ok else "0")
    return out


def generate(ck):
    bins = ck.build_all()
    ck._c24 = {"bins": bins}
    if bins is None:
        raise RuntimeError("harness build failed")
    rc, out, err = ck.run_bin(bins["b"], args=["tables"], env={"VERIF_HARNESS": "C11"})
    if rc != 0:
        raise RuntimeError("tables dump failed: " + err[-400:])
    names = {f[5]: int(f[1]) for f in (l.split() for l in out.split("\n")) if f and f[0] == "kmsg"}
    arms = c11.extract(ck)
    rows = []
    for a in arms:
        for t in a["types"]:
            if t not in names:
                if t != "default":
                    raise RuntimeError("unknown request type in Handle: " + t)
                continue
            evs = []
            for e in a["events"]:
                if e["kind"] == "guard":
                    if e["call"] not in RES or e["action"] not in ACT:
                        raise RuntimeError("unknown guard %r" % (e,))
                    evs.append("⟨0, %d, %d, %s, %s⟩" % (RES[e["call"]], ACT[e["action"]], str(e["inLoop"]).lower(), str(e["inCond"]).lower()))
                elif e["kind"] == "effect":
                    evs.append("⟨1, 0, 0, %s, false⟩" % str(e["inLoop"]).lower())
                elif e["kind"] == "read":
                    evs.append("⟨2, 0, 0, %s, false⟩" % str(e["inLoop"]).lower())
            rows.append("⟨%d, [%s]⟩" % (names[t], ", ".join(evs)))
    ck._c24["arms"] = arms
    src = ("-- GENERATED by checks/C24.py (go/ast over handler.Handle of the current source); do not edit.\n"
           "-- Ev = ⟨kind (0 guard, 1 effect, 2 read), resource kind (1 topic, 2 group, 3 cluster), action (1 produce, 2 fetch,\n"
           "--       3 group_read, 4 group_write, 5 group_admin, 6 admin), inLoop, inCond⟩\n"
           "import KafVerif.Model.AclGate\nnamespace KafVerif.Gen.C24\nopen KafVerif.AclGate\n"
           "def arms : List Arm := [%s]\nend KafVerif.Gen.C24\n") % ", ".join(rows)
    old = open(GEN).read() if os.path.exists(GEN) else None
    if old != src:
        with ck._lake_lock():
            open(GEN, "w").write(src)


def gen_acl(rng):
    """A random ACL: admin (everything), alice/bob with random allows (and a few denies), 'nobody' absent."""
    def rule():
        res = rng.choice(["topic", "topic", "group", "cluster", "*"])
        if res == "topic":
            return {"action": rng.choice(["produce", "fetch", "*", "admin"]), "resource": "topic", "name": rng.choice(TOPICS + ["t*", "*"])}
        if res == "group":
            return {"action": rng.choice(["group_read", "group_write", "group_admin", "*"]), "resource": "group", "name": rng.choice(GROUPS + ["*"])}
        if res == "cluster":
            return {"action": rng.choice(["admin", "*"]), "resource": "cluster", "name": rng.choice(["cluster", "*"])}
        return {"action": rng.choice(["fetch", "produce", "group_read"]), "resource": "*", "name": rng.choice(TOPICS + GROUPS)}
    ps = [{"name": "admin", "allow": [{"action": "*", "resource": "*", "name": "*"}]}]
    for who in ("alice", "bob"):
        ps.append({"name": who, "allow": [rule() for _ in range(rng.below(5))], "deny": [rule() for _ in range(rng.below(2))]})

    def specific():
        k = rng.below(4)
        if k == 0:
            return {"action": rng.choice(["fetch", "*"]), "resource": "topic", "name": rng.choice(["secret", "orders", "Orders", "t1"])}
        if k == 1:
            return {"action": "produce", "resource": "topic", "name": rng.choice(TOPICS)}
        if k == 2:
            return {"action": rng.choice(["group_read", "group_write", "*"]), "resource": "group", "name": rng.choice(GROUPS)}
        return {"action": "admin", "resource": "cluster", "name": "*"}
    # wildcard allow + specific denies (the shape a 'everything except …' policy has)
    ps.append({"name": "carol", "allow": [{"action": "*", "resource": "*", "name": "*"}], "deny": [specific() for _ in range(rng.range(1, 3))]})
    # no allow list at all: relies on the default policy, with specific denies
    ps.append({"name": "dave", "deny": [specific() for _ in range(rng.range(1, 2))]})
    return {"default_policy": rng.choice(["deny", "deny", "allow", "allow"]), "principals": ps}


def gen_session(rng, nops):
    auto = rng.choice(["1", "1", "0"])
    acl = gen_acl(rng)
    ops = ["new %s %s" % (auto, json.dumps(acl).encode().hex())]
    # state worth protecting: records, a group with a member and a committed offset, a config
    ops += SETUP
    keys = sorted(REQ) + [101, 101, 1, 0]
    for _ in range(nops):
        k = rng.choice(keys)
        need, kind, single = REQ[k]
        who = rng.choice(["nobody", "nobody", "alice", "bob", "alice", "bob", "carol", "carol", "dave", "admin", ""])
        if kind == "topic":
            pool = TOPICS + (["created-by-nobody"] if k in (0, 1, 2, 3, 19) else [])
            if k in (101, 103):
                pool = ["orders", "secret", "t1", "Orders", "t2"]
            names = [rng.choice(pool)] if (single or rng.chance(1, 2)) else list(dict.fromkeys(rng.choice(pool) for _ in range(rng.range(2, 3))))
        elif kind == "group":
            names = [rng.choice(GROUPS)] if (single or rng.chance(1, 2)) else list(GROUPS)
        elif kind == "star":
            names = ["*"]
        else:
            names = ["x"]
        ops.append("do %s %d %s %s" % (who if who else "anonymous", k, need, ",".join(names)))
    return auto, ops, acl


SETUP = ["do admin 19 admin:cluster t1,secret,Orders", "do admin 0 produce:topic orders,secret,t1,Orders",
         "do admin 11 group_write:group g1", "do admin 11 group_write:group G1", "do admin 33 admin:cluster orders"]


def gen_collision_session(rng, nops):
    """ONE handler, SEVERAL principals whose ids and resource names contain separator characters and are separator-joined
    concatenations of each other: for a rule `P <action> orders-*` the request (P, "orders-x<glue>secret") is followed /
    preceded by (P<glue>"orders-x", "secret") — any handler-wide state keyed by a joined string (cache, log, metric key)
    confuses the two.  Every request is judged on its own by the independent ACL reading, so a leaked ALLOW and a leaked
    DENY both show."""
    auto = rng.choice(["1", "0"])
    P = rng.choice(["alice", "bob"])
    T = rng.choice(["secret", "secret", "t1"])
    G = rng.choice(["payments", "payments", "g1"])
    shape = rng.below(4)
    ta = rng.choice(["*", "*", "produce", "fetch"])
    ga = rng.choice(["*", "*", "group_write", "group_read", "group_admin"])
    tkeys = [k for k in (0, 0, 1, 1, 2, 23, 32, 3) if ta == "*" or REQ[k][0].startswith(ta + ":")]
    gkeys = [k for k in (8, 9, 11, 11, 12, 13, 14, 15, 42) if ga == "*" or REQ[k][0].startswith(ga + ":")]
    pairs = []
    for sep in SEPS + [""]:
        for kind in ("topic", "group"):
            key = rng.choice(tkeys if kind == "topic" else gkeys)
            a = REQ[key][0].split("|")[0].split(":")[0]
            glue = rng.choice([sep, sep, sep, sep + a + sep + kind + sep, sep + kind + sep + a + sep, sep + sep]) if sep else ""
            mid, tgt = ("orders-x", T) if kind == "topic" else ("team-x", G)
            pairs.append((kind, key, P + glue + mid, mid + glue + tgt, tgt))
    qs = list(dict.fromkeys(q for _, _, q, _, _ in pairs))
    # at most 5 of the joined principals get an entry of their own (the Lean model's principal map is a closure chain
    # whose interpreted lookup cost doubles per entry; 8 entries keep a session's `rq` lines in the millisecond range)
    listed = list(qs)
    for i in range(len(listed) - 1, 0, -1):
        j = rng.below(i + 1)
        listed[i], listed[j] = listed[j], listed[i]
    listed = listed[:5]
    prefix_rules = [{"action": ta, "resource": "topic", "name": "orders-*"}, {"action": ga, "resource": "group", "name": "team-*"}]
    everything = {"action": "*", "resource": "*", "name": "*"}
    ps = [{"name": "admin", "allow": [everything]}]

    def on_target(q):
        return [{"action": "*", "resource": "topic", "name": T}, {"action": "*", "resource": "group", "name": G}]
    if shape == 0:      # a cached ALLOW of P would reach the rule-less principals
        default = "deny"
        ps.append({"name": P, "allow": prefix_rules})
        if rng.chance(1, 2):
            ps.append({"name": rng.choice(qs), "allow": [], "deny": []})
    elif shape == 1:    # a cached DENY of P would reach principals the default policy allows
        default = "allow"
        ps.append({"name": P, "allow": [everything], "deny": prefix_rules})
    elif shape == 2:    # a cached DENY of P would reach principals holding an explicit grant
        default = "deny"
        ps.append({"name": P, "allow": [{"action": "*", "resource": "topic", "name": "t2"}]})
        for q in listed:
            ps.append({"name": q, "allow": on_target(q)})
    else:
        default = rng.choice(["deny", "allow"])
        ps.append({"name": P, "allow": prefix_rules, "deny": [{"action": "*", "resource": "*", "name": rng.choice(pairs)[3]}]})
        for q in listed:
            k = rng.below(4)
            if k == 0:
                ps.append({"name": q, "allow": on_target(q)})
            elif k == 1:
                ps.append({"name": q, "deny": on_target(q)})
            elif k == 2:
                ps.append({"name": q, "allow": [], "deny": []})
    # principals named like resources and resources named like principals
    ps.append({"name": "orders-x", "allow": [{"action": "fetch", "resource": "topic", "name": P}]})
    acl = {"default_policy": default, "principals": ps}
    ops = ["new %s %s" % (auto, json.dumps(acl).encode().hex())] + SETUP + [
        "do admin 19 admin:cluster orders-x", "do admin 11 group_write:group payments", "do admin 8 group_write:group payments"]

    def do(who, key, names):
        return "do %s %d %s %s" % (enc(who) if who else "anonymous", key, REQ[key][0], ",".join(enc(n) for n in names))
    order = list(range(len(pairs)))
    for i in range(len(order) - 1, 0, -1):
        j = rng.below(i + 1)
        order[i], order[j] = order[j], order[i]
    for i in order:
        kind, key, q, longname, tgt = pairs[i]
        k = rng.below(3)
        if k == 0:
            ops += [do(P, key, [longname]), do(q, key, [tgt])]
        elif k == 1:
            ops += [do(q, key, [tgt]), do(P, key, [longname]), do(q, key, [tgt])]
        else:
            ops += [do(P, key, [longname]), do(q, key, [tgt]), do(P, key, [tgt]), do(q, key, [longname])]
    whos = [P, P, " " + P, P + " ", "nobody", "admin", "", " ", "orders-x", T, P + "*"] + qs + qs
    tpool = [T, T, "orders-x", "t1", "orders", P] + [ln for kd, _, _, ln, _ in pairs if kd == "topic"] + qs[:3]
    gpool = [G, G, "team-x", "g1", P] + [ln for kd, _, _, ln, _ in pairs if kd == "group"] + qs[:3]
    keys = sorted(REQ) + [0, 1, 11, 8, 101]
    for _ in range(nops):
        k = rng.choice(keys)
        need, kind, single = REQ[k]
        who = rng.choice(whos)
        if kind == "topic":
            pool = [T, "orders-x", "t1", "orders", "t2"] if k in (101, 103) else tpool
            names = [rng.choice(pool)] if (single or rng.chance(1, 2)) else list(dict.fromkeys(rng.choice(pool) for _ in range(rng.range(2, 3))))
        elif kind == "group":
            names = [rng.choice(gpool)] if (single or rng.chance(1, 2)) else list(dict.fromkeys(rng.choice(gpool) for _ in range(rng.range(2, 3))))
        elif kind == "star":
            names = ["*"]
        else:
            names = ["x"]
        ops.append(do(who, k, names))
    return auto, ops, acl


# ---------------------------------------------------------------------------------------------------------------------
# connection stream: WHICH PRINCIPAL a request is authorised as.  Requests travel over connections served by the real
# broker.Server loop with the ConnContextFunc of the real buildConnContextFunc (harness ops srv / conn / cdo); the expected
# principal of every request is an independent reading of (broker configuration, the connection's immutable attributes,
# THAT request's client id) — nothing an earlier request on the connection carried.
PROXY_V2_SIG = b"\r\n\r\n\x00\r\nQUIT\n"
WS = " \t\r\n"


def tok(v):
    """=<escaped> or ~ (None)"""
    return "~" if v is None else "=" + enc(v)


def untok(t):
    return None if t == "~" else dec(t[1:])


def parse_env_bool(v, fallback=False):
    v = (v or "").strip(WS).lower()
    if v in ("1", "true", "yes", "on"):
        return True
    if v in ("0", "false", "no", "off"):
        return False
    return fallback


def join_host_port(h, p):
    return "[%s]:%s" % (h, p) if (":" in h or "%" in h) else "%s:%s" % (h, p)


def host_from_addr(addr):
    """hostFromAddr: the host of host:port / [host]:port, the whole string when it is not of that form"""
    if addr == "":
        return ""
    i = addr.rfind(":")
    if i < 0:
        return addr
    if addr[0] == "[":
        e = addr.find("]")
        if e < 0 or e + 1 != i:
            return addr
        host, rest_open, rest_close = addr[1:e], addr[1:], addr[e + 1:]
    else:
        host, rest_open, rest_close = addr[:i], addr, addr
        if ":" in host:
            return addr
    if "[" in rest_open or "]" in rest_close:
        return addr
    return host


def parse_proxy(b):
    """what a PROXY-protocol reader finds in front of the first frame: ('absent',) ('malformed',) ('local',) ('addr', src)"""
    import ipaddress
    if b[:5] == b"PROXY":
        nl = b.find(b"\n")
        if nl < 0 or nl >= 256:
            return ("malformed",)
        parts = b[:nl + 1].split()
        if len(parts) >= 2 and parts[1].upper() == b"UNKNOWN":
            return ("local",)
        if len(parts) < 6:
            return ("malformed",)
        return ("addr", join_host_port(parts[2].decode(), parts[4].decode()))
    if b[:12] == PROXY_V2_SIG and len(b) >= 16:
        cmd, fam, ln = b[12] & 0x0f, b[13] >> 4, int.from_bytes(b[14:16], "big")
        pl = b[16:16 + ln]
        if len(pl) < ln:
            return ("malformed",)
        if cmd == 0:
            return ("local",)
        if fam == 1:
            if len(pl) < 12:
                return ("malformed",)
            return ("addr", join_host_port(str(ipaddress.IPv4Address(pl[0:4])), str(int.from_bytes(pl[8:10], "big"))))
        if fam == 2:
            if len(pl) < 36:
                return ("malformed",)
            return ("addr", join_host_port(ipaddress.IPv6Address(pl[0:16]).compressed, str(int.from_bytes(pl[32:34], "big"))))
        return ("absent",)
    return ("absent",)


def conn_oracle(source_raw, proxy_raw, remote, prefix):
    """('refused',) | ('noctx',) | ('ctx', principal, remote, proxyaddr): the ConnContext a connection gets (principal ''
    = the request's client id decides)."""
    source = (source_raw or "").strip(WS) or "client_id"
    src = source.lower()
    proxy_on = parse_env_bool(proxy_raw) or src == "proxy_addr"
    if src == "client_id" and not proxy_on:
        return ("noctx",)
    peer, paddr = remote, ""
    if proxy_on:
        hdr = parse_proxy(prefix)
        if hdr[0] in ("absent", "malformed"):
            return ("refused",)
        if hdr[0] == "addr" and hdr[1] != "":
            peer = paddr = hdr[1]
    principal = host_from_addr(peer) if src in ("remote_addr", "proxy_addr") else ""
    return ("ctx", principal, peer, paddr)


def principal_oracle(co, cid):
    """the principal a request with client id `cid` (None = null) is authorised as on a connection with outcome `co`"""
    if co[0] == "ctx" and co[1].strip(WS) != "":
        return co[1].strip(WS)
    if cid is None or cid.strip(WS) == "":
        return "anonymous"
    return cid


def proxy_v1(src, sport, proto="TCP4"):
    return ("PROXY %s %s 10.0.0.99 %s 9092\r\n" % (proto, src, sport)).encode()


def proxy_v2(cmd, fam, payload):
    return PROXY_V2_SIG + bytes([0x20 | cmd, (fam << 4) | 1]) + len(payload).to_bytes(2, "big") + payload


def gen_prefix(rng, want):
    """a PROXY header of the wanted kind: 'addr' 'local' 'bad' (a connection the broker must refuse)"""
    import ipaddress
    hosts = ["admin", "alice", "bob", "nobody", "carol", "10.0.0.1", "10.0.0.2", "::1"]
    if want == "addr":
        k = rng.below(4)
        if k <= 1:
            h = rng.choice(hosts)
            return proxy_v1(h, str(rng.range(1, 65000)), "TCP6" if ":" in h else "TCP4")
        if k == 2:
            ip = rng.choice(["10.0.0.1", "10.0.0.2", "10.0.0.7"])
            return proxy_v2(1, 1, ipaddress.IPv4Address(ip).packed + ipaddress.IPv4Address("10.0.0.99").packed
                            + rng.range(1, 65000).to_bytes(2, "big") + (9092).to_bytes(2, "big"))
        ip = rng.choice(["::1", "fe80::1"])
        return proxy_v2(1, 2, ipaddress.IPv6Address(ip).packed + ipaddress.IPv6Address("::2").packed
                        + rng.range(1, 65000).to_bytes(2, "big") + (9092).to_bytes(2, "big"))
    if want == "local":
        return rng.choice([b"PROXY UNKNOWN\r\n", b"PROXY unknown ignored fields\r\n", proxy_v2(0, 0, b""), proxy_v2(0, 1, b"\x00" * 12)])
    return rng.choice([b"", b"", b"PROXY TCP4 10.0.0.1\r\n", proxy_v2(1, 3, b"\x00" * 8), proxy_v2(1, 1, b"\x00" * 4)])


CONN_SOURCES = [None, "", "client_id", "Client_ID", " client_id ", "bogus", "remote_addr", "REMOTE_ADDR", " remote_addr",
                "proxy_addr", "Proxy_Addr ", "proxy_addr"]
CONN_PROXY = [None, "", "true", "1", "on", "yes", "TRUE", " true ", "false", "0", "off", "maybe"]
CONN_CIDS = ["admin", "admin", "alice", "bob", "nobody", "nobody", "carol", "dave", "", " ", None, " alice", "10.0.0.1"]


def gen_conn_acl(rng):
    acl = gen_acl(rng)

    def rule():
        k = rng.below(3)
        if k == 0:
            return {"action": rng.choice(["produce", "fetch", "*"]), "resource": "topic", "name": rng.choice(TOPICS + ["*"])}
        if k == 1:
            return {"action": rng.choice(["group_read", "group_write", "*"]), "resource": "group", "name": rng.choice(GROUPS + ["*"])}
        return {"action": "admin", "resource": "cluster", "name": "*"}
    for who in ("10.0.0.1", "::1"):
        acl["principals"].append({"name": who, "allow": [rule() for _ in range(rng.below(4))], "deny": [rule() for _ in range(rng.below(2))]})
    return acl


def gen_conn_session(rng, nblocks, nreq):
    """ONE handler; per block one broker configuration (principal source x PROXY protocol), 2-3 connections with different
    immutable attributes (socket remote address, PROXY header v1/v2/LOCAL/missing/malformed), requests with DIFFERENT client ids
    interleaved over the connections — a privileged client id followed by an unprivileged one on the same connection and the
    other way round."""
    auto = rng.choice(["1", "0"])
    acl = gen_conn_acl(rng)
    ops = ["new %s %s" % (auto, json.dumps(acl).encode().hex())] + SETUP
    keys = sorted(REQ) + [0, 0, 19, 19, 8, 1, 33, 101]
    remotes = ["admin:4000", "alice:1", "bob:77", "nobody:5", "10.0.0.1:9", "10.0.0.2:9", "carol", "", "[::1]:555", "a:b:1",
               " alice:1", "pipe", "dave:", "[bob]:1"]

    def request(cid_pool):
        k = rng.choice(keys)
        need, kind, single = REQ[k]
        if kind == "topic":
            pool = TOPICS + (["created-by-nobody"] if k in (0, 1, 2, 3, 19) else [])
            if k in (101, 103):
                pool = ["orders", "secret", "t1", "Orders", "t2"]
            names = [rng.choice(pool)] if (single or rng.chance(1, 2)) else list(dict.fromkeys(rng.choice(pool) for _ in range(rng.range(2, 3))))
        elif kind == "group":
            names = [rng.choice(GROUPS)] if (single or rng.chance(1, 2)) else list(GROUPS)
        elif kind == "star":
            names = ["*"]
        else:
            names = ["x"]
        return rng.choice(cid_pool), k, names

    for b in range(nblocks):
        # half of the blocks: a ConnContext with an EMPTY principal (PROXY protocol on, client-id principals)
        if rng.chance(1, 2):
            source, proxy = rng.choice(CONN_SOURCES[:6]), rng.choice(CONN_PROXY[2:8])
        else:
            source, proxy = rng.choice(CONN_SOURCES), rng.choice(CONN_PROXY)
        ops.append("srv %s %s" % (tok(source), tok(proxy)))
        src = ((source or "").strip(WS) or "client_id").lower()
        proxy_on = parse_env_bool(proxy) or src == "proxy_addr"
        live = []
        for c in range(rng.range(2, 3)):
            remote = rng.choice(remotes)
            prefix = b""
            if proxy_on:
                prefix = gen_prefix(rng, rng.choice(["addr", "addr", "addr", "local", "bad"]))
            cid = "c%d" % c
            ops.append("conn %s %s %s" % (cid, tok(remote), prefix.hex() or "-"))
            if conn_oracle(source, proxy, remote, prefix)[0] == "refused":
                ops.append(("cdo", cid, rng.choice(CONN_CIDS), 0, ["orders"]))   # must be closed without an effect
            else:
                live.append(cid)
        if not live:
            continue
        # privileged first, then an unprivileged client id on the SAME connection; and the reverse on another
        first, second = live[0], live[-1]
        ops += [("cdo", first, "admin", 0, ["orders"]), ("cdo", first, "nobody", 0, ["orders"]),
                ("cdo", first, rng.choice(["nobody", "bob", None, ""]), 19, ["created-by-nobody"]),
                ("cdo", second, rng.choice(["nobody", "bob", None]), rng.choice([0, 8, 33]), [rng.choice(["orders", "g1"])]),
                ("cdo", second, "admin", 0, ["orders"])]
        for _ in range(nreq):
            cid, k, names = request(CONN_CIDS)
            ops.append(("cdo", rng.choice(live), cid, k, names))
    # fix the `group`/`topic` name of the mixed forced request, then render the cdo tuples
    out = []
    for op in ops:
        if isinstance(op, tuple):
            _, conn, cid, k, names = op
            kind = REQ[k][1]
            if kind == "group" and names[0] not in GROUPS:
                names = ["g1"]
            if kind == "topic" and names[0] in GROUPS:
                names = ["orders"]
            out.append(("cdo", conn, cid, k, names))
        else:
            out.append(op)
    return auto, out, acl


def render_conn_ops(ops):
    """tuples -> harness lines, with the expected principal of every request; returns (lines, meta) where meta[i] is None or
    {'eq': equivalent `do` line, 'conn': outcome, 'idx': connection index in its block, 'cid': client id, 'principal': …}"""
    lines, meta = [], []
    source = proxy = None
    conns, order = {}, []
    for op in ops:
        if isinstance(op, tuple):
            _, conn, cid, k, names = op
            co = conns[conn]
            p = principal_oracle(co, cid)
            body = "%d %s %s" % (k, REQ[k][0], ",".join(enc(n) for n in names))
            lines.append("cdo %s %s %s %s" % (conn, tok(cid), tok(p), body))
            meta.append({"eq": "do %s %s" % (enc(p), body), "conn": co, "idx": order.index(conn), "cid": cid, "principal": p})
            continue
        f = op.split()
        if f[0] == "srv":
            source, proxy = untok(f[1]), untok(f[2])
            conns, order = {}, []
        elif f[0] == "conn":
            conns[f[1]] = conn_oracle(source, proxy, untok(f[2]), b"" if f[3] == "-" else bytes.fromhex(f[3]))
            if f[1] in order:
                order.remove(f[1])
            order.append(f[1])
        lines.append(op)
        meta.append(None)
    return lines, meta


def conn_meta_of_lines(lines):
    """the same bookkeeping from rendered harness lines (replay)"""
    meta = []
    source = proxy = None
    conns, order = {}, []
    for op in lines:
        f = op.split()
        if f[0] == "srv":
            source, proxy = untok(f[1]), untok(f[2])
            conns, order = {}, []
        elif f[0] == "conn":
            conns[f[1]] = conn_oracle(source, proxy, untok(f[2]), b"" if f[3] == "-" else bytes.fromhex(f[3]))
            if f[1] in order:
                order.remove(f[1])
            order.append(f[1])
        if f[0] == "cdo":
            co, cid = conns[f[1]], untok(f[2])
            p = principal_oracle(co, cid)
            meta.append({"eq": "do %s %s" % (enc(p), " ".join(f[4:])), "conn": co, "idx": order.index(f[1]), "cid": cid, "principal": p})
        else:
            meta.append(None)
    return meta


def expected_ctx(co):
    if co[0] != "ctx":
        return "none"
    return "|".join(enc(x) for x in co[1:])


def judge_conn(ck, auto, op, o, acl, m):
    """monitor for one request that travelled over a connection: (fingerprint, what) | ('BROKE', title, detail) | None"""
    co = m["conn"]
    kv = dict(x.split("=", 1) for x in o.split() if "=" in x)
    if o.startswith("panic") or not o.startswith("do "):
        return judge(ck, auto, m["eq"], o, acl)
    if co[0] == "refused":
        if kv.get("changed", "-") != "-":
            return ("refused-connection-changed-state", "a connection the broker must refuse (PROXY header required, missing or malformed) "
                    "changed %s" % kv["changed"])
        if not o.startswith("do closed"):
            return ("BROKE", "a connection without the required PROXY header was served", "%s -> %s" % (op, o))
        return None
    r = judge(ck, auto, m["eq"], o, acl)
    if r:
        return (r[0], "connection %s, client id %r => principal %r: %s" % (co, m["cid"], m["principal"], r[1]))
    if o.startswith("do closed"):
        return ("BROKE", "the broker closed a connection it must serve", "%s -> %s" % (op, o))
    if kv.get("ctx") != expected_ctx(co):
        return ("BROKE", "the ConnContext of a connection differs from its immutable attributes (model: AclConn.buildConn)",
                "%s -> %s, expected ctx=%s" % (op, o, expected_ctx(co)))
    return None


def lean_session_lines(acl):
    """the ACL configuration for the Lean driver's session model (cfg / pr / al / dn / open)"""
    h = lambda x: lib.hexs(x.encode())
    out = ["cfg " + h(acl.get("default_policy", ""))]
    for p in acl.get("principals", []):
        out.append("pr " + h(p["name"]))
        for tag, rules in (("al", p.get("allow") or []), ("dn", p.get("deny") or [])):
            for r in rules:
                out.append("%s %s %s %s" % (tag, h(r.get("action", "")), h(r.get("resource", "")), h(r.get("name", ""))))
    return out + ["open"]


def lean_rq_lines(who, need, names):
    """one `rq` per (item, alternative permission): the h.allow* calls the required permission stands for"""
    h = lambda x: lib.hexs(x.encode())
    out = []
    if need == "-":
        return out
    for n in names:
        for alt in need.split("|"):
            a, r = alt.split(":")
            out.append("rq %s %s %s %s" % (h(who), h(a), h(r), h("cluster" if r == "cluster" else n)))
    return out


def judge(ck, auto, op, o, acl=None):
    """Direct property monitor on one implementation line: (fingerprint, what) or None."""
    f = op.split()
    if f[0] != "do":
        return None
    who, key, need, names = op_fields(op)
    byid = key >= 100
    key = key % 100
    if o.startswith("panic"):
        return "handler-panic", "request key %d from %s made the handler panic" % (key, who)
    if not o.startswith("do "):
        return "harness-problem", o[:120]
    kv = dict(x.split("=", 1) for x in o.split() if "=" in x)
    # the verdict the property is judged by comes from the independent reading of the ACL (names are case-sensitive);
    # the real authorizer's verdict (kv["allowed"]) is only what the code believed
    allowed = oracle_bits(acl, "" if who == "anonymous" else who, need, names) if acl is not None else kv["allowed"].split(",")
    changed = [] if kv["changed"] == "-" else kv["changed"].split(";")
    codes = kv.get("codes", "").split(",") if "codes" in kv else []
    prefix = {"topic": "topic:", "group": "group:", "star": "group:", "none": "none:"}[REQ[key][1]]
    denied = [n for n, a in zip(names, allowed) if a == "0"]
    if not denied:
        # the other direction: a request the ACL allows item by item is not answered with an authorization error
        # (e.g. another principal's DENY served from handler-wide state)
        if need != "-" and acl is not None and any(c in AUTH_CODES for c in codes):
            return ("allowed-request-got-authorization-error",
                    "%r holds %s on %s but request key %d answered codes %s" % (who, need, ",".join(names), key, ",".join(codes)))
        return None
    whole = all(a == "0" for a in allowed)
    # 1. nothing about a denied resource changes; if every item is denied nothing changes at all
    for n in denied:
        if prefix + enc(n) in changed:
            return ("denied-request-changed-state",
                    "%s lacks %s on %s but request key %d changed %s%s" % (who, need, n, key, prefix, n))
    if whole and changed:
        return ("denied-request-changed-state", "%s lacks %s on every named resource but request key %d changed %s" % (who, need, key, ";".join(changed)))
    # 2. no data
    if whole and kv.get("data") == "true":
        return "denied-request-returned-data", "%s lacks %s but request key %d returned record/group/config data" % (who, need, key)
    # 3. an authorization error for every denied item
    if "codes" not in kv:
        return "denied-request-no-error", "%s lacks %s but request key %d got '%s'" % (who, need, key, o.split()[1])
    if len(codes) == len(names):
        exists = kv["exists"].split(",")
        for n, a, c, ex in zip(names, allowed, codes, exists):
            if a == "0" and c not in AUTH_CODES:
                if key == 3 and (ex == "1" or auto == "0" or byid or not valid_topic_name(n)):
                    continue  # Metadata describes existing topics; the guarded effect is the auto-creation (by name) only,
                    #           and a name that cannot be a topic (metadata.ValidTopicName) is never auto-created
                if byid and ex == "0":
                    continue  # unknown topic id: nothing to protect, answered UNKNOWN_TOPIC_ID
                return "denied-item-no-authorization-error", "%s lacks %s on %s but request key %d answered code %s" % (who, need, n, key, c)
    return None


def model_ops(auto, ops, impl, acl=None):
    out = []
    for op, o in zip(ops, impl):
        f = op.split()
        if f[0] != "do" or not o.startswith("do ") or "allowed=" not in o:
            out.append("# " + op[:40])
            continue
        kv = dict(x.split("=", 1) for x in o.split() if "=" in x)
        who, key, need, names = op_fields(op)
        bits = oracle_bits(acl, "" if who == "anonymous" else who, need, names) if acl is not None else kv["allowed"].split(",")
        exists = kv["exists"].split(",")
        if key >= 100:
            # by-id forms: an unknown id is answered UNKNOWN_TOPIC_ID before any check; Metadata by id creates nothing
            if key == 103 or "0" in exists:
                out.append("# " + op[:40])
                continue
        if key == 3:
            # the Metadata gate guards the auto-creation only; a name that cannot be a topic is skipped before the gate
            # (metadata.ValidTopicName) — sent to the model like an existing topic: nothing to create, nothing to deny
            exists = [e if valid_topic_name(n) else "1" for n, e in zip(names, exists)]
        items = ["%d:%s:%s" % (name_id(n), a, e) for n, a, e in zip(names, bits, exists)]
        out.append("do %d %s %s" % (key % 100, auto, " ".join(items)))
    return out


def run(ck):
    st = getattr(ck, "_c24", None)
    if not st or not st.get("bins"):
        return
    binary = st["bins"]["b"]
    nsess, nops = (25, 60) if ck.quick() else (300, 120)
    csess, cops = (14, 30) if ck.quick() else (150, 80)
    ksess, kblocks, kreq = (10, 4, 10) if ck.quick() else (100, 5, 20)
    ck.cov["rule"] = ("sessions = fresh handler + random ACL (admin, alice, bob with random allow/deny rules over topics/groups/cluster incl. "
                      "prefix/* patterns, absent principal 'nobody', anonymous; default deny or allow; auto-create on/off) + seeded state "
                      "(records, group member, config) + random requests over all 21 served request types with 1-3 named resources; "
                      "plus multi-principal collision sessions on ONE handler (principal ids / topic / group names with '|' ':' '/' ' ' ',' "
                      "that are separator-joined concatenations of each other, P+long name before/after P<glue>mid + target, 4 ACL shapes); "
                      "plus connection sessions: the real broker.Server loop + the real buildConnContextFunc for every principal source "
                      "(client_id / remote_addr / proxy_addr / unknown / unset, any case) x KAFSCALE_PROXY_PROTOCOL (on / off / unset / junk), "
                      "2-3 connections per configuration (socket remote address with/without port, IPv6, blank; PROXY v1/v2 header with an "
                      "address, LOCAL/UNKNOWN, missing, malformed), requests with DIFFERENT client ids (incl. null / blank) interleaved on "
                      "each connection, privileged before unprivileged and the reverse; every request judged on its own.  Non-trivial = a "
                      "request with at least one denied item; distinct = distinct (acl, op) pairs")
    all_ops, autos, acls, metas = [], [], [], []
    for s in range(nsess):
        auto, ops, acl = gen_session(ck.rng.fork(), nops)
        all_ops += ops
        autos += [auto] * len(ops)
        acls += [acl] * len(ops)
        metas += [None] * len(ops)
    for s in range(csess):
        auto, ops, acl = gen_collision_session(ck.rng.fork(), cops)
        all_ops += ops
        autos += [auto] * len(ops)
        acls += [acl] * len(ops)
        metas += [None] * len(ops)
        ck.count("collision-session")
    for s in range(ksess):
        auto, tops, acl = gen_conn_session(ck.rng.fork(), kblocks, kreq)
        ops, meta = render_conn_ops(tops)
        all_ops += ops
        autos += [auto] * len(ops)
        acls += [acl] * len(ops)
        metas += meta
        ck.count("connection-session")
    fn = ck.path("ops_all.txt")
    open(fn, "w").write("\n".join(all_ops) + "\n")
    rc, out, err = ck.run_bin(binary, stdin_path=fn, env={"VERIF_HARNESS": "C24"}, timeout=900)
    impl = out.split("\n")[:-1]
    if rc != 0 or len(impl) != len(all_ops):
        ck.broke("implementation harness did not answer every op", "rc=%s %d/%d %s" % (rc, len(impl), len(all_ops), err[-600:]))
        return
    # the `do` line a request is judged as: itself, or (connection stream) the same request from the principal the connection's
    # immutable attributes and THIS request's client id give
    eq_ops = [op if op.startswith("do ") else (metas[i]["eq"] if metas[i] else None) for i, op in enumerate(all_ops)]
    sess_start = 0
    oracle_diffs = []
    conn_broke = []
    obits_all = [None] * len(all_ops)
    for i, (op, o) in enumerate(zip(all_ops, impl)):
        if op.startswith("new"):
            sess_start = i
            ck.cov["traces_validated_against_impl"] += 1
            continue
        if eq_ops[i] is None:
            if (op.startswith("srv") and not o.startswith("srv func=")) or (op.startswith("conn") and o != "conn ok"):
                ck.broke("implementation harness could not set up a connection", "%s -> %s" % (op, o))
                return
            if op.startswith("srv"):
                f = op.split()
                want = "srv func=nil" if conn_oracle(untok(f[1]), untok(f[2]), "", b"")[0] == "noctx" else "srv func=set"
                if o != want:
                    conn_broke.append(("buildConnContextFunc returns %s a ConnContextFunc where the model expects the opposite"
                                       % ("no" if want.endswith("set") else ""), "%s -> %s" % (op, o)))
            continue
        who, key, need, names = op_fields(eq_ops[i])
        obits = oracle_bits(acls[i], "" if who == "anonymous" else who, need, names)
        obits_all[i] = obits
        has_denied = "0" in obits
        m = metas[i]
        if m:
            co = m["conn"]
            ck.count("conn:%s:%s" % (co[0] if co[0] != "ctx" else ("ctx-principal" if co[1].strip(WS) else "ctx-empty-principal"),
                                     "denied" if has_denied else "allowed"))
        else:
            ck.count("key%d:%s" % (key, "denied" if has_denied else "allowed"))
        ck.case((all_ops[sess_start], op), nontrivial=has_denied, sample={"op": op, "impl": o[:160]} if has_denied else None)
        if "allowed=" in o and o.split("allowed=")[1].split()[0].split(",") != obits:
            oracle_diffs.append((i, op, o, obits))
        v = judge_conn(ck, autos[i], op, o, acls[i], m) if m else judge(ck, autos[i], op, o, acls[i])
        if v and v[0] == "BROKE":
            conn_broke.append((v[1], v[2]))
        elif v:
            # the whole session up to the failing request: the outcome may depend on what other principals asked before
            ck.violation(v[0], v[1], {"ops": all_ops[sess_start:i + 1], "auto": autos[i], "actual": o})
    if conn_broke and not ck.violations:
        ck.broke("correspondence connection model/implementation: " + conn_broke[0][0], conn_broke[0][1])
    if oracle_diffs and not ck.violations:
        i, op, o, obits = oracle_diffs[0]
        ck.broke("the authorizer's verdict differs from the documented ACL semantics (names exact and case-sensitive) — C23's subject",
                 "acl=%s\nop %s\nimpl : %s\noracle: %s" % (json.dumps(acls[i]), op, o, ",".join(obits)))
    # Lean: (a) the gate model (granularity from the regenerated table) predicts the denied items; (b) the session
    # model (one AclSession.State per session, one `rq` = one h.allow* call) gives every request's decision — it must be
    # the pure Acl.allows and the Python oracle's verdict, request by request; (c) connection stream: the connection model
    # (AclConn: buildConn per connection, stepC per h.allow* call) gives the principal and the decision of every request
    mlines, tags = [], []     # tags: None | ("gate", i) | ("rq", i) | ("cfg",)
    hx = lambda x: lib.hexs(x.encode())
    for i, (a, op, o, acl) in enumerate(zip(autos, all_ops, impl, acls)):
        if op.startswith("new"):
            for l in lean_session_lines(acl):
                mlines.append(l)
                tags.append(None)
            continue
        f = op.split()
        if f[0] == "srv":
            mlines.append("srv %s %d" % (hx(untok(f[1]) or ""), 1 if parse_env_bool(untok(f[2])) else 0))
            tags.append(None)
            continue
        if f[0] == "conn":
            hdr = parse_proxy(b"" if f[3] == "-" else bytes.fromhex(f[3]))
            mlines.append("conn %s %s %s" % (hx(untok(f[2])), hdr[0], hx(hdr[1]) if hdr[0] == "addr" else "-"))
            tags.append(("conn", i))
            continue
        who, key, need, names = op_fields(eq_ops[i])
        m = metas[i]
        if m:
            if m["conn"][0] == "refused":
                continue
            if need != "-":
                for n in names:
                    for alt in need.split("|"):
                        ac, r = alt.split(":")
                        mlines.append("crq %d %s %s %s %s" % (m["idx"], "~" if m["cid"] is None else hx(m["cid"]), hx(ac), hx(r),
                                                              hx("cluster" if r == "cluster" else n)))
                        tags.append(("rq", i))
        else:
            for l in lean_rq_lines("" if who == "anonymous" else who, need, names):
                mlines.append(l)
                tags.append(("rq", i))
        mo = model_ops(a, [eq_ops[i]], [o], acl)[0]
        if not mo.startswith("#"):
            mlines.append(mo)
            tags.append(("gate", i, mo))
    mfn = ck.path("mops_all.txt")
    open(mfn, "w").write("\n".join(mlines) + "\n")
    mod = ck.lean_run("C24", mfn)
    if len(mod) != len(mlines):
        ck.broke("Lean driver did not answer every line", "%d/%d" % (len(mod), len(mlines)))
        return
    rq = {}
    gate = {}
    for tag, l, m in zip(tags, mlines, mod):
        if tag is None:
            if m != "ok":
                ck.broke("Lean driver rejected a configuration line", l + " -> " + m)
                return
        elif tag[0] == "conn":
            # the three readings of what a connection gets: Lean AclConn.buildConn, the Python oracle (the harness's ctx= column
            # is compared with the oracle per request)
            i = tag[1]
            f = all_ops[i].split()
            j = i
            while not all_ops[j].startswith("srv"):
                j -= 1
            g = all_ops[j].split()
            co = conn_oracle(untok(g[1]), untok(g[2]), untok(f[2]), b"" if f[3] == "-" else bytes.fromhex(f[3]))
            want = co[0] if co[0] != "ctx" else "ctx %s %s %s" % tuple(hx(x) for x in co[1:])
            if m != want and not ck.violations:
                ck.broke("the independent readings of a connection's ConnContext disagree (Lean AclConn.buildConn / Python oracle)",
                         "%s\n%s\nlean  : %s\noracle: %s" % (all_ops[j], all_ops[i], m, want))
                return
        elif tag[0] == "rq":
            rq.setdefault(tag[1], []).append(m)
        else:
            gate[tag[1]] = (tag[2], m)
    sess_start = 0
    for i, (op, o) in enumerate(zip(all_ops, impl)):
        if op.startswith("new"):
            sess_start = i
            continue
        if eq_ops[i] is None or (metas[i] and metas[i]["conn"][0] == "refused"):
            continue
        who, key, need, names = op_fields(eq_ops[i])
        if need != "-":
            nalt = len(need.split("|"))
            ans = rq.get(i, [])
            kvs = [dict(x.split("=", 1) for x in a.split()) if a.startswith("d=") else {} for a in ans]
            if len(kvs) != nalt * len(names) or any("d" not in k for k in kvs):
                ck.broke("Lean session model did not decide a request", "op %s -> %s" % (op, ans))
                return
            sbits = ["1" if any(k["d"] == "1" for k in kvs[j * nalt:(j + 1) * nalt]) else "0" for j in range(len(names))]
            pure = all(k["d"] == k["pure"] for k in kvs)
            if metas[i]:
                # the principal: Lean connStep on the connection's state / Lean principalSpec / Python oracle
                want = hx(metas[i]["principal"])
                if any(k.get("p") != want or k.get("spec") != want for k in kvs) and not ck.violations:
                    ck.broke("the independent readings of a request's principal disagree (Lean AclConn.connStep / principalSpec / Python oracle)",
                             "op %s\nlean : %s\noracle: %s" % (op, ans, want))
                    return
            if (not pure or sbits != obits_all[i]) and not ck.violations:
                ck.broke("the independent readings of the ACL disagree (Lean session step / Lean Acl.allows / Python oracle)",
                         "acl=%s\nop %s\nlean : %s\noracle: %s" % (json.dumps(acls[i]), op, ans, ",".join(obits_all[i])))
                return
        if i not in gate:
            continue
        mo, m = gate[i]
        kv = dict(x.split("=", 1) for x in o.split() if "=" in x)
        if "codes" not in kv:
            continue
        codes = kv["codes"].split(",")
        if len(codes) != len(names):
            continue
        got = ",".join("1" if c in AUTH_CODES else "0" for c in codes)
        want = m.split()[0].split("=")[1] if m.startswith("deny=") else m
        # compare on denied items and wherever the model predicts a denial
        allowed = [x.split(":")[1] for x in mo.split()[3:]]
        bad = any((w == "1") != (g == "1") for w, g, a in zip(want.split(","), got.split(","), allowed) if a == "0" or w == "1")
        if bad and not ck.violations:
            ck.cov["disagreements_checked"] += 1
            ck.broke("correspondence gate model/implementation (which items are answered with an authorization error)",
                     "session acl=%s\nop %s\nimpl : %s\nmodel: %s" % (bytes.fromhex(all_ops[sess_start].split()[2]).decode(), op, o, m))
            return


def replay(ck, path):
    rep = json.load(open(path))
    generate(ck)
    st = ck._c24
    if not st.get("bins"):
        return
    ops = rep["ops"]
    fn = ck.path("replay.txt")
    open(fn, "w").write("\n".join(ops) + "\n")
    rc, out, err = ck.run_bin(st["bins"]["b"], stdin_path=fn, env={"VERIF_HARNESS": "C24"}, timeout=120)
    impl = out.split("\n")[:-1]
    acl = json.loads(bytes.fromhex(ops[0].split()[2]).decode())
    metas = conn_meta_of_lines(ops)
    print("  acl:", json.dumps(acl))
    for op, o, m in zip(ops, impl, metas):
        print("  %s\n     -> %s" % (op[:100] if not op.startswith("new") else op[:12] + "…", o))
        if m:
            print("     connection %s, client id %r => principal %r" % (m["conn"], m["cid"], m["principal"]))
        ck.case(op, sample={"op": op[:100], "impl": o[:160]})
        auto = rep.get("auto", ops[0].split()[1])
        v = judge_conn(ck, auto, op, o, acl, m) if m else judge(ck, auto, op, o, acl)
        if v and v[0] == "BROKE":
            ck.broke("correspondence connection model/implementation: " + v[1], v[2])
        elif v:
            ck.violation(v[0], v[1], {"ops": ops, "actual": o})
    ck.cov["distinct_nontrivial"] = max(ck.cov["distinct_nontrivial"], 2)
