"""C35 — the SQL parser never crashes and ignores keyword case."""
import json
import os
import re

from checks import lib

PROPERTY = "C35"
LEAN_MODULES = ["KafVerif.Props.C35", "KafVerif.Gen.C35Slices"]
OBLIGATIONS = [
    "KafVerif.C35.asciiLower_length",
    "KafVerif.C35.slices_in_range",
    "KafVerif.C35.parse_never_panics",
    "KafVerif.C35.old_lowering_changes_length",
    "KafVerif.C35.old_lowering_panics",
    "KafVerif.C35.case_insensitive_partial",
    "KafVerif.C35.case_insensitive_topics",
    "KafVerif.C35.slices_provenance",        # regenerated from parser.go on every run (go/ast extractor)
    "KafVerif.C35.no_package_level_mutable_state",   # regenerated: package-level vars of internal/sql and who writes them
    "KafVerif.C35.asciiLower_pointwise",
    "KafVerif.C35.lowerB_spec",
    "KafVerif.C35.asciiLower_context_free",
    "KafVerif.C35.keyword_lowered_in_place",
]
BUILDS = {"h": ("sql", "./cmd/verif_c35", ["C35"]),
          "hr": ("sql", "./cmd/verif_c35", ["C35"], {"race": True})}     # same harness under the race detector
ENGINES = ["lean-kafverif", "go-overlay-harness", "ast-extract"]
TECHNIQUE = ("Lean 4 totality proof over a byte-level model of parser.go (every slice expression with Go's bounds rule) "
             "+ Go/Lean differential correspondence of the parsed fields and of the statement-wide lowering (lowerASCII vs asciiLower) "
             "+ crash and keyword-case monitors on the real Parse + concurrent cold-start runs in child processes (plain and -race) "
             "+ tables regenerated from the source (slice provenance, package-level variables)")
LEVEL_TEXT = ("proof: slices_in_range / parse_never_panics — for every byte string and every byte-length-preserving "
              "lowering no slice expression of the modelled parser is out of range (includes the argument that `from` "
              "cannot be found inside `select`, so raw[selectIdx+6:fromIdx] has low <= high); asciiLower_length; "
              "old_lowering_panics — with strings.ToLower's length-changing lowering the executed input panics; "
              "case_insensitive_partial — any two texts with the same ASCII lowering (hence any two keyword-case variants) "
              "parse to the same outcome with equal type, topics, aliases, join sides, filters, GROUP/ORDER BY, LIMIT and "
              "window tokens, column texts and JSON paths equal modulo ASCII case (every string operation of the model is shown "
              "to commute with the lowering). "
              "asciiLower_pointwise / lowerB_spec / asciiLower_context_free / keyword_lowered_in_place — the lowering is a byte map: "
              "a keyword typed in any case is lowered in place whatever bytes (non-ASCII runes, ill-formed UTF-8) stand next to it; "
              "the real lowerASCII is compared with it on every keyword with every non-ASCII sequence at every position. "
              "no_package_level_mutable_state (regenerated) — no package-level variable of internal/sql is written or aliased by a "
              "function body without a lock (Parse runs on one goroutine per connection). "
              "The model is tied to the source by diffing, for generated and arbitrary query texts, the parsed fields "
              "(type, topics, aliases, join condition, column texts, group/order/limit/filters/window tokens) of the "
              "real sql.Parse against the model.")
LEVEL_NOTE = ("case_insensitive_partial is 'partial' because SelectColumn.Raw (unused downstream; it repeats the query text, "
              "keywords AS / function names included) and JSON paths are equal only modulo ASCII case, and because the column "
              "classification and timestamp literals are outside the model; on the implementation a monitor compares every "
              "field of Query between keyword-case variants (Raw modulo case). parseTSFilters/time.Parse, splitAlias and the aggregate/JSON column classification "
              "are regex/stdlib code outside the model; they contain no slice or index expression. Unicode white space, "
              "upper-case non-ASCII letters, U+212A/U+017F and ill-formed UTF-8 are outside the correspondence domain "
              "(local strings.ToLower calls are modelled by the ASCII lowering) and are covered by the crash monitor and the "
              "keyword-case monitor (Unicode spaces / runes / ill-formed bytes directly before every keyword) only. "
              "Concurrency: the package-variable table is syntactic (go/ast: writes through method calls on a package-level struct "
              "value, or state behind an imported package, are not seen; 'guarded' = the enclosing function calls .Lock()/.RLock()); "
              "the cold-start runs (fatal error = child exit status) and the -race build are tests of schedules, not a proof.")
ASSUMPTIONS = [
    "goroutine safety of sql.Parse is established syntactically (no written, lock-less package-level variable in internal/sql) and by "
    "the race detector on concurrent cold starts; *regexp.Regexp values are safe for concurrent use (documented)",
    "regexp (RE2) never panics and implements leftmost-first matching; `(?i)\\bkw\\b` is modelled as the first ASCII-case-insensitive occurrence between non-word bytes",
    "strings.TrimSpace/Fields are modelled on ASCII white space; strconv.ParseInt on optional sign + decimal digits with range check",
]
DEFAULT_SEED = 35
partial_text = ("case_insensitive_partial: SelectColumn.Raw and JSON paths equal modulo ASCII case only; column classification "
                "(splitAlias, aggregates) and timestamp literals (time.Parse) are outside the model and covered by the "
                "implementation monitor")

KW_CASE = ["select", "from", "where", "and", "join", "left", "on", "group", "by", "order", "desc", "asc", "limit", "last",
           "tail", "within", "scan", "full", "show", "topics", "partitions", "describe", "explain", "as", "between",
           "count", "min", "max", "sum", "avg", "json_value", "json_query", "json_exists"]
SAFE_NONASCII = ["é", "ß", "日", "ⱥ", "ñ", "ω", "ж", "𝛑", "😀"]       # no case mapping to another rune, not white space
HOSTILE = ["Ⱥ", "İ", "K", "ſ", "É", "ẞ", "Ǆ", "\u0085", " ", " ", " ", "ǅ", "Ω"]
WS = [" ", " ", " ", "  ", "\t", "\n", " \r\n", "\x0b", "\x0c"]
# Unicode white space (strings.Fields / TrimSpace split on it, regexp \s and \b do not see it) and other runes that users
# paste next to a keyword (IME ideographic space, no-break space, …)
NONASCII_SPACES = ["\u3000", "\u00a0", "\u2003", "\u0085", "\u2028", "\u1680"]
NONASCII_RUNES = ["é", "日", "😀", "ß", "Ⱥ", "\u212a"]
ILL_FORMED = [b"\x80", b"\xc3", b"\xff", b"\xe3\x80", b"\xc0\x80", b"\xf0\x9f\x98"]
WS_EXT = WS + WS + NONASCII_SPACES                     # separators of the case-variant / hostile streams


PARSER_GO = "addons/processors/sql-processor/internal/sql/parser.go"


def extract_slices(ck):
    """Run the go/ast extractor on the CURRENT parser.go; returns the JSON table."""
    import subprocess
    src = os.path.join(lib.REPO, PARSER_GO)
    p = subprocess.run(["go", "run", "main.go", "-f", src], cwd=os.path.join(lib.HARNESS, "C35", "extract"),
                       env=lib.go_env(), capture_output=True, text=True)
    if p.returncode != 0:
        raise RuntimeError("extractor failed: " + p.stderr[-1500:])
    return json.loads(p.stdout)


def lean_slices(table):
    """The Lean source of lean/KafVerif/Gen/C35Slices.lean for an extracted table."""
    fns = {f["name"]: i for i, f in enumerate(table["funcs"])}
    offs, fresh = {}, {}

    def off(o):
        return offs.setdefault(o, len(offs))

    def root(fn, r):
        if r.startswith("P") and r[1:].isdigit():
            return ".param %s" % r[1:]
        return ".fresh %d" % fresh.setdefault((fn, r), len(fresh))

    out = ["import KafVerif.Model.SqlSlices",
           "/-! GENERATED by checks/C35.py from %s (harness/C35/extract) — do not edit. -/" % PARSER_GO,
           "namespace KafVerif.Gen.C35Slices", "open KafVerif.SqlSlices", ""]
    out.append("-- functions: " + ", ".join("%d=%s" % (i, n) for n, i in sorted(fns.items(), key=lambda x: x[1])))
    rows = []
    for r in table["slices"] or []:
        bs = ", ".join("⟨%s, %d⟩" % (root(r["fn"], b["root"]), off(b["off"])) for b in (r["bounds"] or []))
        rows.append("  -- %s:%d  %s\n  ⟨%d, %d, %s, %d, [%s]⟩" % (r["fn"], r["line"], r["expr"].replace("\n", " ")[:90], fns[r["fn"]], r["line"],
                                                                 root(r["fn"], r["root"]), off(r["off"]), bs))
    out.append("def slices : List SliceRow := [\n" + ",\n".join(rows) + "]\n")
    crows = []
    for c in table["calls"] or []:
        args = ", ".join("none" if a is None else "some ⟨%s, %d⟩" % (root(c["caller"], a["root"]), off(a["off"])) for a in (c["args"] or []))
        crows.append("  -- %s -> %s (line %d)\n  ⟨%d, %d, [%s]⟩" % (c["caller"], c["callee"], c["line"], fns[c["caller"]], fns[c["callee"]], args))
    out.append("def calls : List CallRow := [\n" + ",\n".join(crows) + "]\n")
    out.append("-- offset expressions: " + "; ".join("%d=%s" % (i, o) for o, i in sorted(offs.items(), key=lambda x: x[1])))
    out.append("-- strings.ToLower / ToUpper call sites: " + "; ".join("%s:%d %s" % (l["fn"], l["line"], l["call"]) for l in (table["lowerings"] or [])))
    vrows = []
    for v in table.get("pkg_vars") or []:
        vrows.append("  -- %s:%d  var %s (%s): %d write, %d alias, %d read sites; %d accesses in lock-less functions\n  ⟨%d, %s, %d, %d⟩" % (
            v["file"], v["line"], v["name"], v["kind"], v["writes"], v["aliases"], v["reads"], v["unguarded"],
            v["line"], VAR_KINDS.get(v["kind"], "kOther"), v["writes"] + v["aliases"], v["unguarded"]))
    out += ["", "/-- every package-level `var` of internal/sql (non-test files) and how function bodies use it -/",
            "def pkgVars : List VarRow := [" + ("\n" + ",\n".join(vrows) if vrows else "") + "]"]
    out += ["", "end KafVerif.Gen.C35Slices", "",
            "/-- **C35 (generated).** `Parse` runs on one goroutine per client connection: no package-level variable of the",
            "current internal/sql is written (or aliased) by a function body without a lock - a compiled regexp or a table that is",
            "only read is fine, a lock-less cache map is `fatal error: concurrent map writes`. -/",
            "theorem KafVerif.C35.no_package_level_mutable_state :",
            "    ∀ v ∈ KafVerif.Gen.C35Slices.pkgVars, v.kind = KafVerif.SqlSlices.kSync ∨ v.writes = 0 ∨ v.unguarded = 0 :=",
            "  (KafVerif.SqlSlices.varsOk_iff _).1 (by decide)", "",
            "set_option maxRecDepth 100000 in",
            "/-- **C35 (generated).** Every slice / index expression of the current parser.go indexes the sequence its bounds",
            "were computed on, or a byte-length-equal lowering of it (same root, same offset; parameters aligned at every call site). -/",
            "theorem KafVerif.C35.slices_provenance :",
            "    KafVerif.SqlSlices.checkAll KafVerif.Gen.C35Slices.slices KafVerif.Gen.C35Slices.calls = true := by decide", ""]
    return "\n".join(out)


VAR_KINDS = {"scalar": "kScalar", "map": "kMap", "slice": "kSlice", "array": "kArray", "pointer": "kPointer",
             "regexp": "kRegexp", "sync": "kSync", "func": "kFunc", "other": "kOther"}


def failing_vars(table):
    """Python twin of SqlSlices.varOk (only used to NAME the offending variables in the report)."""
    bad = []
    for v in table.get("pkg_vars") or []:
        if v["kind"] != "sync" and v["writes"] + v["aliases"] > 0 and v["unguarded"] > 0:
            bad.append("%s:%d  var %s (%s) is written without a lock: %s; %d access sites in functions that take no lock" % (
                v["file"], v["line"], v["name"], v["kind"], ", ".join(v["sites"] or []), v["unguarded"]))
    return bad


def failing_rows(table):
    """Python twin of SqlSlices.rowOk (only used to NAME the offending expressions in the report)."""
    calls = table["calls"] or []

    def aligned_params(f, i, j, fuel):
        if i == j:
            return True
        if fuel == 0:
            return False
        cs = [c for c in calls if c["callee"] == f]
        if not cs:
            return False
        for c in cs:
            args = c["args"] or []
            if i >= len(args) or j >= len(args) or args[i] is None or args[j] is None:
                return False
            a, b = args[i], args[j]
            if a["off"] != b["off"] or not roots_aligned(c["caller"], a["root"], b["root"], fuel - 1):
                return False
        return True

    def roots_aligned(f, r1, r2, fuel):
        if r1 == r2:
            return True
        if r1[0] == "P" and r2[0] == "P" and r1[1:].isdigit() and r2[1:].isdigit():
            return aligned_params(f, int(r1[1:]), int(r2[1:]), fuel)
        return False
    bad = []
    for r in table["slices"] or []:
        for b in r["bounds"] or []:
            if b["off"] != r["off"] or not roots_aligned(r["fn"], b["root"], r["root"], 8):
                bad.append("%s:%d  %s  indexes (%s @ %s) with a value computed on (%s @ %s)" % (
                    r["fn"], r["line"], r["expr"], r["root"], r["off"], b["root"], b["off"]))
                break
    return bad


def generate(ck):
    table = extract_slices(ck)
    ck.slice_table = table
    os.makedirs(os.path.join(lib.LEAN, "KafVerif", "Gen"), exist_ok=True)
    fn = os.path.join(lib.LEAN, "KafVerif", "Gen", "C35Slices.lean")
    new = lean_slices(table)
    if not os.path.exists(fn) or open(fn).read() != new:
        tmp = fn + ".tmp%d" % os.getpid()
        open(tmp, "w").write(new)
        os.replace(tmp, fn)
    ck.count("slice_rows", len(table["slices"] or []))
    ck.count("call_rows", len(table["calls"] or []))
    ck.count("package_level_vars", len(table.get("pkg_vars") or []))
    ck.slice_failures = failing_rows(table)
    ck.var_failures = failing_vars(table)


GO_LOWER = {"İ": "i", "\u212a": "k", "Ⱥ": "ⱥ", "Ⱦ": "ⱦ", "ẞ": "ß", "É": "é", "Ω": "ω", "Ǆ": "ǆ", "ǅ": "ǆ"}
LENGTH_CHANGING = ["Ⱥ", "Ⱦ", "İ", "\u212a", "ẞ"]      # strings.ToLower: 2->3, 2->3, 2->1, 3->1, 3->2 bytes


def go_lower(s):
    return "".join(GO_LOWER.get(c, c.lower() if len(c.lower()) == 1 else c) for c in s)


def ascii_lower(s):
    return "".join(c.lower() if ord(c) < 128 else c for c in s)


def clause_last_stream():
    """Every clause of the grammar as the LAST clause of the statement, carrying a rune whose lower-case form has a
    different byte length, at the start / middle / end of the clause text.  Returns [(query, {json path: expected})]."""
    out = []
    for x in LENGTH_CHANGING:
        for ident in (x + "abc", "ab" + x + "c", "abc" + x, x * 3 + "_col", x):
            lo, alo = go_lower(ident), ascii_lower(ident)
            T = [
                ("select * from %s" % ident, {"Topic": alo}),
                ("select * from t %s" % ident, {"Topic": "t", "TopicAlias": alo}),
                ("select * from a join %s" % ident, {"JoinTopic": alo}),
                ("select * from a join b %s" % ident, {"JoinTopic": "b", "JoinAlias": alo}),
                ("select * from a o join b p on o._key = p._key within %s" % ident, {"TimeWindow": alo, "JoinTopic": "b"}),
                ("select x from t group by %s" % ident, {"GroupBy": [lo], "Topic": "t"}),
                ("select x from t group by a, %s" % ident, {"GroupBy": ["a", lo]}),
                ("select * from t order by %s" % ident, {"OrderBy": lo, "OrderDesc": False, "Topic": "t"}),
                ("select * from t order by %s desc" % ident, {"OrderBy": lo, "OrderDesc": True}),
                ("select * from t group by g order by %s" % ident, {"OrderBy": lo, "GroupBy": ["g"]}),
                ("select * from t order by _ts desc group by %s" % ident, {"GroupBy": [lo], "OrderBy": "_ts", "OrderDesc": True}),
                ("select * from t limit 5 last %s" % ident, {"Last": alo, "Limit": "5"}),
                ("select * from t tail %s" % ident, {"Tail": alo}),
                ("select %s from t" % ident, {"Select.0.Raw": ident, "Topic": "t"}),
                ("select a, %s from t order by %s" % (ident, ident), {"Select.1.Raw": ident, "OrderBy": lo}),
                ("explain select * from t order by %s" % ident, {"Explain.OrderBy": lo}),
                ("show partitions from %s" % ident, {"Topic": alo}),
                ("describe %s" % ident, {"Topic": alo}),
                ("%s select * from t" % ident, None),                      # must be an error, not a crash
                ("select * from t where _offset >= 1 scan %s" % ident, {"Topic": "t"}),
            ]
            for q, exp in T:
                out.append((q, exp))
                out.append((q.replace("select", "SELECT").replace("order by", "ORDER BY").replace("group by", "Group By") + " ;", exp))
    return out


def json_get(obj, path):
    for part in path.split("."):
        if obj is None:
            return None
        obj = obj[int(part)] if part.isdigit() else obj.get(part)
    return obj


def rand_case(rng, w):
    m = rng.below(4)
    if m == 0:
        return w
    if m == 1:
        return w.upper()
    if m == 2:
        return w.capitalize()
    return "".join(c.upper() if rng.chance(1, 2) else c for c in w)


def ident(rng, hostile=False):
    base = rng.choice(["orders", "t", "payments", "a", "b1", "user_events", "x.y", "O", "Orders", "t-1", "topic_2"])
    if rng.chance(1, 5):
        base += rng.choice(SAFE_NONASCII)
    if hostile and rng.chance(1, 2):
        base = rng.choice(HOSTILE) * rng.range(1, 9) + base
    return base


def column(rng, hostile=False):
    """One select column as tokens (text, is_keyword, glued_to_previous): the keywords INSIDE a column (AS, the
    aggregate and JSON function names) are keyword tokens too, so that case variants change them letter by letter."""
    K = lambda w, g=False: (w, True, g)
    T = lambda w, g=False: (w, False, g)
    k = rng.below(10)
    if k == 0:
        return [T("*")]
    if k == 1:
        return [T(rng.choice(["_key", "_value", "_offset", "_ts", "_partition", "o._key", "p._value"]))]
    if k == 2:
        col = [K("count"), T("(*)", rng.chance(2, 3))]
    elif k == 3:
        fn = rng.choice(["min", "max", "sum", "avg"])
        if rng.chance(1, 3):
            col = [K(fn), T("(", True), K("json_value", True), T("(_value, '$.a'))", True)]
        else:
            col = [K(fn), T("(%s)" % rng.choice(["_offset", "amount", "o.total"]), rng.chance(2, 3))]
    elif k == 4:
        col = [K(rng.choice(["json_value", "json_query", "json_exists"])),
               T("(%s,%s'$.%s')" % (rng.choice(["_value", "o._value", "_key"]), rng.choice(["", " "]), ident(rng)), rng.chance(2, 3))]
    elif k == 5:
        return [T(ident(rng)), K("as"), T(ident(rng))]
    elif k == 6:
        return [T("f(%s, g(%s))" % (ident(rng), ident(rng)))]
    elif k == 7:
        return [T(ident(rng, hostile)), T(ident(rng))]          # implicit alias
    else:
        return [T(ident(rng, hostile))]
    if rng.chance(1, 2):
        col += [K("as"), T(rng.choice(["total", "n", "s", "Total_1"]))]
    elif rng.chance(1, 4):
        col += [T(rng.choice(["total", "n"]))]                  # alias without AS after a function call
    return col


def gen_query(rng, hostile=False, with_ts=False):
    """A list of (token, is_keyword) for a mostly valid statement."""
    K = lambda w: (w, True)
    T = lambda w: (w, False)
    r = rng.below(20)
    if r == 0:
        return [K("show"), K("topics")]
    if r == 1:
        return [K("show"), K("partitions"), K("from"), T(ident(rng, hostile))]
    if r == 2:
        return [K("describe"), T(ident(rng, hostile))]
    toks = []
    if r == 3:
        toks.append(K("explain"))
        if rng.chance(1, 6):
            toks.append(K("explain"))
    toks.append(K("select"))
    ncol = rng.choice([0, 1, 1, 2, 3])
    for i in range(ncol):
        if i:
            toks.append((",", False, rng.chance(1, 2)))
        col = column(rng, hostile)
        if i and rng.chance(1, 2):
            col[0] = (col[0][0], col[0][1], True)              # no white space after the comma
        toks += col
    toks += [K("from"), T(ident(rng, hostile))]
    if rng.chance(1, 3):
        toks.append(T(rng.choice(["o", "x", "ali"])))
    if rng.chance(1, 3):
        if rng.chance(1, 3):
            toks.append(K("left"))
        toks += [K("join"), T(ident(rng, hostile))]
        if rng.chance(1, 2):
            toks.append(T(rng.choice(["p", "y"])))
        if rng.chance(4, 5):
            l = rng.choice(["o._key", "_key", "json_value(o._value, '$.id')", "x._key", "o._value", "JSON_VALUE(_value,'$.K')"])
            rr = rng.choice(["p._key", "_key", "json_value(p._value,'$.Id')", "y._key", "p.name"])
            toks += [K("on"), T(l + rng.choice([" = ", "=", " =", "= ", " == "]) + rr)]
        if rng.chance(1, 2):
            toks += [K("within"), T(rng.choice(["10m", "1h", "5s"]))]
    if rng.chance(1, 2):
        toks.append(K("where"))
        n = rng.range(1, 3)
        for i in range(n):
            if i:
                toks.append(K("and"))
            f = rng.below(6 if with_ts else 4)
            if f == 0:
                toks += [T("_partition"), T("="), T(str(rng.choice([0, 1, 7, -1, 2147483647, 2147483648, "x"])))]
            elif f in (1, 2):
                toks += [T(rng.choice(["_offset", "_OFFSET"])), T(rng.choice([">=", "<=", ">", "="])),
                         T(str(rng.choice([0, 5, 100, -3, "+7", 9223372036854775807, 9223372036854775808, "1_0"])))]
            elif f == 3:
                toks += [T(ident(rng)), T("="), T("1")]
            elif f == 4:
                toks += [T("_ts"), T(rng.choice([">=", "<="])), T(rng.choice(["1700000000000", "'2024-01-02 03:04:05'", "'2024-01-02T03:04:05Z'", "'nope'"]))]
            else:
                toks += [T("_ts"), K("between"), T("'2024-01-01 00:00:00'"), K("and"), T("'2024-01-02 00:00:00'")]
    if rng.chance(1, 4):
        toks += [K("group"), K("by"), T(rng.choice([", ", ","]).join(ident(rng, hostile) for _ in range(rng.range(1, 3))))]
    if rng.chance(1, 3):
        toks += [K("order"), K("by"), T(rng.choice(["_ts", "_TS", "_offset", ident(rng, hostile)]))]
        if rng.chance(1, 2):
            toks.append(K(rng.choice(["desc", "asc"])))
    if rng.chance(1, 3):
        toks += [K("limit"), T(str(rng.choice([0, 1, 10, 500, "x", -1])))]
    if rng.chance(1, 4):
        toks += [K("last"), T(rng.choice(["1h", "15m", "7d", "x"]))]
    if rng.chance(1, 5):
        toks += [K("tail"), T(str(rng.choice([1, 5, 100])))]
    if rng.chance(1, 6):
        toks += [K("scan"), K("full")]
    return toks


def render(rng, toks, case=None, ws=WS):
    out = rng.choice(["", "", " ", "\n "])
    for i, tok in enumerate(toks):
        w, kw = tok[0], tok[1]
        glued = len(tok) > 2 and tok[2]
        if i and not glued:
            out += rng.choice(ws)
        out += (case(w) if (kw and case) else w)
    out += rng.choice(["", "", ";", " ;", "; ", "\n"])
    return out


def title_case(w):
    return w[:1].upper() + w[1:].lower()


def inv_title_case(w):
    return w[:1].lower() + w[1:].upper()


def per_letter(rng):
    return lambda w: "".join(c.upper() if rng.chance(1, 2) else c.lower() for c in w)


def glue_rune_before_keyword(rng, toks, runes):
    """Put a non-ASCII rune DIRECTLY before one keyword token (no white space between the rune and the keyword letter)."""
    ks = [i for i, t in enumerate(toks) if t[1]]
    if not ks:
        return toks
    j = rng.choice(ks)
    toks = list(toks)
    toks[j] = (toks[j][0], True, True)
    toks.insert(j, (rng.choice(runes), False) + ((True,) if rng.chance(1, 2) and j else ()))
    return toks


ADJ_TEMPLATES = [
    "SELECT a AS b , COUNT (*) FROM orders o LEFT JOIN payments p ON o._key = p._key WITHIN 10m WHERE _partition = 1 AND _offset >= 5 "
    "GROUP BY a ORDER BY _ts DESC LIMIT 5 LAST 1h TAIL 3 SCAN FULL",
    "SELECT * FROM orders WHERE _partition = 1",
    "SELECT * FROM orders LIMIT 5",
    "SELECT * FROM a JOIN b ON a._key = b._key",
    "EXPLAIN SELECT JSON_VALUE (_value, '$.a') AS s FROM t WHERE _ts BETWEEN '2024-01-01 00:00:00' AND '2024-01-02 00:00:00' ORDER BY x ASC",
    "SELECT MIN (_offset), MAX (_offset), SUM (x), AVG (x), JSON_QUERY (_value, '$.m'), JSON_EXISTS (_value, '$.i') FROM t",
    "SHOW PARTITIONS FROM t",
    "SHOW TOPICS",
    "DESCRIBE t",
]


def adjacency_groups():
    """Every keyword of every template with every non-ASCII separator / rune / ill-formed sequence DIRECTLY before its first
    letter (replacing the white space, or after it), in 4 keyword-case spellings: the spellings must parse alike.
    Returns a list of groups (lists of byte strings)."""
    seps = [r.encode() for r in NONASCII_SPACES + NONASCII_RUNES] + ILL_FORMED
    styles = (lambda w: w.lower(), lambda w: w.upper(), title_case, inv_title_case)
    groups = []
    for t in ADJ_TEMPLATES:
        words = t.split(" ")
        kws = [i for i, w in enumerate(words) if w.isupper() and w.lower() in KW_CASE]
        for n, j in enumerate(kws):
            # short statements: every separator in both positions; long ones: the Unicode spaces + a rotating rune
            mine = seps if len(kws) <= 4 else seps[:2] + [seps[2 + (n % (len(seps) - 2))]]
            for m, sep in enumerate(mine):
                for keep_space in ((False, True) if len(kws) <= 4 else ((n + m) % 2 == 1,)):
                    g = []
                    for st in styles:
                        out = b""
                        for i, w in enumerate(words):
                            txt = (st(w) if i in kws else w).encode()
                            if i == j:
                                out += (b" " if (keep_space and i) else b"") + sep + txt
                            else:
                                out += (b" " if i else b"") + txt
                        g.append(out)
                    groups.append(g)
    return groups


def lower_stream(rng, n_random):
    """Inputs of lowerASCII: an upper-case ASCII letter directly after a non-ASCII rune / an ill-formed sequence - every
    keyword, every position - plus every non-ASCII byte before every letter, plus random bytes."""
    seqs = [r.encode() for r in NONASCII_SPACES + NONASCII_RUNES] + ILL_FORMED
    out = [b"", b"A", b"Z", b"@[`{", bytes(range(256)), bytes(range(255, -1, -1)), "ÀÉÎÕÜ".encode()]
    for kw in KW_CASE + ["group by", "order by"]:
        K = kw.upper().encode()
        for i in range(len(K) + 1):
            for r in seqs[:1] + seqs[1 + i % 2::2]:
                out.append(K[:i] + r + K[i:])
        for r in seqs:
            out.append(b"SELECT * FROM orders" + r + K + b" X")
            out.append(r + r + K)
            out.append(K + r + K + r)
    for b in range(128, 256):
        out.append(bytes([b]) + b"ABCDEFGHIJKLMNOPQRSTUVWXYZ")
        out.append(b"".join(bytes([b, c]) for c in range(65, 91)))
    for _ in range(n_random):
        k = rng.below(3)
        if k == 0:
            out.append(rng.bytes(rng.range(1, 40)))
        else:
            parts = []
            for _ in range(rng.range(1, 8)):
                parts.append(rng.choice(seqs) if rng.chance(1, 2) else rng.choice(KW_CASE).upper().encode()[:rng.range(1, 6)])
            out.append(b"".join(parts))
    return out


def mutate(rng, q):
    b = bytearray(q.encode())
    for _ in range(rng.range(1, 3)):
        m = rng.below(6)
        if not b:
            break
        i = rng.below(len(b))
        if m == 0:
            del b[i:i + rng.range(1, 6)]
        elif m == 1:
            b[i:i] = rng.choice([b"select", b" from ", b"from", b"group by", b"order by", b" on ", b"join ", b"limit",
                                 b"explain ", b"(", b")", b",", b"'", b"=", b";", "Ⱥ".encode(), "İ".encode(), b"\xff", b"\xc8"])
        elif m == 2:
            b[i] = rng.below(256)
        elif m == 3:
            j = rng.below(len(b))
            b[i:i] = b[min(i, j):max(i, j)][:40]
        elif m == 4:
            b = b[:i]
        else:
            b = b[i:]
    return bytes(b)


def in_domain(q):
    """Is the text inside the domain on which the model is an exact description?"""
    try:
        s = q.decode("utf-8")
    except UnicodeDecodeError:
        return False
    for ch in s:
        if ord(ch) < 128:
            if ch in "\x1c\x1d\x1e\x1f":     # not white space for Go, fine for the model too
                continue
            continue
        if ch not in "".join(SAFE_NONASCII):
            return False
    return True


def split_out(line):
    if " ## " in line:
        c, f = line.split(" ## ", 1)
        return c, f
    return line, None


def canon_full(full):
    """Query JSON with SelectColumn.Raw folded to lower case (it repeats the query text, keywords included)."""
    def walk(x):
        if isinstance(x, dict):
            return {k: (v.lower() if k == "Raw" and isinstance(v, str) else walk(v)) for k, v in x.items()}
        if isinstance(x, list):
            return [walk(v) for v in x]
        return x
    return json.dumps(walk(json.loads(full)), sort_keys=True)


def run_go(ck, binary, qs, tag, op="p"):
    fn = ck.path("ops_%s.txt" % tag)
    open(fn, "w").write("".join("%s %s\n" % (op, lib.hexs(q)) for q in qs))
    rc, out, err = ck.run_bin(binary, stdin_path=fn, timeout=300)
    lines = out.split("\n")[:-1]
    if rc != 0 or len(lines) != len(qs):
        return None, fn, "rc=%s lines=%d/%d %s" % (rc, len(lines), len(qs), err[-800:])
    return lines, fn, None


def shrink_panic(ck, binary, q):
    def fails(cand):
        lines, _, crash = run_go(ck, binary, [bytes(cand)], "dd")
        return lines is not None and lines[0] == "panic"
    return bytes(lib.ddmin(list(q), fails))


def check_lowering(ck, binary, lows):
    """lowerASCII (through VerifLowerASCII) against (a) the byte map itself and (b) the Lean model's asciiLower."""
    lines, fn, crash = run_go(ck, binary, lows, "lower", op="l")
    if crash:
        ck.broke("implementation harness did not answer every `l` line", crash)
        return False
    for q, l in zip(lows, lines):
        want = "lower " + lib.hexs(q.lower())           # bytes.lower(): ASCII letters only, byte by byte
        ck.case((b"l", q), nontrivial=(q.lower() != q))
        if l != want:
            def fails(cand):
                ls, _, cr = run_go(ck, binary, [bytes(cand)], "ddl", op="l")
                return ls is not None and ls[0] != "lower " + lib.hexs(bytes(cand).lower())
            small = bytes(lib.ddmin(list(q), fails))
            got, _, _ = run_go(ck, binary, [small], "ddl", op="l")
            ck.violation("lowerascii-not-a-byte-map",
                         "lowerASCII(%r) = %s, expected %r: an upper-case ASCII letter is not lowered (or another byte is changed) "
                         "depending on its neighbours, so a keyword next to a non-ASCII rune is read differently in upper and "
                         "lower case" % (small, got[0] if got else "?", small.lower()),
                         {"lower_hex": [small.hex()], "input": small.decode("utf8", "replace"),
                          "expected": small.lower().hex(), "actual": got[0] if got else "?"})
            break
    ck.count("lowerascii_inputs", len(lows))
    mfn = ck.path("model_lower.txt")
    open(mfn, "w").write("".join("l %s\n" % lib.hexs(q) for q in lows))
    model = ck.lean_run("C35", mfn)
    if len(model) != len(lows):
        ck.broke("model driver did not answer every `l` line", "%d/%d" % (len(model), len(lows)))
        return False
    for q, l, m in zip(lows, lines, model):
        ck.cov["traces_validated_against_impl"] += 1
        if l != m and l != "panic":
            ck.cov["disagreements_checked"] += 1
            ck.broke("correspondence model/implementation (lowerASCII vs asciiLower)", "input %r\nimpl : %s\nmodel: %s" % (q, l, m))
            break
    return True


RACE_RE = re.compile(r"WARNING: DATA RACE.*?(?:==================|\Z)", re.S)


def conc_once(ck, binary, fn, goroutines, per, race):
    env = {"GORACE": "halt_on_error=1 exitcode=66"} if race else {}
    rc, out, err = ck.run_bin(binary, args=["conc", str(goroutines), str(per)], stdin_path=fn, env=env, timeout=300)
    done = [l for l in out.split("\n") if l.startswith("conc-done")]
    return rc, out, err, (done[0] if done else None)


def concurrent_monitor(ck, bins, qs, quick, plan=None):
    """Fresh child processes in which N goroutines (= client connections) parse at the same moment.  A Go fatal error
    (concurrent map writes) cannot be recovered: the process dies, we see the exit status.  One variant of the harness is
    built with -race: a race report with a frame in internal/sql is a violation as well."""
    fn = ck.path("ops_conc.txt")
    open(fn, "w").write("".join("p %s\n" % lib.hexs(q) for q in qs))
    plan = plan or {"cold_starts": 16 if quick else 200, "goroutines": 32, "per_goroutine": 3,
                    "race_cold_starts": 2 if quick else 8, "race_goroutines": 8, "race_per_goroutine": 12 if quick else 60}
    rep = {"queries_hex": [q.hex() for q in qs], "concurrent": plan}

    def outcome(rc, out, err, done, race):
        if race and "WARNING: DATA RACE" in err:
            blocks = [b for b in RACE_RE.findall(err)]
            ours = [b for b in blocks if "/internal/sql." in b or "/internal/sql/" in b]
            if ours:
                ck.violation("parse-data-race",
                             "two goroutines calling sql.Parse race on shared memory (race detector, %d goroutines, cold start):\n%s"
                             % (plan["race_goroutines"], ours[0][:1800]),
                             dict(rep, expected="no data race inside internal/sql", actual=ours[0][:3000]))
                return False
            ck.count("race_reports_outside_internal_sql")
            return True
        if rc != 0 or done is None:
            fatal = [l for l in err.split("\n") if l.startswith("fatal error:") or l.startswith("panic:")]
            if fatal:
                ck.violation("concurrent-parse-kills-process",
                             "a process in which %d goroutines call sql.Parse at the same moment (cold start) died: %s (exit status %s); "
                             "no recover can stop a Go fatal error, one client takes the SQL server down"
                             % (plan["goroutines"], fatal[0], rc),
                             dict(rep, expected="every child process exits 0", actual=fatal[0], stderr=err[:3000]))
            else:
                ck.broke("concurrent harness run failed", "rc=%s stdout=%s stderr=%s" % (rc, out[-500:], err[-1500:]))
            return False
        m = re.search(r"mismatches=(\d+)", done)
        if m and int(m.group(1)) > 0:
            ck.violation("concurrent-parse-differs",
                         "sql.Parse answered differently when called from several goroutines at once: " + out[:600],
                         dict(rep, expected="the sequential answers", actual=out[:1500]))
            return False
        return True
    # the race detector first: it sees an unsynchronised access pair whether or not the two goroutines collide this time
    for i in range(plan["race_cold_starts"]):
        rc, out, err, done = conc_once(ck, bins["hr"], fn, plan["race_goroutines"], plan.get("race_per_goroutine", 12), True)
        ck.count("race_detector_cold_starts")
        if not outcome(rc, out, err, done, True):
            break
    for i in range(plan["cold_starts"]):
        rc, out, err, done = conc_once(ck, bins["h"], fn, plan["goroutines"], plan.get("per_goroutine", 3), False)
        ck.count("concurrent_cold_starts")
        if not outcome(rc, out, err, done, False):
            break
    ck.count("concurrent_statements_per_goroutine", len(qs))


def run(ck):
    ck.partial = partial_text
    bins = ck.build_all()
    if bins is None:
        return
    binary = bins["h"]
    quick = ck.quick()
    ck.log("harness built (plain + -race)")
    n_valid = 1500 if quick else 15000
    ck.cov["rule"] = ("query texts from a grammar of the supported statements (random keyword case, ASCII white space incl. "
                      "\\v \\f, identifiers with caseless non-ASCII runes, numeric boundary values), byte-level mutations of "
                      "them, a hostile stream (length-changing runes, Unicode spaces, ill-formed UTF-8), keyword-case groups with "
                      "every Unicode space / rune / ill-formed sequence directly before every keyword, lowerASCII inputs (every "
                      "keyword x every position x every non-ASCII sequence, every non-ASCII byte before every letter), and "
                      "concurrent cold starts of N goroutines in child processes; non-trivial = Parse returned a query (lowering: "
                      "some byte changes); distinct = distinct texts")
    rng = ck.rng
    corr, variants, hostile = [], [], []
    corr += [b"SELECT \xc8\xba\xc8\xba\xc8\xba\xc8\xba\xc8\xba\xc8\xba\xc8\xba\xc8\xba FROM t", b"", b";", b" ; ",
             b"select", b"select from", b"selectfrom t", b"select * from", b"select a from t group by", b"explain",
             b"explain explain select * from t", b"select * from t order by", b"select fromx from t",
             b"select x from_ from t", b"SELECT a,b FROM t GROUP BY a ORDER BY _ts DESC LIMIT 3",
             b"select * from a join b on", b"select * from a join b on a._key = b._key = c", b"select * from a left join",
             b"select * from t where", b"select * from t where _offset >=", b"select * from t limit limit 5",
             b"select * from t last", b"select * from t tail  \x0b7\x0b"]
    for i in range(n_valid):
        toks = gen_query(rng.fork(), hostile=False, with_ts=False)
        r = rng.fork()
        q = render(r, toks, case=lambda w: rand_case(r, w)).encode()
        corr.append(q)
        if i % 3 == 0:
            corr.append(mutate(rng.fork(), q.decode()))
        if i % 5 == 0:       # a caseless non-ASCII rune glued in front of a keyword (inside the model's domain)
            r = rng.fork()
            toks2 = glue_rune_before_keyword(r, toks, SAFE_NONASCII)
            corr.append(render(r, toks2, case=lambda w: rand_case(r, w)).encode())
    # keyword-case variants (monitor on the implementation only; includes _ts filters)
    groups = []
    for i in range(300 if quick else 3000):
        toks = gen_query(rng.fork(), hostile=(i % 4 == 0), with_ts=True)
        if i % 3 == 1:       # a non-ASCII white space / rune directly before a keyword letter
            toks = glue_rune_before_keyword(rng.fork(), toks, NONASCII_SPACES + NONASCII_RUNES)
        seed = rng.next()
        vs = []
        for style in (lambda w: w.lower(), lambda w: w.upper(), title_case, inv_title_case, None, None):
            r = lib.SplitMix64(seed)      # same white space for every variant
            f = style if style is not None else per_letter(rng.fork())   # every letter of every keyword token
            vs.append(render(r, toks, case=f, ws=(WS_EXT if i % 2 else WS)).encode())
        groups.append((len(variants), len(vs)))
        variants += vs
    for g in adjacency_groups():
        groups.append((len(variants), len(g)))
        variants += g
    for i in range(400 if quick else 4000):
        k = rng.below(3)
        if k == 0:
            toks = gen_query(rng.fork(), hostile=True, with_ts=True)
            r = rng.fork()
            hostile.append(mutate(rng.fork(), render(r, toks, case=lambda w: rand_case(r, w), ws=WS_EXT)))
        elif k == 1:
            toks = gen_query(rng.fork(), hostile=True, with_ts=True)
            r = rng.fork()
            hostile.append(render(r, toks, case=lambda w: rand_case(r, w), ws=WS_EXT).encode())
        else:
            hostile.append(rng.bytes(rng.range(0, 60)))
    clause = clause_last_stream()
    allq = corr + variants + hostile + [q.encode() for q, _ in clause]
    lines, fn, crash = run_go(ck, binary, allq, "all")
    if crash:
        ck.broke("implementation harness did not answer every line", crash)
        return
    impl = [split_out(l) for l in lines]
    ck.log("implementation answered %d statements" % len(allq))
    # the model answers the in-domain statements in the background while the monitors run
    import threading
    idx = [i for i, q in enumerate(allq) if in_domain(q)]
    mfn = ck.path("model_in.txt")
    open(mfn, "w").write("".join("p %s\n" % lib.hexs(allq[i]) for i in idx))
    mres = {}

    def model_job():
        try:
            mres["lines"] = ck.lean_run("C35", mfn)
        except Exception as e:      # re-raised below
            mres["error"] = e
    mthread = threading.Thread(target=model_job, daemon=True)
    mthread.start()
    # ---- monitor 1: never crashes
    for q, (c, _) in zip(allq, impl):
        ck.count({"panic": "panic", "err": "err"}.get(c, "ok"))
        ck.case(q, nontrivial=c.startswith("ok"), sample={"query": q.decode("utf8", "replace"), "impl": c[:120]})
        if c == "panic":
            if any(v["fingerprint"] == "parse-panics" for v in ck.violations) or any(h["fingerprint"] == "parse-panics" for h in ck.known_hits):
                continue
            small = shrink_panic(ck, binary, q)
            ck.violation("parse-panics", "sql.Parse panicked on %r" % small,
                         {"queries_hex": [small.hex()], "query": small.decode("utf8", "replace"),
                          "expected": "a query or an error", "actual": "panic"})
    # ---- monitor 1b: clause texts survive (no silent mis-slicing by length-changing runes)
    cbase = len(corr) + len(variants) + len(hostile)
    for (q, exp), (c, full) in zip(clause, impl[cbase:]):
        if c == "panic":
            continue
        if exp is None:
            continue
        got = json.loads(full) if full else None
        bad = None
        if got is None:
            bad = "Parse returned an error"
        else:
            for path, want in exp.items():
                if json_get(got, path) != want:
                    bad = "%s = %r, expected %r" % (path, json_get(got, path), want)
                    break
        if bad:
            ck.violation("clause-text-corrupted", "sql.Parse(%r): %s" % (q, bad),
                         {"queries_hex": [q.encode().hex()], "query": q, "expected": exp, "actual": bad})
    ck.count("clause_last_queries", len(clause))
    # ---- generated slice-provenance table (go/ast): name the offending expressions
    if getattr(ck, "slice_failures", None):
        ck.broke("slice provenance table regenerated from parser.go (KafVerif.C35.slices_provenance)",
                 "index computed on a different string than the one sliced:\n" + "\n".join(ck.slice_failures))
    if getattr(ck, "var_failures", None):
        ck.broke("package-level variables regenerated from internal/sql (KafVerif.C35.no_package_level_mutable_state)",
                 "Parse runs on one goroutine per connection; shared state written without a lock:\n" + "\n".join(ck.var_failures))
    # ---- monitor 3 + correspondence: the statement-wide lowering is the byte map of the model
    lows = lower_stream(rng.fork(), 300 if quick else 5000)
    if not check_lowering(ck, binary, lows):
        return
    ck.log("lowerASCII compared on %d inputs" % len(lows))
    # ---- monitor 4: concurrent connections, cold start (fatal errors / data races / answers that differ)
    conc_qs = [q for q, (c, _) in zip(corr, impl) if c.startswith("ok")]
    conc_qs = [ADJ_TEMPLATES[0].encode(), ADJ_TEMPLATES[4].encode(), ADJ_TEMPLATES[5].encode()] + conc_qs[:(21 if quick else 200)]
    concurrent_monitor(ck, bins, conc_qs, quick)
    ck.log("concurrent cold starts done")
    # ---- monitor 2: keyword case does not matter
    base = len(corr)
    for (a, n) in groups:
        outs = impl[base + a: base + a + n]
        qs = variants[a:a + n]
        ref = None
        for q, (c, full) in zip(qs, outs):
            if c == "panic":
                continue
            key = ("err",) if full is None else ("ok", canon_full(full))
            if ref is None:
                ref = (q, key)
            elif key != ref[1]:
                ck.violation("keyword-case-changes-parse",
                             "two keyword-case variants parse differently: %r vs %r" % (ref[0], q),
                             {"queries_hex": [ref[0].hex(), q.hex()], "variant_pair": True,
                              "expected": "equal Query (SelectColumn.Raw modulo case)", "actual": "%s / %s" % (ref[1][0], key[0])})
                break
    ck.count("case_variant_groups", len(groups))
    # ---- correspondence with the model
    mthread.join()
    if "error" in mres:
        raise mres["error"]
    model = mres["lines"]
    ck.log("model answered %d statements in its domain" % len(idx))
    if len(model) != len(idx):
        ck.broke("model driver did not answer every line", "%d/%d" % (len(model), len(idx)))
        return
    ts = re.compile(rb"_t[s\xc5]", re.I)
    for i, mo in zip(idx, model):
        c = impl[i][0]
        ck.cov["traces_validated_against_impl"] += 1
        if c == mo or c == "panic":
            continue
        if ts.search(allq[i]) and c == "err" and mo.startswith("ok"):
            ck.count("ts_literal_outside_model")
            continue
        ck.cov["disagreements_checked"] += 1
        ck.broke("correspondence model/implementation (sql.Parse)",
                 "query %r\nimpl : %s\nmodel: %s" % (allq[i], c, mo))
        return
    ck.count("in_model_domain", len(idx))
    ck.count("outside_model_domain", len(allq) - len(idx))


def replay(ck, path):
    rep = json.load(open(path))
    bins = ck.build_all()
    if bins is None:
        return
    if rep.get("lower_hex"):
        check_lowering(ck, bins["h"], [bytes.fromhex(h) for h in rep["lower_hex"]])
        ck.cov["distinct_nontrivial"] = max(ck.cov["distinct_nontrivial"], 2)
        return
    qs = [bytes.fromhex(h) for h in rep["queries_hex"]]
    if rep.get("concurrent"):
        concurrent_monitor(ck, bins, qs, True, plan=rep["concurrent"])
        for q in qs[:5]:
            ck.case(q, sample={"query": q.decode("utf8", "replace")})
        ck.cov["distinct_nontrivial"] = max(ck.cov["distinct_nontrivial"], 2)
        return
    lines, fn, crash = run_go(ck, bins["h"], qs, "replay")
    if crash:
        ck.broke("implementation harness did not answer", crash)
        return
    outs = [split_out(l) for l in lines]
    for q, (c, full) in zip(qs, outs):
        print("  %r -> %s" % (q, c[:160]))
        ck.case(q, sample={"query": q.decode("utf8", "replace"), "impl": c[:160]})
        if c == "panic":
            ck.violation("parse-panics", "sql.Parse panicked on %r" % q, {"queries_hex": [q.hex()]})
    ck.cov["distinct_nontrivial"] = max(ck.cov["distinct_nontrivial"], 2)
    if rep.get("variant_pair") and len(outs) == 2 and "panic" not in (outs[0][0], outs[1][0]):
        k = [("err",) if f is None else ("ok", canon_full(f)) for _, f in outs]
        if k[0] != k[1]:
            ck.violation("keyword-case-changes-parse", "two keyword-case variants parse differently", {"queries_hex": rep["queries_hex"], "variant_pair": True})
