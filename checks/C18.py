"""C18 — a partition or group lease has at most one live owner.

Tie: real PartitionLeaseManager / GroupLeaseManager objects over an embedded etcd, every etcd
operation of every API call gated by interposed clientv3 KV/Lease (harness/C18), driven by
schedules; the same concrete schedules are run through the Lean model (Driver/C18.lean,
variant byRev = the code with the proposed fix) and every observation line is diffed.  The
property itself (exclusive ownership, owner => live key, release never removes a foreign key) is
evaluated on the implementation's lines by `monitor`.
"""
import json

from checks import lib

PROPERTY = "C18"
LEAN_MODULES = ["KafVerif.Props.C18"]
OBLIGATIONS = [
    "KafVerif.C18.inv_reachable",
    "KafVerif.C18.exclusive",
    "KafVerif.C18.owner_has_live_key",
    "KafVerif.C18.release_safe",
    "KafVerif.C18.acquire_ok_owns",
    "KafVerif.C18.uncond_violates_stale_release",
    "KafVerif.C18.uncond_violates",
    "KafVerif.C18.byValue_violates",
]
ASSUMPTIONS = [
    "lease assumption: a broker observes the loss of its session (monitorSession's locked region, atomic with Done() closing) no later than the server expires the lease; `expire l` is only scheduled when no live manager has session l",
    "etcd is linearizable; a txn is atomic; revoking/expiring a lease deletes exactly the keys attached to it; a put with a dead lease fails",
    "sync.Mutex regions and single etcd operations are the atomic steps; singleflight serialises same-resource Acquires on one broker",
    "restart = the old manager object is abandoned (its in-flight acquires die, its pending deletes/revokes may still reach etcd)",
]
BUILDS = {"h": ("root", "./cmd/verif_c18", ["C18"])}
LEVEL_TEXT = ("Lean 4 invariant proof (induction over every schedule of etcd-operation-granular steps of acquire/release/"
              "releaseAll/session loss/expiry/restart, any number of brokers and resources) about an executable model of "
              "LeaseManager; tied to the current source by running generated schedules on real lease managers over embedded "
              "etcd with gated etcd operations and diffing every observation with the model.")
TECHNIQUE = "Lean 4 inductive invariant over a transition system + Go/Lean differential correspondence on etcd-operation schedules"

FULL = ["acquire {b} {r}", "step {b} {r}", "step {b} {r}", "step {b} {r}", "step {b} {r}"]


def full(b, r):
    return [x.format(b=b, r=r) for x in FULL]


# scripted schedules run first on every invocation (the corpus): the two replayed defects of the
# unfixed tree plus boundary interleavings of the guards
CORPUS = {
    "stale-release-vs-new-owner": full(0, 0) + ["release 0 0", "lost 0", "expire 0"] + full(1, 0) + ["del 0"] + full(2, 0),
    "stale-release-vs-own-reacquire": full(0, 0) + ["release 0 0", "acquire 0 0", "step 0 0", "step 0 0", "step 0 0", "step 0 0", "del 0"] + full(1, 0),
    "stale-release-vs-own-reacquire-insert-last": full(0, 0) + ["release 0 0", "acquire 0 0", "step 0 0", "step 0 0", "step 0 0", "del 0", "step 0 0"] + full(1, 0),
    "session-lost-before-insert": ["acquire 0 0", "step 0 0", "step 0 0", "step 0 0", "lost 0", "expire 0"] + full(1, 0) + ["step 0 0"],
    "session-replaced-before-insert": ["acquire 0 0", "step 0 0", "step 0 0", "step 0 0", "lost 0"] + full(0, 1) + ["expire 0"] + full(1, 0) + ["step 0 0"],
    "releaseall-then-revoke": full(0, 0) + full(0, 1) + ["releaseall 0", "acquire 1 0", "step 1 0", "step 1 0", "step 1 0", "step 1 0", "revoke 0"] + full(1, 0) + ["acquire 0 0"],
    "releaseall-during-acquire": ["acquire 0 0", "step 0 0", "releaseall 0", "step 0 0", "revoke 0"] + full(1, 0),
    "restart-reacquire": full(0, 0) + ["crash 0"] + full(1, 0) + full(0, 0) + ["expire 0"] + full(1, 0),
    "contended-create": ["acquire 0 0", "acquire 1 0", "step 0 0", "step 1 0", "step 0 0", "step 1 0", "step 0 0", "step 1 0", "step 0 0", "step 1 0"],
    "two-sessions-race": ["acquire 0 0", "acquire 0 1", "step 0 0", "step 0 1", "step 0 0", "step 0 1", "step 0 0", "step 0 1", "step 0 0", "step 0 1", "lost 0", "expire 0", "expire 1"] + full(1, 0) + full(1, 1),
    "release-then-release": full(0, 0) + ["release 0 0", "release 0 0", "del 0"] + full(1, 0) + ["release 1 0", "del 0"] + full(2, 0),
    "reacquire-after-owner-changed": full(0, 0) + ["lost 0", "acquire 0 0", "step 0 0", "step 0 0", "step 0 0", "expire 0"] + full(1, 0) + ["step 0 0", "step 0 0", "step 0 0"],
    "create-after-key-vanished": full(0, 0) + ["acquire 1 0", "step 1 0", "step 1 0", "step 1 0", "step 1 0", "lost 0", "expire 0", "acquire 1 0", "step 1 0", "step 1 0"],
    "lost-keeps-key-until-expiry": full(0, 0) + ["lost 0"] + full(1, 0) + full(0, 0) + ["expire 0"] + full(1, 0),
}


def parse_obs(o):
    """'<res> own=.. kv=.. live=.. closed=.. sess=.. dels=n revokes=n' -> dict"""
    f = o.split(" ")
    d = {"res": f[0]}
    for x in f[1:]:
        if "=" in x:
            k, v = x.split("=", 1)
            d[k] = v
    own = {}
    for part in d.get("own", "").split("|"):
        if ":" in part:
            b, rs = part.split(":", 1)
            own[b] = [r for r in rs.split(",") if r]
    kv = {}
    for part in d.get("kv", "").split(","):
        if part.startswith("?"):
            kv[part] = "?"
        elif ":" in part:
            r, v = part.split(":", 1)
            kv[r] = v
    sess = dict(p.split(":", 1) for p in d.get("sess", "").split(",") if ":" in p)
    cur = dict(p.split(":", 1) for p in d["cur"].split(",") if ":" in p) if "cur" in d else None
    live = set(x for x in d.get("live", "").split(",") if x)
    return {"res": d["res"], "own": own, "kv": kv, "sess": sess, "live": live, "cur": cur,
            "dels": int(d.get("dels", 0)), "revokes": int(d.get("revokes", 0))}


def monitor(ops, lines):
    """The property evaluated on implementation lines.  Returns (index, fingerprint, what) or None."""
    pend = []
    prev = None
    for i, (op, line) in enumerate(zip(ops, lines)):
        o = parse_obs(line)
        f = op.split()
        if o["res"] in ("hang", "panic", "stuck", "loss-not-observed", "no-keepalive"):
            return i, "harness-" + o["res"], "call did not behave as a sequence of gated etcd operations: %s" % o["res"]
        if o.get("cur") is not None and o["cur"] != {r: v.split("@")[0] for r, v in o["kv"].items() if not r.startswith("?")}:
            return i, "currentowner-differs-from-etcd", "CurrentOwner answers %s but the lease keys are %s" % (o["cur"], o["kv"])
        seen = {}
        for b, rs in sorted(o["own"].items()):
            for r in rs:
                if r in seen:
                    return i, "two-owners", "brokers %s and %s both own resource %s" % (seen[r], b, r)
                seen[r] = b
        if f[0] == "reset":
            pend = []
        elif f[0] == "release" and prev is not None and o["dels"] == prev["dels"] + 1:
            pend.append((f[1], f[2]))
        elif f[0] in ("del", "dropdel") and prev is not None:
            idx = int(f[1])
            if 0 <= idx < len(pend):
                b, r = pend.pop(idx)
                before, after = prev["kv"].get(r, "-"), o["kv"].get(r, "-")
                if f[0] == "del" and after == "-" and before != "-":
                    owner = before.split("@")[0]
                    if owner != "b" + b:
                        return i, "release-deleted-foreign-key", "Release by b%s removed the lease key of %s on resource %s" % (b, owner, r)
                    if r in o["own"].get(owner, []):
                        return i, "release-deleted-live-key", "a stale Release delete removed the key backing %s's current ownership of %s" % (owner, r)
        elif f[0] == "crash":
            pass  # pending deletes of the dead process stay in flight
        for b, rs in o["own"].items():
            for r in rs:
                want = "%s@%s" % (b, o["sess"].get(b, "-"))
                if o["kv"].get(r) != want or o["sess"].get(b, "-") not in o["live"]:
                    return i, "owner-without-live-key", "%s owns %s but etcd has %s (session %s, live leases %s)" % (
                        b, r, o["kv"].get(r), o["sess"].get(b), ",".join(sorted(o["live"])))
        prev = o
    return None


def gen_schedule(rng, nb, nr, nsteps):
    ops = []
    while len(ops) < nsteps:
        c = rng.below(10)
        if c < 2:
            ops += full(rng.below(nb), rng.below(nr))
        elif c < 3:
            b, r = rng.below(nb), rng.below(nr)
            ops += full(b, r) + ["release %d %d" % (b, r)]
        else:
            ops.append("rand %d" % (rng.next() >> 1))
    return ops


def run_go(ck, binary, lines, tag):
    fn = ck.path("sched_%s.txt" % tag)
    open(fn, "w").write("\n".join(lines) + "\n")
    rc, out, err = ck.run_bin(binary, stdin_path=fn, timeout=900)
    res = out.split("\n")[:-1]
    if rc != 0 or len(res) != len(lines):
        return None, None, "rc=%s answered %d of %d lines; stderr: %s" % (rc, len(res), len(lines), err[-800:])
    ops, obs = [], []
    for l in res:
        if " => " not in l:
            return None, None, "malformed harness line %r" % l
        a, b = l.split(" => ", 1)
        ops.append(a)
        obs.append(b)
    return ops, obs, None


def run_lean(ck, ops, tag):
    fn = ck.path("model_%s.txt" % tag)
    open(fn, "w").write("\n".join(ops) + "\n")
    return ck.lean_run("C18", fn)


def split_cases(ops):
    cases, cur = [], None
    for i, op in enumerate(ops):
        if op.startswith("reset"):
            cur = [i, i + 1]
            cases.append(cur)
        elif cur is not None:
            cur[1] = i + 1
    return cases


def _fails_many(ck, binary, header, cands, fp):
    """Evaluate many candidate schedules in ONE harness process; returns a list of bools."""
    lines, n = [], []
    for c in cands:
        lines.append(header)
        lines += c
    cops, obs, crash = run_go(ck, binary, lines, "dd")
    if crash:
        return [False] * len(cands)
    out = []
    for (a, b) in split_cases(cops):
        m = monitor(cops[a:b], obs[a:b])
        out.append(m is not None and m[1] == fp)
    return out + [False] * (len(cands) - len(out))


def batch_ddmin(items, fails_many, max_rounds=14):
    """ddmin where all complements of one granularity are tried in a single batch."""
    items = list(items)
    n = 2
    for _ in range(max_rounds):
        if len(items) < 2:
            break
        chunk = max(1, len(items) // n)
        cands = [items[:i] + items[i + chunk:] for i in range(0, len(items), chunk)]
        cands = [c for c in cands if c]
        res = fails_many(cands)
        hit = next((c for c, r in zip(cands, res) if r), None)
        if hit is not None:
            items = hit
            n = max(n - 1, 2)
        elif chunk == 1:
            break
        else:
            n = min(n * 2, len(items))
    return items


def report(ck, binary, header, ops, upto, fp, what):
    if fp in [v["fingerprint"] for v in ck.violations]:
        return
    small = batch_ddmin(ops[:upto], lambda cands: _fails_many(ck, binary, header, cands, fp))
    ck.violation(fp, what, {"header": header, "ops": small, "expected": "monitor (exclusive owner, owner => live key, release removes only its own key) true on every line",
                            "actual": what})


def explore(ck, binary, cases, tag, diff=True):
    """cases: list of (name, header, ops).  Runs all on the implementation, monitors, diffs with the model.
    Returns True when everything agreed."""
    lines = []
    for _, header, ops in cases:
        lines.append(header)
        lines += ops
    cops, obs, crash = run_go(ck, binary, lines, tag)
    if crash:
        ck.broke("implementation harness did not answer every op", crash)
        return False
    model = run_lean(ck, [" ".join(o.split()[:4]) if o.startswith("reset") else o for o in cops], tag) if diff else None
    ok = True
    bounds = split_cases(cops)
    for (name, header, _), (a, b) in zip(cases, bounds):
        o_ops, o_obs = cops[a:b], obs[a:b]
        kinds = [x.split()[0] for x in o_ops]
        for k in kinds:
            ck.count("op:" + k)
        oks = sum(1 for x in o_obs if x.startswith("ok "))
        faults = sum(1 for k in kinds if k in ("del", "revoke", "expire", "lost", "crash"))
        ck.count("acquire-ok", oks)
        ck.count("acquire-notowner", sum(1 for x in o_obs if x.startswith("notowner ")))
        ck.count("acquire-err", sum(1 for x in o_obs if x.startswith("err ")))
        ck.count("acquire-shutdown", sum(1 for x in o_obs if x.startswith("shutdown ")))
        ck.case(tuple(o_ops), nontrivial=(oks > 0 and faults > 0), sample={"case": name, "ops": o_ops[:10], "impl": o_obs[:3]})
        ck.cov["traces_validated_against_impl"] += 1
        mon = monitor(o_ops, o_obs)
        if mon is not None:
            i, fp, what = mon
            report(ck, binary, header, o_ops[1:], i, fp, "%s [case %s]" % (what, name))
            ok = False
            continue
        if diff:
            d = lib.first_diff(o_obs, model[a:b])
            if d is not None:
                ck.cov["disagreements_checked"] += 1
                ck.broke("correspondence model/implementation (LeaseManager), case %s" % name,
                         "schedule:\n  %s\nop %r\nimpl : %s\nmodel: %s" % ("\n  ".join(o_ops[:d + 1]), o_ops[d], o_obs[d],
                                                                         model[a + d] if a + d < len(model) else None))
                ok = False
    return ok


def run(ck):
    bins = ck.build_all()
    if bins is None:
        return
    binary = bins["h"]
    ck.cov["rule"] = ("schedules of etcd-operation-granular steps over 3 brokers x 2-3 resources (partition and group managers "
                      "alternate); a schedule is non-trivial when at least one Acquire returned nil and at least one of "
                      "del/revoke/expire/session-loss/restart happened; distinct = distinct concrete op sequences")
    corpus = []
    for k, (name, ops) in enumerate(sorted(CORPUS.items())):
        for kind in ("partition", "group"):
            corpus.append((name + "/" + kind, "reset byrev 3 2 %s" % kind, ops))
    ok = explore(ck, binary, corpus, "corpus")
    if ck.violations:
        return
    nsched = 120 if ck.quick() else 1200
    nsteps = 42 if ck.quick() else 70
    batch = 120 if ck.quick() else 300
    done = 0
    while done < nsched:
        cases = []
        for k in range(min(batch, nsched - done)):
            nr = 2 if (done + k) % 3 else 3
            kind = "partition" if (done + k) % 2 == 0 else "group"
            cases.append(("rand%d" % (done + k), "reset byrev 3 %d %s" % (nr, kind), gen_schedule(ck.rng.fork(), 3, nr, nsteps)))
        ok = explore(ck, binary, cases, "r%d" % done) and ok
        done += len(cases)
        if ck.violations:
            break
    if not ok and not ck.violations:
        _hunt(ck, binary)


def _hunt(ck, binary):
    """Something no longer corresponds: search harder for a schedule on which the property itself fails."""
    for rnd in range(6):
        cases = []
        for k in range(150):
            cases.append(("hunt%d.%d" % (rnd, k), "reset byrev 3 2 %s" % ("partition" if k % 2 == 0 else "group"),
                          gen_schedule(ck.rng.fork(), 3, 2, 60)))
        explore(ck, binary, cases, "hunt%d" % rnd, diff=False)
        if ck.violations:
            return


def replay(ck, path):
    rep = json.load(open(path))
    bins = ck.build_all()
    if bins is None:
        return
    header, ops = rep.get("header", "reset byrev 3 2 partition"), rep["ops"]
    cops, obs, crash = run_go(ck, bins["h"], [header] + ops, "replay")
    if crash:
        ck.broke("implementation harness did not answer every op", crash)
        return
    for o, r in zip(cops, obs):
        print("  %-16s -> %s" % (o, r))
    ck.case(tuple(cops), sample={"ops": cops[:10]})
    ck.cov["distinct_nontrivial"] = max(ck.cov["distinct_nontrivial"], 2)
    mon = monitor(cops, obs)
    if mon:
        ck.violation(mon[1], mon[2], {"header": header, "ops": ops, "actual": mon[2]})
