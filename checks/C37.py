"""C37 — the SQL proxy forwards only queries whose topics are all allowed."""
import json
import re

from checks import lib
from checks import C35 as q35

PROPERTY = "C37"
LEAN_MODULES = ["KafVerif.Props.C37"]
OBLIGATIONS = [
    "KafVerif.C37.forward_sound",
    "KafVerif.C37.authorize_sound",
    "KafVerif.C37.views_agree",
    "KafVerif.C37.topics_agree",
    "KafVerif.C37.authorize_sound_rel",
    "KafVerif.C37.forward_sound_rel",
    "KafVerif.C37.entry_trim_views_differ",
    "KafVerif.C37.regexp_fold_views_differ",
    "KafVerif.C37.regexp_fold_views_differ_rev",
    "KafVerif.C37.lowerGo_ascii",
    "KafVerif.C37.cache_hit_exact_text",
    "KafVerif.C37.class_pattern_is_glob",
    "KafVerif.C37.bad_pattern_matches_only_itself",
    "KafVerif.C37.literal_fast_path_differs",
    "KafVerif.C37.pathMatch_plain",
    "KafVerif.C37.plain_patterns_globMatch",
    "KafVerif.C37.blank_allow_fails_closed",
    "KafVerif.C37.nonempty_deny_forbids_listing",
    "KafVerif.C37.blank_allow_forwards_nothing",
    "KafVerif.C37.dropping_blanks_opens_acl",
    "KafVerif.C37.truncation_bypass_old",
    "KafVerif.C37.catalog_bypass_old",
    "KafVerif.C37.set_catalog_bypass_old",
    "KafVerif.C37.double_semicolon_bypass_old",
]
BUILDS = {"h": ("sql", "./cmd/verif_c37", ["C37", "C36"])}
TECHNIQUE = ("Lean 4 proof over a model of handleConn/authorizeQuery/ACL/decision cache (proxy.go) and, separately, of the "
             "upstream's handleQuery (entry normalisation, catalog/SET dispatch, Parse) with a theorem that the two views of one "
             "text agree + differential correspondence through the real proxy in front of the real SQL server, both for the "
             "proxy's decisions and for the upstream's view of every forwarded text + direct monitor on what the upstream "
             "received, read, planned, described and listed")
LEVEL_TEXT = ("proof: forward_sound — for every parser, ACL, cache configuration, sequence of query texts of any length and "
              "expiry pattern, each text sent upstream is the client's text byte for byte and the upstream's view of exactly "
              "that text (catalog branch / SET branch / topics of Parse(text)) touches only allowed topics, listing all topics "
              "only with the SHOW TOPICS permission (cache invariant: every entry holds authorize(key); induction over the "
              "connection). Four witness theorems show the code before fixes/C37-authorize-forwarded-text.patch forwards "
              "disallowed texts (512-byte truncation, catalog name in alias position, SET + catalog name, `;;`). "
              "views_agree: the proxy's view of a text (proxy.go's catalog test, SET test, Parse) equals the upstream's view "
              "(server.go handleQuery: entry normalisation = none, handleCatalogQuery, handleSetCommand, Parse), both with "
              "strings.ToLower modelled up to non-ASCII bytes (İ->i, K->k); forward_sound_rel is the property for ANY upstream "
              "on which that agreement holds; entry_trim_views_differ / regexp_fold_views_differ(_rev) exhibit an upstream that "
              "strips a terminator on entry and a proxy folding case like a (?i) regexp, for which it fails. Tie: the "
              "same connections are run through the real proxy.handleConn wired to the real server.handleConnection with "
              "recording lister/decoder/resolver and a per-topic schema, and through the model; fwd/deny decisions are diffed, "
              "the model's upstream view of every forwarded text is diffed with what the real upstream touched (decoder and "
              "resolver reads, EXPLAIN plan rows, DESCRIBE schema rows, topic listing), and every forwarded text is checked "
              "against the ACL on those observations.")
LEVEL_NOTE = ("kafsql.Parse is one shared parameter of proxy and upstream in the theorem; the driver instantiates it with the "
              "C35 parser model. path.Match is ported loop by loop (chunks, `*`, `?` = one UTF-8 rune, `[`-classes with ranges / negation / escapes, ErrBadPattern) and was diffed against the real path.Match on 6000 random pattern/name pairs; The upstream's dispatch (entry, catalog before "
              "SET before Parse) is modelled from server.handleQuery and validated against the recording upstream on every "
              "forwarded text of the modelled domain (well-formed UTF-8, no non-ASCII white space, known non-ASCII runes); the "
              "exact direction of that comparison is applied to SHOW PARTITIONS, DESCRIBE, EXPLAIN, SHOW TOPICS, the four "
              "topic-listing catalog tables and SELECTs without WHERE; a catalog text is modelled as listing all topics even for "
              "pg_type/pg_namespace/pg_database. TTL expiry is in the theorem (arbitrary expiry oracle) but the "
              "harness runs with a long TTL or the cache off.")
ASSUMPTIONS = [
    "proxy and upstream run the same kafsql.Parse; the upstream answers simple-protocol queries through server.handleQuery only (the proxy rejects the extended protocol)",
    "query texts contain no NUL byte (pgproto3 Query strings are NUL-terminated)",
]
DEFAULT_SEED = 37

TOPICS = ["orders", "payments", "secret", "orders-secret", "shipments-eu", "shipments-us", "audit", "t", "a", "b1",
          # topics that differ only in the case of a non-ASCII letter / a rune Unicode folds onto ASCII: the parser (and
          # the upstream) lower ASCII only, so these are DIFFERENT topics, while strings.ToLower identifies them
          "café", "cafÉ", "größe", "grÖße", "kelvin", "\u212aelvin", "ωmega", "Ωmega",
          # names that differ in one character a `[`-class of an ACL pattern ranges over
          "audit-7", "audit-3", "audit-x"]
NONASCII_PAIRS = [("café", "cafÉ"), ("größe", "grÖße"), ("kelvin", "\u212aelvin"), ("ωmega", "Ωmega")]
ACLS = [
    ([], []),
    (["orders", "payments"], []),
    (["orders", "shipments-*"], ["orders-secret"]),
    ([], ["secret"]),
    ([], ["*secret*", "audit"]),
    (["*"], ["secret"]),
    (["*"], []),
    ([" orders ", "", "t"], []),
    (["shipments-??", "a", "b1"], ["shipments-us"]),
    (["orders*"], ["orders-s?cret"]),
    (["café", "orders"], []),
    (["größe", "kelvin", "ωmega", "café"], []),
    ([], ["cafÉ", "grÖße", "\u212aelvin", "Ωmega"]),
    # the name with a terminator glued on is allowed, the name itself is not (a side that strips one `;` more reads it)
    (["orders?", "t", "secret;*"], []),
    (["*;"], ["audit"]),
    # SHOW TOPICS / catalog listings allowed ("?" matches "*"), almost no topic allowed
    (["?", "b?"], []),
]
# patterns that are globs WITHOUT `*` / `?`: character classes (ranges, negation, escapes inside), backslash escapes, and
# malformed patterns (path.Match answers ErrBadPattern: such an entry matches no topic but the one spelled like the pattern)
CLASS_ACLS = [
    ([], ["audit-[0-9]"]),
    (["audit-*"], ["audit-[0-9]"]),
    (["audit-[^0-9]", "orders"], []),
    ([], ["audit-\\7", "\\s\\e\\c\\r\\e\\t"]),
    (["[a-p]*"], ["[o]rders-secret", "audit-[37]"]),
    (["[orders", "t"], []),
    ([], ["audit-[", "secret", "orders\\"]),
    (["[a-c][0-9]", "[t]", "a", "audit-[x-x]"], []),
    (["[*]", "orders", "caf[à-ï]"], []),
    (["\\*", "audit-[\\0-\\9]"], []),
    (["*"], ["[^a-z]*", "*[!-9]", "audit-[]x]"]),
    ([], ["[k\u212a]elvin", "audit-[^x]", "[]"]),
    (["audit-[0-9", "audit-[3-]", "audit-[-7]", "orders"], ["audit-[^]"]),
]
# lists that are configured but hold only blank entries: a blank pattern matches nothing, a non-empty allow list restricts,
# a non-empty deny list forbids SHOW TOPICS (acl.go as written)
BLANK_ACLS = [
    ([""], []),
    (["", "  "], []),
    (["\t"], ["secret"]),
    (["*"], [" "]),
    ([], [""]),
    (["orders"], ["", "\n"]),
    ([" "], [" "]),
]
ACLS += CLASS_ACLS + BLANK_ACLS

# runes that Go's case functions map onto ASCII letters: strings.ToLower(İ U+0130) = "i", strings.ToLower(K U+212A) = "k",
# strings.ToUpper(ı U+0131) = "I", strings.ToUpper(ſ U+017F) = "S"; EqualFold / regexp (?i) relate K~k and ſ~s but not İ~i
FOLD = {"i": ["\u0130", "\u0131"], "k": ["\u212a"], "s": ["\u017f"]}
FOLD_KEYWORDS = ["information_schema", "pg_catalog", "pg_class", "pg_tables", "pg_namespace", "pg_database", "pg_type", "tables",
                 "columns", "set", "reset", "show", "topics", "partitions", "select", "from", "join", "left", "describe", "explain",
                 "where", "limit", "last", "tail", "within", "scan", "on", "all"]
CATALOG_NAMES = ["information_schema.tables", "information_schema.columns", "pg_catalog.pg_class", "pg_catalog.pg_tables",
                 "pg_catalog.pg_type", "INFORMATION_SCHEMA.TABLES", "Pg_Catalog.Pg_Namespace"]
# statement terminators / tails: the proxy and the upstream each strip "one `;`" somewhere
TAILS = [";", ";;", "; ;", " ;", ";\n", "\t;", ";;;", "; ; ;", " -- x", ";--", "; -- c", ";/**/", "\n", ";\x0b", "\x0c;", " ", ";\t;",
         ";; ", " ;;", ";\r\n;"]
UNICODE_TAILS = [";\u00a0", "\u00a0;", ";\u3000;", ";\u0085", "\u2028;;"]      # monitor only (outside the model's domain)


def hx(s):
    b = s if isinstance(s, bytes) else s.encode()
    return b.hex() if b else "-"


# ---- path.Match (Go path/match.go) ported statement by statement, on bytes: True / False, or None for ErrBadPattern;
# independent of the Lean port (`pathMatch` in Model/SqlProxy.lean); both were diffed against the real path.Match.
class BadPattern(Exception):
    pass


def decode_rune(s):
    """utf8.DecodeRuneInString on bytes: (rune, width); ill-formed -> (0xFFFD, 1)"""
    if not s:
        return 0xFFFD, 0
    b0 = s[0]
    if b0 < 0x80:
        return b0, 1
    for n in (2, 3, 4):
        try:
            ch = s[:n].decode("utf-8")
        except UnicodeDecodeError:
            continue
        if len(ch) == 1:
            return ord(ch), n
    return 0xFFFD, 1


def scan_chunk(pattern):
    star = False
    while pattern and pattern[0:1] == b"*":
        pattern = pattern[1:]
        star = True
    inrange = False
    i = 0
    while i < len(pattern):
        c = pattern[i:i + 1]
        if c == b"\\":
            if i + 1 < len(pattern):
                i += 1
        elif c == b"[":
            inrange = True
        elif c == b"]":
            inrange = False
        elif c == b"*":
            if not inrange:
                break
        i += 1
    return star, pattern[:i], pattern[i:]


def get_esc(chunk):
    if not chunk or chunk[0:1] in (b"-", b"]"):
        raise BadPattern()
    if chunk[0:1] == b"\\":
        chunk = chunk[1:]
        if not chunk:
            raise BadPattern()
    r, n = decode_rune(chunk)
    bad = r == 0xFFFD and n == 1
    nchunk = chunk[n:]
    if not nchunk:
        bad = True
    if bad:
        raise BadPattern()
    return r, nchunk


def match_chunk(chunk, s):
    """-> rest (bytes) or None when the chunk does not match; raises BadPattern"""
    failed = False
    while chunk:
        if not failed and not s:
            failed = True
        c = chunk[0:1]
        if c == b"[":
            r = 0
            if not failed:
                r, n = decode_rune(s)
                s = s[n:]
            chunk = chunk[1:]
            negated = False
            if chunk and chunk[0:1] == b"^":
                negated = True
                chunk = chunk[1:]
            match = False
            nrange = 0
            while True:
                if chunk and chunk[0:1] == b"]" and nrange > 0:
                    chunk = chunk[1:]
                    break
                lo, chunk = get_esc(chunk)
                hi = lo
                if chunk[0:1] == b"-":
                    hi, chunk = get_esc(chunk[1:])
                if lo <= r <= hi:
                    match = True
                nrange += 1
            if match == negated:
                failed = True
        elif c == b"?":
            if not failed:
                if s[0:1] == b"/":
                    failed = True
                _, n = decode_rune(s)
                s = s[n:]
            chunk = chunk[1:]
        else:
            if c == b"\\":
                chunk = chunk[1:]
                if not chunk:
                    raise BadPattern()
            if not failed:
                if chunk[0] != s[0]:
                    failed = True
                s = s[1:]
            chunk = chunk[1:]
    return None if failed else s


def path_match(pattern, name):
    try:
        while pattern:
            star, chunk, pattern = scan_chunk(pattern)
            if star and not chunk:
                return b"/" not in name
            t = match_chunk(chunk, name)
            if t is not None and (not t or pattern):
                name = t
                continue
            advanced = False
            if star:
                i = 0
                while i < len(name) and name[i:i + 1] != b"/":
                    t = match_chunk(chunk, name[i + 1:])
                    if t is not None:
                        if not pattern and t:
                            i += 1
                            continue
                        name = t
                        advanced = True
                        break
                    i += 1
            if advanced:
                continue
            while pattern:
                _, chunk, pattern = scan_chunk(pattern)
                match_chunk(chunk, b"")
            return False
        return not name
    except BadPattern:
        return None


WS = " \t\n\r\x0b\x0c\x85\xa0"     # strings.TrimSpace: ASCII white space + U+0085, U+00A0 (… further Unicode spaces: not generated in ACLs)


def match_patterns(pats, topic):
    """acl.go matchPatterns as specified: TrimSpace, blank skipped, `*`, path.Match without error, or the name itself."""
    tb = topic.encode() if isinstance(topic, str) else topic
    for p in pats:
        p = p.strip(WS)
        if not p:
            continue
        pb = p.encode()
        if p == "*" or path_match(pb, tb) is True or pb == tb:
            return True
    return False


def enc_list(ps):
    """`-` = empty list, `~` = empty element (so that [""] and [] differ on the wire)"""
    return ",".join((hx(p) if p else "~") for p in ps) or "-"


def allows(acl, topic):
    allow, deny = acl
    if match_patterns(deny, topic):
        return False
    if not allow:
        return True
    return match_patterns(allow, topic)


def allow_show(acl):
    allow, deny = acl
    if deny:
        return False
    if not allow:
        return True
    return match_patterns(allow, "*")


def topic_query(rng):
    """A statement over the topic universe (no _ts filters: they are outside the parser model)."""
    t1, t2 = rng.choice(TOPICS), rng.choice(TOPICS)
    k = rng.below(12)
    if k == 0:
        return "show topics"
    if k == 1:
        return "SHOW PARTITIONS FROM %s" % t1
    if k == 2:
        return "describe %s" % t1
    if k in (3, 4):
        return "%sselect * from %s o %s join %s p on o._key = p._key within 10m last 1h limit 5" % (
            "explain " if k == 4 else "", t1, rng.choice(["", "left"]), t2)
    if k == 5:
        return "select count(*) from %s last 1h" % t1
    if k == 6:
        return "SELECT _key, _value FROM %s WHERE _partition = 0 AND _offset >= 0 LIMIT 3" % t1.upper()
    if k == 7:
        return "explain select * from %s limit 2" % t1
    return "select * from %s%s limit %d" % (t1, rng.choice(["", " x", " tail 2"]), rng.range(1, 9))


def special(rng):
    t1, t2 = rng.choice(TOPICS), rng.choice(TOPICS)
    return rng.choice([
        "SET client_encoding = 'UTF8'", "reset all", "set", "set ;", "SET a = information_schema.tables",
        "reset pg_catalog.pg_class", "select * from information_schema.tables", "select * from information_schema.columns",
        "select * from pg_catalog.pg_tables", "SELECT * FROM PG_CATALOG.PG_CLASS", "select * from pg_catalog.pg_type",
        "select * from %s pg_catalog.pg_tables" % t1, "select * from %s where x = 'information_schema.tables'" % t1,
        "select * from %s;;" % t1, "select * from %s ; ;" % t1, " ; ", "", ";", "insert into %s values (1)" % t1,
        "select * from %s join" % t1, "select * from %s, %s" % (t1, t2), "select * from %s -- %s" % (t1, t2),
        "select pg_catalogx from %s" % t1, "\tset\tx", "select * from %s\x0bjoin %s" % (t1, t2),
    ])


def long_query(rng):
    """> 512 bytes: the interesting part sits after the cut."""
    t1, t2 = rng.choice(TOPICS), rng.choice(TOPICS)
    pad = rng.choice([" " * rng.range(480, 700), "\n" * 520, ", ".join("c%d" % i for i in range(rng.range(90, 200)))])
    k = rng.below(5)
    if k == 0:
        return "select * from %s o%sjoin %s p on o._key = p._key within 10m last 1h" % (t1, pad if pad[0] in " \n" else " " * 520, t2)
    if k == 1:
        return "select %s from %s limit 2" % (pad if pad[0] == "c" else "a" + " " * 530, t2)
    if k == 2:
        return "select * from %s%s pg_catalog.pg_tables" % (t1, " " * 520)
    if k == 3:
        return "select * from %s limit 1%s" % (t1, " " * 600)
    return "select * from %s x%s" % (t1, (" " * 500) + "join %s y within 1m last 1h" % t2)


def fold_variants(word):
    """Every spelling of `word` with exactly one letter replaced by a rune Go folds onto it, plus all of them replaced."""
    out = []
    for i, c in enumerate(word):
        for r in FOLD.get(c.lower(), []):
            out.append(word[:i] + r + word[i + 1:])
    allr = "".join(FOLD[c.lower()][0] if c.lower() in FOLD else c for c in word)
    if allr != word and allr not in out:
        out.append(allr)
    return out


def fold_mutate(rng, text):
    """Replace letters of one or two KEYWORDS of the text (catalog names, SET, SHOW, SELECT, FROM, JOIN, …) by fold runes."""
    words = [m for m in re.finditer(r"[A-Za-z_]+", text)
             if m.group().lower() in FOLD_KEYWORDS and any(c.lower() in FOLD for c in m.group())]
    if not words:
        return text
    for _ in range(1 if rng.chance(3, 4) else 2):
        m = rng.choice(words)
        w = text[m.start():m.end()]
        if len(w) != m.end() - m.start() or w.lower() != m.group().lower():
            continue                       # an earlier replacement moved nothing (1 rune for 1 letter), but stay safe
        vs = fold_variants(w)
        if vs:
            text = text[:m.start()] + rng.choice(vs) + text[m.end():]
    return text


def statements_on(t, t2="orders"):
    """One statement of every kind whose LAST token is the topic t (so that a tail is glued to the topic), and the other kinds."""
    return ["select * from %s" % t, "SELECT _key, _value FROM %s" % t.upper(), "select count(*) from %s" % t,
            "select * from %s o join %s" % (t2, t), "show partitions from %s" % t, "SHOW PARTITIONS FROM %s" % t, "describe %s" % t,
            "DESCRIBE %s" % t, "explain select * from %s" % t, "EXPLAIN SELECT * FROM %s" % t,
            "select * from %s limit 2" % t, "select * from %s o join %s p on o._key = p._key within 10m last 1h" % (t2, t),
            "explain select * from %s last 1h" % t, "show topics", "set x = 1", "reset all", "SET a = %s" % t,
            "select * from information_schema.tables", "select * from %s pg_catalog.pg_tables" % t]


def tail_query(rng, acl):
    """A statement with a terminator tail on a topic the ACL cares about."""
    names = [p.strip(" ;*?") for p in acl[0] + acl[1] if p.strip(" ;*?")] or TOPICS
    t = rng.choice(names) if rng.chance(3, 4) else rng.choice(TOPICS)
    q = rng.choice(statements_on(t, rng.choice(TOPICS)))
    tail = rng.choice(TAILS) if rng.chance(9, 10) else rng.choice(UNICODE_TAILS)
    if rng.chance(1, 6):
        tail += rng.choice(TAILS)
    return q + tail


def gen_conn(rng, nq):
    acl = rng.choice(ACLS)
    ttl, mx = rng.choice([(300, 8), (300, 2), (0, 0), (300, 1), (60, 100)])
    lines = ["conn %d %d %s %s" % (ttl, mx, enc_list(acl[0]), enc_list(acl[1]))]
    texts = []
    for _ in range(nq):
        k = rng.below(10)
        if texts and k == 0:
            q = rng.choice(texts)                       # exact repeat: cache hit
        elif texts and k == 1:
            q = rng.choice(texts)
            m = rng.below(5)                 # near-duplicates of an earlier text on the same connection
            if m == 0:
                q = q.upper()                # ASCII and non-ASCII letters change case
            elif m == 1:
                q = q.replace(" ", "  ", 1) if rng.chance(1, 2) else q.replace(" ", "\t", 1)
            elif m == 2:
                q = "".join(c.upper() if (ord(c) < 128 and rng.chance(1, 2)) else c for c in q)   # ASCII case only
            elif m == 3:
                q = "".join(c.upper() if ord(c) >= 128 else c for c in q)                           # non-ASCII case only
            else:
                q = q.swapcase()
        elif texts and k == 2 and len(texts[-1]) > 512:
            q = texts[-1][:515] + rng.choice([" join secret s within 1m last 1h", " x", ""])   # same first 512 bytes
        elif k == 3:
            q = long_query(rng)
        elif k == 4:
            q = special(rng)
        elif k == 5:
            r = rng.fork()
            q = q35.render(r, q35.gen_query(rng.fork()), case=lambda w: q35.rand_case(r, w))
        elif k == 6:
            # a pair on one connection: a statement on one spelling of a topic, then (next round, via the
            # near-duplicate branch or right here) the other spelling
            a, b = rng.choice(NONASCII_PAIRS)
            if rng.chance(1, 2):
                a, b = b, a
            q = rng.choice(["select * from %s limit 3", "SELECT * FROM %s LAST 1h", "select * from orders o join %s p within 1m last 1h",
                            "show partitions from %s", "explain select * from %s limit 1"]) % a
            texts.append(q)
            lines.append("q " + hx(q))
            q = q.replace(a, b) if rng.chance(1, 2) else (q.upper() if rng.chance(1, 2) else q.swapcase())
        elif k == 7:
            q = fold_mutate(rng, special(rng) if rng.chance(1, 2) else topic_query(rng))
            if rng.chance(1, 3):
                q = q.upper()
        elif k == 8:
            q = tail_query(rng, acl)
        else:
            q = topic_query(rng)
            if rng.chance(1, 4):
                q = q.upper() if rng.chance(1, 2) else q + rng.choice([";", " ;", "; "])
        q = q.replace("\x00", "")
        texts.append(q)
        lines.append("q " + hx(q))
    return acl, lines, texts


def unhex_list(v):
    return [bytes.fromhex(h) if h != "-" else b"" for h in v.split(",")] if v != "-" else []


def parse_out(out):
    """`fwd <hex+hex…> k=v …` -> (list of texts, dict)"""
    f = out.split()
    sent = [bytes.fromhex(h) if h != "-" else b"" for h in f[1].split("+")]
    return sent, dict(x.split("=", 1) for x in f[2:])


def touched(kv):
    """Topics the REAL upstream touched for a forwarded text: decoder / resolver reads, EXPLAIN plans, DESCRIBE schemas."""
    out = []
    for k in ("reads", "plan", "desc"):
        for t in unhex_list(kv.get(k, "-")):
            if t not in out:
                out.append(t)
    return out


def monitor(acl, text, out):
    """The property on one forwarded query."""
    if not out.startswith("fwd "):
        return None
    sent, kv = parse_out(out)
    if sent != [text]:
        return "forwarded-text-differs", "the upstream received %r for the client text %r" % (sent, text[:80])
    for tb in touched(kv):
        t = tb.decode("utf8", "replace")
        if not allows(acl, t):
            how = "read" if tb in unhex_list(kv["reads"]) else ("plan (EXPLAIN)" if tb in unhex_list(kv.get("plan", "-")) else "describe")
            return "forwarded-query-reads-denied-topic", "forwarded %r made the upstream %s topic %r, which the ACL %r denies" % (
                text[:100] + (b"..." if len(text) > 100 else b""), how, t, acl)
    if kv["listed"] == "1" and not allow_show(acl):
        return "forwarded-query-lists-all-topics", "forwarded %r made the upstream list all topics although the ACL %r does not allow SHOW TOPICS" % (
            text[:100], acl)
    return None


def lower_go(b):
    """strings.ToLower as far as ASCII patterns see it (İ -> i, K -> k, ASCII capitals)."""
    return b.replace("\u0130".encode(), b"i").replace("\u212a".encode(), b"k").lower()


LISTING_CATALOGS = [b"information_schema.tables", b"information_schema.columns", b"pg_catalog.pg_tables", b"pg_catalog.pg_class"]
OTHER_CATALOGS = [b"pg_catalog.pg_namespace", b"pg_catalog.pg_type", b"pg_catalog.pg_database"]


def view_check(text, impl_out, model_out):
    """The UPSTREAM model (Lean `upstreamView`, from server.handleQuery) against what the REAL upstream did with the same
    forwarded text.  Sound direction always (everything the real upstream touched is in the model's view); exact direction
    where the real upstream's action is determined by the text alone."""
    _, ikv = parse_out(impl_out)
    _, mkv = parse_out(model_out)
    real = set(touched(ikv))
    view = set(unhex_list(mkv["view"]))
    kind = mkv["kind"]
    if not real <= view:
        return "the real upstream touched topics %r; the upstream model's view of this text is %r (kind %s)" % (
            sorted(real), sorted(view), kind)
    if ikv["listed"] == "1" and mkv["listed"] != "1":
        return "the real upstream listed all topics; the upstream model's view of this text does not (kind %s)" % kind
    if ikv.get("err") != "0":
        return None
    universe = set(t.encode() for t in TOPICS)
    low = lower_go(text)
    expect = set()
    if kind in ("showparts", "explain"):
        expect = view
    elif kind == "describe" or (kind == "select" and b"where" not in low and b"limit 0" not in low):
        expect = view & universe
    if not expect <= real:
        return "the upstream model's view of this text is %r (kind %s); the real upstream answered without error and touched only %r" % (
            sorted(view), kind, sorted(real))
    lists = kind == "showtopics" or (kind == "cat" and any(n in low for n in LISTING_CATALOGS) and not any(n in low for n in OTHER_CATALOGS))
    if lists and ikv["listed"] != "1":
        return "the upstream model says this text (kind %s) lists all topics; the real upstream answered without listing" % kind
    return None


UNI_WS = set("\u0085\u00a0\u1680\u2000\u2001\u2002\u2003\u2004\u2005\u2006\u2007\u2008\u2009\u200a\u2028\u2029\u202f\u205f\u3000")
DOMAIN_NONASCII = set("".join(q35.SAFE_NONASCII) + "".join(q35.SAFE_NONASCII).upper() + "ÉÖöΩω\u212a\u0130\u0131\u017f")


def in_domain(b):
    """Texts on which the model (parser model + lowerGo) is meant to be exact: well-formed UTF-8, no non-ASCII white space
    (strings.TrimSpace / Fields see it, the byte model does not), non-ASCII runes from a known set, no _ts filter."""
    try:
        s = b.decode("utf-8")
    except UnicodeDecodeError:
        return False
    for ch in s:
        if ord(ch) < 128:
            continue
        if ch in UNI_WS or ch not in DOMAIN_NONASCII:
            return False
    return b"_ts" not in b.lower()


def run_case(ck, binary, lines, tag):
    fn = ck.path("ops_%s.txt" % tag)
    open(fn, "w").write("\n".join(lines) + "\n")
    rc, out, err = ck.run_bin(binary, stdin_path=fn, timeout=300)
    impl = out.split("\n")[:-1]
    if rc != 0 or len(impl) != len(lines):
        return None, fn, "rc=%s lines=%d/%d %s" % (rc, len(impl), len(lines), err[-800:])
    return impl, fn, None


def corpus():
    acl = (["orders", "shipments-*"], ["orders-secret"])
    head = "conn 300 8 %s %s" % (",".join(hx(p) for p in acl[0]), ",".join(hx(p) for p in acl[1]))
    qs = ["select * from orders o" + " " * 500 + "join secret s on o._key = s._key within 10m last 1h",
          "SET a = information_schema.tables", "select * from orders pg_catalog.pg_tables", "select * from orders;;",
          "select * from orders limit 1", "select * from secret"]
    acl2 = ([], ["secret"])
    head2 = "conn 0 0 - %s" % hx("secret")
    qs2 = ["select * from information_schema.tables", "show topics", "select * from orders limit 1"]
    acl3 = (["café", "orders"], [])
    head3 = "conn 300 100 %s -" % ",".join(hx(p) for p in acl3[0])
    qs3 = ["select * from café last 1h", "SELECT * FROM CAFÉ LAST 1h", "select  *  from café last 1h", "select * from cafÉ last 1h",
           "select * from orders limit 1", "SELECT * FROM ORDERS LIMIT 1", "select * from \u212aelvin limit 1"]
    # path.Match's `?` is one RUNE: `orders?` allows ordersé / orders😀 (2 and 4 bytes), not orders / ordersxy
    acl4 = (["orders?", "b??"], [])
    qs4 = ["select * from ordersé limit 1", "select * from orders😀 limit 1", "show partitions from orders日", "describe ordersx",
           "select * from orders limit 1", "select * from ordersé日", "show partitions from b😀é", "show partitions from bé"]
    return [(acl, [head] + ["q " + hx(q) for q in qs], qs), (acl2, [head2] + ["q " + hx(q) for q in qs2], qs2),
            (acl3, [head3] + ["q " + hx(q) for q in qs3], qs3), conn_of(acl4, qs4)]


def conn_of(acl, qs, ttl=0, mx=0):
    head = "conn %d %d %s %s" % (ttl, mx, enc_list(acl[0]), enc_list(acl[1]))
    return (acl, [head] + ["q " + hx(q) for q in qs], qs)


def fold_corpus():
    """Systematic: every catalog name / statement keyword with each letter replaced by a rune Go folds onto it, in
    table, alias and SET position, under ACLs that (a) allow a topic but no listing, (b) allow listing but hardly a topic."""
    qs = []
    for name in CATALOG_NAMES:
        for v in [name] + fold_variants(name):
            qs += ["select * from orders %s" % v, "SET a = %s" % v, "select * from %s" % v, "select * from secret %s" % v]
    st = []
    for q in ["set x = 1", "reset all", "show topics", "show partitions from secret", "describe secret",
              "explain select * from secret limit 1", "select * from secret limit 1",
              "select * from orders o join secret s on o._key = s._key within 10m last 1h",
              "select * from orders o left join secret s on o._key = s._key within 10m last 1h",
              "SHOW PARTITIONS FROM orders", "DESCRIBE orders", "SELECT * FROM orders JOIN secret"]:
        for m in re.finditer(r"[A-Za-z_]+", q):
            if m.group().lower() in FOLD_KEYWORDS:
                for v in fold_variants(m.group()):
                    st.append(q[:m.start()] + v + q[m.end():])
    return [conn_of((["orders"], []), qs + st), conn_of(([], ["secret"]), qs[::2] + st),
            conn_of((["?", "b?"], []), qs), conn_of((["orders", "t"], ["secret"]), st, 300, 100)]


def class_corpus():
    """Systematic: every ACL whose patterns are class / escape / malformed globs, every statement kind on the topics the
    classes range over (and on one topic outside)."""
    out = []
    for acl in CLASS_ACLS:
        qs = []
        for t in ["audit-7", "audit-3", "audit-x", "audit", "secret", "orders", "orders-secret", "b1", "t", "a", "café", "cafÉ", "kelvin",
                  "\u212aelvin"]:
            qs += ["select * from %s limit 2" % t, "show partitions from %s" % t, "describe %s" % t, "explain select * from %s" % t,
                   "select * from orders o join %s p on o._key = p._key within 10m last 1h" % t]
        qs += ["show topics", "select * from information_schema.tables", "SET a = 1"]
        out.append(conn_of(acl, qs))
    return out


def blank_corpus():
    """Systematic: allow / deny lists holding only blank entries, through the real constructor proxy.New."""
    out = []
    for i, acl in enumerate(BLANK_ACLS):
        qs = []
        for t in ["orders", "secret", "t", "audit-7"]:
            qs += ["select * from %s limit 2" % t, "show partitions from %s" % t, "describe %s" % t, "explain select * from %s" % t]
        qs += ["show topics", "select * from information_schema.tables", "select * from orders pg_catalog.pg_tables", "SET a = 1",
               "select * from orders o join secret p on o._key = p._key within 10m last 1h", "show topics"]
        out.append(conn_of(acl, qs, *((300, 8) if i % 2 else (0, 0))))
    return out


def rand_pattern(rng, base=None):
    """An ACL pattern derived from a topic name: characters replaced by classes (ranges, negation, escapes), escapes, `?`, `*`;
    sometimes broken (unterminated class, trailing backslash, empty class, reversed range)."""
    t = base or rng.choice(TOPICS)
    out = []
    for ch in t:
        k = rng.below(30)
        lo, hi = chr(max(33, ord(ch) - rng.below(3))), chr(ord(ch) + rng.below(3))
        if k == 0:
            out.append("[%s-%s]" % (lo, hi) if lo not in "-]\\^[" and hi not in "-]\\^[" else "[\\%s-\\%s]" % (lo, hi))
        elif k == 1:
            out.append("[^%s]" % rng.choice(["0-9", "a-z", "x", "\\" + ch, ch + "q"]))
        elif k == 2:
            out.append("\\" + ch)
        elif k == 3:
            out.append("[%s]" % rng.choice([ch, "q" + ch, ch + "-" + ch, "\\" + ch, "]" + ch, "0-9a-z", "a-zé-ë", "^" + ch]))
        elif k == 4:
            out.append(rng.choice(["?", "*", "", "[*]", "[?]"]))
        elif k == 5 and rng.chance(1, 3):
            out.append(rng.choice(["[", "[]", "[^]", "[%s-]" % ch, "[-%s]" % ch, "[%s" % ch, "[z-a]", "\\"]))
        else:
            out.append(ch)
    p = "".join(out)
    if rng.chance(1, 12):
        p += rng.choice(["\\", "[", "*[", "*\\", "]", "-", "[a-"])
    if rng.chance(1, 10):
        p = rng.choice([" ", "\t", "  "]) + p + rng.choice(["", " ", "\n"])
    return p


def acl_probes(rng, n):
    """`acl` lines: the real acl.go against the model and against the specification (python), one topic at a time."""
    out = []
    for _ in range(n):
        t = rng.choice(TOPICS)
        mk = lambda: [rng.choice(["", " ", "*", rng.choice(TOPICS)]) if rng.chance(1, 6) else rand_pattern(rng, t if rng.chance(2, 3) else None)
                      for _ in range(rng.below(3))]
        allow, deny = mk(), mk()
        if rng.chance(1, 8):
            t = rng.choice(allow + deny + ["*"])
        out.append((allow, deny, t))
    for acl in CLASS_ACLS + BLANK_ACLS:
        for t in TOPICS + ["*"]:
            out.append((acl[0], acl[1], t))
    return out


def acl_expect(allow, deny, t):
    b = lambda v: "1" if v else "0"
    return "acl ma=%s md=%s allows=%s show=%s" % (b(match_patterns(allow, t)), b(match_patterns(deny, t)), b(allows((allow, deny), t)),
                                                  b(allow_show((allow, deny))))


def tail_corpus(quick):
    """Systematic: every statement kind x every terminator tail, on a topic whose name + `;` is allowed and whose name is not."""
    out = []
    for acl, t in [(([], ["secret"]), "secret"), ((["orders?", "t", "secret;*"], []), "orders"), ((["*"], ["secret"]), "secret"),
                   ((["orders?", "t", "secret;*"], []), "secret")][:None if not quick else 3]:
        qs = [q + tail for q in statements_on(t) for tail in TAILS]
        qs += [q + tail for q in statements_on(t)[:8:2] for tail in UNICODE_TAILS]
        out.append(conn_of(acl, qs, *( (300, 100) if t == "orders" else (0, 0))))
    return out


def run(ck):
    bins = ck.build_all()
    if bins is None:
        return
    binary = bins["h"]
    quick = ck.quick()
    ck.cov["rule"] = ("connections with an ACL (allow/deny lists with literals, *, ?, [classes] with ranges / negation / escapes, backslash escapes, malformed patterns, padded and empty patterns, lists holding only blank entries — all through proxy.New; or none) and a "
                      "decision cache (off, size 1/2/8/100) receiving 25 query texts: statements over a 10-topic universe "
                      "(select, joins, explain, show, describe), texts longer than 512 bytes whose join / catalog name / topic "
                      "sits after the cut, catalog and SET texts, exact and normalised repeats, texts sharing their first 512 "
                      "bytes; systematically every catalog name and statement keyword with one letter (or all) replaced by a rune "
                      "Go folds onto ASCII (U+0130, U+0131, U+212A, U+017F) in table / alias / SET position, and every statement "
                      "kind x 20 terminator tails (`;`, `;;`, `; ;`, white space, comments, Unicode spaces) on a topic whose name + `;` "
                      "is allowed and whose name is not; non-trivial = forwarded and the upstream read at least one topic or "
                      "listed topics")
    conns = corpus() + fold_corpus() + tail_corpus(quick) + class_corpus() + blank_corpus()
    for _ in range(40 if quick else 400):
        conns.append(gen_conn(ck.rng.fork(), 25 if quick else 40))
    lines = ["topics " + ",".join(hx(t) for t in TOPICS)]
    index = []
    for acl, ls, texts in conns:
        index.append((len(lines), acl, texts))
        lines += ls
    probes = acl_probes(ck.rng.fork(), 400 if quick else 4000)
    probe_start = len(lines)
    lines += ["acl %s %s %s" % (enc_list(a), enc_list(d), hx(t)) for a, d, t in probes]
    impl, fn, crash = run_case(ck, binary, lines, "all")
    if crash:
        ck.broke("implementation harness did not answer every line", crash)
        return
    # acl.go alone against its specification (python port of path.Match + the rules of matchPatterns / Allows / AllowShowTopics)
    for j, (a, d, t) in enumerate(probes):
        ck.count("acl_probes")
        want = acl_expect(a, d, t)
        if impl[probe_start + j] != want:
            ck.cov["disagreements_checked"] += 1
            ck.broke("acl.go does not decide as specified (matchPatterns = TrimSpace, skip blank, `*`, path.Match, or the name itself)",
                     "allow=%r deny=%r topic=%r\nimpl    : %s\nexpected: %s" % (a, d, t, impl[probe_start + j], want))
            break
    # monitors
    for start, acl, texts in index:
        for j, q in enumerate(texts):
            out = impl[start + 1 + j]
            text = q.encode() if isinstance(q, str) else q
            ck.count("forwarded" if out.startswith("fwd") else ("denied" if out == "deny" else "other"))
            ck.count("long_texts", 1 if len(text) > 512 else 0)
            ck.case((acl[0] and tuple(acl[0]), tuple(acl[1]), text), nontrivial=out.startswith("fwd") and ("reads=-" not in out or "listed=1" in out),
                    sample={"acl": acl, "query": q[:100], "impl": out[:120]})
            if out not in ("deny",) and not out.startswith("fwd "):
                ck.broke("implementation harness lost the connection", "query %r -> %s" % (q[:200], out))
                return
            mon = monitor(acl, text, out)
            if mon:
                ck.violation(mon[0], mon[1], {"acl": acl, "lines": [lines[0], lines[start], "q " + hx(text)],
                                              "expected": "deny, or a forwarded text whose upstream reads are all allowed",
                                              "actual": out})
    # correspondence with the model (decisions), on the modelled domain
    keep = [True] * len(lines)
    for start, acl, texts in index:
        for j, q in enumerate(texts):
            b = q.encode() if isinstance(q, str) else q
            if not in_domain(b):
                keep[start + 1 + j] = False
    mfn = ck.path("model_in.txt")
    open(mfn, "w").write("\n".join(l for l, k in zip(lines, keep) if k) + "\n")
    model = ck.lean_run("C37", mfn)
    kept = [i for i, k in enumerate(keep) if k]
    if len(model) != len(kept):
        ck.broke("model driver did not answer every line", "%d/%d" % (len(model), len(kept)))
        return
    for i, mo in zip(kept, model):
        io = impl[i] if impl[i].startswith("acl ") else " ".join(impl[i].split()[:2])
        ck.cov["traces_validated_against_impl"] += 1
        if io != (mo if mo.startswith("acl ") else " ".join(mo.split()[:2])):
            ck.cov["disagreements_checked"] += 1
            ck.broke("correspondence model/implementation (proxy.handleConn)",
                     "line %r\nimpl : %s\nmodel: %s" % (lines[i][:300], impl[i][:300], mo[:300]))
            return
        if io.startswith("fwd "):
            # the upstream half of the model against the real upstream, on every forwarded text
            ck.count("upstream_views_compared")
            text = bytes.fromhex(lines[i].split()[1]) if lines[i].split()[1] != "-" else b""
            bad = view_check(text, impl[i], mo)
            if bad:
                ck.cov["disagreements_checked"] += 1
                ck.broke("correspondence upstream model/real upstream (server.handleQuery)",
                         "text %r\n%s\nimpl : %s\nmodel: %s" % (text[:300], bad, impl[i][:400], mo[:400]))
                return


def replay(ck, path):
    rep = json.load(open(path))
    bins = ck.build_all()
    if bins is None:
        return
    lines = rep["lines"]
    impl, fn, crash = run_case(ck, bins["h"], lines, "replay")
    if crash:
        ck.broke("implementation harness did not answer", crash)
        return
    acl = (rep["acl"][0], rep["acl"][1])
    for l, o in zip(lines, impl):
        print("  %s -> %s" % (l[:70], o[:100]))
        if l.startswith("q "):
            text = bytes.fromhex(l.split()[1]) if l.split()[1] != "-" else b""
            ck.case((text,), sample={"query": text[:100].decode("utf8", "replace"), "impl": o[:120]})
            mon = monitor(acl, text, o)
            if mon:
                ck.violation(mon[0], mon[1], {"acl": rep["acl"], "lines": lines, "actual": o})
    ck.cov["distinct_nontrivial"] = max(ck.cov["distinct_nontrivial"], 2)
