"""C43 — group members expire exactly when their session lapses."""
from checks import C12_common as G

PROPERTY = "C43"
LEAN_MODULES = ["KafVerif.Props.C43"]
OBLIGATIONS = [
    "KafVerif.C43.contact_refreshes",
    "KafVerif.C43.join_refreshes",
    "KafVerif.C43.no_early_expiry",
    "KafVerif.C43.no_early_expiry_pass",
    "KafVerif.C43.persisted_heartbeat_current",
    "KafVerif.C43.heartbeat_survives_failover",
    "KafVerif.C43.no_early_expiry_across_failover",
    "KafVerif.C43.cleanup_pass",
    "KafVerif.C43.expiry_happens",
    "KafVerif.C43.lagger_dropped",
    "KafVerif.C43.cleanup_rebalances",
    "KafVerif.C43.heartbeatOld_violates",
]
BUILDS = G.BUILDS
ASSUMPTIONS = G.COMMON_ASSUMPTIONS + [
    "\"keeps heartbeating\" = the member's heartbeat is accepted as coming from the current generation (answered NONE or REBALANCE_IN_PROGRESS) or it joins; a heartbeat answered ILLEGAL_GENERATION/UNKNOWN_MEMBER_ID tells the client to rejoin and does not extend the session",
    "expiry is evaluated by cleanupGroups (the 5 s ticker calls it); only groups loaded in the coordinator are cleaned, so after a failover a group is cleaned once a request has loaded it",
]
LEVEL_TEXT = ("Lean 4 theorems about the executable model with an explicit clock: every accepted contact (join, or heartbeat answered "
              "NONE / REBALANCE_IN_PROGRESS) sets lastHeartbeat to now; one cleanup pass removes a member iff its session lapsed "
              "(now - lastHeartbeat > session) or the rebalance deadline passed without it rejoining — so a member whose last "
              "accepted contact is within its session timeout and which is not a lagger survives, and a lapsed one is removed; "
              "if members remain after a removal the group is PreparingRebalance with the generation incremented. The pre-fix "
              "Heartbeat violates the first (witness). Tied to the source on virtual time (timestamp shifting) by the "
              "differential run plus a monitor with its own last-contact clock.")
TECHNIQUE = "Lean 4 proof over a hand-written timed model + Go/Lean differential correspondence on virtual time + property monitor"

PROFILE = G.profile(etcd_quick=3, etcd_thorough=30, weights={"tick": 14, "hb": 8, "hball": 10, "join": 8, "sync": 5, "commit": 1, "fetch": 0, "leave": 1, "fail": 0,
                             "failover": 1, "failover_lazy": 0, "meta": 0, "cleanup": 3, "tickonly": 3},
                    timeouts=[10000, 20000, 30000], tick_base=[10, 10, 10, 20, 20, 30], start_converged=60, cadence=35)
RULE = ("timed membership histories on virtual time (ticks of 10/20/30 s +-1..4 s, sessions and rebalance timeouts of 10/20/30 s, "
        "heartbeats during Stable and during rebalances), generated from VERIF_SEED; non-trivial = a group reached Stable; "
        "distinct = distinct implementation traces")


def monitor(tr):
    out = []
    contact = {}     # (group, member) -> virtual time of the last accepted contact
    for i, st in enumerate(tr.steps):
        f, reply, pre, post = st["f"], st["reply"], st["pre"], st["post"]
        kind = f[0]
        now = st["clock"]
        if kind == "reset":
            contact = {}
        if kind == "join" and reply.get("kind") == "join":
            contact[(f[1], reply["me"])] = now
        if kind == "race" and reply.get("kind") == "race":
            o = reply["other"]
            if o.get("kind") == "join":
                contact[(st["other_f"][1], o["me"])] = now
            elif st["other_f"][0] == "hb" and o.get("code") in (0, 27):
                contact[(st["other_f"][1], st.get("other_member"))] = now
        if kind == "hb" and reply.get("kind") == "code" and reply["code"] in (0, 27):
            contact[(f[1], st["member"])] = now
        if kind == "par" and reply.get("kind") == "par":
            # either request of a two-request op is a contact like any other (a join that is answered, an accepted heartbeat)
            for side in ("a", "b"):
                w, o = st[side + "_f"], reply[side]
                if w and w[0] == "join" and o.get("kind") == "join":
                    contact[(w[1], o["me"])] = now
                elif w and w[0] == "hb" and o.get("code") in (0, 27):
                    contact[(w[1], st.get(side + "_member"))] = now
        if kind == "hb" and reply.get("kind") == "code" and reply["code"] == -1 and not st["everfault"]:
            out.append((i, "heartbeat-server-error", "heartbeat answered UNKNOWN_SERVER_ERROR without a store fault"))
        if kind != "cleanup":
            continue
        for g, grp in pre["G"].items():
            after = post["G"].get(g)
            removed_any = False
            deadline_passed = grp["dl"] not in ("-", None) and int(grp["dl"]) <= 0
            for m, v in grp["mem"].items():
                session = v["s"] if v["s"] != 0 else 30000
                last = contact.get((g, m))
                if last is None:
                    continue      # a member restored from the store that never contacted this history's coordinators: not judged
                lapsed = now - last > session
                lagging = deadline_passed and v["jg"] != grp["gen"]
                gone = after is None or m not in after["mem"]
                removed_any = removed_any or gone
                if gone and not lapsed and not lagging:
                    out.append((i, "live-member-expired",
                                "member %s of group %s was removed %d ms after its last accepted contact (session %d ms, phase %s)"
                                % (m, g, now - last, session, grp["ph"])))
                if not gone and (lapsed or lagging):
                    out.append((i, "lapsed-member-not-removed",
                                "member %s of group %s survived cleanup %d ms after its last contact (session %d ms, lagging=%s)"
                                % (m, g, now - last, session, lagging)))
            if removed_any and after is not None and after["mem"]:
                if after["ph"] != "preparing" or after["gen"] != grp["gen"] + 1:
                    out.append((i, "no-rebalance-after-expiry", "group %s lost a member but is %s generation %d (was %d)"
                                % (g, after["ph"], after["gen"], grp["gen"])))
    return out


def failover_precision_histories():
    """A heartbeat lands at an arbitrary fraction of a wall-clock second; the member must still be there one second before
    its session lapses, also when the coordinator that decides was restored from the store in between (the persisted
    last-heartbeat must not be older than the real one).  Several rounds per history and several histories, so that
    the fractions of a second at which the heartbeats land cover the whole second."""
    hs = []
    for etcd in (False, True, False, True, False, True):
        h = ["reset etcd" if etcd else "reset", "meta 0=0,1", "join 1 c1 10000 30000 1 1 0", "sync 1 c1 @"]
        for _ in range(4):
            h += ["hb 1 c1 @", "failover", "tick 9000", "cleanup", "hb 1 c1 @", "tick 9000", "cleanup"]
        hs.append(h)
    return hs


def run(ck):
    G.run_property(ck, PROFILE, monitor, n_quick=200, n_thorough=2000, nops=45, rule=RULE,
                   extra_histories=failover_precision_histories())


def replay(ck, path):
    G.replay(ck, path, monitor)
