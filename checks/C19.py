"""C19 — a broker appends only to partitions whose lease it holds.

Tie: the real `handleProduce` of cmd/broker (overlay harness inside package main) with an EtcdStore
on embedded etcd, a real PartitionLeaseManager A (the handler's) and a competitor B, ACL on/off,
etcd availability, S3 health, failing lease transactions, session loss / expiry / ReleaseAll, and
an in-memory S3 that counts segment uploads per partition and can park the request between the
lease step and the write.  Every line is diffed with the Lean model (lease model of C18 + the
decision list of Model/ProduceGate.lean) and checked by `monitor` (the property itself).
"""
import json

from checks import lib

PROPERTY = "C19"
LEAN_MODULES = ["KafVerif.Props.C19"]
OBLIGATIONS = [
    "KafVerif.C19.produce_gate_partial",
    "KafVerif.C19.foreign_rejected",
    "KafVerif.C19.lease_error_retriable",
    "KafVerif.C19.no_write_without_gate",
    "KafVerif.C19.codes_closed",
    "KafVerif.C19.lease_nil_means_owned",
    "KafVerif.C19.acquireAll_covers_every_partition",
    "KafVerif.C19.acquireAll_nil_owned",
    "KafVerif.C19.produce_request_gate",
    "KafVerif.C19.produce_request_no_write",
    "KafVerif.C19.gate_step_owned",
    "KafVerif.C19.append_without_lease",
]
ASSUMPTIONS = [
    "the lease model and its assumptions are those of C18 (the C18 fix is part of the modelled code)",
    "S3 (in-memory client) and AppendBatch/Flush succeed in the correspondence runs; their failure branches are covered by the decision theorems only (and by C01/C25)",
    "acks=0 requests have no response: only uploads and ownership are compared for them",
    "AcquireAll's concurrent Acquire calls touch different resources and are modelled as a sequential map over the request's partitions (assumed pairwise distinct)",
]
BUILDS = {"h": ("root", "./cmd/broker", ["C19", "C18"])}
LEVEL_TEXT = ("Lean 4 theorems over the full input space of the per-partition produce decision list and its link to the lease "
              "model (success => lease result nil => partition in the ownership set at the AcquireAll step; foreign => "
              "NOT_LEADER_OR_FOLLOWER and nothing appended; other lease errors => retriable and nothing appended); PARTIAL: the "
              "full statement 'held the lease when it appended' is false for the code (witness theorem append_without_lease + "
              "replay on the real handler = known finding lease-lost-between-acquire-and-append).")
LEVEL_NOTE = ("Trusted: Lean kernel; the hand-written models (Lease, ProduceGate); the overlay harness in cmd/broker and its "
              "generators. The gate theorems speak about the lease state at the AcquireAll step, not at the append.")
TECHNIQUE = "Lean 4 decision-logic proofs + lease-model link + Go/Lean differential correspondence on the real produce handler"
PARTIAL = ("proved: success code => lease held at the AcquireAll step (+ foreign/other-error rejection, no write without gate); "
           "NOT provable for the code as it is: lease held at the moment of the append/ack (nothing re-checks ownership and the "
           "S3 write is not fenced) — witness KafVerif.C19.append_without_lease, known finding lease-lost-between-acquire-and-append")

# Proposed entry for /verif/known_findings.json (builders may not edit that file; the coordinator copies it).
PROPOSED_KNOWN = [{
    "property": "C19", "status": "open", "fingerprint": "lease-lost-between-acquire-and-append",
    "what": "handleProduce acknowledges (code 0) and uploads a segment for a partition whose lease the broker lost after "
            "acquirePartitionLeases and before AppendBatch/Flush: nothing re-checks ownership and the S3 write is not fenced "
            "(gproduce 1 1:v; a lost; a expire; b acquire 1; gresume -> codes=1=0 writes=1=1 with etcd owner B)",
}]

NRES = 6          # narrow resources 0..5; 6..37 = wide/0..31 (one topic with 32 partitions)
WIDE = list(range(6, 38))
GHOST = 5
T1 = (3, 4)

CORPUS = {
    "mixed-owned-foreign-unknown": ["produce 1 0:v", "b acquire 1", "produce 1 0:v 1:v 2:v 5:v", "produce -1 1:v 0:g"],
    "foreign-then-released": ["b acquire 0", "produce 1 0:v", "b release 0", "produce 1 0:v", "b acquire 0"],
    "acl-deny": ["acl deny1", "produce 1 3:v 0:v 4:v", "acl off", "produce 1 3:v"],
    "etcd-down": ["etcd down", "produce 1 0:v 1:v", "etcd up", "produce 1 0:v"],
    "s3-states": ["produce 1 0:v", "s3 degraded", "produce 1 0:v 1:v", "s3 unavailable", "produce 1 0:v", "s3 healthy", "produce 1 1:v"],
    "lease-error-other": ["txnfail on", "produce 1 0:v 1:v", "txnfail off", "produce 1 0:v"],
    "shutting-down": ["produce 1 0:v", "a releaseall", "produce 1 0:v 1:v", "b acquire 0"],
    "session-lost-then-produce": ["produce 1 0:v 1:v", "a lost", "produce 1 0:v", "a expire", "b acquire 1", "produce 1 0:v 1:v"],
    "acks0": ["produce 0 0:v 1:g", "b acquire 2", "produce 0 2:v", "produce 1 0:v"],
    "garbage-batch-on-foreign": ["b acquire 0", "produce 1 0:g 1:g"],
    "lease-lost-while-parked-fresh-log": ["gproduce 1 0:v", "a lost", "a expire", "b acquire 0", "gresume"],
    "lease-lost-while-parked-open-log": ["produce 1 1:v", "gproduce 1 1:v", "a lost", "a expire", "b acquire 1", "gresume"],
    "parked-no-loss": ["gproduce 1 2:v", "b acquire 0", "gresume", "produce 1 2:v"],
}


def _wide(rs):
    return " ".join("%d:v" % r for r in rs)


CORPUS.update({
    # restart (stale key still carries A) + expiry + competing acquire INSIDE Acquire's two etcd round trips
    "restart-reacquire-races-failover": ["produce 1 0:v", "a lost", "lproduce 1 0:v", "a expire", "b acquire 0", "lresume", "produce 1 0:v"],
    "reacquire-parked-no-race": ["produce 1 1:v", "a lost", "lproduce 1 1:v", "lresume", "produce 1 1:v"],
    "create-parked-then-lost": ["lproduce 1 2:v", "a lost", "a expire", "b acquire 2", "lresume"],
    # wide requests: more not-yet-owned partitions than any fan-out cap, mixed free / foreign
    "wide-all-foreign": ["b acquire %d" % r for r in range(6, 30)] + ["produce 1 " + _wide(range(6, 30))],
    "wide-mixed": ["b acquire %d" % r for r in (7, 9, 14, 15, 16, 22, 29, 33, 37)] + ["produce 1 " + _wide(range(6, 38)), "produce 1 " + _wide(range(6, 38))],
    "wide-foreign-tail": ["produce 1 0:v 1:v"] + ["b acquire %d" % r for r in range(16, 27)] + ["produce -1 0:v 1:v " + _wide(range(8, 27))],
})


def parse(line):
    f = line.split(" ")
    d = {"tag": f[0]}
    for x in f:
        if "=" in x:
            k, v = x.split("=", 1)
            d[k] = v
    own = [x for x in d.get("own", "").split(",") if x]
    bown = [x for x in d.get("bown", "").split(",") if x]
    kv = dict(p.split(":", 1) for p in d.get("kv", "").split(",") if ":" in p and not p.startswith("?"))
    codes = None
    if "codes" in d and d["codes"] != "none":
        codes = dict(p.split("=", 1) for p in d["codes"].split(",") if "=" in p)
    writes = dict(p.split("=", 1) for p in d.get("writes", "").split(",") if "=" in p) if "writes" in d else None
    return {"tag": f[0], "own": own, "bown": bown, "kv": kv, "codes": codes, "writes": writes, "raw": line}


def monitor(ops, lines):
    """The property on implementation lines.  Returns list of (index, fingerprint, what)."""
    out = []
    prev = None
    parked_kv = None
    deny1, etcd_up, txnfail = False, True, False
    for i, (op, line) in enumerate(zip(ops, lines)):
        f = op.split()
        o = parse(line)
        if f[0] == "reset":
            deny1, etcd_up, txnfail = False, True, False
        elif f[0] == "txnfail":
            txnfail = f[1] == "on"
        elif f[0] == "acl":
            deny1 = f[1] == "deny1"
        elif f[0] == "etcd":
            etcd_up = f[1] == "up"
        if o["tag"] in ("panic", "hang", "handler-error", "undecodable-response", "loss-not-observed", "no-keepalive", "reset-failed"):
            out.append((i, "harness-" + o["tag"], "handler did not answer the request normally: %s" % o["tag"]))
            break
        both = sorted(set(o["own"]) & set(o["bown"]))
        if both:
            out.append((i, "two-brokers-own-partition", "A and B both believe they own partition(s) %s (etcd: %s)" % (
                ",".join(both), ",".join("%s:%s" % (r, o["kv"].get(r, "-")) for r in both))))
        if f[0] in ("gproduce", "lproduce"):
            parked_kv = dict(prev["kv"]) if prev else {}
        if f[0] in ("produce", "gresume", "lresume") and o["writes"] is not None:
            before = prev["kv"] if prev else {}
            for r, n in o["writes"].items():
                code = o["codes"].get(r) if o["codes"] is not None else None
                owner_before = (parked_kv if f[0] == "gresume" else before).get(r, "-")
                owner_now = o["kv"].get(r, "-")
                if f[0] == "gresume":
                    # the request was parked between the lease step and the S3 write
                    if (code == "0" or int(n) > 0) and owner_now != "A":
                        out.append((i, "lease-lost-between-acquire-and-append",
                                    "partition %s: code %s, %s segment upload(s), but the lease is held by %s and A owns %s" % (
                                        r, code, n, owner_now, ",".join(o["own"]) or "nothing")))
                    continue
                if f[0] == "lresume":
                    # parked inside Acquire (or finished before parking): A's own state may have changed since, so only
                    # the two-broker rule applies here; exact codes are pinned by the model diff
                    if r in o["bown"] and (code == "0" or int(n) > 0):
                        out.append((i, "success-while-other-broker-owns", "partition %s: code %s, %s upload(s), but B owns it (B acquired it while A's Acquire was between its two etcd round trips)" % (r, code, n)))
                    if code is not None and code != "0" and int(n) > 0:
                        out.append((i, "write-on-rejected-partition", "partition %s rejected with code %s but %s segment upload(s) happened" % (r, code, n)))
                    continue
                if owner_before == "B":
                    if int(n) > 0:
                        out.append((i, "write-to-foreign-partition", "partition %s is leased to B but %s segment upload(s) happened" % (r, n)))
                    # a failing lease transaction cannot learn the owner: retriable REQUEST_TIMED_OUT is then as good as
                    # NOT_LEADER_OR_FOLLOWER (the exact code is pinned by the model diff, not by the property)
                    if deny1 and int(r) in T1:
                        want = ("29",)
                    elif not etcd_up:
                        want = ("7",)
                    elif txnfail:
                        want = ("6", "7")
                    else:
                        want = ("6",)
                    if code is not None and code not in want:
                        out.append((i, "foreign-partition-not-rejected", "partition %s is leased to B: expected code %s (NOT_LEADER_OR_FOLLOWER unless ACL/etcd/lease-error rejected earlier), got %s" % (r, "/".join(want), code)))
                if code == "0" and (r not in o["own"] or owner_now != "A"):
                    out.append((i, "success-without-lease", "partition %s acknowledged with code 0 but A owns %s and etcd owner is %s" % (
                        r, ",".join(o["own"]) or "nothing", owner_now)))
                if int(n) > 0 and (r not in o["own"] or owner_now != "A"):
                    out.append((i, "write-without-lease", "partition %s: %s segment upload(s) but A owns %s and etcd owner is %s" % (
                        r, n, ",".join(o["own"]) or "nothing", owner_now)))
                if code is not None and code != "0" and int(n) > 0:
                    out.append((i, "write-on-rejected-partition", "partition %s rejected with code %s but %s segment upload(s) happened" % (r, code, n)))
                if code is not None and code not in ("0", "6", "7", "29", "-1"):
                    out.append((i, "undocumented-code", "partition %s answered code %s" % (r, code)))
        prev = o
    return out


def gen_parts(rng, n):
    rs = list(range(NRES))
    parts = []
    for _ in range(n):
        r = rng.choice(rs)
        rs.remove(r)
        parts.append("%d:%s" % (r, "g" if rng.chance(1, 7) else "v"))
    return " ".join(parts)


def gen_case(rng, nops):
    ops = []
    closed = False
    for _ in range(nops):
        c = rng.below(20)
        if c < 2:
            # a wide request: 9..32 partitions of one topic, some leased to B beforehand
            n = rng.range(9, 32)
            start = rng.below(len(WIDE) - n + 1)
            chosen = WIDE[start:start + n]
            for r in chosen:
                if rng.chance(1, 4):
                    ops.append("b acquire %d" % r)
            extra = ["%d:v" % rng.below(5)] if rng.chance(1, 2) else []
            ops.append("produce %s %s" % (rng.choice(["1", "-1"]), " ".join(["%d:v" % r for r in chosen] + extra)))
        elif c < 9:
            ops.append("produce %s %s" % (rng.choice(["1", "1", "-1", "0"]), gen_parts(rng, rng.range(1, 4))))
        elif c < 12:
            ops.append("b acquire %d" % rng.below(NRES))
        elif c < 13:
            ops.append("b release %d" % rng.below(NRES))
        elif c < 14:
            ops.append("acl %s" % rng.choice(["deny1", "off"]))
        elif c < 15:
            ops.append("etcd %s" % rng.choice(["down", "up", "up"]))
        elif c < 16:
            ops.append("s3 %s" % rng.choice(["healthy", "healthy", "degraded", "unavailable"]))
        elif c < 17:
            ops.append("txnfail %s" % rng.choice(["on", "off", "off"]))
        elif c < 18:
            ops += ["a lost"] + (["a expire"] if rng.chance(2, 3) else [])
        elif c < 19 and not closed and rng.chance(1, 3):
            ops.append("a releaseall")
            closed = True
        elif rng.chance(1, 2):
            r = rng.below(NRES - 1)
            ops += ["lproduce 1 %d:v" % r] + rng.choice([[], ["b acquire %d" % r], ["a expire", "b acquire %d" % r], ["a lost"]]) + ["lresume"]
        else:
            r = rng.below(NRES - 1)
            ops += ["gproduce 1 %d:v" % r] + (["b acquire %d" % rng.below(NRES)] if rng.chance(1, 2) else []) + ["gresume"]
    return ops


def run_go(ck, binary, lines, tag):
    fn = ck.path("ops_%s.txt" % tag)
    open(fn, "w").write("\n".join(lines) + "\n")
    rc, out, err = ck.run_bin(binary, stdin_path=fn, env={"VERIF_HARNESS": "C19"}, timeout=900)
    res = out.split("\n")[:-1]
    if rc != 0 or len(res) != len(lines):
        return None, "rc=%s answered %d of %d lines; stderr: %s" % (rc, len(res), len(lines), err[-800:])
    return res, None


def explore(ck, binary, cases, tag, diff=True):
    lines = []
    for _, ops in cases:
        lines.append("reset")
        lines += ops
    impl, crash = run_go(ck, binary, lines, tag)
    if crash:
        ck.broke("implementation harness did not answer every op", crash)
        return False
    model = None
    if diff:
        fn = ck.path("ops_%s.txt" % tag)
        model = ck.lean_run("C19", fn)
    ok = True
    p = 0
    for name, ops in cases:
        full = ["reset"] + ops
        n = len(full)
        io = impl[p:p + n]
        kinds = set()
        for o, l in zip(full, io):
            ck.count("op:" + " ".join(o.split()[:2]) if o.split()[0] in ("a", "b", "acl", "etcd", "s3", "txnfail") else "op:" + o.split()[0])
            if o.startswith("produce") and len(o.split()) - 2 > 8:
                ck.count("wide-requests(>8 partitions)")
            pl = parse(l)
            if pl["codes"]:
                for c in pl["codes"].values():
                    ck.count("code:" + c)
                    kinds.add(c)
        ck.case(tuple(ops), nontrivial=(len(kinds) >= 2), sample={"case": name, "ops": ops[:8], "impl": io[1:4]})
        ck.cov["traces_validated_against_impl"] += 1
        mons = monitor(full, io)
        for (i, fp, what) in mons:
            # shortest prefix that still shows it is the replay (ops are few; no further minimisation needed)
            if ck.violation(fp, "%s [case %s]" % (what, name), {"ops": ops[:i], "expected": "property monitor true on every line", "actual": what}):
                ok = False
        if diff and not [m for m in mons if not m[1].startswith("lease-lost")]:
            d = lib.first_diff(io, model[p:p + n])
            if d is not None:
                ck.cov["disagreements_checked"] += 1
                ck.broke("correspondence model/implementation (handleProduce lease gate), case %s" % name,
                         "ops:\n  %s\nop %r\nimpl : %s\nmodel: %s" % ("\n  ".join(full[:d + 1]), full[d], io[d], model[p + d] if p + d < len(model) else None))
                ok = False
        p += n
    return ok


def _install_proposed(ck):
    have = {(k.get("property"), k.get("fingerprint")) for k in ck.known}
    for k in PROPOSED_KNOWN:
        if (k["property"], k["fingerprint"]) not in have:
            ck.known.append(dict(k))
            ck.notes.append("known finding %s taken from checks/C19.py PROPOSED_KNOWN (not yet in known_findings.json)" % k["fingerprint"])


def run(ck):
    ck.partial = PARTIAL
    _install_proposed(ck)
    bins = ck.build_all()
    if bins is None:
        return
    binary = bins["h"]
    ck.cov["rule"] = ("sequences of produce requests (1-4 partitions mixing owned / free / foreign / unknown-topic partitions, valid and "
                      "garbage batches, acks 1/-1/0) interleaved with competitor acquires/releases, ACL, etcd availability, S3 health, "
                      "failing lease transactions, session loss/expiry, ReleaseAll, and requests parked between lease step and write; "
                      "non-trivial = at least two different response codes in the case; distinct = distinct op sequences")
    cases = sorted(CORPUS.items())
    n = 60 if ck.quick() else 600
    for i in range(n):
        cases.append(("rand%d" % i, gen_case(ck.rng.fork(), 14 if ck.quick() else 24)))
    ok = explore(ck, binary, cases, "main")
    if not ok and not ck.violations:
        explore(ck, binary, [("hunt%d" % i, gen_case(ck.rng.fork(), 24)) for i in range(150)], "hunt", diff=False)


def replay(ck, path):
    _install_proposed(ck)
    rep = json.load(open(path))
    bins = ck.build_all()
    if bins is None:
        return
    ops = rep["ops"]
    impl, crash = run_go(ck, bins["h"], ["reset"] + ops, "replay")
    if crash:
        ck.broke("implementation harness did not answer every op", crash)
        return
    for o, r in zip(["reset"] + ops, impl):
        print("  %-28s -> %s" % (o, r))
    ck.case(tuple(ops), sample={"ops": ops[:10]})
    ck.cov["distinct_nontrivial"] = max(ck.cov["distinct_nontrivial"], 2)
    for (i, fp, what) in monitor(["reset"] + ops, impl):
        ck.violation(fp, what, {"ops": ops, "actual": what})
