"""C41 — the broker data path is free of data races (partial: lock discipline proved, races tested with -race)."""
import json
import os
import re

from checks import lib

PROPERTY = "C41"
LEAN_MODULES = ["KafVerif.Props.C41"]
OBLIGATIONS = [
    "KafVerif.C41.lockset_drf",
    "KafVerif.C41.fields_guarded",
    "KafVerif.C41.shared_elements_immutable_or_guarded",
    "KafVerif.C41.shared_elements_nonvacuous",
    "KafVerif.C41.prepublication_ok",
    "KafVerif.C41.table_nonvacuous",
]
BUILDS = {"h": ("root", "./cmd/verif_c41", ["C41"], {"race": True}),
          "hb": ("root", "./cmd/broker", ["C41"], {"race": True})}   # the broker itself + zz_verif_c41.go (handler paths)
LEVEL_TEXT = ("Partial. Lean 4: on a trace model (threads, acquire/release, read/write) with mutex semantics, if every access to x happens "
              "while its thread holds a fixed mutex m then any two accesses by different threads are separated by release(m) by the first "
              "and acquire(m) by the second, i.e. ordered by happens-before (lockset_drf, all traces); the lockset table REGENERATED from "
              "pkg/storage/log.go, buffer.go, pkg/cache/segment_cache.go and the handler's logs map gives every field written after "
              "construction one mutex held exclusively at each write and at least shared at each read (fields_guarded, decide). "
              "Every store that goes through an element shared via those fields (*IndexEntry of l.indexEntries, elements of the segment / "
              "batch slices) is made under the owner's mutex (shared_elements_immutable_or_guarded, decide over the regenerated table). "
              "The data-race claim itself is tested: concurrent produce/fetch/flush/prefetch/cache stress, including fetches of partitions "
              "restored from S3 with foreign/damaged indexes, under the Go race detector.")
LEVEL_NOTE = ("Not expressible in the model: atomics, sync.Cond, channels, WaitGroup/errgroup and goroutine-start edges, races in "
              "third-party packages; fields never written by a method are treated as immutable after construction; RestoreFromS3 is exempt "
              "as pre-publication code (its call sites are checked to precede publication). Trusted: Lean kernel, the go/ast lockset pass, "
              "the race detector. A stress run can only exhibit races on the schedules it happens to produce.")
TECHNIQUE = "Lean 4 lockset => happens-before theorem + go/ast lockset table + -race stress run"
ASSUMPTIONS = [
    "sync.Mutex / RWMutex semantics (mutual exclusion, release happens-before the next acquire) as in the Go memory model",
    "a field no method writes is immutable after construction (constructors run before the value is shared)",
    "function literals are analysed with an empty lockset (they may run on another goroutine)",
    "PartitionLog.RestoreFromS3 runs before the log is published (checked at every call site found)",
    "shared-element stores are found by syntactic type inference (go/ast, no go/types): a store whose lvalue type cannot be inferred is not listed; reads of shared elements are not listed",
]

GEN = os.path.join(lib.LEAN, "KafVerif", "Gen", "C41Locksets.lean")


def _binary(ck):
    b = getattr(ck, "_c41_bin", None)
    if b:
        return b
    bins = ck.build_all()
    if bins is None:
        return None
    ck._c41_bin = bins["h"]
    ck._c41_broker = bins.get("hb")
    return ck._c41_bin


def parse_extract(out):
    mutexes, fields, accesses, prepub_bad, sites, done = {}, [], [], None, 0, False
    elemwrites, elemtypes = [], []
    for l in out.split("\n"):
        f = l.split()
        if not f:
            continue
        if f[0] == "mutex":
            mutexes.setdefault(f[1], []).append(f[2])
        elif f[0] == "field":
            fields.append((f[1], f[2]))
        elif f[0] == "access":
            kv = dict(x.split("=", 1) for x in f[6:])
            accesses.append({"type": f[1], "field": f[2], "write": f[3] == "w", "func": f[4], "line": int(f[5]),
                             "locks": [] if kv["locks"] == "-" else kv["locks"].split(","),
                             "rlocks": [] if kv["rlocks"] == "-" else kv["rlocks"].split(","), "phase": kv["phase"]})
        elif f[0] == "elemwrite":
            kv = dict(x.split("=", 1) for x in f[5:])
            elemwrites.append({"owner": "" if f[1] == "-" else f[1], "elem": f[2], "func": f[3], "line": int(f[4]),
                               "locks": [] if kv["locks"] == "-" else kv["locks"].split(","), "phase": kv["phase"]})
        elif f[0] == "elemtype":
            elemtypes.append(f[2])
        elif f[0] == "prepub":
            kv = dict(x.split("=", 1) for x in f[2:])
            sites, prepub_bad = int(kv["sites"]), int(kv["bad"])
        elif f[0] == "done":
            done = True
        elif f[0] == "error":
            raise RuntimeError("lockset extractor: " + l)
    if not done or prepub_bad is None or not fields or not accesses:
        raise RuntimeError("lockset extractor output incomplete: " + out[-400:])
    return mutexes, fields, accesses, sites, prepub_bad, elemwrites, elemtypes


def generate(ck):
    binary = _binary(ck)
    if binary is None:
        raise RuntimeError("harness (which contains the extractor) does not build")
    rc, out, err = ck.run_bin(binary, args=["extract", lib.REPO])
    if rc != 0:
        raise RuntimeError("lockset extractor failed: " + out[-500:] + err[-500:])
    mutexes, fields, accesses, sites, prepub_bad, elemwrites, elemtypes = parse_extract(out)
    ck._c41 = {"fields": fields, "accesses": accesses}
    mid = {t: {m: i for i, m in enumerate(sorted(ms))} for t, ms in mutexes.items()}
    src = ("-- REGENERATED by checks/C41.py from pkg/storage/{log,buffer}.go, pkg/cache/segment_cache.go, cmd/broker (handler.logs)\n"
           "import KafVerif.Model.Lockset\nnamespace KafVerif.Gen.C41\nopen KafVerif.Lockset\n")
    for t, ms in sorted(mid.items()):
        src += "-- mutex ids of %s: %s\n" % (t, ", ".join("%d=%s" % (i, m) for m, i in sorted(ms.items(), key=lambda kv: kv[1])))
    rows = []
    nmut = 0
    for (t, f) in fields:
        acc = [a for a in accesses if a["type"] == t and a["field"] == f and a["phase"] == "run"]
        mutable = any(a["write"] for a in acc)
        nmut += 1 if mutable else 0
        arows = ",\n".join('      { write := %s, func := "%s", line := %d, locks := [%s], rlocks := [%s] }' % (
            "true" if a["write"] else "false", a["func"], a["line"],
            ", ".join(str(mid[t][m]) for m in a["locks"]), ", ".join(str(mid[t][m]) for m in a["rlocks"])) for a in acc)
        rows.append('  { owner := "%s", name := "%s", mutable := %s, accesses := [\n%s] }' % (t, f, "true" if mutable else "false", arows))
    src += "def fields : List Field := [\n" + ",\n".join(rows) + "]\n"
    ew = [w for w in elemwrites if w["phase"] == "run"]
    src += "-- shared element types (struct types held in slices / maps / by pointer by the analysed types): %s\n" % ", ".join(elemtypes)
    src += "/-- stores whose lvalue goes through a shared element and whose root is not a fresh local -/\n"
    src += "def sharedElemWrites : List ElemWrite := [\n" + ",\n".join(
        '  { owner := "%s", elem := "%s", func := "%s", line := %d, locks := [%s] }' % (
            w["owner"], w["elem"], w["func"], w["line"], ", ".join(str(mid[w["owner"]][m]) for m in w["locks"])) for w in ew) + "]\n"
    src += "/-- call sites of pre-publication methods (RestoreFromS3) that are NOT on a freshly constructed, unpublished log: %d of %d -/\n" % (prepub_bad, sites)
    src += "def prepubViolations : Nat := %d\nend KafVerif.Gen.C41\n" % (prepub_bad if sites > 0 else 0)
    old = open(GEN).read() if os.path.exists(GEN) else None
    if old != src:
        os.makedirs(os.path.dirname(GEN), exist_ok=True)
        tmp = GEN + ".tmp%d" % os.getpid()
        open(tmp, "w").write(src)
        os.replace(tmp, GEN)
    d = ck.cov["distribution"]
    d["fields_analysed"] = len(fields)
    d["fields_mutable"] = nmut
    d["accesses_recorded"] = len(accesses)
    d["accesses_prepublication"] = sum(1 for a in accesses if a["phase"] != "run")
    # translator-side explanation of a failing obligation (the Lean `decide` only says false)
    bad = []
    for (t, f) in fields:
        acc = [a for a in accesses if a["type"] == t and a["field"] == f and a["phase"] == "run"]
        if not any(a["write"] for a in acc):
            continue
        cands = set(mid.get(t, {}).keys())
        for a in acc:
            cands &= set(a["locks"] if a["write"] else a["rlocks"])
        if not cands:
            weakest = [a for a in acc if not (a["locks"] if a["write"] else a["rlocks"])] or acc
            bad.append("%s.%s: no common mutex; e.g. %s in %s (line %d) holds %s" % (
                t, f, "write" if weakest[0]["write"] else "read", weakest[0]["func"], weakest[0]["line"],
                ",".join(weakest[0]["rlocks"]) or "nothing"))
    for w in ew:
        same = [x for x in ew if x["elem"] == w["elem"]]
        if not w["owner"] or not w["locks"] or any(x["owner"] != w["owner"] or not (set(x["locks"]) & set(w["locks"])) for x in same):
            bad.append("store through shared %s element in %s (line %d) holds %s: the elements are used by readers after the owner's "
                       "mutex is released" % (w["elem"], w["func"], w["line"], ",".join(w["locks"]) or "nothing"))
    d["shared_elem_types"] = len(elemtypes)
    d["shared_elem_writes"] = len(ew)
    ck._c41["unguarded"] = bad


RACE_RE = re.compile(r"WARNING: DATA RACE\n(.*?)\n==================", re.S)


def race_fingerprint(block):
    """normalised class of one race report: the top repo frame of each of the two conflicting accesses"""
    tops = []
    for part in re.split(r"\n\n", block):
        if not part.lstrip().startswith(("Write", "Read", "Previous", "Atomic")):
            continue
        m = re.search(r"^\s+github\.com/KafScale/platform/(\S+)\(\)\s*$", part, flags=re.M)
        if m:
            tops.append(m.group(1))
    tops = sorted(set(tops))[:2]
    return "data-race:" + "+".join(tops) if tops else "data-race:unknown-frames"


def run_stress(ck, binary, seed, millis, parts, width):
    rc, out, err = ck.run_bin(binary, args=["stress", str(seed), str(millis), str(parts), str(width)], timeout=millis / 1000 + 120,
                              env={"GORACE": "halt_on_error=0 exitcode=66 history_size=3", "GOMAXPROCS": "8"})
    return rc, out, err


def run(ck):
    binary = _binary(ck)
    if binary is None:
        return
    if not hasattr(ck, "_c41"):
        try:
            generate(ck)
        except Exception as e:
            ck.broke("translator", repr(e))
            return
    for b in ck._c41.get("unguarded", []):
        ck.notes.append("lockset table: " + b)
    ck.cov["rule"] = ("stress runs = (seed, duration, partitions, goroutines per role) under the race detector: producers, fetchers, flusher, "
                      "watermark readers per partition + cache hammer, S3 with injected failures, plus rounds of 2-4 simultaneous fetchers on "
                      "partitions freshly restored from S3 objects with foreign/damaged sparse indexes (positions 0/1/31 inside the header, "
                      "out-of-order, in/after the footer); a run is non-trivial when appends, reads, flushes, S3 failures and restored rounds "
                      "with both range reads and full downloads all occurred; distinct = distinct parameter tuples (schedules are not reproducible)")
    plans = [(1, 2500, 2, 3), (2, 2500, 1, 4), (3, 2000, 3, 2)] if ck.quick() else \
        [(i + 1, 6000, 1 + i % 3, 2 + i % 4) for i in range(12)]
    for (k, millis, parts, width) in plans:
        seed = ck.seed * 1000 + k
        rc, out, err = run_stress(ck, binary, seed, millis, parts, width)
        m = re.search(r"stress done appends=(\d+) reads=(\d+) flushes=(\d+) errors=(\d+) panics=(\d+) s3uploads=(\d+) s3failures=(\d+)", out)
        stats = [int(x) for x in m.groups()] if m else [0] * 7
        for name, v in zip(["appends", "reads", "flushes", "op_errors", "panics", "s3_uploads", "s3_failures"], stats):
            ck.count(name, v)
        mr = re.search(r"restored rounds=(\d+) reads=(\d+) errors=(\d+) panics=(\d+) range_reads=(\d+) full_reads=(\d+) restore_errors=(\d+) mismatch=(\d+)", out)
        rstats = [int(x) for x in mr.groups()] if mr else [0] * 8
        for name, v in zip(["restored_rounds", "restored_reads", "restored_read_errors", "restored_read_panics", "restored_range_reads",
                            "restored_full_reads", "restored_restore_errors", "restored_setup_mismatch"], rstats):
            ck.count(name, v)
        if mr and rstats[3] > 0:
            ck.notes.append("reads of restored segments with damaged indexes panicked %d times (recovered per read; not a C41 alarm): %s"
                            % (rstats[3], (re.findall(r"restored-read panicked.*", err) or ["?"])[0][:200]))
        # restored_ok: the damaged-index partitions were restored and read on both the range-read and the full-download/cached path
        restored_ok = bool(mr) and rstats[0] > 0 and rstats[1] > 0 and rstats[4] > 0 and rstats[5] > 0
        ck.case(("stress", seed, millis, parts, width),
                nontrivial=bool(m) and stats[0] > 0 and stats[1] > 0 and stats[2] > 0 and stats[6] > 0 and restored_ok,
                sample={"stress": [seed, millis, parts, width], "result": out.strip()[-400:]})
        ck.cov["traces_validated_against_impl"] += 1
        races = RACE_RE.findall(err)
        ck.count("race_reports", len(races))
        for blk in races:
            fp = race_fingerprint(blk)
            ck.violation(fp, "the race detector reported a data race: " + fp[len("data-race:"):],
                         {"stress": {"seed": seed, "millis": millis, "partitions": parts, "width": width}, "report": blk[:6000],
                          "note": "schedules are not reproducible; the replay re-runs the same stress parameters several times"})
        if "PANIC in" in err or (m and stats[4] > 0):
            ck.violation("stress-panic", "a data-path goroutine panicked under concurrency: " + (re.findall(r"PANIC in .*", err) or ["?"])[0][:200],
                         {"stress": {"seed": seed, "millis": millis, "partitions": parts, "width": width}, "stderr": err[-3000:]})
        elif rc not in (0, 66) or not m:
            ck.broke("stress harness", "rc=%s out=%s err=%s" % (rc, out[-500:], err[-1500:]))
            break
        if ck.violations:
            break
    broker = getattr(ck, "_c41_broker", None)
    if broker and not ck.violations:
        millis = 1500 if ck.quick() else 6000
        rc, out, err = ck.run_bin(broker, timeout=millis / 1000 + 120,
                                  env={"VERIF_HARNESS": "C41", "VERIF_C41_MILLIS": str(millis), "VERIF_C41_WIDTH": "3" if ck.quick() else "5",
                                       "GORACE": "halt_on_error=0 exitcode=66 history_size=3", "GOMAXPROCS": "8"})
        m = re.search(r"handler stress done gets=(\d+) appends=(\d+) reads=(\d+) errors=(\d+) panics=(\d+)", out)
        if m:
            for name, v in zip(["handler_gets", "handler_appends", "handler_reads", "handler_errors"], m.groups()):
                ck.count(name, int(v))
        ck.case(("handler-stress", millis), nontrivial=bool(m) and int(m.group(1)) > 0 and int(m.group(2)) > 0,
                sample={"handler_stress_ms": millis, "result": out.strip()[-200:]})
        ck.cov["traces_validated_against_impl"] += 1
        races = RACE_RE.findall(err)
        ck.count("race_reports", len(races))
        for blk in races:
            fp = race_fingerprint(blk)
            ck.violation(fp, "the race detector reported a data race on the handler path: " + fp[len("data-race:"):],
                         {"stress": {"handler": True, "millis": millis}, "report": blk[:6000]})
        if "PANIC in" in err:
            ck.violation("stress-panic", "a handler-path goroutine panicked under concurrency", {"stress": {"handler": True, "millis": millis}, "stderr": err[-3000:]})
        elif not races and (rc != 0 or not m):
            ck.broke("handler stress harness", "rc=%s out=%s err=%s" % (rc, out[-500:], err[-1500:]))
    if ck.broken and not ck.violations and ck._c41.get("unguarded"):
        # the lock discipline is broken in the table: hunt for the race it predicts with longer, wider runs
        for k in range(4):
            seed = ck.seed * 1000 + 100 + k
            rc, out, err = run_stress(ck, binary, seed, 6000, 1 + k % 2, 4)
            ck.cov["evaluations"] += 1
            races = RACE_RE.findall(err)
            if races:
                fp = race_fingerprint(races[0])
                ck.violation(fp, "the race detector reported a data race: " + fp[len("data-race:"):] + " (lockset table: " +
                             "; ".join(ck._c41["unguarded"])[:400] + ")",
                             {"stress": {"seed": seed, "millis": 6000, "partitions": 1 + k % 2, "width": 4}, "report": races[0][:6000]})
                break
    ck.partial = ("the proved part is the lock-discipline theorem and the regenerated lockset table; atomics, sync.Cond, channels, errgroup and "
                  "goroutine-start edges are not modelled; absence of data races in the running code is tested under the race detector on the "
                  "schedules the stress run happens to produce (storage/cache level; the handler's logs map is covered by the table only)")


def replay(ck, path):
    rep = json.load(open(path))
    binary = _binary(ck)
    if binary is None:
        return
    st = rep.get("stress")
    if st and st.get("handler"):
        broker = getattr(ck, "_c41_broker", None)
        for attempt in range(4):
            rc, out, err = ck.run_bin(broker, timeout=180, env={"VERIF_HARNESS": "C41", "VERIF_C41_MILLIS": str(max(st.get("millis", 1500), 4000)),
                                                               "GORACE": "halt_on_error=0 exitcode=66", "GOMAXPROCS": "8"})
            races = RACE_RE.findall(err)
            print("  attempt %d: rc=%s races=%d %s" % (attempt + 1, rc, len(races), out.strip()[-160:]))
            ck.case(("handler-stress", attempt), sample={"stress": st})
            if races:
                print(races[0][:3000])
                fp = race_fingerprint(races[0])
                ck.violation(fp, "the race detector reported a data race: " + fp[len("data-race:"):], {"stress": st, "report": races[0][:6000]})
                return
        ck.cov["distinct_nontrivial"] = 2
        return
    if not st:
        print("replay file holds no stress parameters (broken obligation record):")
        print(json.dumps(rep.get("no_longer_checks", rep), indent=1)[:4000])
        return
    ck.case(("stress", json.dumps(st)), sample={"stress": st})
    ck.cov["evaluations"] = max(ck.cov["evaluations"], 1); ck.cov["distinct_nontrivial"] = 2
    for attempt in range(4):
        rc, out, err = run_stress(ck, binary, st["seed"] + attempt, max(st["millis"], 4000), st["partitions"], st["width"])
        races = RACE_RE.findall(err)
        print("  attempt %d: rc=%s races=%d %s" % (attempt + 1, rc, len(races), out.strip()[-160:]))
        if races:
            fp = race_fingerprint(races[0])
            print(races[0][:3000])
            ck.violation(fp, "the race detector reported a data race: " + fp[len("data-race:"):], {"stress": st, "report": races[0][:6000]})
            return
        if "PANIC in" in err:
            ck.violation("stress-panic", "a data-path goroutine panicked", {"stress": st, "stderr": err[-3000:]})
            return
