"""C13 — stale or unknown group members are fenced; generations never decrease."""
from checks import C12_common as G

PROPERTY = "C13"
LEAN_MODULES = ["KafVerif.Props.C13"]
OBLIGATIONS = [
    "KafVerif.C13.commit_fenced",
    "KafVerif.C13.negative_generation_commit_fenced",
    "KafVerif.C13.heartbeat_fenced",
    "KafVerif.C13.sync_fenced",
    "KafVerif.C13.generation_mono",
    "KafVerif.C13.persisted_generation_current",
    "KafVerif.C13.race_commit_atomic",
    "KafVerif.C13.raceOld_violates",
]
BUILDS = G.BUILDS
ASSUMPTIONS = G.COMMON_ASSUMPTIONS + [
    "generation monotonicity across a failover needs the preceding PutConsumerGroup to have succeeded (persisted_generation_current); histories with an injected put/delete fault are excluded from that part of the monitor",
    "the commit race is explored at the granularity the code offers: the commit is held inside the store's CommitConsumerOffset while one other request that takes the coordinator lock is issued",
]
LEVEL_TEXT = ("Lean 4 theorems about the executable model of GroupCoordinator: a commit/heartbeat/sync whose member is unknown or "
              "whose generation is not the group's is answered with an error and leaves the committed offsets unchanged (all "
              "states); the generation of a group never decreases along any step while the group stays loaded, and a "
              "successful persist stores the current generation (so a failover restores it); OffsetCommit as one critical "
              "section (after the fix) cannot write for a member fenced in between, and the pre-fix two-step commit can "
              "(witness). Tied to the source by the differential run, including two-request schedules through a gate in the store.")
TECHNIQUE = "Lean 4 proof over a hand-written model + Go/Lean differential correspondence (incl. gated two-request schedules) + property monitor"

PROFILE = G.profile(etcd_quick=4, etcd_thorough=30, weights={"fence": 16, "commit": 12, "hb": 10, "sync": 8, "race": 6, "leave": 4, "tick": 7, "fetch": 1, "fail": 0, "meta": 0,
                             "failover": 2},
                    stale_gen=30, timeouts=[10000, 20000, 30000])
RULE = ("one deterministic sweep of non-member / wrong-generation requests (member id \"\", unknown, removed; generation -1, 0, g-1, g, g+1, huge) "
        "in every group phase, plus generated membership histories with commits/heartbeats/syncs from current, stale-generation, expired, departed and unknown members, "
        "session expiries, failovers and two-request commit races, generated from VERIF_SEED; non-trivial = a group reached "
        "Stable or a commit was accepted; distinct = distinct implementation traces")


def is_current(grp, member, gen):
    return grp is not None and member in grp["mem"] and gen == grp["gen"]


def monitor(tr):
    out = []
    lastgen = {}     # group -> last generation seen while the group exists
    for i, st in enumerate(tr.steps):
        f, reply, pre, post = st["f"], st["reply"], st["pre"], st["post"]
        kind = f[0]
        if kind == "reset":
            lastgen = {}
        if kind in ("commit", "hb", "sync") and reply.get("kind") in ("commit", "code", "sync"):
            g = f[1]
            grp = G.effective_group(pre, g)
            if not is_current(grp, st["member"], st["gen"]):
                why = "member %s generation %d against group %s" % (st["member"], st["gen"],
                                                                    "absent" if grp is None else "generation %d members %s" % (grp["gen"], sorted(grp["mem"])))
                if kind == "commit":
                    if any(c == 0 for _, c in reply["rows"]):
                        out.append((i, "stale-commit-accepted", "OffsetCommit answered NONE for " + why))
                    if pre["O"] != {k: v for k, v in post["O"].items() if k in pre["O"]} or any(
                            v != "0/0" for k, v in post["O"].items() if k not in pre["O"]):
                        out.append((i, "stale-commit-changed-offset", "committed offsets changed by " + why))
                elif reply["code"] == 0:
                    out.append((i, "stale-%s-accepted" % ("heartbeat" if kind == "hb" else "sync"), "%s answered NONE for %s" % (kind, why)))
        if kind == "race" and reply.get("kind") == "race":
            g = f[1]
            c = reply["commit"]
            wrote = c.get("kind") == "commit" and any(code == 0 for _, code in c["rows"])
            if reply["order"] == "check,other,write" and wrote:
                grp = G.effective_group(post, g)
                if not is_current(grp, st["member"], st["gen"]):
                    out.append((i, "commit-written-after-member-fenced",
                                "OffsetCommit of %s (generation %d) passed its check, then `%s` ran and fenced it (group now %s), then the offset was written"
                                % (st["member"], st["gen"], " ".join(st["other_f"]),
                                   "gone" if grp is None else "generation %d members %s" % (grp["gen"], sorted(grp["mem"])))))
            grp0 = G.effective_group(pre, g)
            if wrote and not is_current(grp0, st["member"], st["gen"]):
                out.append((i, "stale-commit-accepted", "raced OffsetCommit accepted for a member that was not current before it"))
        # generations never decrease while the group exists
        faulty = bool(st["everfault"] & {0, 1})
        for g in set(list(post["G"]) + list(post["P"])):
            grp = G.effective_group(post, g)
            if g in lastgen and grp["gen"] < lastgen[g] and not faulty:
                out.append((i, "generation-decreased", "group %s went from generation %d to %d" % (g, lastgen[g], grp["gen"])))
            lastgen[g] = grp["gen"]
        for g in [g for g in lastgen if g not in post["G"] and g not in post["P"]]:
            del lastgen[g]
        jr = reply if reply.get("kind") == "join" else None
        if jr is not None and not faulty:
            g = f[1]
            if g in lastgen and jr["gen"] < lastgen[g]:
                out.append((i, "generation-decreased", "join reply reports generation %d after %d" % (jr["gen"], lastgen[g])))
    return out


def fence_history():
    """Deterministic sweep: every kind of non-member / wrong-generation request in every phase of a live group
    (CompletingRebalance, Stable, PreparingRebalance, after a leave, after an expiry, after a failover)."""
    probes = []
    for mem in ("-", "x7", "m9", "c9"):
        for gen in ("-1", "0", "@", "1", "2", "1000000"):
            probes.append("commit 1 %s %s 0:0:7:1" % (mem, gen))
            probes.append("hb 1 %s %s" % (mem, gen))
            probes.append("sync 1 %s %s" % (mem, gen))
    stale = ["commit 1 c1 -1 0:0:8:1", "commit 1 c1 @-1 0:0:8:1", "commit 1 c1 @+1 0:0:8:1", "hb 1 c1 -1", "sync 1 c1 -1",
             "commit 1 c2 -1 0:1:8:1", "hb 1 c2 @+1"]
    h = ["reset", "meta 0=0,1,2", "join 1 c1 10000 30000 1 1 0"]
    h += probes + stale                                   # CompletingRebalance, one member
    h += ["sync 1 c1 @", "commit 1 c1 @ 0:0:100:1"] + probes + stale      # Stable
    h += ["join 1 c2 10000 30000 1 1 0"] + probes + stale                 # PreparingRebalance
    h += ["join 1 c1 10000 30000 1 1 0", "sync 1 c1 @", "sync 1 c2 @", "commit 1 c2 @ 0:1:50:1", "leave 1 c2"] + probes + stale
    h += ["join 1 c1 10000 30000 1 1 0", "sync 1 c1 @", "failover"] + probes + stale + ["fetch 1 0:0,0:1"]
    h += ["tick 13000", "cleanup"] + probes[:12] + ["fetch 1 0:0,0:1"]   # the group has expired: nobody is a member
    return h


def run(ck):
    G.run_property(ck, PROFILE, monitor, n_quick=200, n_thorough=2000, nops=45, rule=RULE, extra_histories=[fence_history()])


def replay(ck, path):
    G.replay(ck, path, monitor)
