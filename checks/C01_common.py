"""Shared machinery of C01 / C05 / C06 (one model `StorageLog`, one harness, three monitors).

A *schedule* is a list of command lines (see lean/Driver/C01.lean).  Schedules are generated
adaptively against the REAL broker code: after every command the harness reports where each
produce goroutine is blocked, and the generator picks the next command among the enabled ones
(random, derived from VERIF_SEED) or enumerates all of them (stateless DFS).  The recorded
schedule is then run through the Lean model driver and the two traces are compared line by line;
the property monitors run on the implementation's trace.
"""
import os
import subprocess

from checks import lib

BUILDS = {"h": ("root", "./cmd/broker", ["C01"])}
LEAN_MODULE_MODEL = "KafVerif.Model.StorageLog"

ASSUMPTIONS = [
    "sync.Mutex / sync.Cond / errgroup semantics: a critical section of l.mu is one atomic step; goroutines interact only through l.mu, the S3 client, the metadata store and the condition variable",
    "S3: whole-object atomic put, read-after-write, listing complete; a failed upload leaves the old object (or none); when one of the two uploads of a flush fails the sibling may or may not have landed (both cases explored)",
    "one broker incarnation per partition at a time (lease exclusivity is C18/C19); crash = loss of all broker memory, S3 and the metadata store survive",
    "batches are well-formed v2 record batches with lastOffsetDelta = numRecords-1 >= 0 (header lies are C02); offsets are unbounded naturals in the model (no int64 overflow)",
    "thresholds: the harness drives WriteBuffer with MaxBatches/MaxMessages and disables the wall-clock FlushInterval and MaxBytes (same prepareFlush path inside AppendBatch); S3 health gate disabled (C25)",
    "the order in which several woken Flush waiters obtain l.mu is chosen by the Go scheduler; the model is told the observed winner (theorems quantify over every order)",
]

TRUSTED = [
    "quiescence detection from runtime.Stack(all): every goroutine blocked in a gate, Cond.Wait, WaitGroup.Wait or idle",
]


# ----------------------------------------------------------------------------- harness process
class Impl:
    def __init__(self, ck, binary):
        env = lib.go_env()
        env["VERIF_HARNESS"] = "C01"
        self.p = subprocess.Popen([binary], env=env, stdin=subprocess.PIPE, stdout=subprocess.PIPE,
                                  stderr=subprocess.DEVNULL, text=True, bufsize=1, cwd=ck.scratch)
        self.n = 0

    def do(self, cmd):
        self.p.stdin.write(cmd + "\n")
        self.p.stdin.flush()
        line = self.p.stdout.readline()
        if not line:
            raise RuntimeError("harness died on %r (rc=%s)" % (cmd, self.p.poll()))
        self.n += 1
        return line.rstrip("\n")

    def close(self):
        try:
            self.p.stdin.close()
            self.p.wait(timeout=10)
        except Exception:
            self.p.kill()


def run_impl_batch(ck, binary, ops):
    im = Impl(ck, binary)
    try:
        return [im.do(o) for o in ops]
    finally:
        im.close()


def run_model(ck, ops, tag="m"):
    fn = ck.path("ops_%s.txt" % tag)
    open(fn, "w").write("\n".join(ops) + "\n")
    return ck.lean_run("C01", fn)


# ----------------------------------------------------------------------------- parsing
def parse(line):
    f = line.split(" ")
    d = {"res": f[0]}
    for x in f[1:]:
        if "=" in x:
            k, v = x.split("=", 1)
            d[k] = v
    return d


def pcs_of(d):
    out = {}
    v = d.get("pcs", "-")
    if v == "-":
        return out
    for part in v.split(","):
        # "0:upF(ok,-)" contains a comma inside the parentheses: re-join below
        pass
    cur = ""
    depth = 0
    items = []
    for ch in v:
        if ch == "(":
            depth += 1
        elif ch == ")":
            depth -= 1
        if ch == "," and depth == 0:
            items.append(cur)
            cur = ""
        else:
            cur += ch
    if cur:
        items.append(cur)
    for it in items:
        t, pc = it.split(":", 1)
        out[int(t)] = pc
    return out


def batches(s):
    """'0@0+1.1@1+2' -> [(id, base, n)]"""
    if s in ("-", "", "?"):
        return []
    out = []
    for x in s.split("."):
        try:
            i, r = x.split("@")
            b, n = r.split("+")
            out.append((int(i), int(b), int(n)))
        except ValueError:
            out.append((-1, -1, 0))
    return out


def objects(s):
    """'0[0@0+1.1@1+1];2[2@2+1]' -> {0: [...], 2: [...]}"""
    out = {}
    if s in ("-", ""):
        return out
    for part in s.split(";"):
        if "[" not in part:
            continue
        k, r = part.split("[", 1)
        try:
            out[int(k)] = batches(r.rstrip("]"))
        except ValueError:
            pass
    return out


def mem_of(d):
    v = d.get("mem", "down")
    if v == "down":
        return None
    f = v.split("/")
    if len(f) != 5:
        return None
    return {"next": int(f[0]), "buffer": batches(f[1]), "inflight": batches(f[2]), "flushing": f[3] == "1",
            "segments": [] if f[4] == "-" else [tuple(int(x) for x in s.split("-")) for s in f[4].split(".")]}


def enabled(d, auto, nthreads_left, faults_left, pubfail=False, seg_first=False):
    """Commands enabled in the implementation state `d` (thread part only)."""
    cmds = []
    pcs = pcs_of(d)
    for t in sorted(pcs):
        pc = pcs[t]
        if pc == "appended" and t not in auto:
            cmds.append("flush %d" % t)
        elif pc.startswith("up"):
            sg, ix = pc[pc.index("(") + 1:-1].split(",")
            if sg == "-":
                cmds.append("seg %d ok" % t)
                if faults_left > 0:
                    cmds.append("seg %d fail" % t)
            if ix == "-" and not (seg_first and sg == "-"):
                cmds.append("idx %d ok" % t)
                if faults_left > 0:
                    cmds.append("idx %d fail" % t)
        elif pc.startswith("pub"):
            cmds.append("pub %d ok" % t)
            if pubfail and faults_left > 0:
                cmds.append("pub %d fail" % t)
    return cmds


def add_hints(ops, lines):
    """When >= 2 Flush waiters were woken by a command, tell the model which one won the mutex."""
    out = list(ops)
    prev = {}
    for i, (op, ln) in enumerate(zip(ops, lines)):
        d = parse(ln)
        pcs = pcs_of(d) if "pcs" in d else {}
        waiters = [t for t, pc in prev.items() if pc == "waitF"]
        if len(waiters) >= 2:
            won = [t for t in waiters if pcs.get(t, "").startswith("upF")]
            if len(won) == 1:
                out[i] = "%s ~%d" % (op, won[0])
        if "pcs" in d:
            prev = pcs
    return out


# ----------------------------------------------------------------------------- monitors
def covered(objs, idx, off):
    for k, bs in objs.items():
        if k in idx:
            for (_, b, n) in bs:
                if b <= off < b + n:
                    return True
    return False


def monitor(ops, lines, which):
    """Evaluate the properties on an implementation trace.
    Returns (line index, fingerprint, what) of the first violation of a property in `which`, or None."""
    hw_prev = 0
    acked_prev = []
    for i, (op, ln) in enumerate(zip(ops, lines)):
        d = parse(ln)
        w = op.split()[0]
        if w in ("new", "rnew"):
            hw_prev, acked_prev = 0, []
        if w == "readcheck":
            if "C06" in which and d["res"] == "ok":
                if d.get("unreadable", "-") != "-":
                    return i, "acked-unreadable-after-restart", "acknowledged batch(es) %s cannot be read at their offsets after the restart" % d["unreadable"]
                nxt = int(d.get("next", "0"))
                need = max([hw_prev] + [b + n for (_, b, n) in acked_prev])
                if nxt < need:
                    return i, "offset-reuse-after-restart", "restarted log would assign offset %d although offsets below %d were acknowledged or published" % (nxt, need)
            continue
        if "hw" not in d:
            continue
        if d["res"] == "stuck":
            return i, "harness-stuck", "goroutines did not come to rest after %r" % op
        try:
            hw = int(d["hw"])
        except ValueError:
            continue
        acked = batches(d.get("acked", "-"))
        objs, idx = objects(d.get("s3", "-")), objects(d.get("ix", "-"))
        if "C01" in which:
            for a in acked:
                if not any(k in idx and a in bs for k, bs in objs.items()):
                    return i, "acked-batch-not-in-s3", "batch %d@%d+%d acknowledged but in no S3 segment with index" % a
        if "C05" in which:
            if hw < hw_prev:
                return i, "hw-regressed", "published next_offset went from %d back to %d" % (hw_prev, hw)
            for off in range(hw):
                if not covered(objs, idx, off):
                    return i, "hw-ahead-of-s3", "published next_offset %d but offset %d is in no S3 segment with index" % (hw, off)
        if "C06" in which:
            if w == "restore":
                if d["res"] == "err" and (acked or hw > 0):
                    return i, "restore-fails-after-crash", "the partition cannot be re-opened from S3 although %d batch(es) were acknowledged (next_offset %d)" % (len(acked), hw)
                m = mem_of(d)
                if m is not None:
                    need = max([hw_prev] + [b + n for (_, b, n) in acked])
                    if m["next"] < need:
                        return i, "offset-reuse-after-restart", "restarted log continues at offset %d although offsets below %d were acknowledged or published" % (m["next"], need)
            # acknowledged offsets are never handed out twice
            seen = {}
            for (bid, b, n) in acked:
                for o in range(b, b + n):
                    if o in seen and seen[o] != bid:
                        return i, "acked-offset-assigned-twice", "offset %d acknowledged for batch %d and for batch %d" % (o, seen[o], bid)
                    seen[o] = bid
        hw_prev, acked_prev = hw, acked
    return None


# ----------------------------------------------------------------------------- generators
class Plan:
    """What a schedule may contain."""

    def __init__(self, threads, kb=0, km=0, faults=1, crashes=0, pubfail=False, maxlen=60):
        self.threads = threads      # list of ("append"|"produce", n)
        self.kb, self.km = kb, km
        self.faults, self.crashes = faults, crashes
        self.pubfail = pubfail
        self.maxlen = maxlen


def choices(d, plan, st):
    """All commands the generator may issue in implementation state d."""
    if d.get("mem", "down") == "down":
        return ["restore"]
    cs = enabled(d, st["auto"], len(plan.threads) - st["started"], plan.faults - st["faults"],
                 pubfail=plan.pubfail, seg_first=(plan.crashes - st["crashes"] <= 0))
    if st["started"] < len(plan.threads):
        kind, n = plan.threads[st["started"]]
        cs.append("%s %d %d" % (kind, st["tid"], n))
    if st["crashes"] < plan.crashes and (cs or st["started"] > 0):
        cs.append("crash")
    return cs


def note(cmd, st):
    w = cmd.split()
    if w[0] in ("append", "produce"):
        if w[0] == "produce":
            st["auto"].add(int(w[1]))
        st["started"] += 1
        st["tid"] += 1
    elif w[0] == "crash":
        st["crashes"] += 1
        st["auto"] = set()
        st["tid"] = 0
    elif w[-1] == "fail":
        st["faults"] += 1


def fresh_state():
    return {"auto": set(), "started": 0, "tid": 0, "faults": 0, "crashes": 0}


def play(im, plan, pick):
    """Run one schedule; `pick(depth, choices)` selects the next command.  Returns (ops, lines)."""
    ops = ["new %d %d fixed" % (plan.kb, plan.km), "restore"]
    lines = [im.do(ops[0]), im.do(ops[1])]
    st = fresh_state()
    depth = 0
    while len(ops) < plan.maxlen:
        d = parse(lines[-1] if "pcs=" in lines[-1] else lines[-2])
        cs = choices(d, plan, st)
        if not cs:
            break
        cmd = pick(depth, cs)
        if cmd is None:
            break
        depth += 1
        note(cmd, st)
        ops.append(cmd)
        lines.append(im.do(cmd))
        if cmd == "restore" and lines[-1].startswith("ok"):
            ops.append("readcheck")
            lines.append(im.do("readcheck"))
    if plan.crashes > 0 and parse(lines[-1] if "pcs=" in lines[-1] else lines[-2]).get("mem", "down") != "down":
        # always end with a crash + restart so every schedule checks C06 on its final state
        for cmd in ("crash", "restore", "readcheck"):
            ops.append(cmd)
            lines.append(im.do(cmd))
    return ops, lines


def random_schedule(im, plan, rng):
    def pick(depth, cs):
        # bias: crashes are rarer than the rest, starting threads early is likelier
        weights = [1 if c == "crash" else (4 if c.split()[0] in ("append", "produce") else 3) for c in cs]
        tot = sum(weights)
        x = rng.below(tot)
        for c, wgt in zip(cs, weights):
            if x < wgt:
                return c
            x -= wgt
        return cs[-1]
    return play(im, plan, pick)


def enumerate_schedules(im, plan, limit):
    """Stateless DFS over every choice sequence of the plan (up to `limit` schedules).
    Yields (ops, lines); sets .exhausted on the generator function's attribute holder."""
    stack = [[]]          # prefixes of choice indices still to explore
    count = 0
    info = {"exhausted": True}
    while stack:
        if count >= limit:
            info["exhausted"] = False
            break
        prefix = stack.pop()
        branch = []

        def pick(depth, cs):
            if depth < len(prefix):
                i = prefix[depth]
                return cs[i] if i < len(cs) else None
            branch.append(len(cs))
            return cs[0]
        ops, lines = play(im, plan, pick)
        # alternatives not taken at the newly explored depths
        for j, ncs in enumerate(branch):
            depth = len(prefix) + j
            base = prefix + [0] * j
            for alt in range(ncs - 1, 0, -1):
                stack.append(base[:depth] + [alt])
        count += 1
        yield ops, lines, info
    yield None, None, info


# ----------------------------------------------------------------------------- the common run
def classify(ops, lines):
    faults = sum(1 for o in ops if o.endswith("fail"))
    crashes = sum(1 for o in ops if o == "crash")
    waits = sum(1 for ln in lines if "waitF" in ln)
    threads = sum(1 for o in ops if o.split()[0] in ("append", "produce"))
    return faults, crashes, waits, threads


def check_schedules(ck, binary, scheds, which, what):
    """Monitor + model correspondence for a list of (ops, lines).  Returns False when the run must stop."""
    # 1. the property itself on every implementation trace (a concrete violation has priority)
    bad = False
    for ops, lines in scheds:
        mon = monitor(ops, lines, which)
        if mon is not None:
            i, fp, msg = mon
            if fp in [v["fingerprint"] for v in ck.violations] or fp in [h["fingerprint"] for h in ck.known_hits]:
                bad = True
                continue
            small = shrink(ck, binary, ops[:i + 1], which, fp)
            if ck.violation(fp, msg, {"ops": small, "expected": "%s monitor true after every step" % "/".join(sorted(which)),
                                      "actual": msg, "schedule_family": what}):
                bad = True
    # 2. correspondence with the model
    all_ops, all_impl, bounds = [], [], []
    for ops, lines in scheds:
        ops = add_hints(ops, lines)
        bounds.append((len(all_ops), len(all_ops) + len(ops)))
        all_ops += ops
        all_impl += lines
    if not all_ops:
        return not bad
    model = run_model(ck, all_ops, tag="m%d" % len(os.listdir(ck.scratch)))
    for (a, b) in bounds:
        ops, io, mo = all_ops[a:b], all_impl[a:b], model[a:b]
        faults, crashes, waits, threads = classify(ops, io)
        ck.count("schedules")
        ck.count("steps", len(ops))
        ck.count("with_fault", 1 if faults else 0)
        ck.count("with_crash", 1 if crashes else 0)
        ck.count("with_waiter", 1 if waits else 0)
        ck.count("acks", len(batches(parse(io[-1] if "acked=" in io[-1] else io[-2]).get("acked", "-"))))
        ck.case(tuple(ops), nontrivial=(threads >= 2 and (faults > 0 or waits > 0 or crashes > 0)),
                sample={"ops": ops[:14], "impl": io[:14]})
        ck.cov["traces_validated_against_impl"] += 1
        dd = lib.first_diff(io, mo)
        if dd is not None:
            ck.cov["disagreements_checked"] += 1
            ck.broke("correspondence model/implementation (StorageLog, %s)" % what,
                     "schedule: %s\nat op %r\nimpl : %s\nmodel: %s" % (
                         " ; ".join(ops[:dd + 1]), ops[dd] if dd < len(ops) else None,
                         io[dd] if dd < len(io) else None, mo[dd] if dd < len(mo) else None))
            return False
    return not bad


def shrink(ck, binary, ops, which, fp):
    head, tail = ops[:2], ops[2:]

    def fails(cand):
        try:
            lines = run_impl_batch(ck, binary, head + cand)
        except RuntimeError:
            return False
        m = monitor(head + cand, lines, which)
        return m is not None and m[1] == fp
    if len(tail) > 40:
        return ops
    return head + lib.ddmin(tail, fails)


def corpus(ck, binary, pid, which):
    """Replay the committed corpus schedules of this property first (monitor + model diff)."""
    import glob
    import json
    scheds = []
    for fn in sorted(glob.glob(os.path.join(lib.REPLAYS, pid + "-*.json"))):
        ops = json.load(open(fn))["ops"]
        if ops and ops[0].startswith("rnew"):
            continue  # registry schedules are replayed by checks/C06.run_registry against StorageLogRegistry
        scheds.append((ops, run_impl_batch(ck, binary, ops)))
    ck.count("corpus", len(scheds))
    return check_schedules(ck, binary, scheds, which, "corpus replays/%s-*.json" % pid)


def hunt(ck, binary, which, plans, n):
    """Implementation-only search (monitor as the goal) after a correspondence/obligation break."""
    im = Impl(ck, binary)
    try:
        for i in range(n):
            plan = plans[i % len(plans)]
            ops, lines = random_schedule(im, plan, ck.rng.fork())
            ck.cov["evaluations"] += 1
            mon = monitor(ops, lines, which)
            if mon is not None:
                j, fp, msg = mon
                small = shrink(ck, binary, ops[:j + 1], which, fp)
                ck.violation(fp, msg, {"ops": small, "actual": msg, "found_by": "hunt"})
                return True
    finally:
        im.close()
    return False


def replay(ck, path, which, mon_fn=None):
    import json
    rep = json.load(open(path))
    bins = ck.build_all()
    if bins is None:
        return
    ops = rep["ops"]
    lines = run_impl_batch(ck, bins["h"], ops)
    for o, r in zip(ops, lines):
        print("  %-16s -> %s" % (o, r))
    ck.case(tuple(ops), sample={"ops": ops})
    ck.cov["evaluations"] = max(ck.cov["evaluations"], 1)
    ck.cov["distinct_nontrivial"] = max(ck.cov["distinct_nontrivial"], 2)
    mon = (mon_fn or (lambda o, l: monitor(o, l, which)))(ops, lines)
    if mon:
        ck.violation(mon[1], mon[2], {"ops": ops, "actual": mon[2]})
