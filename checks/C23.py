"""C23 — ACL decisions: deny overrides, defaults apply, rules are monotone.

Two authorizers are driven: the broker's `pkg/acl` (root module) and the SQL proxy's
`internal/proxy.ACL` (sql module).  Every generated (configuration, request) is evaluated by the
real code and by the Lean model (`lean/Driver/C23.lean`); the lines are diffed.  On top of that a
direct monitor evaluates the property itself on the implementation's answers:

  * decision  : deny if any deny rule of ANY entry of the principal matches, else allow if any
                allow rule matches, else the default policy (rule matches are the
                implementation's own `matches` bits, re-checked against an independent
                exact / prefix* / * reading of the patterns);
  * monotone  : after an allow-only extension of a configuration no request flips allow->deny,
                after a deny-only extension none flips deny->allow.
"""
from checks import lib

PROPERTY = "C23"
LEAN_MODULES = ["KafVerif.Props.C23"]
OBLIGATIONS = [
    "KafVerif.C23.allows_eq_spec",
    "KafVerif.C23.deny_overrides",
    "KafVerif.C23.allow_applies",
    "KafVerif.C23.default_applies",
    "KafVerif.C23.default_unknown",
    "KafVerif.C23.disabled_allows",
    "KafVerif.C23.mono",
    "KafVerif.C23.add_allow_rule_mono",
    "KafVerif.C23.add_allow_entry_mono",
    "KafVerif.C23.add_deny_rule_antimono",
    "KafVerif.C23.add_deny_entry_antimono",
    "KafVerif.C23.name_star",
    "KafVerif.C23.name_exact",
    "KafVerif.C23.name_prefix",
    "KafVerif.C23.name_exact_case_sensitive",
    "KafVerif.C23.old_violates_deny_overrides",
    "KafVerif.C23.old_violates_add_deny",
    "KafVerif.C23.sql_deny_overrides",
    "KafVerif.C23.sql_allow_applies",
    "KafVerif.C23.sql_default_applies",
    "KafVerif.C23.sql_add_deny_antimono",
    "KafVerif.C23.sql_add_allow_mono_partial",
    "KafVerif.C23.sql_first_allow_revokes",
]
ASSUMPTIONS = [
    "strings.EqualFold is modelled with ASCII case folding only; generated action/resource/policy strings stay in that domain",
    "strings.TrimSpace = unicode.IsSpace trimming on valid UTF-8 (modelled completely); invalid UTF-8 is not generated",
    "path.Match (SQL proxy) is a parameter of the theorems; the executable model covers literals, '*' and '?' and the generator stays in that domain",
    "nil *Authorizer receiver (allows everything) is not modelled",
]
TECHNIQUE = "Lean 4 theorems about a line-by-line model of NewAuthorizer/Allows/matches and ACL.Allows/matchPatterns; differential correspondence + property monitor on the real Go code"
LEVEL_TEXT = ("proof: broker ACL decision refines the property's decision procedure for every configuration/request/matcher "
              "(allows_eq_spec) with deny-overrides, allow, default, unknown-principal and four monotonicity theorems at full strength; "
              "SQL proxy ACL: deny/allow/default/deny-antimonotone full, allow-monotone only for a non-empty allow list (_partial) "
              "because the first allow pattern flips the implicit default (witness theorem sql_first_allow_revokes)")
LEVEL_NOTE = "correspondence and monitors are testing; they tie the model to the current source"
BUILDS = {
    "broker": ("root", "./cmd/verif_c23", ["C23"]),
    "sql": ("sql", "./cmd/verif_c23", ["C23"]),
}

KNOWN_SQL_FP = "sql-proxy-first-allow-pattern-revokes-default-access"

GO_SPACE = set(chr(c) for c in [0x20, 9, 10, 11, 12, 13, 0x85, 0xA0, 0x1680, 0x2028, 0x2029, 0x202F, 0x205F, 0x3000] + list(range(0x2000, 0x200B)))


def go_trim(s):
    i, j = 0, len(s)
    while i < j and s[i] in GO_SPACE:
        i += 1
    while j > i and s[j - 1] in GO_SPACE:
        j -= 1
    return s[i:j]


def hx(s):
    return s.encode("utf8").hex() if s else "-"


def ascii_fold(s):
    return "".join(chr(ord(c) + 32) if "A" <= c <= "Z" else c for c in s)


# ---------------------------------------------------------------- independent reading of a rule
def py_matches(rule, req):
    a, r, n = rule
    _, qa, qr, qn = req
    if not (a in ("", "*") or ascii_fold(a) == ascii_fold(qa)):
        return False
    if not (r in ("", "*") or ascii_fold(r) == ascii_fold(qr)):
        return False
    n = go_trim(n)
    if n in ("", "*"):
        return True
    if n.endswith("*"):
        return qn.startswith(n[:-1])
    return n == qn


PRINCIPALS = ["alice", "bob", " alice ", "", "anonymous", "  ", "carol", "Alice", "alice\t", " bob", "svc-1", " "]
ACTIONS = ["produce", "fetch", "PRODUCE", "Fetch", "*", "", "admin", "group_read", "produce ", "prod"]
RESOURCES = ["topic", "group", "TOPIC", "*", "", "cluster", "Topic", "topics"]
PATTERNS = ["orders", "orders-*", "*", "", "ord*", " orders ", "Orders", "o*", "**", "orders-eu", "*orders", "ord*rs", "orders*", "Ord*", "ORDERS-*",
            "主题*", " * ", "payments", " pay*\t", "orders-", "ORDERS", "*-eu", "o"]
NAMES = ["orders", "orders-eu", "Orders", "order", "ord", "", "o", "payments", "*", "orders*", "ORDERS", "orders-", "Orders-eu", "oRDERS",
         "主题1", " orders", "pay", "ord*rs", "ordXrs", "eu-orders", "orders ", "*orders"]
DEFAULTS = ["allow", "deny", "", "ALLOW", " Allow ", "allowed", "allow\n", "Deny", "al low"]


def gen_rule(rng):
    return (rng.choice(ACTIONS[:5]) if rng.chance(2, 3) else rng.choice(ACTIONS),
            rng.choice(RESOURCES[:4]) if rng.chance(2, 3) else rng.choice(RESOURCES),
            rng.choice(PATTERNS[:8]) if rng.chance(1, 2) else rng.choice(PATTERNS))


def gen_req(rng, cfg_names):
    if cfg_names and rng.chance(3, 4):
        p = rng.choice(cfg_names)
        if rng.chance(1, 4):
            p = " " + go_trim(p) + "\t"
    else:
        p = rng.choice(PRINCIPALS)
    return (p, rng.choice(ACTIONS[:4]) if rng.chance(3, 4) else rng.choice(ACTIONS),
            rng.choice(RESOURCES[:3]) if rng.chance(3, 4) else rng.choice(RESOURCES), rng.choice(NAMES))


def rule_line(kind, rule):
    return "%s %s %s %s" % (kind, hx(rule[0]), hx(rule[1]), hx(rule[2]))


def gen_broker_case(rng, nreq):
    """Returns (ops, meta) — meta[i] describes op i for the monitor."""
    enabled = not rng.chance(1, 12)
    default = rng.choice(DEFAULTS[:2]) if rng.chance(2, 3) else rng.choice(DEFAULTS)
    ops = ["cfg %d %s" % (1 if enabled else 0, hx(default))]
    meta = [("cfg", enabled, default)]
    pool = [rng.choice(PRINCIPALS) for _ in range(rng.range(1, 3))]   # few names -> duplicates are common
    names = []
    for _ in range(rng.range(0, 4)):
        n = rng.choice(pool) if rng.chance(4, 5) else rng.choice(PRINCIPALS)
        names.append(n)
        ops.append("pr " + hx(n)); meta.append(("pr", n))
        for _ in range(rng.choice([0, 1, 1, 2, 3])):
            r = gen_rule(rng); ops.append(rule_line("al", r)); meta.append(("al", r))
        for _ in range(rng.choice([0, 0, 1, 1, 2])):
            r = gen_rule(rng); ops.append(rule_line("dn", r)); meta.append(("dn", r))
    reqs = [gen_req(rng, names) for _ in range(nreq)]

    def ask(tag):
        for q in reqs:
            ops.append("rq %s %s %s %s" % tuple(hx(x) for x in q)); meta.append(("rq", q, tag))
    ask("base")
    for step in range(rng.range(1, 3)):
        kind = rng.choice(["al", "dn"])
        if names and rng.chance(1, 2):
            r = gen_rule(rng); ops.append(rule_line(kind, r)); meta.append((kind, r))
        else:
            n = rng.choice(pool) if rng.chance(4, 5) else rng.choice(PRINCIPALS)
            names.append(n)
            ops.append("pr " + hx(n)); meta.append(("pr", n))
            for _ in range(rng.range(1, 2)):
                r = gen_rule(rng); ops.append(rule_line(kind, r)); meta.append((kind, r))
        ask("ext-" + kind)
    return ops, meta


POOL_RULES = [("produce", "topic", "orders"), ("*", "topic", "ord*"), ("produce", "topic", "Orders"), ("PRODUCE", "topic", "orders"),
              ("fetch", "*", "*"), ("", "", ""), ("produce", "topic", " orders "), ("fetch", "group", "g*"), ("produce", "Topic", "orders-*"),
              ("*", "*", "Orders"), ("produce", "topic", "ORDERS")]
PRINCIPAL_VARIANTS = {"alice": ["alice", " alice", "alice ", "\talice\n", "\u00a0alice", "alice"], "bob": ["bob", " bob ", "bob"],
                      "anonymous": ["anonymous", " anonymous "], "Alice": ["Alice", " Alice"]}


def request_for(rng, rule):
    """a request the rule matches (or nearly matches: case / one-character variants of the name)"""
    a, r, n = rule
    qa = a if a not in ("", "*") else rng.choice(["produce", "fetch"])
    qr = r if r not in ("", "*") else rng.choice(["topic", "group"])
    n = go_trim(n)
    if n in ("", "*"):
        qn = rng.choice(["orders", "x", "Orders"])
    elif n.endswith("*"):
        qn = n[:-1] + rng.choice(["", "eu", "X"])
    else:
        qn = n
    v = rng.below(8)
    if v == 0:
        qn = qn.swapcase()
    elif v == 1:
        qn = qn.capitalize()
    elif v == 2:
        qn = qn.lower()
    elif v == 3:
        qa = qa.upper()
    return qa, qr, qn


def gen_collision_case(rng, nreq):
    """Few principals under several spellings, rules drawn from a SMALL pool for both lists: the same rule text recurs
    in allow and deny lists, inside one entry and across duplicate entries of a principal."""
    enabled = True
    default = rng.choice(["allow", "deny"])
    ops = ["cfg 1 " + hx(default)]; meta = [("cfg", enabled, default)]
    pool = rng_pick(rng, POOL_RULES, rng.range(2, 4))
    people = rng_pick(rng, list(PRINCIPAL_VARIANTS), rng.range(1, 2))
    names = []

    def entry(kinds):
        n = rng.choice(PRINCIPAL_VARIANTS[rng.choice(people)])
        names.append(n)
        ops.append("pr " + hx(n)); meta.append(("pr", n))
        for kind in kinds:
            for _ in range(rng.choice([0, 1, 1, 2])):
                r = rng.choice(pool); ops.append(rule_line(kind, r)); meta.append((kind, r))
    for _ in range(rng.range(2, 4)):
        entry(("al", "dn"))
    reqs = []
    for _ in range(nreq):
        p = rng.choice(PRINCIPAL_VARIANTS[rng.choice(people)]) if rng.chance(5, 6) else rng.choice(PRINCIPALS)
        reqs.append((p,) + request_for(rng, rng.choice(pool)))

    def ask(tag):
        for q in reqs:
            ops.append("rq %s %s %s %s" % tuple(hx(x) for x in q)); meta.append(("rq", q, tag))
    ask("base")
    for _ in range(rng.range(1, 2)):
        kind = rng.choice(["al", "dn"])
        entry((kind,))
        if meta[-1][0] == "pr":       # an entry without rules changes nothing: still a valid allow-only AND deny-only extension
            pass
        ask("ext-" + kind)
    return ops, meta


def rng_pick(rng, xs, n):
    xs = list(xs)
    out = []
    for _ in range(min(n, len(xs))):
        out.append(xs.pop(rng.below(len(xs))))
    return out


def fixed_broker_cases():
    """hand-written regression configurations"""
    out = []

    def case(default, entries, reqs):
        ops = ["cfg 1 " + hx(default)]; meta = [("cfg", True, default)]
        for n, al, dn in entries:
            ops.append("pr " + hx(n)); meta.append(("pr", n))
            for r in al:
                ops.append(rule_line("al", r)); meta.append(("al", r))
            for r in dn:
                ops.append(rule_line("dn", r)); meta.append(("dn", r))
        for q in reqs:
            ops.append("rq %s %s %s %s" % tuple(hx(x) for x in q)); meta.append(("rq", q, "base"))
        out.append((ops, meta))
    R = ("produce", "topic", "orders")
    # the original defect: deny in an earlier entry of the same principal
    case("", [("p", [], [("produce", "topic", "secret")]), (" p ", [("produce", "topic", "*")], [])],
         [("p", "produce", "topic", "secret"), ("p", "produce", "topic", "other"), ("", "produce", "topic", "x")])
    # the same rule text as allow in one entry and deny in another entry of the principal (both orders), and inside one entry
    case("deny", [("p", [R], []), (" p", [], [R])], [("p",) + R, ("p", "produce", "topic", "other")])
    case("allow", [("p", [], [R]), ("p\t", [R], [])], [("p",) + R])
    case("deny", [("p", [R], [R])], [("p",) + R])
    case("deny", [("p", [R, R], []), ("q", [], [R]), ("p", [("*", "*", "*")], [R, R])], [("p",) + R, ("q",) + R, ("p", "fetch", "group", "g")])
    # exact names are case-sensitive, prefixes too; actions/resources are not
    case("deny", [("p", [("produce", "topic", "orders"), ("fetch", "topic", "Ord*")], [("produce", "topic", "Secret")])],
         [("p", "produce", "topic", "Orders"), ("p", "PRODUCE", "TOPIC", "orders"), ("p", "produce", "topic", "ORDERS"),
          ("p", "fetch", "topic", "orders"), ("p", "fetch", "topic", "Orders"), ("p", "produce", "topic", "secret"), ("p", "produce", "topic", "Secret")])
    return out


def monitor_broker(ops, meta, out, check_bits=True):
    """Property evaluated on the implementation's lines.  Returns list of (index, fingerprint, what)."""
    bad = []
    enabled, default, entries = True, "", []
    prev = {}          # request -> previous decision (for the monotonicity clauses)
    for i, (m, o) in enumerate(zip(meta, out)):
        if o == "panic":
            bad.append((i, "acl-panic", "the authorizer panicked on %r" % (ops[i],)))
            continue
        if m[0] == "cfg":
            enabled, default, entries, prev = m[1], m[2], [], {}
        elif m[0] == "pr":
            entries.append([m[1], [], []])
        elif m[0] == "al":
            entries[-1][1].append(m[1])
        elif m[0] == "dn":
            entries[-1][2].append(m[1])
        elif m[0] == "rq":
            q, tag = m[1], m[2]
            f = o.split()
            got = f[0] == "allow"
            bits = f[1][2:] if len(f) > 1 else ""
            # rule order of the bits: per entry, allow rules then deny rules
            k = 0
            p = go_trim(q[0]) or "anonymous"
            any_deny = any_allow = False
            for (n, al, dn) in entries:
                mine = go_trim(n) == p and go_trim(n) != ""
                for kind, rules in (("al", al), ("dn", dn)):
                    for r in rules:
                        b = bits[k] == "1" if k < len(bits) else None
                        k += 1
                        if b is None:
                            continue
                        if check_bits and b != py_matches(r, q):
                            bad.append((i, "rule-match-differs-from-pattern-reading",
                                        "matches(%r, %r) = %s but the exact/prefix*/star reading says %s" % (r, q[1:], b, not b)))
                        if mine and b:
                            if kind == "dn":
                                any_deny = True
                            else:
                                any_allow = True
            dflt = ascii_fold(go_trim(default)) == "allow"
            want = True if not enabled else (False if any_deny else (True if any_allow else dflt))
            if got != want:
                if any_deny and enabled:
                    fp, what = "matching-deny-rule-ignored", "principal %r has a matching deny rule, request %r allowed" % (p, q)
                elif any_allow:
                    fp, what = "matching-allow-rule-ignored", "principal %r: no deny, a matching allow rule, request %r denied" % (p, q)
                else:
                    fp, what = "default-policy-not-applied", "nothing matches for %r (default %r, enabled %s) but decision is %s" % (q, default, enabled, f[0])
                bad.append((i, fp, what))
            if tag == "ext-al" and prev.get(q) is True and not got:
                bad.append((i, "adding-allow-rule-removed-access", "request %r was allowed before an allow-only extension and is denied after" % (q,)))
            if tag == "ext-dn" and prev.get(q) is False and got:
                bad.append((i, "adding-deny-rule-granted-access", "request %r was denied before a deny-only extension and is allowed after" % (q,)))
            prev[q] = got
    return bad


# ---------------------------------------------------------------- SQL proxy ACL
SQL_PATTERNS = ["orders", "ord*", "*", "", "o?ders", " orders ", "orders-*", "*-eu", "a/b", "a/*", "*/*", "?", "**", "  ",
                "orders-eu", "pay*", "*s", "or*rs", "主*", "a/?", "o*-*"]
SQL_TOPICS = ["orders", "orders-eu", "order", "ord", "a/b", "a/", "", "x", "*", "orders-us", "payments", "a/bc", "odders",
              "主题", "ors", " orders "]


def py_glob(p, n):
    if not p:
        return not n
    if p[0] == "*":
        if py_glob(p[1:], n):
            return True
        return bool(n) and n[0] != "/" and py_glob(p, n[1:])
    if not n:
        return False
    if p[0] == "?":
        return n[0] != "/" and py_glob(p[1:], n[1:])
    return p[0] == n[0] and py_glob(p[1:], n[1:])


def py_pat(p, t):
    p = go_trim(p)
    if p == "":
        return False
    return p == "*" or py_glob(p, t) or p == t


def gen_sql_case(rng, ntopics):
    ops, meta = ["sacl"], [("sacl",)]
    for _ in range(rng.choice([0, 0, 1, 1, 2, 3])):
        p = rng.choice(SQL_PATTERNS); ops.append("sa " + hx(p)); meta.append(("sa", p))
    for _ in range(rng.choice([0, 0, 1, 1, 2])):
        p = rng.choice(SQL_PATTERNS); ops.append("sd " + hx(p)); meta.append(("sd", p))
    topics = [rng.choice(SQL_TOPICS) for _ in range(ntopics)]

    def ask(tag):
        for t in topics:
            ops.append("st " + hx(t)); meta.append(("st", t, tag))
    ask("base")
    for _ in range(rng.range(1, 3)):
        kind = rng.choice(["sa", "sd"])
        p = rng.choice(SQL_PATTERNS); ops.append(kind + " " + hx(p)); meta.append((kind, p))
        ask("ext-" + kind)
    return ops, meta


def monitor_sql(ops, meta, out, check_bits=True):
    bad = []
    allow, deny, prev = [], [], {}
    for i, (m, o) in enumerate(zip(meta, out)):
        if o == "panic":
            bad.append((i, "sql-acl-panic", "ACL panicked on %r" % (ops[i],)))
            continue
        if m[0] == "sacl":
            allow, deny, prev = [], [], {}
        elif m[0] == "sa":
            allow.append(m[1])
        elif m[0] == "sd":
            deny.append(m[1])
        elif m[0] == "st":
            t, tag = m[1], m[2]
            f = o.split()
            got = f[0] == "allow"
            ab, db = f[2][2:].split("/")
            for pats, bits in ((allow, ab), (deny, db)):
                for p, b in zip(pats, bits):
                    if check_bits and (b == "1") != py_pat(p, t):
                        bad.append((i, "sql-pattern-match-differs-from-glob-reading",
                                    "pattern %r vs topic %r: implementation %s" % (p, t, b)))
            any_deny, any_allow = "1" in db, "1" in ab
            want = False if any_deny else (True if any_allow else len(allow) == 0)
            if got != want:
                fp = "sql-matching-deny-pattern-ignored" if any_deny else (
                    "sql-matching-allow-pattern-ignored" if any_allow else "sql-default-not-applied")
                bad.append((i, fp, "ACL allow=%r deny=%r topic %r -> %s" % (allow, deny, t, f[0])))
            if tag == "ext-sa" and prev.get(t) is True and not got:
                if len(allow) == 1:
                    bad.append((i, KNOWN_SQL_FP,
                                "SQL proxy ACL: adding the first allow pattern %r revokes access to %r that the empty allow list granted" % (allow[0], t)))
                else:
                    bad.append((i, "sql-adding-allow-pattern-removed-access", "allow=%r deny=%r topic %r" % (allow, deny, t)))
            if tag == "ext-sd" and prev.get(t) is False and got:
                bad.append((i, "sql-adding-deny-pattern-granted-access", "allow=%r deny=%r topic %r" % (allow, deny, t)))
            prev[t] = got
    return bad


# ---------------------------------------------------------------- driving
def run_lines(ck, binary, ops, tag):
    fn = ck.path("ops_%s.txt" % tag)
    open(fn, "w").write("\n".join(ops) + "\n")
    rc, out, err = ck.run_bin(binary, stdin_path=fn)
    impl = out.split("\n")[:-1]
    if rc != 0 or len(impl) != len(ops):
        return None, None, "impl rc=%s answered %d/%d lines %s" % (rc, len(impl), len(ops), err[-500:])
    return impl, fn, None


def minimise(ck, binary, which, ops, meta, idx, fp):
    """Shrink a failing case: keep the config prefix lines that matter and the failing request."""
    head = [j for j in range(idx) if meta[j][0] != "rq" and meta[j][0] != "st"]
    # the monotonicity fingerprints need the earlier evaluation of the same request
    same = [j for j in range(idx) if meta[j][0] in ("rq", "st") and meta[j][1] == meta[idx][1]]
    keep_always = same + [idx]
    mon = monitor_broker if which == "broker" else monitor_sql

    def fails(cand):
        sel = sorted(set(cand) | set(keep_always))
        o = [ops[j] for j in sel]; m = [meta[j] for j in sel]
        if m[0][0] not in ("cfg", "sacl"):
            return False
        impl, _, crash = run_lines(ck, binary, o, "dd")
        if crash:
            return False
        try:
            return any(b[1] == fp for b in mon(o, m, impl))
        except Exception:
            return False
    small = lib.ddmin(head[1:], lambda c: fails([head[0]] + c)) if len(head) > 1 else []
    sel = sorted(set([head[0]] + small) | set(keep_always))
    if not fails(sel):
        sel = list(range(idx + 1))
    return [ops[j] for j in sel], [list(meta[j]) for j in sel]


def drive(ck, binary, which, cases, exotic=False, light=False):
    """exotic=True: strings outside the modelled domain (non-ASCII case folding, path.Match classes/escapes, invalid UTF-8):
    implementation only, decision-level monitor on the implementation's own match bits."""
    all_ops, all_meta, bounds = [], [], []
    for ops, meta in cases:
        bounds.append((len(all_ops), len(all_ops) + len(ops)))
        all_ops += ops; all_meta += meta
    impl, fn, crash = run_lines(ck, binary, all_ops, which)
    if crash:
        ck.broke("implementation harness (%s) did not answer every op" % which, crash)
        return
    model = impl if exotic else ck.lean_run("C23", fn)
    base_mon = monitor_broker if which == "broker" else monitor_sql
    mon = (lambda o, m, i: base_mon(o, m, i, check_bits=False)) if exotic else base_mon
    reported = set()
    for (a, b) in bounds:
        ops, meta, io, mo = all_ops[a:b], all_meta[a:b], impl[a:b], model[a:b]
        nq = sum(1 for m in meta if m[0] in ("rq", "st"))
        allows = sum(1 for o in io if o.startswith("allow"))
        if exotic:
            ck.count(which + "_exotic_requests", nq)
        ck.count(which + "_requests", nq); ck.count(which + "_allow", allows)
        ck.count(which + "_deny", sum(1 for o in io if o.startswith("deny")))
        ck.count(which + "_rule_bits_1", sum(o.count("1") for o in io if " m=" in o))
        dup = False
        if which == "broker":
            ns = [go_trim(m[1]) for m in meta if m[0] == "pr"]
            dup = len(ns) != len(set(ns))
            ck.count("broker_cases_with_duplicate_principal", 1 if dup else 0)
        ck.case((which, tuple(ops)), nontrivial=(0 < allows < nq), sample=None if light else {"which": which, "ops": ops[:10], "impl": io[:10]})
        ck.cov["traces_validated_against_impl"] += 1
        bad = mon(ops, meta, io)
        for (i, fp, what) in bad:
            if fp in reported:
                continue
            reported.add(fp)
            sops, smeta = minimise(ck, binary, which, ops, meta, i, fp)
            ck.violation(fp, what, {"which": which, "ops": sops, "meta": smeta,
                                    "expected": "property monitor true on every line", "actual": what})
        d = lib.first_diff(io, mo)
        if d is not None and not [b for b in bad if b[1] != KNOWN_SQL_FP]:
            ck.cov["disagreements_checked"] += 1
            if "corr-" + which not in reported:
                reported.add("corr-" + which)
                ck.broke("correspondence model/implementation (%s ACL)" % which,
                         "config+request lines up to the difference:\n%s\nimpl : %s\nmodel: %s" % (
                             "\n".join(x for x, m in zip(ops[:d + 1], meta[:d + 1]) if m[0] not in ("rq", "st") or x == ops[d]),
                             io[d] if d < len(io) else None, mo[d] if d < len(mo) else None))


EXOTIC_ACTIONS = ["\u212a", "k", "K", "\u017f", "s", "S", "\u00c9cole", "\u00e9COLE", "produce", "PRODUCE", "\u0130", "i"]
EXOTIC_NAMES = ["\u212a*", "k1", "\u00e9*", "\u00e9t\u00e9", "\U0001f600*", "\U0001f600x", "a\u0301", "\u00e1", "*", ""]
SQL_EXOTIC_PATTERNS = ["[a-c]rders", "[abc", "o[!r]ders", "or\\ders", "\\", "[^a]*", "ord[e]rs", "[]", "a[", "*[s]", "\\*", "o\\?ders", "[o-o]*"]
SQL_EXOTIC_TOPICS = ["orders", "brders", "[abc", "or\\ders", "orders", "*", "o?ders", "a[", "\\", "xrders", ""]


def gen_exotic_broker_case(rng, nreq):
    ops, meta = gen_broker_case(rng, nreq)
    # re-draw rule/request strings from the exotic alphabets, keep the shape of the case
    out_ops, out_meta = [], []
    for op, m in zip(ops, meta):
        if m[0] in ("al", "dn"):
            r = (rng.choice(EXOTIC_ACTIONS), rng.choice(EXOTIC_ACTIONS + ["*", ""]), rng.choice(EXOTIC_NAMES))
            out_ops.append(rule_line(m[0], r)); out_meta.append((m[0], r))
        elif m[0] == "rq":
            out_ops.append(op); out_meta.append(m)
        else:
            out_ops.append(op); out_meta.append(m)
    # requests: same principals, exotic action/resource/name; identical across base/extension blocks
    remap = {}
    for i, m in enumerate(out_meta):
        if m[0] == "rq":
            if m[1] not in remap:
                remap[m[1]] = (m[1][0], rng.choice(EXOTIC_ACTIONS), rng.choice(EXOTIC_ACTIONS), rng.choice(EXOTIC_NAMES[1:8]))
            q = remap[m[1]]
            out_ops[i] = "rq %s %s %s %s" % tuple(hx(x) for x in q); out_meta[i] = ("rq", q, m[2])
    return out_ops, out_meta


def gen_exotic_sql_case(rng, ntopics):
    ops, meta = ["sacl"], [("sacl",)]
    for _ in range(rng.choice([0, 1, 1, 2])):
        p = rng.choice(SQL_EXOTIC_PATTERNS + SQL_PATTERNS[:4]); ops.append("sa " + hx(p)); meta.append(("sa", p))
    for _ in range(rng.choice([0, 1, 1, 2])):
        p = rng.choice(SQL_EXOTIC_PATTERNS + SQL_PATTERNS[:4]); ops.append("sd " + hx(p)); meta.append(("sd", p))
    topics = [rng.choice(SQL_EXOTIC_TOPICS) for _ in range(ntopics)]

    def ask(tag):
        for t in topics:
            ops.append("st " + hx(t)); meta.append(("st", t, tag))
    ask("base")
    for _ in range(rng.range(1, 2)):
        kind = rng.choice(["sa", "sd"])
        p = rng.choice(SQL_EXOTIC_PATTERNS); ops.append(kind + " " + hx(p)); meta.append((kind, p))
        ask("ext-" + kind)
    return ops, meta


def _cfg_case(default, entries, reqs):
    ops = ["cfg 1 " + hx(default)]; meta = [("cfg", True, default)]
    for n, al, dn in entries:
        ops.append("pr " + hx(n)); meta.append(("pr", n))
        for r in al:
            ops.append(rule_line("al", r)); meta.append(("al", r))
        for r in dn:
            ops.append(rule_line("dn", r)); meta.append(("dn", r))
    for q in reqs:
        ops.append("rq %s %s %s %s" % tuple(hx(x) for x in q)); meta.append(("rq", q, "base"))
    return ops, meta


def exhaustive_broker_cases():
    """thorough tier, small-scope exhaustive enumeration (a generator of cases; the caller drives it in chunks).
    Alphabet: principals {a, b} (entries may repeat a principal), actions {produce, fetch}, resources {topic, group},
    name patterns {exact, prefix*, *} incl. a case variant of the exact name.
      F0: 2 entries, <= 1 rule per list, 7-rule pool, both defaults, 18 requests          (3.5k configs)
      F1: <= 3 entries, <= 1 rule per list, 4-rule pool (identical rules recur in allow AND deny lists,
          across duplicate entries), first entry named a (requests range over a, b and unknown c)   (64k configs)
      F2: <= 2 entries, <= 2 rules per list, 3-rule pool, first entry named a                        (57k configs)
    F1/F2 alternate the default policy by configuration index."""
    ps, acts, ress, pats = ["a", "b"], ["produce", "fetch"], ["topic", "group"], ["orders", "ord*", "*"]
    rules = [None] + [(a, r, n) for a in acts[:1] + ["*"] for r in ress[:1] for n in pats]
    reqs = [(p, a, r, n) for p in ps + ["c"] for a in acts for r in ress[:1] for n in ["orders", "ord", "x"]]
    for default in ("allow", "deny"):
        for n1 in ps:
            for n2 in ps:
                for al1 in rules:
                    for dn1 in rules:
                        for al2 in rules[:3]:
                            for dn2 in rules[:3]:
                                yield _cfg_case(default, [(n1, [al1] if al1 else [], [dn1] if dn1 else []),
                                                          (n2, [al2] if al2 else [], [dn2] if dn2 else [])], reqs)
    pool4 = [("produce", "topic", "orders"), ("*", "*", "ord*"), ("produce", "topic", "Orders"), ("fetch", "group", "*")]
    shapes = [("produce", "topic", "orders"), ("produce", "topic", "Orders"), ("fetch", "group", "ord")]
    reqs1 = [(p,) + sh for p in ("a", " b ") for sh in shapes] + [("c",) + shapes[0]]
    lists1 = [[]] + [[r] for r in pool4]
    entries_a = [("a", al, dn) for al in lists1 for dn in lists1]
    entries_any = [(n, al, dn) for n in ("a", "b") for al in lists1 for dn in lists1]
    k = 0
    for e1 in entries_a:
        yield _cfg_case("deny" if k % 2 else "allow", [e1], reqs1); k += 1
        for e2 in entries_any:
            yield _cfg_case("deny" if k % 2 else "allow", [e1, e2], reqs1); k += 1
            for e3 in entries_any:
                yield _cfg_case("deny" if k % 2 else "allow", [e1, e2, e3], reqs1); k += 1
    pool3 = pool4[:3]
    lists2 = [[]] + [[r] for r in pool3] + [[r1, r2] for r1 in pool3 for r2 in pool3]
    for al1 in lists2:
        for dn1 in lists2:
            for n2 in ("a", "b"):
                for al2 in lists2:
                    for dn2 in lists2:
                        yield _cfg_case("deny" if k % 2 else "allow", [("a", al1, dn1), (n2, al2, dn2)], reqs1[:6]); k += 1


def run(ck):
    bins = ck.build_all()
    if bins is None:
        return
    ck.cov["rule"] = ("collision cases: 2-4 entries for 1-2 principals under several spellings, rules for allow AND deny lists drawn from a "
                      "2-4 rule pool so identical rule texts recur across lists and duplicate entries; "
                      "a case = one generated configuration (0-4 entries drawn from <=3 names so duplicates are common, "
                      "0-3 allow / 0-2 deny rules each) + 12 requests + 1-3 allow-only/deny-only extensions re-asking the same "
                      "requests; non-trivial when both allow and deny decisions occur; distinct = distinct op lists")
    nb = 250 if ck.quick() else 2500
    ns = 150 if ck.quick() else 1500
    ncol = 250 if ck.quick() else 2500
    cases = fixed_broker_cases() + [gen_broker_case(ck.rng.fork(), 12) for _ in range(nb)] + \
        [gen_collision_case(ck.rng.fork(), 10) for _ in range(ncol)]
    drive(ck, bins["broker"], "broker", cases)
    if not ck.quick():
        chunk, n = [], 0
        for c in exhaustive_broker_cases():
            chunk.append(c); n += 1
            if len(chunk) >= 8000:
                drive(ck, bins["broker"], "broker", chunk, light=True); chunk = []
            if ck.violations or ck.broken:
                break
        if chunk:
            drive(ck, bins["broker"], "broker", chunk, light=True)
        ck.count("broker_exhaustive_small_scope_cases", n)
        ck.cov["exhaustive"] = True
    sql_fixed = (["sacl", "st " + hx("orders"), "sa " + hx("pay*"), "st " + hx("orders")],
                 [("sacl",), ("st", "orders", "base"), ("sa", "pay*"), ("st", "orders", "ext-sa")])
    drive(ck, bins["sql"], "sql", [sql_fixed] + [gen_sql_case(ck.rng.fork(), 8) for _ in range(ns)])
    # outside the modelled string domain: implementation only, decision-level monitor
    drive(ck, bins["broker"], "broker", [gen_exotic_broker_case(ck.rng.fork(), 8) for _ in range(60 if ck.quick() else 600)], exotic=True)
    drive(ck, bins["sql"], "sql", [gen_exotic_sql_case(ck.rng.fork(), 6) for _ in range(60 if ck.quick() else 600)], exotic=True)
    ck.partial = ("SQL proxy ACL: 'adding an allow rule never removes access' is proved only for a non-empty allow list "
                  "(sql_add_allow_mono_partial); the first allow pattern flips the implicit default (sql_first_allow_revokes)")


def replay(ck, path):
    import json
    rep = json.load(open(path))
    bins = ck.build_all()
    if bins is None:
        return
    which = rep.get("which", "broker")
    ops = rep["ops"]; meta = [tuple(tuple(x) if isinstance(x, list) else x for x in m) for m in rep["meta"]]
    impl, _, crash = run_lines(ck, bins[which], ops, "replay")
    if crash:
        ck.broke("replay harness", crash)
        return
    for o, r in zip(ops, impl):
        print("  %-60s -> %s" % (o[:60], r))
    ck.case(tuple(ops), sample={"ops": ops})
    ck.cov["distinct_nontrivial"] = max(ck.cov["distinct_nontrivial"], 2)
    mon = monitor_broker if which == "broker" else monitor_sql
    for (i, fp, what) in mon(ops, meta, impl):
        ck.violation(fp, what, {"which": which, "ops": ops, "meta": [list(m) for m in meta], "actual": what})
