"""C02 — offsets are unique, contiguous and increasing per partition.

Two ties to the code:
 (st) storage level: real PartitionLog instances (append / flush / gated flush / restart / read) against the
      Lean model `KafVerif.Model.PLogRead`, shared with C03/C04 (harness/C03/root/cmd/verif_c03);
 (br) broker level: the real `handler.handleProduce` / `handleFetch` (cmd/broker built with an overlay init())
      against the same model, with the in-memory metadata store and in-memory S3, including a broker restart.
Generators, reference log and monitors live in checks/C03.py."""
from checks import lib
from checks import C03 as base

PROPERTY = "C02"
LEAN_MODULES = ["KafVerif.Props.C02", "KafVerif.Props.C02Loss"]
OBLIGATIONS = [
    "KafVerif.C02.offsets_chain",
    "KafVerif.C02.chain_strict",
    "KafVerif.C02.chain_covers",
    "KafVerif.C02.chain_unique",
    "KafVerif.C02.response_is_stored_base",
    "KafVerif.C02.rejected_unchanged",
    "KafVerif.C02.frames_body",
    "KafVerif.C02.stored_is_one_frame",
    "KafVerif.C02.appendOld_violates",
    "KafVerif.C02.appendOld_concat_violates",
    # restart with object loss (lean/KafVerif/Props/C02Loss.lean)
    "KafVerif.C02.restore_next_is_retained_end",
    "KafVerif.C02.first_ack_after_restore",
    "KafVerif.C02.offsets_chain_after_loss",
    "KafVerif.C02.index_loss_restart_is_contiguous",
    "KafVerif.C02.max_footer_restore_leaves_gap",
]
ASSUMPTIONS = [
    "assigned offsets are unbounded integers in the model (int64 overflow after 2^63 records is not covered); header fields keep their Go widths",
    "uploads succeed (upload failures and a crash while an upload is in flight are C01/C05/C06's subject); a restart loses the unflushed buffer, whose records were not yet durable; "
    "the S3 state a half-uploaded flush leaves behind (segment object without a usable index object = orphan) is generated as object loss before a restart "
    "(delindex/badindex/delseg of committed segments + restart at a stale store offset); the theorems cover ONE loss+restart round after any fault-free history, "
    "further rounds are covered by the correspondence run and the monitor",
    "sync.Mutex: AppendBatch's critical section is one atomic step",
    "S3 is the in-memory client; the metadata store is the in-memory store (UpdateOffsets/NextOffset)",
]
TECHNIQUE = ("Lean 4 proof (invariant by induction over all operation sequences with arbitrary client bytes) over a hand-written model of "
             "AppendBatch/Flush/RestoreFromS3 + Go/Lean differential correspondence at the PartitionLog and at the handleProduce level + direct monitor")
LEVEL_TEXT = ("Lean 4 theorems for every start offset, configuration and operation sequence with arbitrary record-set bytes: the stored log "
              "(segments, in-flight flush, buffer) is a contiguous chain of batches with base <= last, next base = last + 1, ending at nextOffset; "
              "strictly increasing and gap-free; the produce response base is the stored base (struct and bytes 0:8); a declared-length record set is "
              "stored as exactly one frame. Across a restart that finds orphaned / lost objects in S3 (offsets_chain_after_loss): the offsets continue at "
              "the end of the last segment that survived the restore (or the store offset) and everything stored afterwards is one chain from there. "
              "The pre-fix code is shown to violate it. Model tied to the current source by differential runs.")
LEVEL_NOTE = ("Trusted: Lean kernel; the hand-written model of log.go/recordbatch.go/segment.go offset arithmetic; the Go harnesses and generators. "
              "Not covered: int64 overflow, upload failures (C01/C05), crash mid-upload (C06).")
BUILDS = {"st": ("root", "./cmd/verif_c03", ["C03"]), "br": ("root", "./cmd/broker", ["C02", "C03"])}
DRIVER = "C02"


def run(ck):
    bins = ck.build_all()
    if bins is None:
        return
    ck.partial = ("offsets_chain_after_loss covers ONE restart with object loss (orphans anywhere) after any fault-free history and every later state up to "
                  "the next restart; restore_next_is_retained_end / first_ack_after_restore hold for every S3 listing (any number of rounds) but say nothing "
                  "about the order of the listing after a second round: a second loss+restart round (an orphan of the first round still listed, possibly "
                  "overlapped by a newer segment) is covered by the orphans/holes streams (correspondence + monitor) only")
    ck.cov["rule"] = ("orphans/holes streams: committed segments, index object of the LAST one or two (orphan above the last valid segment) or of a middle "
                      "segment deleted/corrupted, restart at a stale store offset, appends + flush (overwrites the orphan object) + plain restart; the monitor "
                      "requires every acknowledged base = end of the log that survived the restore (max store offset); "
                      "histories of append (valid batches plus header lies: negative/huge lastOffsetDelta, wrong/zero/negative batch length, "
                      "2-4 concatenated batches, trailing bytes, short input, record-count lies) / flush / gated flush / restart / read over up to "
                      "three partition logs, generated from VERIF_SEED; non-trivial = a segment was committed and a read returned data beyond the "
                      "first offset of a segment; distinct = distinct op files; broker stream (handleProduce/handleFetch/brestart, acks in {-1,1,0}, flush-on-ack on/off): "
                      "non-trivial = a fetch returned data and a produce was rejected")
    ncases, nops = (30, 70) if ck.quick() else (300, 120)
    base.corpus(ck, bins, "C02")
    ok = base.run_streams(ck, bins, "C02", DRIVER, [
        ("histories", "st", base.storage_ops(ck, ncases, nops)),
        # a stream with mostly malformed record sets
        ("lies", "st", base.storage_ops(ck, 6 if ck.quick() else 60, 60, gen_kw={"lie_rate": (1, 2)})),
        ("xpartition", "st", base.xpart_ops(ck, 5 if ck.quick() else 50)),
        # object loss + restart: orphan segments (segment object without a usable index) above the last valid segment and in the
        # middle; the acknowledged bases must continue at the end of the last segment that SURVIVED the restore
        ("orphans", "st", base.orphan_ops(ck, 6 if ck.quick() else 60)),
        ("holes", "st", base.holes_ops(ck, 3 if ck.quick() else 40)),
        ("broker", "br", base.broker_ops(ck, 10 if ck.quick() else 100, 60)),
    ])
    if not ok and not ck.violations:
        base.hunt(ck, bins["st"], "C02", 40 if ck.quick() else 400, 90)


def replay(ck, path):
    base.replay_generic(ck, path, "C02")
