"""C29 — LFS envelopes round-trip and are recognised by every SDK (Go, Python, JavaScript)."""
import json
import os
import subprocess

from checks import lib

PROPERTY = "C29"
LEAN_MODULES = ["KafVerif.Props.C29"]
OBLIGATIONS = [
    "KafVerif.C29.agree",
    "KafVerif.C29.passthrough_agree",
    "KafVerif.C29.encoded_recognised",
    "KafVerif.C29.handout_stable",
    "KafVerif.C29.jsOld_disagrees",
    "KafVerif.C29.pyOld_disagrees",
]
BUILDS = {"h": ("root", "./cmd/verif_c29", ["C29"])}
LEVEL_TEXT = ("Lean 4 theorems: for every byte string the Go, Python and JS marker checks are the same function "
              "(agree, passthrough_agree); every value EncodeEnvelope returns is recognised by all three, for every "
              "JSON string encoder (encoded_recognised). Tied to the source by running the same byte strings and "
              "field assignments through pkg/lfs, envelope.py (python3) and envelope.ts (node) and the Lean model.")
LEVEL_NOTE = ("'decodes back to the same fields' depends on encoding/json, json.loads and JSON.parse, which are "
              "parameters: it is checked by the cross-language monitor on generated envelopes (testing), not proved. "
              "TextDecoder / bytes.decode are modelled by an ASCII-transparent token abstraction (trusted, exercised "
              "by the correspondence run with ill-formed UTF-8 around the marker).")
TECHNIQUE = "Lean 4 proof over a hand-written model + Go/Python/Node/Lean differential correspondence"
ASSUMPTIONS = [
    "purity: EncodeEnvelope returns a fresh value — bytes handed to a caller never change afterwards (Lean values are immutable, so the "
    "model cannot express aliasing); VALIDATED on every run by the hand-out stability monitor (every returned slice is re-checked after "
    "every later encode) and by encoding from 4 and 16 goroutines (`par` ops)",
    "round-trip monitor: envelope strings are valid UTF-8 (Go replaces ill-formed bytes by U+FFFD) and |size| <= 2^53 (JS numbers)",
    "python3 and node (>= 20) are on PATH; envelope.ts is type-stripped by a fail-closed translator (harness/C29/sdk/run_js.mjs)",
]
TRUSTED = ["ASCII-transparent decoder contract for TextDecoder (JS) — see Model/LfsEnvelope.lean"]

SDK = os.path.join(lib.HARNESS, "C29", "sdk")
PY_SRC = "lfs-client-sdk/python/lfs_sdk/envelope.py"
JS_SRC = "lfs-client-sdk/js/src/envelope.ts"
MARK = b'"kfs_lfs"'


# ----------------------------------------------------------------------------- generators
def _utf8_chunk(rng):
    return rng.choice([b"\xc3\xa9", b"\xe2\x82\xac", b"\xf0\x9f\x98\x80", b"\xe2\x80\xa8", b"\xd0\x96", b"\xef\xbb\xbf"])


def _bad_chunk(rng):
    return rng.choice([b"\xff", b"\x80", b"\xc0\xaf", b"\xe2\x82", b"\xf0\x9f\x98", b"\xed\xa0\x80", b"\xc3", b"\xfe\xff",
                       b"\xf4\x90\x80\x80", b"\xe0\x80\x80", b"\xbf"])


def gen_is(rng):
    """One byte string for the marker check; returns (bytes, category)."""
    c = rng.below(12)
    if c == 0:      # well-formed small envelopes with whitespace variants
        sp = rng.choice([b"", b" ", b"\n  ", b"\t"])
        return b"{" + sp + MARK + sp + b":" + sp + b"1," + sp + b'"bucket":"b","key":"k","sha256":"ab"}', "valid"
    if c == 1:      # length boundary 15
        base = b'{"kfs_lfs":1}'
        n = rng.range(0, 4)
        return base[:-1] + b" " * n + b"}", "len15"
    if c == 2:      # marker position around the 50-byte window
        pad = rng.range(36, 46)
        filler = rng.choice([b" ", b"a"])
        body = b"{" + (b'"' + filler * max(0, pad - 5) + b'":0,' if filler == b"a" else filler * pad) + MARK + b':1,"bucket":"b"}'
        return body, "window50"
    if c == 3:      # first byte is not '{'
        pre = rng.choice([b" ", b"[", b"\xef\xbb\xbf", b"\n", b"\x00", b"}"])
        return pre + b'{"kfs_lfs":1,"bucket":"b","key":"k"}', "not-brace"
    if c == 4:      # ill-formed UTF-8 inside / next to the marker
        pos = rng.range(1, len(MARK) - 1)
        m = MARK[:pos] + _bad_chunk(rng) + MARK[pos:]
        return b"{" + m + b':1,"bucket":"b","key":"k","sha256":"ab"}', "bad-utf8-in-marker"
    if c == 5:      # well-formed multi-byte inside the marker
        pos = rng.range(1, len(MARK) - 1)
        m = MARK[:pos] + _utf8_chunk(rng) + MARK[pos:]
        return b"{" + m + b':1,"bucket":"b","key":"k","sha256":"ab"}', "utf8-in-marker"
    if c == 6:      # multi-byte characters before the marker push it across byte 50
        n = rng.range(8, 16)
        ch = _utf8_chunk(rng)
        return b'{"' + ch * n + b'":0,' + MARK + b':1,"bucket":"b"}', "utf8-before-marker"
    if c == 7:      # ill-formed / truncated sequence at the byte-50 cut
        pad = rng.range(28, 42)
        tail = rng.choice([_bad_chunk(rng), _utf8_chunk(rng)])
        s = b"{" + MARK + b":1," + b" " * pad
        cut = 50 - rng.range(0, 3)
        s = s[:cut] if len(s) >= cut else s + b" " * (cut - len(s))
        return s + tail * 3 + b"}", "cut50"
    if c == 8:      # near-miss markers
        nm = rng.choice([b'"kfs_lfs\'', b'"KFS_LFS"', b"kfs_lfs", b'"kfs_lfs', b'"kfs-lfs"', b'"kfs_lfs\\"', b'\\"kfs_lfs"', b'"kfs_lf s"'])
        return b"{" + nm + b':1,"bucket":"b","key":"k","sha256":"ab"}', "near-miss"
    if c == 9:      # ill-formed bytes elsewhere + a real marker
        return b"{" + _bad_chunk(rng) + MARK + _bad_chunk(rng) + b':1,"bucket":"b","key":"k"}', "bad-utf8-around"
    if c == 10:     # random bytes
        n = rng.choice([0, 1, 14, 15, 16, 49, 50, 51, 80])
        b = rng.bytes(n)
        if rng.chance(1, 2) and n:
            b = b"{" + b[1:]
        return b, "random"
    # split marker glued by deletable bytes at both sides
    return b'{"kfs' + _bad_chunk(rng) + b"_" + _bad_chunk(rng) + b'lfs":1,"bucket":"b","key":"k"}', "bad-utf8-in-marker"


def _str(rng, kind):
    if kind == "ascii":
        n = rng.range(1, 24)
        return bytes(rng.choice(b"abcdefghijklmnopqrstuvwxyz0123456789-_./") for _ in range(n))
    if kind == "long":
        n = rng.choice([40, 64, 200, 1024, 3000])
        return bytes(rng.choice(b"abcdefghij/-_.") for _ in range(n))
    if kind == "unicode":
        out = b""
        for _ in range(rng.range(1, 10)):
            out += rng.choice([b"a", b"/", _utf8_chunk(rng), "ü".encode(), "日本".encode(), " ".encode(), "\U0001F600".encode()])
        return out
    if kind == "escapes":
        out = b""
        for _ in range(rng.range(1, 10)):
            out += rng.choice([b'"', b"\\", b"\n", b"\r", b"\t", b"\x08", b"\x0c", b"\x00", b"\x1f", b"<", b">", b"&", b"\x7f", b"'", b"/", b"x"])
        return out
    return b""


def gen_env(rng):
    kinds = ["ascii", "ascii", "long", "unicode", "escapes"]
    e = {
        "kfs_lfs": rng.choice([1, 1, 1, 2, -1, 7, 2147483647, 0]),
        "size": rng.choice([0, 1, 3, 5 << 20, 5 << 30, (1 << 53) - 1, -1, rng.below(1 << 40)]),
        "bucket": _str(rng, rng.choice(kinds + ["empty"] if rng.chance(1, 12) else kinds)),
        "key": _str(rng, rng.choice(kinds)),
        "sha256": bytes(rng.choice(b"0123456789abcdef") for _ in range(64)) if not rng.chance(1, 15) else _str(rng, rng.choice(["ascii", "empty"])),
        "checksum": _str(rng, rng.choice(["empty", "ascii", "unicode"])),
        "checksum_alg": rng.choice([b"", b"sha256", b"md5", b"crc32", b"none"]),
        "content_type": _str(rng, rng.choice(["empty", "ascii", "unicode", "escapes"])),
        "created_at": rng.choice([b"", b"2026-02-01T12:00:00Z"]),
        "proxy_id": _str(rng, rng.choice(["empty", "ascii", "unicode"])),
        "original_headers": {},
    }
    for _ in range(rng.choice([0, 0, 1, 2, 4])):
        e["original_headers"][_str(rng, rng.choice(["ascii", "unicode", "escapes"]))] = _str(rng, rng.choice(kinds + ["empty"]))
    return e


def enc_line(e):
    f = ["enc", str(e["kfs_lfs"]), str(e["size"])]
    f += [lib.hexs(e[k]) for k in ("bucket", "key", "sha256", "checksum", "checksum_alg", "content_type", "created_at", "proxy_id")]
    for k, v in e["original_headers"].items():
        f += [lib.hexs(k), lib.hexs(v)]
    return " ".join(f)


def env_from_line(line):
    f = line.split()
    ub = lambda s: b"" if s == "-" else bytes.fromhex(s)  # noqa: E731
    e = {"kfs_lfs": int(f[1]), "size": int(f[2])}
    for i, k in enumerate(("bucket", "key", "sha256", "checksum", "checksum_alg", "content_type", "created_at", "proxy_id")):
        e[k] = ub(f[3 + i])
    e["original_headers"] = {ub(f[i]): ub(f[i + 1]) for i in range(11, len(f) - 1, 2)}
    return e


# ----------------------------------------------------------------------------- canonical decoded form
def canon_expected(e):
    d = {"kfs_lfs": e["kfs_lfs"], "size": e["size"]}
    for k in ("bucket", "key", "sha256", "checksum", "checksum_alg", "content_type", "created_at", "proxy_id"):
        d[k] = e[k].hex()
    d["original_headers"] = sorted((k.hex(), v.hex()) for k, v in e["original_headers"].items())
    return d


def canon_go(line):
    if not line.startswith("dec v="):
        return None
    kv = dict(x.split("=", 1) for x in line.split()[1:])
    u = lambda s: "" if s == "-" else s  # noqa: E731
    d = {"kfs_lfs": int(kv["v"]), "size": int(kv["size"]), "bucket": u(kv["b"]), "key": u(kv["k"]), "sha256": u(kv["sha"]),
         "checksum": u(kv["ck"]), "checksum_alg": u(kv["alg"]), "content_type": u(kv["ct"]), "created_at": u(kv["created"]),
         "proxy_id": u(kv["proxy"])}
    d["original_headers"] = [] if kv["oh"] == "-" else sorted(tuple(u(y) for y in x.split(":")) for x in kv["oh"].split(","))
    return d


def canon_json(line):
    if not line.startswith("dec {"):
        return None
    try:
        j = json.loads(line[4:])
    except ValueError:
        return None
    try:
        s = lambda v: "" if v is None else v.encode("utf-8", "surrogatepass").hex()  # noqa: E731
        d = {"kfs_lfs": j.get("kfs_lfs"), "size": j.get("size")}
        for k in ("bucket", "key", "sha256", "checksum", "checksum_alg", "content_type", "created_at", "proxy_id"):
            d[k] = s(j.get(k))
        oh = j.get("original_headers") or {}
        d["original_headers"] = sorted((s(k), s(v)) for k, v in oh.items())
        known = {"kfs_lfs", "size", "bucket", "key", "sha256", "checksum", "checksum_alg", "content_type", "created_at",
                 "proxy_id", "original_headers"}
        if set(j) - known:
            return None
        return d
    except AttributeError:
        return None


# ----------------------------------------------------------------------------- running the four sides
def _sdk(ck, cmd, text, what):
    try:
        p = subprocess.run(cmd, input=text, capture_output=True, text=True, timeout=300)
    except (OSError, subprocess.TimeoutExpired) as e:
        return None, "%s: %r" % (what, e)
    if p.returncode != 0:
        return None, "%s exited %d: %s" % (what, p.returncode, p.stderr[-1500:])
    return p.stdout.split("\n")[:-1], None


def run_sides(ck, binary, lines, tag):
    """lines: `is`/`dec`/`enc` op lines.  Returns dict side -> list of result lines (same length) or records broke."""
    fn = ck.path("ops_%s.txt" % tag)
    text = "\n".join(lines) + "\n"
    open(fn, "w").write(text)
    rc, out, err = ck.run_bin(binary, stdin_path=fn)
    go = out.split("\n")[:-1]
    if rc != 0 or len(go) != len(lines):
        ck.broke("Go harness did not answer every op", "rc=%s %s" % (rc, err[-800:]))
        return None
    sdk_lines = [l for l in lines if not l.startswith(("enc", "par"))]
    stext = "\n".join(sdk_lines) + "\n"
    py, e1 = _sdk(ck, ["python3", os.path.join(SDK, "run_py.py"), os.path.join(lib.REPO, PY_SRC)], stext, "python runner")
    js, e2 = _sdk(ck, ["node", os.path.join(SDK, "run_js.mjs"), os.path.join(lib.REPO, JS_SRC)], stext, "node runner")
    for e in (e1, e2):
        if e:
            ck.broke("SDK runner failed on the current source (%s)" % e.split(":")[0], e)
    if e1 or e2:
        return None
    if len(py) != len(sdk_lines) or len(js) != len(sdk_lines):
        ck.broke("SDK runner did not answer every op", "py %d js %d of %d" % (len(py), len(js), len(sdk_lines)))
        return None
    it_py, it_js = iter(py), iter(js)
    pys, jss = [], []
    for l in lines:
        if l.startswith(("enc", "par")):
            pys.append(None); jss.append(None)
        else:
            pys.append(next(it_py)); jss.append(next(it_js))
    return {"go": go, "py": pys, "js": jss}


def check_is(ck, op, go, py, js, model, ctx):
    """Monitor + correspondence for one `is` op.  Returns True when something was reported."""
    impl = "%s %s %s" % (go, py.split()[1] if py else "py=?", js.split()[1] if js else "js=?")
    vals = dict(x.split("=") for x in impl.split()[1:])
    if len(set(vals.values())) != 1 or not set(vals.values()) <= {"true", "false"}:
        odd = [k for k in vals if list(vals.values()).count(vals[k]) == 1] or ["go"]
        fp = "sdk-disagree-" + "-".join(sorted(odd))
        ck.violation(fp, "the client libraries disagree on whether %s is an envelope: %s" % (op.split()[1][:120], impl),
                     {"ops": [op], "expected": "go = py = js", "actual": impl, **ctx})
        return True
    if model is not None and impl != model:
        ck.cov["disagreements_checked"] += 1
        ck.violation("marker-check-differs-from-model",
                     "all three libraries answer %s for %s but the proved model answers %s" % (vals["go"], op.split()[1][:120], model),
                     {"ops": [op], "expected": model, "actual": impl, **ctx})
        return True
    return False


def run(ck):
    ck.partial = ("'decodes back to the same fields' (JSON decode of the encoded envelope in Go/Python/JS) is checked by the "
                  "cross-language monitor only; encoding/json, json.loads and JSON.parse are parameters of the model")
    bins = ck.build_all()
    if bins is None:
        return
    binary = bins["h"]
    n_is = 1500 if ck.quick() else 20000
    n_enc = 300 if ck.quick() else 4000
    ck.cov["rule"] = ("byte strings from 12 structured classes (valid, 15-byte boundary, 50-byte window, ill-formed/"
                      "well-formed UTF-8 in and around the marker, near-misses, random) and envelope field assignments "
                      "(ascii/long/unicode/escape-heavy strings, header maps); non-trivial = starts with '{' and has >= 15 "
                      "bytes (marker search is reached) or an envelope that EncodeEnvelope accepts; distinct = distinct inputs")
    ops, cats = [], []
    # corpus: the two executed defects come first
    ops += ["is " + b'{"kfs_lfs":1}'.hex(), "is " + b'{"kfs_\xfflfs":1,"bucket":"b"}'.hex()]
    cats += ["len15", "bad-utf8-in-marker"]
    for _ in range(n_is):
        b, cat = gen_is(ck.rng)
        ops.append("is " + lib.hexs(b)); cats.append(cat)
    envs = []
    for j in range(n_enc):
        e = gen_env(ck.rng)
        envs.append(e)
        ops.append(enc_line(e)); cats.append("enc")
        if j == n_enc // 3:
            ops.append("par 4"); cats.append("par")
    ops.append("par 16"); cats.append("par")
    _evaluate(ck, binary, ops, cats)


def _evaluate(ck, binary, ops, cats):
    sides = run_sides(ck, binary, ops, "a")
    if sides is None:
        return
    fn = ck.path("ops_a.txt")
    model = ck.lean_run("C29", fn)
    if len(model) != len(ops):
        ck.broke("Lean driver did not answer every op", "%d of %d" % (len(model), len(ops)))
        return
    second, origin = [], []
    for i, op in enumerate(ops):
        go, py, js, mo = sides["go"][i], sides["py"][i], sides["js"][i], model[i]
        ck.count("class:" + cats[i])
        if op.startswith("is "):
            raw = b"" if op.split()[1] == "-" else bytes.fromhex(op.split()[1])
            ck.case(op, nontrivial=(len(raw) >= 15 and raw[:1] == b"{"), sample={"op": op[:160], "go": go, "py": py, "js": js, "model": mo})
            ck.count("answer:" + go.split("=")[1])
            check_is(ck, op, go, py, js, mo, {})
            ck.cov["traces_validated_against_impl"] += 1
        elif op.startswith("par "):
            ck.case((op, i), nontrivial=True)
            ck.count("par:" + go)
            ck.cov["traces_validated_against_impl"] += 1
            if go != "par ok=true":
                ck.violation("encoded-envelope-unstable-under-concurrency",
                             "envelopes encoded from %s goroutines differ from the serial encoding / change after being returned (%s)" % (op.split()[1], go),
                             {"ops": [o for o in ops[:i + 1] if o.startswith(("enc", "par"))][-40:], "expected": "par ok=true", "actual": go})
        else:
            if go.endswith(" stable=false"):
                prev = [o for o in ops[:i + 1] if o.startswith("enc")]
                ck.violation("encoded-envelope-overwritten-after-hand-out",
                             "bytes returned by an earlier EncodeEnvelope call changed after a later EncodeEnvelope call (returned slice is not a fresh value)",
                             {"ops": prev[-3:], "expected": "stable=true", "actual": go[-40:]})
            ck.case(op, nontrivial=(go != "enc err"), sample={"op": op[:160], "go": go[:120]})
            ck.count("enc:" + ("err" if go == "enc err" else "ok"))
            if go.replace(" stable=false", " stable=true") != mo:      # stability is reported by the monitor above
                ck.cov["disagreements_checked"] += 1
                if not any("EncodeEnvelope bytes" in b["what"] for b in ck.broken):
                  ck.broke("correspondence model/implementation (EncodeEnvelope bytes)",
                           "op %s\nimpl : %s\nmodel: %s" % (op[:300], go[:600], mo[:600]))
            ck.cov["traces_validated_against_impl"] += 1
            if go.startswith("enc ") and go != "enc err":
                hx = go.split()[1]
                second += ["is " + hx, "dec " + hx]
                origin += [i, i]
    if not second:
        return
    s2 = run_sides(ck, binary, second, "b")
    if s2 is None:
        return
    for j, op2 in enumerate(second):
        i = origin[j]
        e = env_from_line(ops[i])
        ctx = {"envelope_op": ops[i]}
        go, py, js = s2["go"][j], s2["py"][j], s2["js"][j]
        if op2.startswith("is "):
            for side, ans in (("go", go), ("py", py), ("js", js)):
                if not ans.endswith("=true"):
                    ck.violation("encoded-envelope-not-recognised-" + side,
                                 "an envelope produced by EncodeEnvelope is not recognised by the %s library (%s)" % (side, ans),
                                 {"ops": [ops[i]], "expected": "is %s=true" % side, "actual": ans})
        else:
            exp = canon_expected(e)
            for side, got in (("go", canon_go(go)), ("py", canon_json(py)), ("js", canon_json(js))):
                if got != exp:
                    diff = [k for k in exp if got is None or got.get(k) != exp[k]]
                    ck.violation("decoded-fields-differ-" + side,
                                 "an envelope produced by EncodeEnvelope does not decode back to the same fields in the %s library (fields %s)" % (side, diff[:4]),
                                 {"ops": [ops[i]], "expected": exp, "actual": {"go": go[:300], "py": (py or "")[:300], "js": (js or "")[:300]}})
            ck.cov["evaluations"] += 1


def replay(ck, path):
    rep = json.load(open(path))
    bins = ck.build_all()
    if bins is None:
        return
    ops = rep["ops"]
    _evaluate(ck, bins["h"], ops, ["replay"] * len(ops))
    ck.cov["evaluations"] = max(ck.cov["evaluations"], 1); ck.cov["distinct_nontrivial"] = max(ck.cov["distinct_nontrivial"], 2)
