"""C31 — LFS produce rewriting changes only the flagged values."""
import hashlib
import json
import zlib

from checks import lib

PROPERTY = "C31"
LEAN_MODULES = ["KafVerif.Props.C31"]
OBLIGATIONS = [
    "KafVerif.C31.records_frame",
    "KafVerif.C31.batch_frame",
    "KafVerif.C31.request_shape",
    "KafVerif.C31.unflagged_request_untouched",
    "KafVerif.C31.batch_header_ok",
    "KafVerif.C31.uvarint_roundtrip",
    "KafVerif.C31.varint_roundtrip",
    "KafVerif.C31.record_roundtrip",
    "KafVerif.C31.records_roundtrip",
]
BUILDS = {"h": ("root", "./cmd/proxy", ["C30", "C31"])}
LEVEL_TEXT = ("Lean 4 theorems about a model of rewriteProduceRecords: for every request whose batches are well formed and every "
              "checksum / S3 outcome, a successful rewrite keeps topics, partitions, batches and records in 1-1 order-preserving "
              "correspondence; an unflagged record is identical; a flagged record differs only in its value (an envelope whose key "
              "maps in the ghost S3 to exactly the original value, size and digests computed over it) and in lacking the LFS_BLOB "
              "header (records_frame, batch_frame, request_shape); a request without flagged records is returned untouched; the "
              "rewritten batch header has Length = len-12 and CRC = crc32c(bytes[21:]) (batch_header_ok); zig-zag/LEB128 varints "
              "and whole records round-trip at byte level. Tied to the source by building real requests (franz-go encoders, all five codecs) and diffing "
              "rewriteProduceRecords's decoded output against the model, plus a direct monitor.")
LEVEL_NOTE = ("Hash functions, CRC-32C, compression codecs, kmsg's record/batch codec and the envelope JSON are parameters (the "
              "harness uses the real ones and verifies CRC/length/envelopes itself). lfsEncodeRecord/lfsEncodeRecords are proved to "
              "round-trip through a Lean decoder of the record wire format (record_roundtrip, records_roundtrip), incl. the NumRecords prefix rule.")
TECHNIQUE = "Lean 4 proof over a hand-written model + Go/Lean differential correspondence + direct monitor"
ASSUMPTIONS = [
    "purity: lfs.EncodeEnvelope returns a fresh value (the model keeps each rewritten value as an immutable term); validated by the "
    "per-record monitor on batches with 2..8 flagged records: every envelope is decoded AFTER the whole request was rewritten and "
    "compared with its own record's blob (object bytes, sha256, size, checksum, distinct key)",
    "well-formed = every batch's NumRecords equals the number of encoded records and its codec is 0..4; the prefix behaviour for other batches is mirrored by the model but outside the theorem",
    "NumRecords is small and non-negative in generated requests (a negative / huge NumRecords makes lfsDecodeBatchRecords panic / allocate — noted in notes/C31.md, outside this property)",
    "header keys are ASCII (strings.ToLower modelled on ASCII)",
]

PARTIAL = ("kmsg's record/batch decoders, the compression codecs and the envelope JSON are parameters: the theorems are "
           "about decoded records; byte level is proved for lfsEncodeRecord's round-trip (record_roundtrip) and the batch header fix-up")
BLOB = b"LFS_BLOB"
BLOB_ALG = b"LFS_BLOB_ALG"


def hexs(b):
    return lib.hexs(b)


def tok(b):
    return "nil" if b is None else hexs(b)


def digests(b):
    return (hashlib.sha256(b).hexdigest().encode(), hashlib.md5(b).hexdigest().encode(),
            ("%08x" % (zlib.crc32(b) & 0xFFFFFFFF)).encode())


def norm_alg(raw, default):
    v = raw.strip(b" \t\n\v\f\r")
    if v == b"":
        v = default.strip(b" \t\n\v\f\r")
    v = v.lower()
    if v == b"":
        return "sha256"
    return v.decode() if v in (b"sha256", b"md5", b"crc32", b"none") else None


def gen_value(rng):
    c = rng.below(10)
    if c == 0:
        return None
    if c == 1:
        return b""
    if c == 2:
        return rng.bytes(rng.choice([300, 999, 1000, 1001, 5000]))
    return rng.bytes(rng.range(1, 40))


def gen_record(rng, i, flag_p, default_alg, clean):
    value = gen_value(rng)
    key = rng.choice([None, b"", b"k", rng.bytes(rng.range(1, 12))])
    headers = []
    flaggedr = rng.chance(flag_p, 10)
    nh = rng.choice([0, 0, 1, 2, 3, 4])
    pool = [(b"content-type", b"text/plain"), (b"Content-Type", b"application/json"), (b"x-request-id", b"r-1"), (b"X-Request-ID", b"r-2"),
            (b"user-id", b"42"), (b"traceparent", b"00-abc"), (b"lfs_blob", b"x"), (b"LFS_BLOB ", b"x"), (b"LFS_BLO", None), (b"", b"empty-key"),
            (b"content-encoding", None), (b"x-request-id", b"r-3"), (b"content-type", b""), (b"k\xc3\xa9y", b"v\xff")]
    for _ in range(nh):
        headers.append(rng.choice(pool))
    if flaggedr:
        algv = None
        if rng.chance(1, 3):
            algv = rng.choice([b"sha256", b"md5", b"crc32", b"none", b" MD5 ", b"", b"  "] + ([] if clean else [b"sha1"]))
            headers.insert(rng.below(len(headers) + 1), (BLOB_ALG, algv))
        first_alg = next((v for k, v in headers if k == BLOB_ALG), None)
        a = norm_alg(first_alg or b"", default_alg)
        payload = value or b""
        s, m, c = digests(payload)
        right = {"sha256": s, "md5": m, "crc32": c}.get(a, s)
        ckv = rng.choice([None, b"", b"", b"", right, right, right.upper(), b" " + right + b"\n"] + ([] if clean else [b"0" * len(right), s]))
        if clean and a == "none":
            ckv = rng.choice([None, b"", b"  "])
        headers.insert(rng.below(len(headers) + 1), (BLOB, ckv))
        if rng.chance(1, 12):
            headers.insert(rng.below(len(headers) + 1), (BLOB, b""))           # a second flag header
    ts = rng.choice([0, i, i * 7, -3, 2 ** 40, -(2 ** 63), 2 ** 63 - 1]) if rng.chance(1, 4) else i
    off = rng.choice([i, i, i, 0, -1, 2 ** 31 - 1, -(2 ** 31)]) if rng.chance(1, 5) else i
    attrs = 0 if not rng.chance(1, 10) else rng.choice([1, -1, 127, -128])
    return {"attrs": attrs, "ts": ts, "off": off, "key": key, "value": value, "headers": headers}


def gen_request(rng):
    clean = not rng.chance(1, 3)          # two thirds of the requests carry no error source: the rewrite must succeed
    default_alg = rng.choice([b"sha256", b"sha256", b"sha256", b"md5", b"crc32", b"none", b"SHA256 "]) if clean or not rng.chance(1, 10) else b"bogus"
    flag_p = rng.choice([0, 2, 4, 4, 6, 10, 10])
    dense = rng.chance(1, 4)               # batches with 2..8 flagged records each (an envelope must describe ITS OWN record's blob)
    if dense:
        flag_p = 10
    maxblob = 6000 if clean else rng.choice([6000, 1000, 1000, 10, 0])
    fail_at = -1 if clean or not rng.chance(1, 4) else rng.choice([0, 1, 2])
    fail_del = rng.choice([0, 0, 1])
    topics = []
    names = [b"orders", b"t1", b"logs.v2", b"a-b_c"]
    for ti in range(rng.choice([1, 1, 2, 3])):
        parts = []
        for pi in range(rng.choice([1, 1, 2, 3])):
            batches = []
            for _ in range(rng.choice([1, 1, 1, 2, 3, 0])):
                recs = [gen_record(rng, i, flag_p, default_alg, clean) for i in range(rng.range(2, 8) if dense else rng.choice([1, 1, 2, 3, 5, 0]))]
                codec = rng.choice([0, 0, 1, 2, 3, 4]) if clean or not rng.chance(1, 10) else rng.choice([5, 7])
                n = len(recs)
                if rng.chance(1, 25):
                    n = max(0, n + rng.choice([-1, 1, 2]))
                batches.append({"codec": codec, "n": n, "records": recs})
            parts.append((pi * 3, batches))
        topics.append((names[ti], parts))
    return {"maxblob": maxblob, "default_alg": default_alg, "fail_at": fail_at, "fail_del": fail_del, "topics": topics}


def corpus_dense(codec):
    """One batch with 8 flagged records of different sizes (7, 70, 700, … bytes): every envelope must describe its own blob."""
    recs = []
    for i in range(8):
        v = bytes([65 + i]) * ((7 * 10 ** i) % 5000 + i)
        recs.append({"attrs": 0, "ts": i, "off": i, "key": bytes([97 + i]), "value": v,
                     "headers": [(BLOB, hashlib.sha256(v).hexdigest().encode())]})
    return {"maxblob": 6000, "default_alg": b"sha256", "fail_at": -1, "fail_del": 0,
            "topics": [(b"demo-topic", [(0, [{"codec": codec, "n": 8, "records": recs}])])]}


def op_line(req):
    f = ["rewrite", str(req["maxblob"]), hexs(req["default_alg"]), str(req["fail_at"]), str(req["fail_del"])]
    blobs = []
    for name, parts in req["topics"]:
        f += ["T", hexs(name)]
        for pn, batches in parts:
            f += ["P", str(pn)]
            for b in batches:
                f += ["B", str(b["codec"]), str(b["n"])]
                for r in b["records"]:
                    f += ["R", str(r["attrs"]), str(r["ts"]), str(r["off"]), tok(r["key"]), tok(r["value"]), str(len(r["headers"]))]
                    for k, v in r["headers"]:
                        f += [hexs(k), tok(v)]
                    if any(k == BLOB for k, _ in r["headers"]):
                        blobs.append(r["value"] or b"")
    tab, seen = [], set()
    for b in blobs:
        if b not in seen:
            seen.add(b)
            s, m, c = digests(b)
            tab += [hexs(b), hexs(s), hexs(m), hexs(c)]
    return " ".join(f) + " | " + " ".join(tab)


# ----------------------------------------------------------------------------- parsing the implementation's line
def parse_out(left):
    """-> list of (topic, [(part, [batch{mod,codec,n,records[...]}])])"""
    t = left.split()
    assert t[0] == "ok"
    i, topics = 1, []
    while i < len(t):
        if t[i] == "T":
            topics.append((t[i + 1], [])); i += 2
        elif t[i] == "P":
            topics[-1][1].append((int(t[i + 1]), [])); i += 2
        elif t[i] == "B":
            kv = dict(x.split("=") for x in t[i + 1:i + 4])
            topics[-1][1][-1][1].append({"mod": kv["mod"] == "1", "codec": int(kv["codec"]), "n": int(kv["n"]), "records": []}); i += 4
        elif t[i] == "R":
            topics[-1][1][-1][1][-1]["records"].append({"attrs": int(t[i + 1]), "ts": int(t[i + 2]), "off": int(t[i + 3]), "key": t[i + 4],
                                                        "v": t[i + 5], "h": t[i + 6]}); i += 7
        else:
            raise ValueError("unexpected token %r" % t[i])
    return topics


def headers_tok(hs):
    return "-" if not hs else ";".join(hexs(k) + ":" + tok(v) for k, v in hs)


def monitor(req, line):
    """The property itself, on the implementation's output for a request.  Returns (fingerprint, what) or None."""
    if line.startswith("panic"):
        return "rewrite-panics", line[:200]
    if line == "err":
        return None
    left, _, right = line.partition(" | ")
    facts = dict(x.split("=") for x in right.split())
    for k in ("crc", "len", "framing", "hdr_same"):
        if facts.get(k) != "true":
            return "batch-" + k + "-wrong", "a rewritten request has a batch with wrong %s (CRC / length / framing / other header field)" % k
    try:
        out = parse_out(left)
    except (ValueError, AssertionError, KeyError, IndexError) as e:
        return "output-undecodable", "rewritten request does not decode: %r" % (e,)
    if [hexs(n) for n, _ in req["topics"]] != [n for n, _ in out]:
        return "topics-changed", "topic list changed"
    seen_keys = set()
    any_flag = False
    for (name, parts), (_, oparts) in zip(req["topics"], out):
        if [p for p, _ in parts] != [p for p, _ in oparts]:
            return "partitions-changed", "partition list of a topic changed"
        for (pn, batches), (_, obatches) in zip(parts, oparts):
            wf = all(b["n"] == len(b["records"]) and b["codec"] <= 4 for b in batches)
            if not wf:
                continue                                     # outside "well-formed": correspondence only
            if len(batches) != len(obatches):
                return "batch-count-changed", "number of batches of a partition changed (%d -> %d)" % (len(batches), len(obatches))
            for b, ob in zip(batches, obatches):
                flagged_any = any(any(k == BLOB for k, _ in r["headers"]) for r in b["records"])
                any_flag = any_flag or flagged_any
                if ob["codec"] != b["codec"]:
                    return "codec-changed", "compression codec of a batch changed (%d -> %d)" % (b["codec"], ob["codec"])
                if ob["n"] != len(b["records"]) or len(ob["records"]) != len(b["records"]):
                    return "record-count-changed", "record count of a batch changed (%d -> header %d / %d decoded)" % (len(b["records"]), ob["n"], len(ob["records"]))
                if not flagged_any and ob["mod"]:
                    return "unflagged-batch-rewritten", "a batch without flagged records was re-encoded"
                for r, o in zip(b["records"], ob["records"]):
                    if (o["attrs"], o["ts"], o["off"], o["key"]) != (r["attrs"], r["ts"], r["off"], tok(r["key"])):
                        return "record-field-changed", "attributes / timestamp / offset delta / key of a record changed"
                    isflag = any(k == BLOB for k, _ in r["headers"])
                    if not isflag:
                        if o["v"] != "RAW:" + tok(r["value"]):
                            return "unflagged-value-changed", "the value of an unflagged record changed"
                        if o["h"] != headers_tok(r["headers"]):
                            return "unflagged-headers-changed", "the headers of an unflagged record changed"
                        continue
                    if not o["v"].startswith("ENV:"):
                        return "flagged-value-not-envelope", "a flagged record's value is not a valid envelope"
                    env = dict(x.split("=", 1) for x in o["v"][4:].split(","))
                    if env["valid"] != "true" or env["orig"] != "true" or env["sha"] != "true" or env["ck"] == "false":
                        return "envelope-does-not-describe-original", "envelope of a flagged record: valid=%s object==original=%s sha256 ok=%s checksum ok=%s" % (
                            env["valid"], env["orig"], env["sha"], env["ck"])
                    if int(env["size"]) != len(r["value"] or b""):
                        return "envelope-size-wrong", "envelope size %s for a %d-byte value" % (env["size"], len(r["value"] or b""))
                    if env["key"] in seen_keys or int(env["key"]) < 0:
                        return "object-not-new", "two flagged records share an object / the object is unknown"
                    seen_keys.add(env["key"])
                    want = [(k, v) for k, v in r["headers"] if k != BLOB]
                    if o["h"] != headers_tok(want):
                        return "flagged-headers-changed", "a flagged record lost or changed headers other than LFS_BLOB"
    return None


def run_ops(ck, binary, ops, tag, model=True):
    fn = ck.path("ops_%s.txt" % tag)
    open(fn, "w").write("\n".join(ops) + "\n")
    rc, out, err = ck.run_bin(binary, stdin_path=fn, env={"VERIF_HARNESS": "C31"}, timeout=900)
    impl = out.split("\n")[:-1]
    if tag == "all":
        ck.log("implementation answered %d requests" % len(impl))
    if rc != 0 or len(impl) != len(ops):
        return None, None, "rc=%s answered %d of %d\n%s" % (rc, len(impl), len(ops), err[-800:])
    mo = ck.lean_run("C31", fn) if model else None
    if tag == "all":
        ck.log("model answered")
    return impl, mo, None


def shrink(ck, binary, req, fp):
    """Greedy structural shrinking of a failing request (drop topics / partitions / batches / records / headers)."""
    def fails(r):
        impl, _, crash = run_ops(ck, binary, [op_line(r)], "dd", model=False)
        if crash:
            return False
        m = monitor(r, impl[0])
        return m is not None and m[0] == fp
    cur = req
    changed = True
    budget = 60
    while changed and budget > 0:
        changed = False
        for ti in range(len(cur["topics"])):
            cands = []
            name, parts = cur["topics"][ti]
            if len(cur["topics"]) > 1:
                cands.append(dict(cur, topics=cur["topics"][:ti] + cur["topics"][ti + 1:]))
            for pi, (pn, batches) in enumerate(parts):
                if len(parts) > 1:
                    cands.append(dict(cur, topics=cur["topics"][:ti] + [(name, parts[:pi] + parts[pi + 1:])] + cur["topics"][ti + 1:]))
                for bi, b in enumerate(batches):
                    if len(batches) > 1:
                        nb = batches[:bi] + batches[bi + 1:]
                        cands.append(dict(cur, topics=cur["topics"][:ti] + [(name, parts[:pi] + [(pn, nb)] + parts[pi + 1:])] + cur["topics"][ti + 1:]))
                    for ri in range(len(b["records"])):
                        if len(b["records"]) > 1:
                            nr = b["records"][:ri] + b["records"][ri + 1:]
                            b2 = dict(b, records=nr, n=b["n"] - 1 if b["n"] == len(b["records"]) else b["n"])
                            nb = batches[:bi] + [b2] + batches[bi + 1:]
                            cands.append(dict(cur, topics=cur["topics"][:ti] + [(name, parts[:pi] + [(pn, nb)] + parts[pi + 1:])] + cur["topics"][ti + 1:]))
            for c in cands:
                budget -= 1
                if budget <= 0:
                    break
                if fails(c):
                    cur, changed = c, True
                    break
            if changed:
                break
    return cur


def evaluate(ck, binary, reqs):
    ops = [op_line(r) for r in reqs]
    impl, model, crash = run_ops(ck, binary, ops, "all")
    if crash:
        ck.broke("implementation harness did not answer every op", crash)
        return
    if len(model) != len(ops):
        ck.broke("Lean driver did not answer every op", "%d of %d" % (len(model), len(ops)))
        return
    for req, op, io, mo in zip(reqs, ops, impl, model):
        nflag = sum(1 for _, ps in req["topics"] for _, bs in ps for b in bs for r in b["records"] if any(k == BLOB for k, _ in r["headers"]))
        ck.count("result:" + io.split()[0])
        ck.count("flagged-records", nflag)
        for _, ps in req["topics"]:
            for _, bs in ps:
                for b in bs:
                    ck.count("codec:%d" % b["codec"])
        ck.case(op, nontrivial=(io.startswith("ok") and nflag > 0), sample={"op": op[:300], "impl": io[:300]})
        ck.cov["traces_validated_against_impl"] += 1
        mon = monitor(req, io)
        if mon is not None:
            fp, what = mon
            if fp in [v["fingerprint"] for v in ck.violations]:
                continue
            small = shrink(ck, binary, req, fp)
            ck.violation(fp, what, {"ops": [op_line(small)], "request": repr(small)[:4000], "expected": "property monitor true", "actual": what})
            continue
        left = io.partition(" | ")[0]
        if left != mo:
            ck.cov["disagreements_checked"] += 1
            if len(ck.broken) < 3:
                ck.broke("correspondence model/implementation (rewriteProduceRecords)",
                         "op   : %s\nimpl : %s\nmodel: %s" % (op[:1500], left[:1500], mo[:1500]))


def encrec_ops(reqs, limit):
    ops = []
    for req in reqs:
        for _, parts in req["topics"]:
            for _, batches in parts:
                for b in batches:
                    for r in b["records"]:
                        f = ["encrec", "R", str(r["attrs"]), str(r["ts"]), str(r["off"]), tok(r["key"]), tok(r["value"]), str(len(r["headers"]))]
                        for k, v in r["headers"]:
                            f += [hexs(k), tok(v)]
                        ops.append(" ".join(f))
                        if len(ops) >= limit:
                            return ops
    return ops


def check_encoder(ck, binary, reqs):
    """Byte-level tie: lfsEncodeRecord(record) == the model's encodeRecord, and franz-go decodes it back to the record."""
    ops = encrec_ops(reqs, 600 if ck.quick() else 8000)
    impl, model, crash = run_ops(ck, binary, ops, "enc")
    if crash:
        ck.broke("implementation harness did not answer every encrec op", crash)
        return
    for op, io, mo in zip(ops, impl, model):
        ck.cov["evaluations"] += 1
        left, _, right = io.partition(" | ")
        if right != "kmsg_roundtrip=true":
            ck.violation("encoded-record-does-not-decode-back", "lfsEncodeRecord's bytes do not decode (franz-go) to the same record",
                         {"ops": [op], "expected": "kmsg_roundtrip=true", "actual": io[:300]})
        elif left != mo:
            ck.cov["disagreements_checked"] += 1
            if not any("lfsEncodeRecord" in b["what"] for b in ck.broken):
                ck.broke("correspondence model/implementation (lfsEncodeRecord bytes)", "op %s\nimpl : %s\nmodel: %s" % (op[:600], left[:600], mo[:600]))
    ck.count("encrec-ops", len(ops))


def run(ck):
    ck.partial = PARTIAL
    bins = ck.build_all()
    if bins is None:
        return
    ck.log("harness built")
    n = 220 if ck.quick() else 6000
    ck.cov["rule"] = ("produce requests with 1-3 topics x 1-3 partitions x 0-3 batches x 0-5 records, codecs none/gzip/snappy/lz4/zstd, "
                      "flagged/unflagged mixes, checksum headers (absent/right/upper-case/padded/wrong), LFS_BLOB_ALG variants, nil/empty keys, "
                      "values and header values, allow-listed headers in several cases, duplicate headers, extreme varint fields; faults: "
                      "upload k fails, blob too large, malformed NumRecords; non-trivial = rewrite succeeded with >= 1 flagged record")
    reqs = [corpus_dense(c) for c in (0, 2, 4)] + [gen_request(ck.rng.fork()) for _ in range(n)]
    evaluate(ck, bins["h"], reqs)
    check_encoder(ck, bins["h"], reqs)


def replay(ck, path):
    rep = json.load(open(path))
    bins = ck.build_all()
    if bins is None:
        return
    ops = rep["ops"]
    impl, model, crash = run_ops(ck, bins["h"], ops, "replay")
    if crash:
        ck.broke("implementation harness did not answer every op", crash)
        return
    for o, r, m in zip(ops, impl, model):
        print("  op   : %s\n  impl : %s\n  model: %s" % (o[:600], r[:600], m[:600]))
    ck.case(tuple(ops), sample={"ops": [o[:300] for o in ops]})
    ck.cov["evaluations"] = max(ck.cov["evaluations"], 1); ck.cov["distinct_nontrivial"] = 2
    if "request" in rep:
        try:
            req = eval(rep["request"], {"__builtins__": {}})       # the repr() this check wrote itself
            mon = monitor(req, impl[0])
            if mon:
                ck.violation(mon[0], mon[1], {"ops": ops, "request": rep["request"], "actual": mon[1]})
        except Exception:                                          # noqa: BLE001 — truncated repr: fall back to the model diff
            pass
    for o, r, m in zip(ops, impl, model):
        if r.partition(" | ")[0] != m:
            ck.broke("correspondence model/implementation (rewriteProduceRecords)", "op %s\nimpl %s\nmodel %s" % (o[:800], r[:800], m[:800]))
