"""C10 — Kafka request decoding never crashes and round-trips (pkg/protocol)."""
import struct

from checks import lib

PROPERTY = "C10"
LEAN_MODULES = ["KafVerif.Props.C10"]
OBLIGATIONS = [
    "KafVerif.C10.parseHeader_total",
    "KafVerif.C10.skipTagged_total",
    "KafVerif.C10.parseHeader_body_suffix",
    "KafVerif.C10.parseHeaderOld_panics",
    "KafVerif.C10.killerFrame_rejected",
    "KafVerif.C10.parseHeader_encode_tags",
    "KafVerif.C10.parseHeader_encode",
    "KafVerif.C10.parseHeader_consumes_exactly_header",
    "KafVerif.C10.uvarint_roundtrip",
    "KafVerif.C10.skipTagged_exact",
    "KafVerif.C10.skipTagged_within_buffer",
    "KafVerif.C10.readFrame_total",
    "KafVerif.C10.readFrame_exact",
    "KafVerif.C10.readFrame_writeFrame",
    "KafVerif.C10.readFrames_stream",
    "KafVerif.C10.parse_depends_only_on_frame",
    "KafVerif.C10.parseRequestBody_total",
    "KafVerif.C10.parseRequest_total",
    "KafVerif.C10.parseRequest_ok_iff",
    "KafVerif.C10.parseRequest_decode_error",
    "KafVerif.C10.parseRequest_malformed_body_any_client_id",
    "KafVerif.C10.parseRequestDeref_panics",
    "KafVerif.C10.parseRequestDeref_needs_null_client_id",
]
BUILDS = {
    "h": ("root", "./cmd/verif_c10", ["C10"]),
    "hr": ("root", "./cmd/verif_c10", ["C10"], {"race": True, "name": "h_race"}),
}
TRUSTED = [
    "no shared mutable state between parses: the model's parseHeader is a pure function of the frame bytes "
    "(KafVerif.C10.parse_depends_only_on_frame); that the code has no hidden parser state is VALIDATED on every run by the "
    "concurrent scenario (GOMAXPROCS goroutines, same API keys, versions on both sides of the flexible boundary, each result "
    "compared with what was encoded) and by the same scenario under the Go race detector",
]
LEVEL_TEXT = ("Lean theorems over the model of byteReader/SkipTaggedFields/ParseRequestHeader/ReadFrame: totality "
              "(no panic) for every byte string, body-is-suffix, header round trip for every well-formed header and "
              "body, frame round trip; tied to the code by a differential run (real parser vs model) incl. an "
              "exhaustive short-suffix enumeration, and a kmsg encode->ParseRequest->re-encode round trip over every "
              "kmsg request key x version.  Body stage: ParseRequest = header + ParseRequestBody is total for every byte string, every "
              "header (client id treated as Option: null included) and every verdict of the kmsg decoder (parseRequest_total, "
              "parseRequest_ok_iff, parseRequest_decode_error), tied by `preq` ops over {client id null/empty/short/32767 bytes} x "
              "{body valid / cut at every length / garbage / trailing bytes} x every kmsg (key, version).")
LEVEL_NOTE = ("The header round trip (parseHeader_encode_tags) holds for every well-formed tagged-field section (count/tags < 2^64, "
              "field sizes < 2^63), with uvarint_roundtrip and skipTagged_exact as its lemmas; the model's encoder is compared with "
              "Go's encoding/binary on every run (`enc` ops).  The body codec is kmsg (parameter).")
TECHNIQUE = "Lean 4 proof over an executable model + differential correspondence + direct monitor"
ASSUMPTIONS = [
    "Go int is 64 bit (int(uint64) wraps at 2^63)",
    "kmsg's RequestForKey/IsFlexible table is dumped from the linked kmsg on every run and handed to the model; "
    "the harness asserts it is a per-key threshold",
    "ReadFrame's make([]byte, length) for a lying length up to 2 GiB is resource use, not a crash as modelled",
    "request bodies are decoded by kmsg (trusted codec); the check compares re-encoded bodies for the 21 served keys",
    "kmsg's ReadFrom returns a value or an error and does not panic (the `dec` parameter of parseRequest_total is a total function); "
    "validated on every body variant of the run: kmsg alone is run on each (`kdec`), a panic there or in ParseRequest is a violation",
    "parses do not share mutable state (each connection goroutine parses independently) - not provable in the sequential model; "
    "validated by the concurrent + race-detector run, which can only see interleavings that actually occur within its ~3 s",
]

PRE = bytes.fromhex("0003000900000001ffff")  # Metadata v9 (flexible), corr 1, null client id


def uvarint(v):
    out = bytearray()
    while v >= 0x80:
        out.append((v & 0x7F) | 0x80)
        v >>= 7
    out.append(v)
    return bytes(out)


BOUND_SIZES = [0, 1, 2, 3, 127, 128, 255, 300, 2 ** 31 - 1, 2 ** 31, 2 ** 32, 2 ** 63 - 1, 2 ** 63, 2 ** 63 + 1, 2 ** 64 - 1]


def gen_tagged(rng):
    """A tagged-field section, mostly well formed, with boundary sizes / lying sizes / odd varints."""
    n = rng.choice([0, 1, 1, 2, 3])
    out = bytearray(uvarint(n if rng.chance(9, 10) else rng.choice(BOUND_SIZES)))
    for _ in range(n):
        out += uvarint(rng.choice([0, 1, 5, 2 ** 31, 2 ** 64 - 1]))
        data = rng.bytes(rng.below(6))
        kind = rng.below(10)
        if kind < 5:
            out += uvarint(len(data)) + data
        elif kind < 8:
            out += uvarint(rng.choice(BOUND_SIZES)) + data
        elif kind == 8:   # over-long / overflowing varint
            out += bytes([0x80] * rng.choice([9, 10, 11])) + bytes([rng.choice([0, 1, 2, 0x7F])]) + data
        else:
            out += uvarint(len(data) + rng.choice([1, 2]))+ data
    out += rng.bytes(rng.below(5))
    if rng.chance(1, 6) and out:
        out = out[: rng.below(len(out))]
    return bytes(out)


def ref_uvarint(b, pos):
    """binary.Uvarint as specified: (value, next position) or None (truncated / more than 10 bytes / 10th byte > 1)."""
    x, s = 0, 0
    for i in range(10):
        if pos + i >= len(b):
            return None
        c = b[pos + i]
        if c < 0x80:
            if i == 9 and c > 1:
                return None
            return x | (c << s), pos + i + 1
        x |= (c & 0x7F) << s
        s += 7
    return None


def ref_skip_tagged(b, pos):
    """KIP-482 tagged-field section read by the format: next position or None."""
    r = ref_uvarint(b, pos)
    if r is None:
        return None
    count, pos = r
    for _ in range(count):
        r = ref_uvarint(b, pos)
        if r is None:
            return None
        r = ref_uvarint(b, r[1])
        if r is None:
            return None
        size, pos = r
        if size > len(b) - pos:
            return None
        pos += size
    return pos


def ref_header(b, flex):
    """Request header v1/v2 read by the Kafka protocol guide, independent of the model and of the code: the `hdr` result line."""
    if len(b) < 8:
        return "err"
    key, ver, corr = struct.unpack(">hhi", b[:8])
    if len(b) < 10:
        return "err"
    n = struct.unpack(">h", b[8:10])[0]
    pos = 10
    if n == -1:
        cid = "null"
    elif n < 0 or len(b) - pos < n:
        return "err"
    else:
        cid = lib.hexs(b[pos:pos + n])
        pos += n
    if key in flex and ver >= flex[key]:
        pos = ref_skip_tagged(b, pos)
        if pos is None:
            return "err"
    return "ok %d %d %d cid=%s body=%s" % (key, ver, corr, cid, lib.hexs(b[pos:]))


TAG_VALUES = [0, 1, 2, 127, 128, 16383, 16384, 2 ** 32, 2 ** 63, 2 ** 64 - 1]
TAG_SIZES = [0, 0, 1, 1, 2, 5, 127, 128, 129, 300]


def gen_wf_tagged(rng, flex):
    """A WELL-FORMED flexible request header with a NON-EMPTY tagged-field section (what parseHeader_encode_tags is about),
    followed by a body: (enc op, header bytes as python encodes them, section bytes, body)."""
    keys = sorted(k for k, v in flex.items() if v < 32767)
    key = rng.choice(keys)
    ver = flex[key] + rng.choice([0, 0, 0, 1, 2, -1])       # -1: not flexible -> no section is written
    corr = rng.choice([0, 1, -1, 2 ** 31 - 1, -2 ** 31, rng.below(2 ** 31)])
    cid = rng.choice([None, b"", b"c", rng.bytes(rng.below(9)), b"x" * rng.choice([127, 128, 300])])
    n = rng.choice([1, 1, 1, 2, 2, 3, 5, 127, 128, 130]) if rng.chance(19, 20) else 0
    big = rng.chance(1, 40)
    tags = []
    for _ in range(n):
        size = rng.choice(TAG_SIZES) if n < 100 else rng.choice([0, 1, 2])
        if big:
            size = rng.choice([16383, 16384, 70000])
            big = False
        tags.append((rng.choice(TAG_VALUES), rng.bytes(size)))
    section = uvarint(len(tags)) + b"".join(uvarint(t) + uvarint(len(d)) + d for t, d in tags)
    flexible = ver >= flex[key]
    hdr = struct.pack(">hhi", key, ver, corr) + (b"\xff\xff" if cid is None else struct.pack(">h", len(cid)) + cid)
    if flexible:
        hdr += section
    # bodies that look like more header: a tag section, zeros, varint continuation bytes
    body = rng.choice([b"", b"\x00", b"\x01\x00\x00", b"\x80", b"\xff" * 3, rng.bytes(rng.below(12)), section[:20]])
    op = "enc %d %d %d %s %s" % (key, ver, corr, "null" if cid is None else lib.hexs(cid),
                                 ",".join("%d:%s" % (t, lib.hexs(d)) for t, d in tags) or "-")
    return op, hdr, section, body, (key, ver, corr, cid)


def gen_header(rng, flex):
    key = rng.choice([0, 1, 2, 3, 8, 9, 10, 11, 18, 19, 32, 42, 7, 60, 92, 93, 200, -1, 32767, -32768])
    ver = rng.choice([0, 1, 2, 3, 4, 5, 8, 9, 12, 13, -1, 32767]) if rng.chance(2, 3) else (flex.get(key, 0) + rng.choice([-1, 0, 1]))
    ver = max(-32768, min(32767, ver))
    corr = rng.choice([0, 1, -1, 2 ** 31 - 1, -2 ** 31, rng.below(2 ** 31)])
    out = struct.pack(">hhi", key, ver, corr)
    k = rng.below(10)
    if k < 2:
        out += b"\xff\xff"
    elif k < 7:
        s = rng.bytes(rng.below(9))
        out += struct.pack(">h", len(s)) + s
    elif k == 7:
        out += struct.pack(">h", rng.choice([-2, -32768, 5, 32767])) + rng.bytes(rng.below(6))
    elif k == 8:
        out += rng.bytes(rng.below(2))
    else:
        out += b"\x00\x00"
    out += gen_tagged(rng)
    if rng.chance(1, 8):
        out = out[: rng.below(len(out) + 1)]
    return out


def gen_frame(rng):
    k = rng.below(8)
    body = rng.bytes(rng.below(12))
    if k < 3:
        return struct.pack(">i", len(body)) + body + rng.bytes(rng.below(4))
    if k == 3:
        return struct.pack(">i", len(body) + rng.choice([1, 2, 1000, 1 << 20])) + body
    if k == 4:
        return struct.pack(">i", rng.choice([-1, -2 ** 31, -5])) + body
    if k == 5:
        return rng.bytes(rng.below(4))
    if k == 6:
        return struct.pack(">i", 0) + body
    return struct.pack(">i", max(0, len(body) - 1)) + body


def gen_stream(rng):
    """Several frames back to back on one connection: (op, expected payload list or None)."""
    k = rng.range(1, 5)
    pays = [rng.bytes(rng.choice([0, 1, 5, 20, 60, 200, 508, 509, 600])) for _ in range(k)]
    data = b"".join(struct.pack(">i", len(p)) + p for p in pays)
    tail = rng.choice([b"", b"", b"", b"\x00", b"\x00\x00\x00", struct.pack(">i", 9) + b"abc", struct.pack(">i", -1)])
    mode = rng.choice([0, 0, 1, 2, rng.range(3, 1 << 30)])
    return "frames %d %s" % (mode, lib.hexs(data + tail)), pays, tail


def mutate(rng, b):
    b = bytearray(b)
    if not b:
        return bytes(b)
    k = rng.below(4)
    if k == 0:
        b[rng.below(len(b))] ^= 1 << rng.below(8)
    elif k == 1:
        b = b[: rng.below(len(b))]
    elif k == 2:
        i = rng.below(len(b))
        b[i:i] = bytes([0x80] * rng.choice([1, 9, 10]))
    else:
        i = rng.below(len(b))
        b[i] = rng.choice([0, 0x7F, 0x80, 0xFF])
    return bytes(b)


SERVED = {0, 1, 2, 3, 8, 9, 10, 11, 12, 13, 14, 15, 16, 18, 19, 20, 23, 32, 33, 37, 42}   # keys pkg/protocol/api.go declares
BIG_CID = b"k" * 32767


def req_header(key, ver, corr, cid, flex):
    """Request header as a client writes it (empty tagged-field section on flexible versions)."""
    hdr = struct.pack(">hhi", key, ver, corr) + (b"\xff\xff" if cid is None else struct.pack(">H", len(cid)) + cid)
    if key in flex and ver >= flex[key]:
        hdr += b"\x00"
    return hdr


def body_variants(rng, key, body, full):
    """(label, bytes): the valid body, every truncation (selected ones when not `full`), garbage, trailing bytes."""
    out = [("valid", body)]
    cuts = range(len(body)) if full else sorted({0, 1, len(body) // 2, max(0, len(body) - 1)} & set(range(len(body))))
    out += [("cut", body[:i]) for i in cuts]
    out += [("garbage", rng.bytes(n)) for n in (1, 7, 40)]
    out += [("garbage", b"\xff" * max(1, len(body))), ("garbage", b"\x7f" + body[1:]), ("garbage", mutate(rng, body) if body else b"\x80")]
    out += [("trailing", body + b"\x00"), ("trailing", body + rng.bytes(5))]
    return out


def body_stage_cases(ck, flex, rts, per_kv=1):
    """The cross product {client id: null, empty, short, 32767 bytes} x {body: valid, truncated at every length, garbage, trailing
    bytes} x every kmsg (key, version) (every length for the keys the broker serves): [(label, key, ver, body variant, frame)]."""
    seen, cases, vmaxes = {}, [], {}
    for r in rts:
        f = r.split()
        vmaxes[int(f[1])] = max(vmaxes.get(int(f[1]), 0), int(f[2]))
    for r in rts:
        f = r.split()
        key, ver = int(f[1]), int(f[2])
        if seen.get((key, ver), 0) >= per_kv:
            continue
        seen[(key, ver)] = seen.get((key, ver), 0) + 1
        raw = bytes.fromhex(f[5]) if f[5] != "-" else b""
        parsed = ref_header(raw, flex)
        if not parsed.startswith("ok"):
            continue
        b = parsed.split("body=")[1]
        body = bytes.fromhex(b) if b != "-" else b""
        served = key in SERVED
        corr = ck.rng.choice([0, 1, -1, 2 ** 31 - 1, -2 ** 31, ck.rng.below(2 ** 31)])
        for label, var in body_variants(ck.rng, key, body, served):
            for cname, cid in (("null", None), ("empty", b""), ("short", b"c")) if (served or label != "cut") else (("null", None), ("short", b"c")):
                cases.append(("%s:%s" % (label, cname), key, ver, var, req_header(key, ver, corr, cid, flex) + var))
        if served and (ver == vmaxes[key] or (key == 18 and ver in (0, flex.get(18, 3)))):
            # the longest client id a header can carry (32767 bytes; costly for the model's interpreter, hence one version per served
            # key, ApiVersions also at v0 and its first flexible version), with a half / valid / empty / garbage body
            big = [("cut", body[:len(body) // 2])]
            if key == 18 or key % 2 == 1:
                big.append(("valid", body))
            if key == 18:
                big += [("cut", b""), ("garbage", b"\xff" * 9)]
            for label, var in big:
                cases.append(("%s:max" % label, key, ver, var, req_header(key, ver, corr, BIG_CID, flex) + var))
    # keys kmsg does not know: the `unsupported api key` path, with and without a client id
    for key in (200, -1, 32767, 7000):
        for cid in (None, b"", b"c"):
            cases.append(("unknown-key:" + ("null" if cid is None else "cid"), key, 0, b"\x00\x01", req_header(key, 0, 5, cid, flex) + b"\x00\x01"))
    return cases


def body_stage_ops(ck, binary, flexline, flex, rts, per_kv=1):
    """Oracle pass (kmsg alone on each body variant: `kdec`), then the `preq <oracle> <frame>` ops."""
    cases = body_stage_cases(ck, flex, rts, per_kv)
    kops = sorted({"kdec %d %d %s" % (k, v, lib.hexs(var)) for _, k, v, var, _ in cases})
    impl, _, alive = run_ops(ck, binary, [flexline] + kops, "kdec")
    if not alive:
        return None
    oracle = dict(zip(kops, impl[1:]))
    ops = []
    PREQ_LABEL.clear()
    for label, k, v, var, frame in cases:
        o = oracle["kdec %d %d %s" % (k, v, lib.hexs(var))].split()[-1]
        ck.count("kmsg-oracle:%s:%s" % (label.split(":")[0], o))
        if label.startswith("valid") and o != "ok":
            ck.violation("roundtrip-mismatch", "kmsg rejects the body it encoded itself for key %d v%d (%s)" % (k, v, o),
                         {"ops": [flexline, "kdec %d %d %s" % (k, v, lib.hexs(var))], "actual": "kdec " + o})
        op = "preq %s %s" % (o, lib.hexs(frame))
        PREQ_LABEL[op] = label
        ops.append(op)
    ck.count("body_stage_cases", len(ops))
    return ops


PREQ_LABEL = {}


FLEX = {}     # kmsg's flexibility table, taken from the `flex` op every op file starts with (replays carry it too)
ENC = {}      # enc op -> header bytes the generator wrote into the following hdr op


def monitor_line(op, out):
    """The property on one implementation line: (fingerprint, what) or None."""
    f = op.split()
    if f[0] == "flex":
        FLEX.clear()
        FLEX.update({int(a.split(":")[0]): int(a.split(":")[1]) for a in f[1:]})
        return None
    if f[0] == "hdr" and FLEX and "panic" not in out.split():
        raw = bytes.fromhex(f[1]) if f[1] != "-" else b""
        want = ref_header(raw, FLEX)
        if out != want:
            if want.startswith("ok"):
                return ("wellformed-header-not-parsed-back",
                        "a request header that is well formed by the Kafka protocol (incl. its tagged-field section) did not parse back to its "
                        "fields and exactly the bytes after it: expected %s" % want[:200])
            return "header-parse-differs-from-format", "ParseRequestHeader accepted bytes the header format rejects (expected err)"
    if f[0] == "skip" and "panic" not in out.split():
        raw = bytes.fromhex(f[1]) if f[1] != "-" else b""
        pos = ref_skip_tagged(raw, 0)
        want = "err" if pos is None else "ok %d" % pos
        if out != want:
            return ("tagged-section-not-consumed-exactly",
                    "SkipTaggedFields did not consume exactly the tagged-field section (expected %s)" % want)
    if "panic" in out.split():
        what = {"hdr": "ParseRequestHeader", "skip": "SkipTaggedFields", "frame": "ReadFrame", "rt": "ParseRequest", "preq": "ParseRequest"}.get(f[0], f[0])
        if f[0] == "preq" and FLEX:
            raw = bytes.fromhex(f[2]) if f[2] != "-" else b""
            h = ref_header(raw, FLEX)
            if h.startswith("ok"):
                w = h.split()
                what += " (request %s v%s, client id %s, body %s)" % (
                    kmsg_name(w[1]), w[2], "NULL" if w[4] == "cid=null" else "of %d bytes" % (0 if w[4] == "cid=-" else (len(w[4]) - 4) // 2),
                    {"ok": "decodable", "err": "truncated/malformed (kmsg returns an error)", "unk": "of a key kmsg does not know"}.get(f[1], f[1]))
        return "decoder-panic", "%s of client bytes panicked" % what
    if f[0] == "preq" and FLEX:
        # ParseRequest by the format: the header as the protocol guide reads it; then kmsg's verdict on the body (the `kdec` oracle)
        raw = bytes.fromhex(f[2]) if f[2] != "-" else b""
        h = ref_header(raw, FLEX)
        if not h.startswith("ok") or int(h.split()[1]) not in FLEX or f[1] != "ok":
            want = "err"
        else:
            want = h.split(" body=")[0]
        if out != want:
            return ("request-parse-differs-from-format",
                    "ParseRequest (header + body) of a %s request: expected %s (header by the protocol guide, body verdict %s by kmsg alone)" % (
                        "well-formed" if want != "err" else "malformed", want[:120], f[1]))
    if f[0] == "rt" and out != "rt ok":
        return "roundtrip-mismatch", "request key %s v%s encoded by kmsg's RequestFormatter did not parse back to the same header/body: %s" % (f[1], f[2], out[:120])
    if f[0] == "frames" and out.startswith("frames"):
        # independent reading of the stream: length-prefixed payloads until what is left is not a whole frame
        raw = bytes.fromhex(f[2]) if f[2] != "-" else b""
        want, pos = [], 0
        while len(raw) - pos >= 4:
            n = struct.unpack(">i", raw[pos:pos + 4])[0]
            if n < 0 or len(raw) - pos - 4 < n:
                break
            want.append(raw[pos + 4:pos + 4 + n])
            pos += 4 + n
        got = out.split("payloads=")[1].split(" end=")[0]
        got = [] if got == "" else [bytes.fromhex(x) if x != "-" else b"" for x in got.split("|")]
        if got != want:
            return ("pipelined-frames-lost-or-corrupted",
                    "%d frames written back to back on one connection: ReadFrame returned %d payloads / different bytes "
                    "(bytes after the first frame were consumed or dropped)" % (len(want), len(got)))
    if f[0] == "frame" and not out.startswith("ok"):
        raw = bytes.fromhex(f[1]) if f[1] != "-" else b""
        if len(raw) >= 4 and 0 <= struct.unpack(">i", raw[:4])[0] <= len(raw) - 4:
            return "frame-roundtrip-rejected", "ReadFrame rejected a well-formed frame (length prefix + that many bytes)"
    if f[0] == "frame" and out.startswith("ok"):
        raw = bytes.fromhex(f[1]) if f[1] != "-" else b""
        n = struct.unpack(">i", raw[:4])[0]
        w = out.split()
        if len(w) != 3:
            return "frame-length-mismatch", "ReadFrame returned a payload whose length differs from Frame.Length"
        pay = bytes.fromhex(w[1]) if w[1] != "-" else b""
        rest = w[2][5:]
        rest = bytes.fromhex(rest) if rest != "-" else b""
        if len(pay) != n or raw[4:] != pay + rest:
            return "frame-not-exact", "ReadFrame did not return exactly the declared bytes / did not leave the rest of the stream"
    if f[0] == "hdr" and out.startswith("ok"):
        raw = bytes.fromhex(f[1]) if f[1] != "-" else b""
        body = out.split("body=")[1]
        body = bytes.fromhex(body) if body != "-" else b""
        if not raw.endswith(body):
            return "body-not-suffix", "ParseRequestHeader returned a body that is not a suffix of the payload"
    return None


def run_ops(ck, binary, ops, tag):
    """Runs the op file through the implementation; on process death bisects to the killing op."""
    fn = ck.path("ops_%s.txt" % tag)
    open(fn, "w").write("\n".join(ops) + "\n")
    for limit in (180, 1500):
        rc, out, err = ck.run_bin(binary, stdin_path=fn, mem_gb=3, timeout=limit)
        impl = out.split("\n")[:-1]
        if rc != 124 or len(impl) >= len(ops):
            break
        # ran out of time: a decoder that hangs on the op after the last answered line, or a starved machine?
        # The op is re-run on its own; only if it does not answer alone either is it reported (below).
        f1 = ck.path("ops_%s_alone.txt" % tag)
        open(f1, "w").write(ops[0] + "\n" + ops[len(impl)] + "\n")
        rc1, out1, _ = ck.run_bin(binary, stdin_path=f1, mem_gb=3, timeout=120)
        if rc1 != 0 or len(out1.split("\n")[:-1]) != 2:
            break
        ck.count("op-file-rerun-after-timeout-on-loaded-machine")
    if rc != 0 or len(impl) != len(ops):
        # a fatal runtime error kills the process: the op after the last answered line did it
        k = len(impl)
        if k < len(ops):
            ck.violation("decoder-crash", "the process died (fatal error) while decoding client bytes: %s" % err[-300:],
                         {"ops": [ops[0], ops[k]], "actual": "process exit %s" % rc})
        return impl, fn, False
    return impl, fn, True


def build_ops(ck, binary):
    rc, flexline, err = ck.run_bin(binary, args=["flex"])
    if rc != 0 or not flexline.startswith("flex"):
        raise RuntimeError("flex dump failed: " + err[-400:])
    flexline = flexline.strip()
    flex = {int(a.split(":")[0]): int(a.split(":")[1]) for a in flexline.split()[1:]}
    rounds = 2 if ck.quick() else 12
    rc, rts, err = ck.run_bin(binary, args=["gen", str(ck.rng.next() % (1 << 62)), str(rounds)])
    if rc != 0:
        raise RuntimeError("gen failed: " + err[-400:])
    rts = rts.split("\n")[:-1]
    ops = [flexline]
    # (a) exhaustive short suffixes after a flexible header prefix
    for a in range(256):
        ops.append("hdr " + (PRE + bytes([a])).hex())
    for a in range(256):
        for b in range(256):
            ops.append("hdr " + (PRE + bytes([a, b])).hex())
    third = [0, 1, 2, 0x7F, 0x80, 0x81, 0xFF] if ck.quick() else list(range(256))
    firsts = [1, 2] if ck.quick() else [0, 1, 2, 3, 0x80, 0xFF]
    for a in firsts:
        for b in range(256):
            for c in third:
                ops.append("hdr " + (PRE + bytes([a, b, c])).hex())
    ck.count("exhaustive_suffix_ops", len(ops) - 1)
    # (b) the known killer and its neighbours
    for size in BOUND_SIZES:
        ops.append("hdr " + (PRE + b"\x01\x00" + uvarint(size)).hex())
        ops.append("hdr " + (PRE + b"\x01\x00" + uvarint(size) + b"\x00" * 4).hex())
        ops.append("skip " + (b"\x01\x00" + uvarint(size) + b"\xaa\xbb").hex())
    # (c) round trips from the kmsg formatter, then the same payloads as plain hdr ops and mutated
    ops += rts
    n_mut = 1 if ck.quick() else 4
    for r in rts:
        pay = r.split()[5]
        ops.append("hdr " + pay)
        raw = bytes.fromhex(pay) if pay != "-" else b""
        for _ in range(n_mut):
            ops.append("hdr " + lib.hexs(mutate(ck.rng, raw[:64])))
    # (d) generated headers / tagged sections / frames
    n = 3000 if ck.quick() else 30000
    for _ in range(n):
        ops.append("hdr " + lib.hexs(gen_header(ck.rng, flex)))
    for _ in range(n // 2):
        ops.append("skip " + lib.hexs(gen_tagged(ck.rng)))
    for _ in range(n // 3):
        ops.append("frame " + lib.hexs(gen_frame(ck.rng)))
    for _ in range(n // 4):
        ops.append(gen_stream(ck.rng)[0])
    # (e) well-formed headers with NON-EMPTY tagged-field sections + a body: the encoder of parseHeader_encode_tags (model) against
    #     Go's encoding/binary (`enc`), the parse of header ++ body, and SkipTaggedFields on section ++ trailing bytes
    ENC.clear()
    for _ in range(n // 5):
        op, hdr, section, body, _ = gen_wf_tagged(ck.rng, flex)
        ENC[op] = hdr
        ops.append(op)
        ops.append("hdr " + lib.hexs(hdr + body))
        ops.append("skip " + lib.hexs(section + body))
    ck.count("wellformed_tagged_header_cases", n // 5)
    # (f) the int16 string-length bound: client ids of 32766 / 32767 bytes round-trip, 32768..65534 wrap to a negative length
    #     (rejected), 65535 reads as -1 = null (C11's nonflex_string_* theorems are about this wire type)
    for ln in (32766, 32767, 32768, 40000, 65534, 65535):
        cid = bytes([0x61 + ln % 7]) * ln
        op = "enc 18 0 %d %s -" % (ln, lib.hexs(cid))
        hdr = struct.pack(">hhiH", 18, 0, ln, ln) + cid
        ENC[op] = hdr
        ops += [op, "hdr " + lib.hexs(hdr + b"\x01\x02")]
    # (g) the BODY stage (ParseRequest = ParseRequestHeader + ParseRequestBody): client id null / empty / short / 32767 bytes x
    #     body valid / cut at every length / garbage / trailing bytes x every kmsg (key, version); kmsg's own verdict on each body
    #     (`kdec`, kmsg alone) is the decoder parameter of the model (parseRequest_total is stated over it)
    bops = body_stage_ops(ck, binary, flexline, flex, rts, 1 if ck.quick() else 3)
    if bops is None:
        return None
    ops += bops
    return ops


def nontrivial(op, out):
    f = op.split()
    if f[0] in ("rt", "enc"):
        return True
    if f[0] == "preq":
        return len(f[2]) > 20   # got past the fixed-size fields into the client id / body stage
    if f[0] == "hdr":
        return out.startswith("ok") or len(f[1]) > 24  # got past the fixed-size fields
    if f[0] == "frames":
        return "n=0" not in out
    return out.startswith("ok") or len(f[1]) > 6


def check_stream(ck, binary, ops, tag):
    impl, fn, alive = run_ops(ck, binary, ops, tag)
    bad = None
    for op, o in zip(ops, impl):
        ck.count(op.split()[0] + ":" + o.split()[0] + ("" if o.split()[0] != "rt" else "-" + o.split()[1]))
        ck.case(op, nontrivial=nontrivial(op, o), sample={"op": op[:100], "impl": o[:100]} if op.startswith("rt") or o.startswith("ok") else None)
        m = monitor_line(op, o)
        if op in ENC and o != "enc " + lib.hexs(ENC[op]) and bad is None:
            ck.broke("generator encoding of a header with tagged fields = encoding/binary's (harness `enc`)",
                     "op %r\nharness  : %s\ngenerator: enc %s" % (op[:300], o[:300], lib.hexs(ENC[op])[:300]))
            return False
        if m and bad is None:
            bad = (op, o, m)
            ck.violation(m[0], m[1], {"ops": [ops[0], op], "expected": "value or error, identical round trip", "actual": o[:300]})
    if not alive:
        return False
    model = ck.lean_run("C10", fn)
    ck.cov["traces_validated_against_impl"] += 1
    d = lib.first_diff(impl, model)
    if d is not None and bad is None:
        ck.cov["disagreements_checked"] += 1
        ck.broke("correspondence model/implementation (pkg/protocol header+frame parsing)",
                 "op %r\nimpl : %s\nmodel: %s" % (ops[d][:300], impl[d][:300] if d < len(impl) else None, model[d][:300] if d < len(model) else None))
        return False
    return bad is None


def run_conc(ck, bins, seed=None, ms=None):
    """Concurrent scenario, plain and under the race detector.  Returns True when clean."""
    seed = seed if seed is not None else ck.rng.next() % (1 << 62)
    ms = ms if ms is not None else (1500 if ck.quick() else 8000)
    clean = True
    for name in ("h", "hr"):
        env = {"GORACE": "halt_on_error=0 exitcode=0"} if name == "hr" else None
        rc, out, err = ck.run_bin(bins[name], args=["conc", str(seed), str(ms)], env=env, timeout=120 + ms // 1000)
        line = (out.strip().split("\n") or [""])[-1]
        op = "conc %d %d" % (seed, ms)
        ck.count("conc:" + ("race-build" if name == "hr" else "plain") + ":" + " ".join(line.split()[:2]))
        if line.startswith("conc ok"):
            ck.cov["evaluations"] += int(line.split("parses=")[1].split()[0])
            ck.case(("conc", name, seed), sample={"op": op + (" (race build)" if name == "hr" else ""), "impl": line})
        elif line.startswith("conc mismatch"):
            clean = False
            w = line.split()
            ck.violation("concurrent-parse-disturbed",
                         "with other goroutines parsing the same API key at other versions, a valid %s v%s request did not parse back to what "
                         "was encoded (%s); sequential parsing of the same frame is correct" % (kmsg_name(w[4]), w[5], w[2]),
                         {"ops": [op, " ".join(w[3:])], "actual": line[:300], "expected": "rt ok for every frame, as in the sequential run"})
        else:
            clean = False
            ck.violation("decoder-crash", "the concurrent parsing scenario died: %s" % (err[-300:] or line),
                         {"ops": [op], "actual": "rc=%s %s" % (rc, line[:200])})
        if name == "hr" and "WARNING: DATA RACE" in err:
            blocks = err.split("WARNING: DATA RACE")[1:]
            hit = [b for b in blocks if "protocol.ParseRequestHeader" in b or "protocol.ParseRequest(" in b or "protocol.ParseRequestBody" in b
                   or "protocol.(*byteReader)" in b]
            if hit:
                clean = False
                ck.violation("data-race-in-request-parsing",
                             "the Go race detector reports a data race inside ParseRequestHeader/ParseRequest when connections parse concurrently",
                             {"ops": [op], "actual": ("WARNING: DATA RACE" + hit[0])[:1500]})
            else:
                ck.notes.append("race detector reported a race outside pkg/protocol parsing (harness?): " + blocks[0][:300])
    return clean


def kmsg_name(k):
    return {"0": "Produce", "1": "Fetch", "2": "ListOffsets", "3": "Metadata", "8": "OffsetCommit", "9": "OffsetFetch", "10": "FindCoordinator",
            "11": "JoinGroup", "12": "Heartbeat", "13": "LeaveGroup", "14": "SyncGroup", "15": "DescribeGroups", "16": "ListGroups",
            "18": "ApiVersions", "19": "CreateTopics", "20": "DeleteTopics", "23": "OffsetForLeaderEpoch", "32": "DescribeConfigs",
            "33": "AlterConfigs", "37": "CreatePartitions", "42": "DeleteGroups"}.get(k, "key " + k)


def run(ck):
    bins = ck.build_all()
    if bins is None:
        return
    ck.cov["rule"] = ("ops = hdr/skip/frame/rt lines; exhaustive: every 1- and 2-byte (and selected 3-byte) suffix after a flexible "
                      "header prefix; generated: headers with boundary keys/versions/client-id lengths and tagged sections with "
                      "boundary/lying sizes and over-long varints, well-formed headers with non-empty tagged sections (1..130 fields, tag/size "
                      "boundaries 0/127/128/16383/16384/2^63/2^64-1) + body, frames with lying lengths, every kmsg request key x version "
                      "encoded by kmsg's RequestFormatter plus mutations; body stage (`preq`): client id null/empty/short/32767 bytes x body "
                      "valid / cut at EVERY length (served keys; selected lengths for the other kmsg keys) / garbage / trailing bytes x every kmsg "
                      "(key, version), kmsg's own verdict on the body (`kdec`) being the decoder input of the model.  Non-trivial = parsed ok, or long enough to get past "
                      "the fixed-size fields; distinct = distinct op lines")
    ops = build_ops(ck, bins["h"])
    if ops is None:
        return      # the kmsg oracle pass died: reported as decoder-crash
    ck.cov["exhaustive"] = True
    ck.partial = ("the header/frame theorems are complete (round trip for every well-formed tagged-field section) and ParseRequestBody's own "
                  "logic (unknown key, decode error path, header passed through) is modelled and proved total; the request BODY "
                  "codec itself is kmsg's (a parameter of the proof: its verdict is an input, exercised for every key x version and every truncation, not modelled)")
    ok = check_stream(ck, bins["h"], ops, "main")
    run_conc(ck, bins)
    if not ok and not ck.violations:
        # hunt: fresh generated streams, monitor only
        for i in range(5):
            ck.rng = ck.rng.fork()
            hops = [ops[0]] + ["hdr " + lib.hexs(gen_header(ck.rng, {})) for _ in range(20000)]
            impl, _, _ = run_ops(ck, bins["h"], hops, "hunt%d" % i)
            for op, o in zip(hops, impl):
                ck.cov["evaluations"] += 1
                m = monitor_line(op, o)
                if m:
                    ck.violation(m[0], m[1], {"ops": [hops[0], op], "actual": o[:300]})
                    return


def replay(ck, path):
    import json
    rep = json.load(open(path))
    bins = ck.build_all()
    if bins is None:
        return
    ops = rep["ops"]
    if ops and ops[0].startswith("conc "):
        # concurrency failures need the concurrent context: re-run the scenario with the recorded seed (3 attempts)
        _, seed, ms = ops[0].split()
        for attempt in range(3):
            if not run_conc(ck, bins, int(seed) + attempt, max(int(ms), 3000)):
                break
        ck.cov["distinct_nontrivial"] = max(ck.cov["distinct_nontrivial"], 2)
        return
    impl, fn, alive = run_ops(ck, bins["h"], ops, "replay")
    for op, o in zip(ops, impl):
        print("  %-60s -> %s" % (op[:60], o[:100]))
        ck.case(op, sample={"op": op[:100], "impl": o[:100]})
        m = monitor_line(op, o)
        if m:
            ck.violation(m[0], m[1], {"ops": ops, "actual": o[:300]})
    ck.cov["distinct_nontrivial"] = max(ck.cov["distinct_nontrivial"], 2)
