/-! Prelude: Go outcomes, Go slice/make semantics, small list helpers.  Core Lean only. -/
namespace KafVerif

/-- Outcome of a Go call: value, returned error, or run-time panic. -/
inductive GoResult (α : Type) where
  | ok (a : α)
  | err
  | panic
deriving Repr, DecidableEq

namespace GoResult
def bind {α β} (r : GoResult α) (f : α → GoResult β) : GoResult β :=
  match r with
  | .ok a => f a
  | .err => .err
  | .panic => .panic
instance : Monad GoResult where
  pure := .ok
  bind := bind
def isPanic {α} : GoResult α → Bool
  | .panic => true
  | _ => false
def tag {α} : GoResult α → String
  | .ok _ => "ok"
  | .err => "err"
  | .panic => "panic"
end GoResult

abbrev Bytes := List UInt8

/-- Go `b[i:j]` on a slice of length `b.length` (capacity = length): panics exactly when Go does. -/
def goSlice (b : Bytes) (i j : Int) : GoResult Bytes :=
  if 0 ≤ i ∧ i ≤ j ∧ j ≤ b.length then .ok ((b.drop i.toNat).take (j - i).toNat) else .panic

/-- Bound standing for "an allocation Go cannot satisfy" (make panics / runtime dies above it). -/
def AllocMax : Nat := 2 ^ 31

/-- Go `make([]T, n)` / `make([]T, 0, n)` with element size `elem`. -/
def goMake (n : Int) (elem : Nat) : GoResult Unit :=
  if n < 0 then .panic else if n.toNat * elem > AllocMax then .panic else .ok ()

end KafVerif
