import KafVerif.Prelude.Basic
/-! Hex <-> bytes for the line protocol (driver side only; nothing is proved about it). -/
namespace KafVerif

def hexDigit (n : Nat) : Char :=
  if n < 10 then Char.ofNat (48 + n) else Char.ofNat (87 + n)

def toHex (b : Bytes) : String :=
  if b.isEmpty then "-" else
  String.ofList (b.flatMap fun x => [hexDigit (x.toNat / 16), hexDigit (x.toNat % 16)])

def hexVal (c : Char) : Option Nat :=
  if '0' ≤ c ∧ c ≤ '9' then some (c.toNat - 48)
  else if 'a' ≤ c ∧ c ≤ 'f' then some (c.toNat - 87)
  else if 'A' ≤ c ∧ c ≤ 'F' then some (c.toNat - 55)
  else none

def fromHexChars : List Char → Option Bytes
  | [] => some []
  | [_] => none
  | a :: b :: rest => do
    let x ← hexVal a
    let y ← hexVal b
    let r ← fromHexChars rest
    pure (UInt8.ofNat (x * 16 + y) :: r)

def fromHex (s : String) : Option Bytes :=
  if s = "-" then some [] else fromHexChars s.toList

end KafVerif
