import KafVerif.Prelude.Hex
/-! Line-protocol loop shared by the drivers under `lean/Driver/` (one op per line in, one
result line out).  Not part of any theorem. -/
namespace KafVerif

def words (line : String) : List String :=
  (line.trimAscii.toString.splitOn " ").filter (· ≠ "")

partial def lineLoop {σ : Type} (h : IO.FS.Stream) (s : σ) (step : σ → List String → σ × String) : IO Unit := do
  let line ← h.getLine
  if line.isEmpty then return ()
  let ws := words line
  if ws.isEmpty || (ws.head!.startsWith "#") then
    lineLoop h s step
  else
    let (s', out) := step s ws
    IO.println out
    lineLoop h s' step

def runLines {σ : Type} (init : σ) (step : σ → List String → σ × String) : IO Unit := do
  lineLoop (← IO.getStdin) init step

def joinWith (sep : String) (xs : List String) : String := sep.intercalate xs

end KafVerif
