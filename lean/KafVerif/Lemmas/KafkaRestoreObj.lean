import KafVerif.Lemmas.KafkaPitr
/-!
C08, object level of a *successful* restore: `copyParts` (the copy loops of
`RecoverTopicToTimestamp` with the S3 fault oracle) refines a fault-free specification
`specParts` — a pure function of the source objects that lists the uploads of a run — and, when
the upload keys are pairwise different, the target topic afterwards holds exactly these uploads.

Core Lean only.
-/
set_option linter.unusedSimpArgs false
set_option linter.unusedVariables false
set_option linter.unusedSectionVars false
namespace KafVerif.Kafka

/-- one uploaded pair of objects -/
structure Upload where
  key : Key
  seg : Bytes
  idx : Bytes
deriving DecidableEq, Repr

/-- the plan `copyOne` computes for a candidate from the stored source objects (no S3 faults) -/
def planOf (crc : Bytes → Nat) (mk : Alloc) (T : Int) (segs idxs : Objs) (x : Src) (isLast : Bool) : GoResult Plan :=
  match oget segs x.key with
  | none => .err
  | some sb =>
    match oget idxs x.key with
    | none => .err
    | some ib =>
      if isLast then buildRestorePlan crc mk sb ib T x.created
      else .ok ⟨sb, ib, x.key.base, x.last, true⟩

/-- uploads of the candidate loop of one partition; `none` = the fault-free run fails -/
def specSegs (crc : Bytes → Nat) (mk : Alloc) (T : Int) (segs idxs : Objs) : List Src → Option (List Upload)
  | [] => some []
  | x :: rest =>
    match planOf crc mk T segs idxs x rest.isEmpty with
    | .ok plan =>
      if plan.keep then
        (specSegs crc mk T segs idxs rest).map (fun us => ⟨⟨1, x.key.part, plan.base⟩, plan.seg, plan.idx⟩ :: us)
      else some []
    | _ => none

/-- uploads of the partition loop -/
def specParts (crc : Bytes → Nat) (mk : Alloc) (T : Int) (segs idxs : Objs) : List (Int × List Src) → Option (List Upload)
  | [] => some []
  | (_, ss) :: t =>
    match specSegs crc mk T segs idxs (ss.take (lastCandidate T ss + 1)), specParts crc mk T segs idxs t with
    | some a, some b => some (a ++ b)
    | _, _ => none

/-! ### object maps -/

theorem find_filter_ne (m : Objs) (k k' : Key) (h : k' ≠ k) :
    (m.filter (fun e => e.1 ≠ k)).find? (fun e => e.1 = k') = m.find? (fun e => e.1 = k') := by
  induction m with
  | nil => rfl
  | cons e t ih =>
    by_cases hk : e.1 = k
    · have he : ¬ e.1 = k' := by rw [hk]; exact fun x => h x.symm
      rw [List.filter_cons_of_neg (by simp [hk]), List.find?_cons_of_neg (by simp [he]), ih]
    · rw [List.filter_cons_of_pos (by simp [hk])]
      by_cases he : e.1 = k'
      · rw [List.find?_cons_of_pos (by simp [he]), List.find?_cons_of_pos (by simp [he])]
      · rw [List.find?_cons_of_neg (by simp [he]), List.find?_cons_of_neg (by simp [he]), ih]

theorem oget_oput_ne (m : Objs) (k k' : Key) (v : Bytes) (h : k' ≠ k) : oget (oput m k v) k' = oget m k' := by
  unfold oget oput
  have h1 : ¬ (k = k') := fun e => h e.symm
  simp only [List.find?_cons, h1, decide_false, find_filter_ne m k k' h]

theorem oget_mem {m : Objs} {k : Key} {v : Bytes} (h : oget m k = some v) : (k, v) ∈ m := by
  unfold oget at h
  cases hf : m.find? (fun e => e.1 = k) with
  | none => simp [hf] at h
  | some e =>
    simp only [hf, Option.map_some, Option.some.injEq] at h
    have h1 := List.mem_of_find?_eq_some hf
    have h2 := List.find?_some hf
    simp only [decide_eq_true_eq] at h2
    have : e = (k, v) := by cases e; simp_all
    rw [← this]; exact h1

theorem oget_of_mem_nodup {m : Objs} {k : Key} {v : Bytes} (hnd : (m.map (·.1)).Nodup) (h : (k, v) ∈ m) :
    oget m k = some v := by
  induction m with
  | nil => simp at h
  | cons e t ih =>
    simp only [List.map_cons, List.nodup_cons] at hnd
    simp only [List.mem_cons] at h
    unfold oget
    simp only [List.find?_cons]
    rcases h with h | h
    · subst h; simp
    · have hne : e.1 ≠ k := by
        intro he
        apply hnd.1
        rw [he]
        exact List.mem_map.mpr ⟨(k, v), h, rfl⟩
      simp only [hne, decide_false]
      exact ih hnd.2 h

/-! ### one iteration -/

variable {crc : Bytes → Nat} {mk : Alloc} {T : Int}

/-- a successful `copyOne`: the plan is the fault-free one; it either uploaded both objects
(continue) or found nothing to keep (break), and touched nothing else -/
theorem copyOne_ok {seg : Src} {isLast : Bool} {sum sum' : Summary} {st st' : CopySt} {cont : Bool}
    (h : copyOne crc mk T seg isLast sum st = (.ok (sum', cont), st')) :
    ∃ plan, planOf crc mk T st.s3.segs st.s3.idxs seg isLast = .ok plan ∧ plan.keep = cont ∧
      (cont = true →
        st'.s3.segs = oput st.s3.segs ⟨1, seg.key.part, plan.base⟩ plan.seg ∧
        st'.s3.idxs = oput st.s3.idxs ⟨1, seg.key.part, plan.base⟩ plan.idx ∧
        st'.copied = st.copied ++ [⟨1, seg.key.part, plan.base⟩] ∧
        sum' = { sum with copied := sum.copied + 1, last := plan.last }) ∧
      (cont = false → st'.s3.segs = st.s3.segs ∧ st'.s3.idxs = st.s3.idxs ∧ st'.copied = st.copied ∧ sum' = sum) := by
  unfold copyOne at h
  simp only at h
  split at h
  · simp at h
  · split at h
    · simp at h
    · rename_i segBytes hseg
      split at h
      · simp at h
      · split at h
        · simp at h
        · rename_i idxBytes hidx
          split at h
          · simp at h
          · simp at h
          · rename_i plan hplan
            have hp : planOf crc mk T st.s3.segs st.s3.idxs seg isLast = .ok plan := by
              unfold planOf
              simp only [S3.bump] at hseg hidx
              rw [hseg, hidx]
              exact hplan
            split at h
            · rename_i hk
              simp only [Prod.mk.injEq, GoResult.ok.injEq] at h
              obtain ⟨⟨hs, hc⟩, hst⟩ := h
              refine ⟨plan, hp, ?_, ?_, ?_⟩
              · rw [← hc]; simpa using hk
              · intro hc'; rw [hc'] at hc; exact absurd hc (by simp)
              · intro _; subst hst; exact ⟨rfl, rfl, rfl, hs.symm⟩
            · rename_i hk
              split at h
              · simp at h
              · split at h
                · simp at h
                · simp only [Prod.mk.injEq, GoResult.ok.injEq] at h
                  obtain ⟨⟨hs, hc⟩, hst⟩ := h
                  refine ⟨plan, hp, ?_, ?_, ?_⟩
                  · rw [← hc]; simpa using hk
                  · intro _; subst hst; exact ⟨rfl, rfl, rfl, hs.symm⟩
                  · intro hc'; rw [hc'] at hc; exact absurd hc (by simp)


/-! ### the copy loops refine the specification -/

/-- objects outside the target topic read as in the initial store -/
def SrcSame (segs0 idxs0 : Objs) (st : CopySt) : Prop :=
  (∀ k : Key, k.topic ≠ 1 → oget st.s3.segs k = oget segs0 k) ∧
  (∀ k : Key, k.topic ≠ 1 → oget st.s3.idxs k = oget idxs0 k)

/-- the target topic holds exactly the uploads `ups` -/
structure Applied (ups : List Upload) (st : CopySt) : Prop where
  segsIn : ∀ u ∈ ups, (u.key, u.seg) ∈ st.s3.segs
  idxsIn : ∀ u ∈ ups, (u.key, u.idx) ∈ st.s3.idxs
  segsOnly : ∀ e ∈ st.s3.segs, e.1.topic = 1 → ∃ u ∈ ups, e = (u.key, u.seg)
  idxsOnly : ∀ e ∈ st.s3.idxs, e.1.topic = 1 → ∃ u ∈ ups, e = (u.key, u.idx)
  tgt : ∀ u ∈ ups, u.key.topic = 1

variable {segs0 idxs0 : Objs}

theorem planOf_congr {segs idxs : Objs} (x : Src) (isLast : Bool) (h1 : oget segs x.key = oget segs0 x.key)
    (h2 : oget idxs x.key = oget idxs0 x.key) :
    planOf crc mk T segs idxs x isLast = planOf crc mk T segs0 idxs0 x isLast := by
  unfold planOf; rw [h1, h2]

theorem srcSame_upload {st st' : CopySt} {tk : Key} {v w : Bytes} (h : SrcSame segs0 idxs0 st) (htk : tk.topic = 1)
    (hs : st'.s3.segs = oput st.s3.segs tk v) (hi : st'.s3.idxs = oput st.s3.idxs tk w) : SrcSame segs0 idxs0 st' := by
  constructor
  · intro k hk
    rw [hs, oget_oput_ne _ _ _ _ (by intro e; rw [e] at hk; exact hk htk)]
    exact h.1 k hk
  · intro k hk
    rw [hi, oget_oput_ne _ _ _ _ (by intro e; rw [e] at hk; exact hk htk)]
    exact h.2 k hk

theorem applied_upload {ups : List Upload} {st st' : CopySt} {tk : Key} {v w : Bytes} (h : Applied ups st)
    (hfresh : tk ∉ ups.map (·.key)) (htk : tk.topic = 1)
    (hs : st'.s3.segs = oput st.s3.segs tk v) (hi : st'.s3.idxs = oput st.s3.idxs tk w) :
    Applied (ups ++ [⟨tk, v, w⟩]) st' := by
  have hne : ∀ u ∈ ups, u.key ≠ tk := by
    intro u hu e
    exact hfresh (List.mem_map.mpr ⟨u, hu, e⟩)
  constructor
  · intro u hu
    rw [hs]
    simp only [List.mem_append, List.mem_singleton] at hu
    rcases hu with hu | rfl
    · exact mem_oput.mpr (Or.inr ⟨h.segsIn u hu, hne u hu⟩)
    · exact mem_oput.mpr (Or.inl rfl)
  · intro u hu
    rw [hi]
    simp only [List.mem_append, List.mem_singleton] at hu
    rcases hu with hu | rfl
    · exact mem_oput.mpr (Or.inr ⟨h.idxsIn u hu, hne u hu⟩)
    · exact mem_oput.mpr (Or.inl rfl)
  · intro e he ht
    rw [hs] at he
    rcases mem_oput.mp he with rfl | ⟨hm, _⟩
    · exact ⟨⟨tk, v, w⟩, by simp, rfl⟩
    · obtain ⟨u, hu, rfl⟩ := h.segsOnly e hm ht
      exact ⟨u, by simp [hu], rfl⟩
  · intro e he ht
    rw [hi] at he
    rcases mem_oput.mp he with rfl | ⟨hm, _⟩
    · exact ⟨⟨tk, v, w⟩, by simp, rfl⟩
    · obtain ⟨u, hu, rfl⟩ := h.idxsOnly e hm ht
      exact ⟨u, by simp [hu], rfl⟩
  · intro u hu
    simp only [List.mem_append, List.mem_singleton] at hu
    rcases hu with hu | rfl
    · exact h.tgt u hu
    · exact htk

theorem applied_same {ups : List Upload} {st st' : CopySt} (h : Applied ups st)
    (hs : st'.s3.segs = st.s3.segs) (hi : st'.s3.idxs = st.s3.idxs) : Applied ups st' :=
  ⟨by rw [hs]; exact h.segsIn, by rw [hi]; exact h.idxsIn, by rw [hs]; exact h.segsOnly, by rw [hi]; exact h.idxsOnly, h.tgt⟩

/-- **the candidate loop refines `specSegs`** -/
theorem copySegs_ok : ∀ (cands : List Src) (sum sum' : Summary) (st st' : CopySt),
    SrcSame segs0 idxs0 st → (∀ x ∈ cands, x.key.topic ≠ 1) →
    copySegs crc mk T cands sum st = (.ok sum', st') →
    ∃ new, specSegs crc mk T segs0 idxs0 cands = some new ∧ SrcSame segs0 idxs0 st' ∧
      sum'.part = sum.part ∧ sum'.copied = sum.copied + new.length ∧
      ∀ ups, Applied ups st → ((ups ++ new).map (·.key)).Nodup → Applied (ups ++ new) st' := by
  intro cands
  induction cands with
  | nil =>
    intro sum sum' st st' hsrc _ h
    simp only [copySegs, Prod.mk.injEq, GoResult.ok.injEq] at h
    obtain ⟨rfl, rfl⟩ := h
    exact ⟨[], rfl, hsrc, rfl, rfl, fun ups ha _ => by simpa using ha⟩
  | cons x rest ih =>
    intro sum sum' st st' hsrc hc h
    have hx := hc x (by simp)
    unfold copySegs at h
    split at h
    · rename_i s1 st1 heq
      obtain ⟨plan, hp, hk, ht, _⟩ := copyOne_ok heq
      obtain ⟨hs, hi, _, hsum⟩ := ht rfl
      rw [planOf_congr x _ (hsrc.1 _ hx) (hsrc.2 _ hx)] at hp
      have hsrc1 : SrcSame segs0 idxs0 st1 := srcSame_upload hsrc rfl hs hi
      obtain ⟨new, hn, hsrc', hpart, hcnt, happ⟩ := ih s1 sum' st1 st' hsrc1 (fun y hy => hc y (by simp [hy])) h
      refine ⟨⟨⟨1, x.key.part, plan.base⟩, plan.seg, plan.idx⟩ :: new, ?_, hsrc', ?_, ?_, ?_⟩
      · simp only [specSegs, hp, hk, if_true, hn, Option.map_some]
      · rw [hpart, hsum]
      · rw [hcnt, hsum]; simp only [List.length_cons]; omega
      · intro ups ha hnd
        have hfresh : (⟨1, x.key.part, plan.base⟩ : Key) ∉ ups.map (·.key) := by
          intro hm
          simp only [List.map_append, List.map_cons] at hnd
          have := (List.nodup_append.mp hnd).2.2 _ hm ⟨1, x.key.part, plan.base⟩ (by simp)
          exact this rfl
        have ha1 := applied_upload ha hfresh rfl hs hi
        have := happ (ups ++ [⟨⟨1, x.key.part, plan.base⟩, plan.seg, plan.idx⟩]) ha1 (by simpa using hnd)
        simpa using this
    · rename_i s1 st1 heq
      obtain ⟨plan, hp, hk, _, hf⟩ := copyOne_ok heq
      obtain ⟨hs, hi, _, hsum⟩ := hf rfl
      rw [planOf_congr x _ (hsrc.1 _ hx) (hsrc.2 _ hx)] at hp
      simp only [Prod.mk.injEq, GoResult.ok.injEq] at h
      obtain ⟨rfl, rfl⟩ := h
      refine ⟨[], ?_, ?_, by rw [hsum], by rw [hsum]; simp, ?_⟩
      · simp only [specSegs, hp, hk, Bool.false_eq_true, if_false]
      · exact ⟨by intro k hk'; rw [hs]; exact hsrc.1 k hk', by intro k hk'; rw [hi]; exact hsrc.2 k hk'⟩
      · intro ups ha _
        simpa using applied_same ha hs hi
    · simp at h
    · simp at h

/-- **the partition loop refines `specParts`** -/
theorem copyParts_ok : ∀ (ps : List (Int × List Src)) (sums : List Summary) (st st' : CopySt),
    SrcSame segs0 idxs0 st → (∀ g ∈ ps, ∀ x ∈ g.2, x.key.topic ≠ 1) →
    copyParts crc mk T ps st = (.ok sums, st') →
    ∃ new, specParts crc mk T segs0 idxs0 ps = some new ∧ SrcSame segs0 idxs0 st' ∧
      ∀ ups, Applied ups st → ((ups ++ new).map (·.key)).Nodup → Applied (ups ++ new) st' := by
  intro ps
  induction ps with
  | nil =>
    intro sums st st' hsrc _ h
    simp only [copyParts, Prod.mk.injEq, GoResult.ok.injEq] at h
    obtain ⟨_, rfl⟩ := h
    exact ⟨[], rfl, hsrc, fun ups ha _ => by simpa using ha⟩
  | cons g t ih =>
    intro sums st st' hsrc hc h
    obtain ⟨p, ss⟩ := g
    unfold copyParts at h
    simp only at h
    split at h
    · rename_i sum st1 heq
      obtain ⟨a, ha, hsrc1, _, _, happ1⟩ := copySegs_ok (segs0 := segs0) (idxs0 := idxs0) _ _ _ _ _ hsrc
        (fun x hx => hc (p, ss) (by simp) x (List.mem_of_mem_take hx)) heq
      split at h
      · rename_i sums' st2 heq2
        simp only [Prod.mk.injEq, GoResult.ok.injEq] at h
        obtain ⟨_, rfl⟩ := h
        obtain ⟨b, hb, hsrc2, happ2⟩ := ih sums' st1 st2 hsrc1 (fun g hg => hc g (by simp [hg])) heq2
        refine ⟨a ++ b, ?_, hsrc2, ?_⟩
        · simp only [specParts, ha, hb]
        · intro ups hap hnd
          have hnd' : ((ups ++ a ++ b).map (·.key)).Nodup := by simpa [List.append_assoc] using hnd
          have hnda : ((ups ++ a).map (·.key)).Nodup := by
            simp only [List.map_append] at hnd' ⊢
            exact (List.nodup_append.mp hnd').1
          have := happ2 (ups ++ a) (happ1 ups hap hnda) hnd'
          simpa [List.append_assoc] using this
      · rename_i r st2 hne heq2
        simp only [Prod.mk.injEq] at h
        obtain ⟨hr, _⟩ := h
        exact absurd hr (hne sums)
    · simp at h
    · simp at h

end KafVerif.Kafka
