import KafVerif.Lemmas.LeaseInv
/-! Invariant preservation: Release (local step, etcd delete), ReleaseAll (local step, revoke),
session loss, lease expiry, restart, and the fault steps (dropped delete / revoke). -/
namespace KafVerif.Lease

theorem inv_release (s : State) (b r : Nat) (h : Inv s) : Inv (step .byRev s (.release b r)).1 := by
  simp only [step]
  split
  · rename_i v hv
    simp only [setMgr, setOwned, guardOf]
    inv_auto
  · exact h

/-- dropping pending deletes only weakens what has to hold -/
theorem inv_dels_sub (s : State) (ds : List Del) (h : Inv s) (hsub : ∀ d ∈ ds, d ∈ s.dels) : Inv { s with dels := ds } := by
  inv_auto

theorem inv_dropDel (s : State) (i : Nat) (h : Inv s) : Inv (step .byRev s (.dropDel i)).1 := by
  simp only [step]
  exact inv_dels_sub s _ h (fun d hd => List.mem_of_mem_eraseIdx hd)

/-- the guarded delete fires: the key it removes carries exactly the remembered revision, which by
the token invariants is in no ownership entry and in no pending insert -/
theorem inv_del_fire (s : State) (d : Del) (ds : List Del) (k : KV) (v : Nat) (h : Inv s) (hd : d ∈ s.dels)
    (hsub : ∀ x ∈ ds, x ∈ s.dels) (hk : s.kv d.res = some k) (hg : d.guard = .rev v) (hv : k.modRev = v) :
    Inv { setKV { s with dels := ds } d.res none with rev := s.rev + 1 } := by
  simp only [setKV]
  inv_auto

theorem inv_del (s : State) (i : Nat) (h : Inv s) : Inv (step .byRev s (.del i)).1 := by
  simp only [step]
  split
  · rename_i d hd
    have hmem : d ∈ s.dels := List.mem_of_getElem? hd
    have hsub : ∀ x ∈ s.dels.eraseIdx i, x ∈ s.dels := fun x hx => List.mem_of_mem_eraseIdx hx
    split
    · rename_i k hk
      split
      · rename_i hf
        obtain ⟨v, hg⟩ := h.g1 d hmem
        have hv : k.modRev = v := by simpa [delFires, hg] using hf
        exact inv_del_fire s d _ k v h hmem hsub hk hg hv
      · exact inv_dels_sub s _ h hsub
    · exact inv_dels_sub s _ h hsub
  · exact h

end KafVerif.Lease
