import KafVerif.Lemmas.GroupFns
/-!
Generic invariant framework for the group-coordinator model.

An invariant is given per group (`G`, for the groups loaded in the coordinator) and per persisted
group (`P`, for the store).  `Closed` lists what has to be shown about the group-level functions
(`joinCore`, `leaderAssign`, the heartbeat update, `leaveCore`, `cleanupOutcome`, `build`,
`restore`); `inv_step` then carries the invariant through every transition of the model — every
request, tick, cleanup pass, failover, store fault — and `inv_run` to every reachable state.
-/
namespace KafVerif.Group

structure Spec where
  G : Nat → List (Nat × Nat × Nat) → Group → Prop
  P : Nat → List (Nat × Nat × Nat) → PGroup → Prop

def Inv (S : Spec) (s : State) : Prop :=
  (∀ e ∈ s.groups, S.G e.1 s.joinLog e.2) ∧ (∀ e ∈ s.persisted, S.P e.1 s.joinLog e.2)

structure Spec.Closed (S : Spec) : Prop where
  monoG : ∀ g log x st, S.G g log st → S.G g (x :: log) st
  monoP : ∀ g log x p, S.P g log p → S.P g (x :: log) p
  build : ∀ g log st, S.G g log st → S.P g log (build st)
  restore : ∀ g log p now, S.P g log p → S.G g log (restore fixed p now)
  join : ∀ g log st0 mid se rb pt pr nk now, (S.G g log st0 ∨ st0 = newGroup) →
    S.G g ((g, (joinCore fixed st0 mid se rb pt pr nk now).1.gen, (joinCore fixed st0 mid se rb pt pr nk now).2.1) :: log)
      (joinCore fixed st0 mid se rb pt pr nk now).1
  assign : ∀ g log st (s : State), S.G g log st → st.phase = .completing → st.asg.isEmpty = true →
    S.G g log (leaderAssign s st).2
  heartbeat : ∀ g log st mid m now, S.G g log st → lookup st.members mid = some m →
    S.G g log { st with members := insert st.members mid { m with lastHb := now } }
  leave : ∀ g log st mid now, S.G g log st → (erase st.members mid).isEmpty = false → S.G g log (leaveCore st mid now)
  cleanup : ∀ g log st now st', S.G g log st → (cleanupOutcome st now).group? = some st' → S.G g log st'

variable {S : Spec}

theorem Inv.setGroup (h : Inv S s) (hg : S.G g s.joinLog st) : Inv S (setGroup s g st) := by
  refine ⟨?_, h.2⟩
  intro e he
  rcases mem_insert he with rfl | he
  · exact hg
  · exact h.1 e he

theorem Inv.eraseGroup (h : Inv S s) (g : Nat) : Inv S { s with groups := erase s.groups g } := by
  refine ⟨?_, h.2⟩
  intro e he
  exact h.1 e (List.mem_filter.mp he).1

theorem Inv.of_eq {s s' : State} (h : Inv S s) (hg : s'.groups = s.groups) (hp : s'.persisted = s.persisted)
    (hl : s'.joinLog = s.joinLog) : Inv S s' := by
  unfold Inv; rw [hg, hp, hl]; exact h

theorem Inv.persist (hc : S.Closed) (h : Inv S s) (g : Nat) (st : Option Group)
    (hst : ∀ st', st = some st' → S.G g s.joinLog st') : Inv S (persist fixed s g st).1 := by
  unfold KafVerif.Group.persist
  cases st with
  | none =>
    simp only
    split
    · exact h.of_eq rfl rfl rfl
    · refine ⟨h.1, ?_⟩
      intro e he; exact h.2 e (List.mem_filter.mp he).1
  | some st' =>
    simp only
    split
    · split
      · exact h.of_eq rfl rfl rfl
      · refine ⟨h.1, ?_⟩
        intro e he; exact h.2 e (List.mem_filter.mp he).1
    · split
      · exact h.of_eq rfl rfl rfl
      · refine ⟨h.1, ?_⟩
        intro e he
        rcases mem_insert he with rfl | he
        · exact hc.build _ _ _ (hst st' rfl)
        · exact h.2 e he

theorem Inv.load (hc : S.Closed) (h : Inv S s) {g : Nat} {s1 : State} {o : Option Group}
    (hl : loadGroup fixed s g = some (s1, o)) :
    Inv S s1 ∧ (∀ st, o = some st → S.G g s1.joinLog st) := by
  rcases loadGroup_cases fixed s g with ⟨st, hs, h'⟩ | ⟨_, _, h'⟩ | ⟨_, _, _, h'⟩ | ⟨p, _, _, hp, h'⟩ <;> rw [h'] at hl
  · cases hl
    exact ⟨h, fun st' hst' => by cases hst'; exact h.1 (g, st) (lookup_some_mem hs)⟩
  · cases hl
  · cases hl
    exact ⟨h, fun st' hst' => by cases hst'⟩
  · cases hl
    have hg : S.G g s.joinLog (restore fixed (cloneGroup fixed p) s.clock) :=
      hc.restore _ _ _ _ (h.2 (g, p) (lookup_some_mem hp))
    exact ⟨Inv.setGroup h hg, fun st' hst' => by cases hst'; exact hg⟩

theorem Inv.log (hc : S.Closed) (h : Inv S s) (x : Nat × Nat × Nat) (u : List Nat) :
    Inv S { s with joinLog := x :: s.joinLog, used := u } :=
  ⟨fun e he => hc.monoG _ _ _ _ (h.1 e he), fun e he => hc.monoP _ _ _ _ (h.2 e he)⟩

theorem Inv.clearFetch (h : Inv S s) : Inv S (clearFetchGroup s) := h.of_eq rfl rfl rfl

theorem Inv.ensure (hc : S.Closed) (h : Inv S s) {g : Nat} {s1 : State} {st0 : Group}
    (he : ensureGroup fixed s g = some (s1, st0)) : Inv S s1 ∧ (S.G g s1.joinLog st0 ∨ st0 = newGroup) := by
  unfold ensureGroup at he
  split at he
  · cases he
  · rename_i s2 st2 hl; cases he
    obtain ⟨hi, hg⟩ := Inv.load hc h hl
    exact ⟨hi, Or.inl (hg _ rfl)⟩
  · rename_i s2 hl; cases he
    exact ⟨(Inv.load hc h hl).1, Or.inr rfl⟩

theorem inv_join (hc : S.Closed) (h : Inv S s) (g mid : Nat) (se rb : Int) (pt : Nat) (pr : Option (Nat × List Nat)) (nk : Nat) :
    Inv S (join fixed s g mid se rb pt pr nk).1 := by
  unfold join
  cases he : ensureGroup fixed s g with
  | none => exact h.clearFetch
  | some x =>
    obtain ⟨s1, st0⟩ := x
    simp only
    obtain ⟨h1, hg0⟩ := Inv.ensure hc h he
    have hj := hc.join g s1.joinLog st0 mid se rb pt pr nk s1.clock hg0
    generalize joinCore fixed st0 mid se rb pt pr nk s1.clock = r at hj ⊢
    -- after setGroup + persist the log grows by the join entry
    have h2 : Inv S { s1 with joinLog := (g, r.1.gen, r.2.1) :: s1.joinLog } := Inv.log hc h1 _ _
    have h3 : Inv S (setGroup { s1 with joinLog := (g, r.1.gen, r.2.1) :: s1.joinLog } g r.1) := Inv.setGroup h2 hj
    have h4 := Inv.persist hc h3 g (some r.1) (fun st' hst' => by cases hst'; exact hj)
    -- the model appends to the log after persisting; both orders give the same groups / persisted / log
    refine Inv.of_eq h4 ?_ ?_ ?_
    · simp only [persist_groups]; rfl
    · simp only [persist_persisted]; rfl
    · simp only [persist_joinLog]; rfl

theorem inv_sync (hc : S.Closed) (h : Inv S s) (g mid : Nat) (gen : Int) : Inv S (sync fixed s g mid gen).1 := by
  have hfin : ∀ (s2 : State) (st : Group), Inv S s2 → S.G g s2.joinLog st → Inv S (syncFinish fixed s2 g st mid).1 := by
    intro s2 st hi hg
    unfold syncFinish
    split
    · exact Inv.setGroup hi hg
    · exact Inv.persist hc (Inv.setGroup hi hg) g (some st) (fun st' hst' => by cases hst'; exact hg)
  unfold sync
  split
  · exact h.clearFetch
  · rename_i s1 hl; exact (Inv.load hc h hl).1
  · rename_i s1 st hl
    obtain ⟨h1, hg⟩ := Inv.load hc h hl
    have hg := hg st rfl
    split
    · exact h1
    · split
      · exact h1
      · split
        · exact h1
        · split
          · rename_i hcomp
            split
            · exact h1
            · refine hfin _ _ (h1.of_eq rfl rfl rfl) ?_
              exact hc.assign g _ st s1 hg hcomp.1 hcomp.2
          · exact hfin _ _ h1 hg

theorem inv_heartbeat (hc : S.Closed) (h : Inv S s) (g mid : Nat) (gen : Int) : Inv S (heartbeat fixed s g mid gen).1 := by
  unfold heartbeat
  split
  · exact h.clearFetch
  · rename_i s1 hl; exact (Inv.load hc h hl).1
  · rename_i s1 st hl
    obtain ⟨h1, hg⟩ := Inv.load hc h hl
    have hg := hg st rfl
    split
    · exact h1
    · rename_i m hm
      split
      · exact h1
      · split
        · exact h1
        · have hg' := hc.heartbeat g s1.joinLog st mid m s1.clock hg hm
          exact Inv.persist hc (Inv.setGroup h1 hg') g _ (fun st' hst' => by cases hst'; exact hg')

theorem inv_leave (hc : S.Closed) (h : Inv S s) (g mid : Nat) : Inv S (leave fixed s g mid).1 := by
  unfold leave
  split
  · exact h.clearFetch
  · rename_i s1 hl; exact (Inv.load hc h hl).1
  · rename_i s1 st hl
    obtain ⟨h1, hg⟩ := Inv.load hc h hl
    have hg := hg st rfl
    split
    · exact h1
    · split
      · exact Inv.persist hc (h1.eraseGroup g) g none (fun st' hst' => by cases hst')
      · rename_i hne
        have hne' : (erase st.members mid).isEmpty = false := by simpa using hne
        have hg' := hc.leave g s1.joinLog st mid s1.clock hg hne'
        exact Inv.persist hc (Inv.setGroup h1 hg') g _ (fun st' hst' => by cases hst'; exact hg')

theorem inv_cleanupGroup (hc : S.Closed) (h : Inv S s) (g : Nat) (st : Group) (hg : S.G g s.joinLog st) :
    Inv S (cleanupGroup fixed s g st) := by
  unfold cleanupGroup
  split
  · exact Inv.persist hc (h.eraseGroup g) g none (fun st' hst' => by cases hst')
  · rename_i st' ho
    have hg' := hc.cleanup g s.joinLog st s.clock st' hg (by rw [ho]; rfl)
    exact Inv.persist hc (Inv.setGroup h hg') g _ (fun st'' hst'' => by cases hst''; exact hg')
  · rename_i st' ho
    have hg' := hc.cleanup g s.joinLog st s.clock st' hg (by rw [ho]; rfl)
    exact Inv.setGroup h hg'

theorem cleanupGroup_joinLog (s : State) (g : Nat) (st : Group) : (cleanupGroup fixed s g st).joinLog = s.joinLog := by
  unfold cleanupGroup
  split
  · rw [persist_joinLog]
  · rw [persist_joinLog]; rfl
  · rfl

theorem inv_cleanup (hc : S.Closed) (h : Inv S s) : Inv S (cleanup fixed s) := by
  unfold cleanup
  -- the fold runs over the snapshot `s.groups`; every snapshot entry satisfies G w.r.t. the (unchanged) log
  have key : ∀ (l : List (Nat × Group)) (acc : State), Inv S acc → acc.joinLog = s.joinLog →
      (∀ e ∈ l, S.G e.1 s.joinLog e.2) → Inv S (l.foldl (fun acc e => cleanupGroup fixed acc e.1 e.2) acc) := by
    intro l
    induction l with
    | nil => intro acc hi _ _; exact hi
    | cons e t ih =>
      intro acc hi hlog hl
      simp only [List.foldl_cons]
      refine ih _ (inv_cleanupGroup hc hi e.1 e.2 (by rw [hlog]; exact hl e (by simp))) ?_ (fun e' he' => hl e' (List.mem_cons_of_mem _ he'))
      rw [cleanupGroup_joinLog, hlog]
  exact key s.groups s h rfl h.1

theorem inv_commit (hc : S.Closed) (h : Inv S s) (g mid : Nat) (gen : Int) (parts : List (Nat × Int × Int × Nat)) :
    Inv S (commit fixed s g mid gen parts).1 := by
  have hw : ∀ (parts : List (Nat × Int × Int × Nat)) (s2 : State), Inv S s2 → Inv S (commitWrites s2 g parts).1 := by
    intro parts
    induction parts with
    | nil => intro s2 hi; exact hi
    | cons e t ih =>
      intro s2 hi
      obtain ⟨tp, p, off, md⟩ := e
      unfold commitWrites
      split
      · exact ih _ (hi.of_eq rfl rfl rfl)
      · exact ih _ (hi.of_eq rfl rfl rfl)
  unfold commit
  split
  · exact h.clearFetch
  · rename_i s1 st hl
    have h1 := (Inv.load hc h hl).1
    split
    · exact hw _ _ h1
    · exact h1

theorem inv_fetch (h : Inv S s) (g : Nat) (parts : List (Nat × Int)) : Inv S (fetch fixed s g parts).1 := by
  have hw : ∀ (parts : List (Nat × Int)) (s2 : State), Inv S s2 → Inv S (fetchRows fixed s2 g parts).1 := by
    intro parts
    induction parts with
    | nil => intro s2 hi; exact hi
    | cons e t ih =>
      intro s2 hi
      obtain ⟨tp, p⟩ := e
      unfold fetchRows
      split
      · exact ih _ (hi.of_eq rfl rfl rfl)
      · exact ih _ hi
  exact hw parts s h

/-- every transition of the model preserves a closed invariant -/
theorem inv_step (hc : S.Closed) (h : Inv S s) (op : Op) : Inv S (step s op).1 := by
  cases op with
  | join g mid se rb pt pr nk => exact inv_join hc h g mid se rb pt pr nk
  | sync g mid gen => exact inv_sync hc h g mid gen
  | heartbeat g mid gen => exact inv_heartbeat hc h g mid gen
  | leave g mid => exact inv_leave hc h g mid
  | commit g mid gen parts => exact inv_commit hc h g mid gen parts
  | fetch g parts => exact inv_fetch h g parts
  | tick d => exact h.of_eq rfl rfl rfl
  | cleanup => exact inv_cleanup hc h
  | failover => exact ⟨by intro e he; simp [step, stepV] at he, h.2⟩
  | load g =>
    simp only [step, stepV]
    split
    · exact h.clearFetch
    · rename_i s1 o hl; exact (Inv.load hc h hl).1
  | fail k => exact h.of_eq rfl rfl rfl
  | setMeta tm => exact h.of_eq rfl rfl rfl

theorem inv_init : Inv S init := ⟨by intro e he; simp [init] at he, by intro e he; simp [init] at he⟩

/-- a closed invariant holds in every reachable state -/
theorem inv_run (hc : S.Closed) (ops : List Op) : Inv S (run init ops) := by
  have : ∀ (s : State), Inv S s → Inv S (run s ops) := by
    induction ops with
    | nil => intro s h; exact h
    | cons op ops ih => intro s h; exact ih _ (inv_step hc h op)
  exact this init inv_init

end KafVerif.Group
