import KafVerif.Model.Group.Coordinator
/-! Lemmas about the association-list helpers and `assignPartitions` of the group-coordinator
model (core Lean only). -/
namespace KafVerif.Group

/-! ### insertion sort / dedup -/

theorem mem_insertNat {l : List Nat} {a x : Nat} : x ∈ insertNat l a ↔ x = a ∨ x ∈ l := by
  induction l with
  | nil => simp [insertNat]
  | cons b t ih =>
    unfold insertNat
    split
    · simp
    · simp [ih]; grind

theorem mem_isort {l : List Nat} {x : Nat} : x ∈ isort l ↔ x ∈ l := by
  induction l with
  | nil => simp [isort]
  | cons a t ih => simp [isort, mem_insertNat, ih]

theorem nodup_insertNat {l : List Nat} {a : Nat} (h : l.Nodup) (ha : a ∉ l) : (insertNat l a).Nodup := by
  induction l with
  | nil => simp [insertNat]
  | cons b t ih =>
    unfold insertNat
    have hb : b ∉ t := (List.nodup_cons.mp h).1
    have ht : t.Nodup := (List.nodup_cons.mp h).2
    split
    · exact List.nodup_cons.mpr ⟨ha, h⟩
    · refine List.nodup_cons.mpr ⟨?_, ih ht (by grind)⟩
      rw [mem_insertNat]; grind

theorem nodup_isort {l : List Nat} (h : l.Nodup) : (isort l).Nodup := by
  induction l with
  | nil => simp [isort]
  | cons a t ih =>
    have := List.nodup_cons.mp h
    exact nodup_insertNat (ih this.2) (by rw [mem_isort]; exact this.1)

theorem mem_dedup {l : List Nat} {x : Nat} : x ∈ dedup l ↔ x ∈ l := by
  induction l with
  | nil => simp [dedup]
  | cons a t ih =>
    unfold dedup
    split
    · rename_i hc
      have : a ∈ t := by simpa using hc
      rw [ih]; grind
    · simp [ih]

/-! ### association lists -/

theorem lookup_some_mem {α : Type} {l : List (Nat × α)} {k : Nat} {v : α} (h : lookup l k = some v) : (k, v) ∈ l := by
  induction l with
  | nil => simp [lookup] at h
  | cons e t ih =>
    obtain ⟨k', v'⟩ := e
    unfold lookup at h
    split at h
    · rename_i hk; subst hk; simp at h; subst h; simp
    · exact List.mem_cons_of_mem _ (ih h)

theorem mem_lookup_isSome {α : Type} {l : List (Nat × α)} {k : Nat} {v : α} (h : (k, v) ∈ l) : (lookup l k).isSome := by
  induction l with
  | nil => simp at h
  | cons e t ih =>
    obtain ⟨k', v'⟩ := e
    unfold lookup
    split
    · simp
    · rename_i hk
      rcases List.mem_cons.mp h with h | h
      · simp at h; exact absurd h.1.symm hk
      · exact ih h

theorem lookup_insert {α : Type} (l : List (Nat × α)) (k k' : Nat) (v : α) :
    lookup (insert l k v) k' = if k = k' then some v else lookup l k' := by
  induction l with
  | nil => simp [insert, lookup]
  | cons e t ih =>
    obtain ⟨k0, v0⟩ := e
    unfold insert
    split
    · simp [lookup]
    · split
      · rename_i h1 h2; subst h2
        simp only [lookup]
        split <;> simp_all
      · rename_i h1 h2
        simp only [lookup, ih]
        split
        · rename_i h3; subst h3
          have : ¬ k = k0 := h2
          simp [this]
        · rfl

theorem mem_insert {α : Type} {l : List (Nat × α)} {k : Nat} {v : α} {e : Nat × α} :
    e ∈ insert l k v → e = (k, v) ∨ e ∈ l := by
  induction l with
  | nil => simp [insert]
  | cons e0 t ih =>
    obtain ⟨k0, v0⟩ := e0
    unfold insert
    split
    · simp only [List.mem_cons]; grind
    · split
      · simp only [List.mem_cons]; grind
      · simp only [List.mem_cons]; grind

theorem mem_insert_self {α : Type} (l : List (Nat × α)) (k : Nat) (v : α) : (k, v) ∈ insert l k v := by
  induction l with
  | nil => simp [insert]
  | cons e0 t ih =>
    obtain ⟨k0, v0⟩ := e0
    unfold insert
    split
    · simp
    · split
      · simp
      · simp [ih]

theorem mem_insert_of_ne {α : Type} {l : List (Nat × α)} {k : Nat} {v : α} {e : Nat × α} (h : e ∈ l) (hk : e.1 ≠ k) :
    e ∈ insert l k v := by
  induction l with
  | nil => simp at h
  | cons e0 t ih =>
    obtain ⟨k0, v0⟩ := e0
    unfold insert
    split
    · exact List.mem_cons_of_mem _ h
    · split
      · rename_i h1 h2; subst h2
        rcases List.mem_cons.mp h with h | h
        · subst h; simp at hk
        · exact List.mem_cons_of_mem _ h
      · rcases List.mem_cons.mp h with h | h
        · subst h; simp
        · exact List.mem_cons_of_mem _ (ih h)

theorem insert_ne_nil {α : Type} (l : List (Nat × α)) (k : Nat) (v : α) : insert l k v ≠ [] := by
  cases l with
  | nil => simp [insert]
  | cons e t =>
    obtain ⟨k0, v0⟩ := e
    unfold insert; split
    · simp
    · split <;> simp

theorem lookup_map_val {α β : Type} (l : List (Nat × α)) (f : Nat × α → β) (k : Nat) :
    lookup (l.map fun e => (e.1, f e)) k = (lookup l k).map fun v => f (k, v) := by
  induction l with
  | nil => simp [lookup]
  | cons e t ih =>
    obtain ⟨k0, v0⟩ := e
    simp only [List.map_cons, lookup]
    split
    · rename_i h; subst h; simp
    · exact ih

theorem lookup_erase {α : Type} (l : List (Nat × α)) (k k' : Nat) :
    lookup (erase l k) k' = if k = k' then none else lookup l k' := by
  induction l with
  | nil => simp [erase, lookup]
  | cons e t ih =>
    obtain ⟨k0, v0⟩ := e
    unfold erase at *
    simp only [List.filter_cons]
    split
    · rename_i h
      have h0 : k0 ≠ k := by simpa using h
      simp only [lookup, ih]
      split
      · rename_i h1; subst h1
        have : ¬ k = k0 := fun hh => h0 hh.symm
        simp [this]
      · rfl
    · rename_i h
      have h0 : k0 = k := by simpa using h
      subst h0
      rw [ih]
      simp only [lookup]
      split <;> simp_all

/-! ### subscribed topics / eligible members -/

theorem mem_subscribedTopics {ms : List (Nat × Member)} {t : Nat} :
    t ∈ subscribedTopics ms ↔ ∃ e ∈ ms, t ∈ e.2.topics := by
  simp [subscribedTopics, mem_isort, mem_dedup, List.mem_flatMap]

theorem subscribes_iff {m : Member} {t : Nat} : subscribes m t = true ↔ t ∈ m.topics := by
  simp [subscribes]

theorem mem_eligible {ms : List (Nat × Member)} {t m : Nat} :
    m ∈ eligible ms t ↔ ∃ mem, (m, mem) ∈ ms ∧ t ∈ mem.topics := by
  simp only [eligible, keys, List.mem_map, List.mem_filter, subscribes_iff]
  constructor
  · rintro ⟨e, ⟨he, ht⟩, rfl⟩; exact ⟨e.2, he, ht⟩
  · rintro ⟨mem, he, ht⟩; exact ⟨(m, mem), ⟨he, ht⟩, rfl⟩

/-! ### round robin -/

theorem rrFrom_fst_mem {elig : List Nat} (hne : elig ≠ []) {i : Nat} {parts : List Nat} {m p : Nat}
    (h : (m, p) ∈ rrFrom elig i parts) : m ∈ elig := by
  induction parts generalizing i with
  | nil => simp [rrFrom] at h
  | cons q qs ih =>
    simp only [rrFrom, List.mem_cons] at h
    rcases h with h | h
    · have hm : m = elig.getD (i % elig.length) 0 := (Prod.mk.inj h).1
      have hlen : 0 < elig.length := List.length_pos_iff.mpr hne
      have hlt : i % elig.length < elig.length := Nat.mod_lt _ hlen
      rw [hm, List.getD_eq_getElem?_getD, List.getElem?_eq_getElem hlt]
      exact List.getElem_mem _
    · exact ih h

theorem rrFrom_snd_mem {elig : List Nat} {i : Nat} {parts : List Nat} {m p : Nat}
    (h : (m, p) ∈ rrFrom elig i parts) : p ∈ parts := by
  induction parts generalizing i with
  | nil => simp [rrFrom] at h
  | cons q qs ih =>
    simp only [rrFrom, List.mem_cons] at h
    rcases h with h | h
    · exact List.mem_cons.mpr (Or.inl (Prod.mk.inj h).2)
    · exact List.mem_cons_of_mem _ (ih h)

theorem rrFrom_covers {elig : List Nat} {i : Nat} {parts : List Nat} {p : Nat} (h : p ∈ parts) :
    ∃ m, (m, p) ∈ rrFrom elig i parts := by
  induction parts generalizing i with
  | nil => simp at h
  | cons q qs ih =>
    rcases List.mem_cons.mp h with h | h
    · subst h; exact ⟨elig.getD (i % elig.length) 0, by simp [rrFrom]⟩
    · obtain ⟨m, hm⟩ := ih (i := i + 1) h
      exact ⟨m, by simp [rrFrom, hm]⟩

theorem rrFrom_unique {elig : List Nat} {i : Nat} {parts : List Nat} (hnd : parts.Nodup) {m m' p : Nat}
    (h : (m, p) ∈ rrFrom elig i parts) (h' : (m', p) ∈ rrFrom elig i parts) : m = m' := by
  induction parts generalizing i with
  | nil => simp [rrFrom] at h
  | cons q qs ih =>
    have hq : q ∉ qs := (List.nodup_cons.mp hnd).1
    have hqs : qs.Nodup := (List.nodup_cons.mp hnd).2
    simp only [rrFrom, List.mem_cons] at h h'
    rcases h with h | h <;> rcases h' with h' | h'
    · rw [(Prod.mk.inj h).1, (Prod.mk.inj h').1]
    · have : p = q := (Prod.mk.inj h).2
      subst this; exact absurd (rrFrom_snd_mem h') hq
    · have : p = q := (Prod.mk.inj h').2
      subst this; exact absurd (rrFrom_snd_mem h) hq
    · exact ih hqs h h'

/-! ### partsFor / assignFor / assignPartitions -/

theorem mem_partsFor {ms : List (Nat × Member)} {tm : List (Nat × List Nat)} {mf : Bool} {m t p : Nat} :
    p ∈ partsFor ms tm mf m t ↔ eligible ms t ≠ [] ∧ (m, p) ∈ roundRobin (eligible ms t) (partsOf tm mf t) := by
  unfold partsFor
  simp only
  split
  · rename_i h
    have : eligible ms t = [] := by simpa using h
    simp [this]
  · rename_i h
    have hne : eligible ms t ≠ [] := by simpa using h
    simp only [mem_isort, List.mem_map, List.mem_filter]
    constructor
    · rintro ⟨e, ⟨he, hm⟩, rfl⟩
      have : e.1 = m := by simpa using hm
      subst this; exact ⟨hne, he⟩
    · rintro ⟨_, he⟩; exact ⟨(m, p), ⟨he, by simp⟩, rfl⟩

/-- a member "owns" partition `p` of topic `t` in its assignment -/
def owns (a : Asg) (t p : Nat) : Prop := ∃ ps, (t, ps) ∈ a ∧ p ∈ ps

theorem owns_assignFor {ms : List (Nat × Member)} {tm : List (Nat × List Nat)} {mf : Bool} {m t p : Nat} :
    owns (assignFor ms tm mf m) t p ↔ p ∈ partsFor ms tm mf m t := by
  unfold owns assignFor
  constructor
  · rintro ⟨ps, hmem, hp⟩
    simp only [List.mem_filterMap] at hmem
    obtain ⟨t', _, h⟩ := hmem
    split at h
    · simp at h
    · simp only [Option.some.injEq, Prod.mk.injEq] at h
      obtain ⟨rfl, rfl⟩ := h; exact hp
  · intro hp
    refine ⟨partsFor ms tm mf m t, ?_, hp⟩
    simp only [List.mem_filterMap]
    refine ⟨t, ?_, ?_⟩
    · rw [mem_subscribedTopics]
      have := (mem_partsFor.mp hp).1
      obtain ⟨x, hx⟩ := List.exists_mem_of_ne_nil _ this
      obtain ⟨mem, hm, ht⟩ := mem_eligible.mp hx
      exact ⟨(x, mem), hm, ht⟩
    · have : ¬ (partsFor ms tm mf m t).isEmpty = true := by
        intro h; have : partsFor ms tm mf m t = [] := by simpa using h
        rw [this] at hp; simp at hp
      simp [this]

theorem partsOf_nodup {tm : List (Nat × List Nat)} {mf : Bool} {t : Nat}
    (h : ∀ ps, lookup tm t = some ps → ps.Nodup) : (partsOf tm mf t).Nodup := by
  unfold partsOf
  split
  · simp
  · split
    · rename_i ps hps
      split
      · simp
      · exact nodup_isort (h ps hps)
    · simp

theorem mem_assignPartitions {ms : List (Nat × Member)} {tm : List (Nat × List Nat)} {mf : Bool} {m : Nat} {a : Asg} :
    (m, a) ∈ assignPartitions ms tm mf ↔ m ∈ keys ms ∧ a = assignFor ms tm mf m := by
  simp only [assignPartitions, keys, List.mem_map, Prod.mk.injEq]
  constructor
  · rintro ⟨e, he, rfl, rfl⟩; exact ⟨⟨e, he, rfl⟩, rfl⟩
  · rintro ⟨⟨e, he, rfl⟩, rfl⟩; exact ⟨e, he, rfl, rfl⟩

end KafVerif.Group
