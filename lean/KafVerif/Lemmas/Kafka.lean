import KafVerif.Model.KafkaRecovery
/-! Helper lemmas shared by the byte-format property files (C07, C08, C34): the `GoResult`
monad, the allocator, Go slices, fixed-width fields.  Core Lean only. -/
namespace KafVerif.Kafka

theorem bind_ne_panic {α β} {x : GoResult α} {f : α → GoResult β}
    (hx : x ≠ .panic) (hf : ∀ a, x = .ok a → f a ≠ .panic) : (x >>= f) ≠ .panic := by
  cases x with
  | ok a => simpa using hf a rfl
  | err => simp
  | panic => exact absurd rfl hx

theorem ofOpt_ne_panic {α} (o : Option α) : ofOpt o ≠ .panic := by
  cases o <;> simp [ofOpt]

theorem ofOpt_eq_ok {α} {o : Option α} {a : α} (h : ofOpt o = .ok a) : o = some a := by
  cases o with
  | none => simp [ofOpt] at h
  | some b => simp [ofOpt] at h; rw [h]

theorem goMakeLim_ok {lim : Nat} {n : Int} {e : Nat} (h0 : 0 ≤ n) (h : n.toNat * e ≤ lim) :
    goMakeLim lim n e = .ok () := by
  unfold goMakeLim
  have h1 : ¬ n < 0 := by omega
  have h2 : ¬ n.toNat * e > lim := by omega
  simp [h1, h2]

theorem readN_eq {n : Nat} {r a b : Bytes} (h : readN n r = some (a, b)) :
    a = r.take n ∧ b = r.drop n ∧ n ≤ r.length := by
  unfold readN at h
  split at h
  · simp only [Option.some.injEq, Prod.mk.injEq] at h; exact ⟨h.1.symm, h.2.symm, by assumption⟩
  · simp at h

theorem goSlice_ok {b : Bytes} {i j : Int} (h0 : 0 ≤ i) (h1 : i ≤ j) (h2 : j ≤ (b.length : Int)) :
    goSlice b i j = .ok ((b.drop i.toNat).take (j - i).toNat) := by
  unfold goSlice
  simp [h0, h1, h2]

theorem readN_append (a rest : Bytes) : readN a.length (a ++ rest) = some (a, rest) := by
  unfold readN
  simp

@[simp] theorem i64be_length (i : Int) : (i64be i).length = 8 := by simp [i64be]
@[simp] theorem i32be_length (i : Int) : (i32be i).length = 4 := by simp [i32be]
@[simp] theorem i16be_length (i : Int) : (i16be i).length = 2 := by simp [i16be]
@[simp] theorem u32be_length (i : Nat) : (u32be i).length = 4 := by simp [u32be]
@[simp] theorem u16be_length (i : Nat) : (u16be i).length = 2 := by simp [u16be]

theorem take_append_len {α} (a b : List α) (n : Nat) (h : a.length = n) : (a ++ b).take n = a := by
  subst h; simp
theorem drop_append_ge {α} (a b : List α) (n : Nat) (h : a.length ≤ n) : (a ++ b).drop n = b.drop (n - a.length) := by
  rw [List.drop_append, List.drop_eq_nil_of_le h]; simp

def InI16 (i : Int) : Prop := -(2:Int) ^ 15 ≤ i ∧ i < 2 ^ 15
instance (i : Int) : Decidable (InI16 i) := by unfold InI16; exact inferInstance

theorem toS16_toU16 {i : Int} (h : InI16 i) : toS16 (toU16 i) = i := by
  unfold InI16 at h; unfold toS16 toU16
  split <;> omega

theorem i16_roundtrip {i : Int} (h : InI16 i) : toS16 (beDec (i16be i)) = i := by
  unfold i16be; rw [beDec_beEnc_of_lt (toU16_lt i)]; exact toS16_toU16 h

theorem u32_roundtrip {n : Nat} (h : n < 2 ^ 32) : beDec (u32be n) = n := by
  unfold u32be; exact beDec_beEnc_of_lt (by simpa using h)

theorem u16_roundtrip {n : Nat} (h : n < 2 ^ 16) : beDec (u16be n) = n := by
  unfold u16be; exact beDec_beEnc_of_lt (by simpa using h)

end KafVerif.Kafka
