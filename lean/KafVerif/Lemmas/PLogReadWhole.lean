import KafVerif.Lemmas.PLogReadSegment
/-!
`PartitionLog.Read` as a whole (segment lookup with snap-forward, cache / range / full-download
paths, flush-window and buffer fallback) on a log that satisfies the invariants of C02 plus
cache/S3 coherence.  Used by Props/C03 (`read_run`) and Props/C04 (`fetch_progress`).
-/
namespace KafVerif.PLog
open KafVerif KafVerif.RecBatch

/-- the segment was produced by `BuildSegment` from framed batches with consistent headers and is
small enough for int32 positions -/
def SegBuilt (iv : Int) (g : Seg) : Prop :=
  g.size = (buildSegment iv g.batches).size ∧ g.entries = (buildSegment iv g.batches).entries ∧
  g.data = (buildSegment iv g.batches).data ∧
  (∀ b ∈ g.batches, Framed b ∧ HdrOK b) ∧ (body g.batches).length + 48 < 2147483648

/-- what the cache and S3 hold for this partition is what the segments were built as (C09 + segment keys
are written once) -/
def Coherent (l : PLog) : Prop :=
  (∀ g ∈ l.segs, s3get l.s3 g.base = some g.data) ∧
  (∀ g ∈ l.segs, ∀ d, cacheGet l.cached g.base = some d → d = g.data)

/-- the segment lookup loop on consecutive segments -/
theorem findSeg_spec {s e : Int} {segs : List Seg} (h : SegChain s segs e) (o : Int) :
    (e ≤ o ∨ segs = [] → findSeg segs o = none) ∧
    (o < e → segs ≠ [] → ∃ pre g post, segs = pre ++ g :: post ∧ (∀ x ∈ segBatches pre, x.last < o) ∧
      findSeg segs o = some (g, if g.base ≤ o then o else g.base) ∧ o ≤ g.last) := by
  induction segs generalizing s with
  | nil => exact ⟨fun _ => rfl, fun _ hne => absurd rfl hne⟩
  | cons g t ih =>
    obtain ⟨h1, h2, h3, h4⟩ := h
    obtain ⟨ih1, ih2⟩ := ih h4
    have hlt := chain_lt h3 h1
    have hle : g.last + 1 ≤ e := chain_le (segchain_chain h4)
    constructor
    · intro heo
      have heo : e ≤ o := by
        rcases heo with h | h
        · exact h
        · simp at h
      simp only [findSeg]
      rw [if_neg (by omega), if_neg (by omega)]
      exact ih1 (Or.inl heo)
    · intro hoe _
      by_cases hin : g.base ≤ o ∧ o ≤ g.last
      · refine ⟨[], g, t, rfl, by simp [segBatches], ?_, hin.2⟩
        simp only [findSeg, if_pos hin, if_pos hin.1]
      · by_cases hbefore : g.base > o
        · refine ⟨[], g, t, rfl, by simp [segBatches], ?_, by omega⟩
          simp only [findSeg, if_neg hin, if_pos hbefore]
          rw [if_neg (by omega)]
        · have htne : t ≠ [] := by
            intro ht
            rw [ht] at h4
            simp only [SegChain] at h4
            omega
          obtain ⟨pre, g', post, hs, hp, hf, hl⟩ := ih2 (by omega) htne
          refine ⟨g :: pre, g', post, by simp [hs], ?_, ?_, hl⟩
          · intro x hx
            simp only [segBatches, List.map_cons, List.flatten_cons, List.mem_append] at hx
            rcases hx with hx | hx
            · have := (KafVerif.C02.chain_strict h3).1 x hx
              omega
            · exact hp x hx
          · simp only [findSeg, if_neg hin, if_neg hbefore]
            exact hf

theorem runFrom_below {s e : Int} {bs : List Batch} (h : Chain s bs e) (o : Int) (ho : o ≤ s) :
    runFrom bs o = bs := by
  cases bs with
  | nil => rfl
  | cons b t =>
    obtain ⟨h1, h2, _⟩ := h
    unfold runFrom
    simp only [List.dropWhile_cons]
    have hx : ¬ (decide (b.last < o) = true) := by
      have : ¬ b.last < o := by simp only [Batch.last]; omega
      simpa using this
    rw [if_neg hx]

theorem prefix_take_append (a b : Bytes) (n : Nat) : (a.take n) <+: (a ++ b) :=
  (List.take_prefix n a).trans (List.prefix_append a b)

/-- **`PartitionLog.Read` on a good log.** -/
theorem read_good {start : Int} {l : PLog} (m0 : Int) (hseg : SegChain start l.segs m0)
    (htail : Chain m0 (l.fl ++ l.buf) l.next) (hbuilt : ∀ g ∈ l.segs, SegBuilt l.interval g)
    (hcoh : Coherent l) (hne : ∀ b ∈ l.fl ++ l.buf, b.bytes ≠ []) (o m : Int) :
    (runFrom (segBatches l.segs ++ (l.fl ++ l.buf)) o = [] → (read l o m).2 = .oor) ∧
    (runFrom (segBatches l.segs ++ (l.fl ++ l.buf)) o ≠ [] → ∃ d, (read l o m).2 = .data d ∧ d ≠ [] ∧
      d <+: body (runFrom (segBatches l.segs ++ (l.fl ++ l.buf)) o)) := by
  obtain ⟨fs1, fs2⟩ := findSeg_spec hseg o
  have hm0 : m0 ≤ l.next := chain_le htail
  by_cases hom : m0 ≤ o ∨ l.segs = []
  · -- not in a committed segment: flush window / buffer
    have hnone := fs1 hom
    have hrun : runFrom (segBatches l.segs ++ (l.fl ++ l.buf)) o = runFrom (l.fl ++ l.buf) o := by
      rcases hom with hom | hom
      · apply runFrom_append_right
        apply runFrom_eq_nil
        intro x hx
        have := (KafVerif.C02.chain_strict (segchain_chain hseg)).1 x hx
        omega
      · rw [hom]; rfl
    obtain ⟨fb1, fb2⟩ := fallback_chain htail hne o m
    have hread : (read l o m).2 = fallback l.fl l.buf o m := by
      unfold read; rw [hnone]
    rw [hrun, hread]
    refine ⟨fb1, fun hrne => ?_⟩
    obtain ⟨k, hk1, hk⟩ := fb2 hrne
    refine ⟨_, hk, ?_, ?_⟩
    · exact body_take_ne_nil hk1 hrne (fun b hb => hne b (mem_runFrom hb))
    · conv => rhs; rw [← List.take_append_drop k (runFrom (l.fl ++ l.buf) o), body_append]
      exact List.prefix_append _ _
  · -- inside (or before) a committed segment
    have hlt : o < m0 := by omega
    have hsne : l.segs ≠ [] := fun h => hom (Or.inr h)
    obtain ⟨pre, g, post, hsplit, hpre, hfind, hol⟩ := fs2 hlt hsne
    have hgmem : g ∈ l.segs := by rw [hsplit]; simp
    obtain ⟨hb1, hb2, hb3, hb4, hb5⟩ := hbuilt g hgmem
    -- the chain inside g
    obtain ⟨mp, hcp, hcg⟩ := segchain_append.mp (hsplit ▸ hseg)
    obtain ⟨hgne, hgb, hgc, _⟩ := hcg
    let o' := if g.base ≤ o then o else g.base
    have ho'1 : g.base ≤ o' := by simp only [o']; split <;> omega
    have hglt := chain_lt hgc hgne
    have ho'2 : o' < g.last + 1 := by simp only [o']; split <;> omega
    have hgb' : mp = g.base := hgb.symm
    obtain ⟨n, hn1, hslice, hn2, _⟩ :=
      sliceCached_segment l.interval hgne (hgb' ▸ hgc) hb4 hb5 o' m (by omega) ho'2
    rw [← hb1, ← hb2, ← hb3] at hslice
    have hrange := range_eq_sliceCached l.interval hgne (hgb' ▸ hgc) hb4 hb5 o' m (by omega) ho'2
    rw [← hb1, ← hb2, ← hb3] at hrange
    -- runFrom of the whole log starts with runFrom of g's batches
    have hrun_o' : runFrom g.batches o' = runFrom g.batches o := by
      simp only [o']
      split
      · rfl
      · rw [runFrom_below (hgb' ▸ hgc) g.base (by omega), runFrom_below (hgb' ▸ hgc) o (by omega)]
    have hgrne : runFrom g.batches o ≠ [] := by
      obtain ⟨bh, hbh, _, hbh2⟩ := KafVerif.C02.chain_covers (hgb' ▸ hgc) o' (by omega) ho'2
      rw [← hrun_o']
      exact runFrom_ne_nil hbh (by omega)
    have hrun : runFrom (segBatches l.segs ++ (l.fl ++ l.buf)) o =
        runFrom g.batches o ++ (segBatches post ++ (l.fl ++ l.buf)) := by
      have : segBatches l.segs ++ (l.fl ++ l.buf) =
          segBatches pre ++ (g.batches ++ (segBatches post ++ (l.fl ++ l.buf))) := by
        rw [hsplit]; simp [segBatches]
      rw [this, runFrom_append_right (runFrom_eq_nil hpre), runFrom_append_left hgrne]
    have hd_ne : (body (runFrom g.batches o')).take n ≠ [] := by
      intro hnil
      have : ((body (runFrom g.batches o')).take n).length = 0 := by rw [hnil]; rfl
      rw [List.length_take] at this
      omega
    have hpref : (body (runFrom g.batches o')).take n <+:
        body (runFrom (segBatches l.segs ++ (l.fl ++ l.buf)) o) := by
      rw [hrun, body_append, hrun_o']
      exact prefix_take_append _ _ n
    refine ⟨fun h => ?_, fun _ => ⟨_, ?_, hd_ne, hpref⟩⟩
    · rw [hrun] at h
      exact absurd (List.append_eq_nil_iff.mp h).1 hgrne
    -- every path of `read` gives `hslice`'s answer
    unfold read
    rw [hfind]
    simp only
    have hs3 := hcoh.1 g hgmem
    cases hcg' : (if l.cacheOn then cacheGet l.cached g.base else none) with
    | some d =>
      have hd : d = g.data := by
        by_cases hc : l.cacheOn = true
        · simp only [hc, if_true] at hcg'; exact hcoh.2 g hgmem d hcg'
        · simp [hc] at hcg'
      simp only [hd]
      exact hslice
    | none =>
      simp only [hs3]
      cases hr : segmentRangeFor g.size g.entries o' m with
      | some p =>
        obtain ⟨st, en⟩ := p
        simp only
        rw [← hslice]
        exact hrange st en hr
      | none =>
        simp only
        exact hslice

end KafVerif.PLog
