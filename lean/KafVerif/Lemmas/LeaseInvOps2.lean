import KafVerif.Lemmas.LeaseInv
/-! Invariant preservation: ReleaseAll (local step, revoke), session loss, lease expiry, restart. -/
namespace KafVerif.Lease

theorem inv_releaseAll_some (s : State) (b l : Nat) (h : Inv s) (hs : (s.mgr b).session = some l) :
    Inv { setMgr s b { closed := true, session := none, owned := fun _ => none } with revokes := s.revokes ++ [l] } := by
  simp only [setMgr]; inv_auto

theorem inv_clearMgr (s : State) (b : Nat) (c : Bool) (h : Inv s) :
    Inv (setMgr s b { closed := c, session := none, owned := fun _ => none }) := by
  simp only [setMgr]; inv_auto

theorem inv_releaseAll (s : State) (b : Nat) (h : Inv s) : Inv (step .byRev s (.releaseAll b)).1 := by
  simp only [step]
  split
  · rename_i l hs; exact inv_releaseAll_some s b l h hs
  · exact inv_clearMgr s b true h

theorem inv_sessionLost (s : State) (b : Nat) (h : Inv s) : Inv (step .byRev s (.sessionLost b)).1 := by
  simp only [step]
  split
  · exact inv_clearMgr s b (s.mgr b).closed h
  · exact h

theorem inv_revokes_sub (s : State) (rs : List Nat) (h : Inv s) (hsub : ∀ l ∈ rs, l ∈ s.revokes) : Inv { s with revokes := rs } := by
  inv_auto

theorem inv_dropRevoke (s : State) (i : Nat) (h : Inv s) : Inv (step .byRev s (.dropRevoke i)).1 := by
  simp only [step]
  exact inv_revokes_sub s _ h (fun d hd => List.mem_of_mem_eraseIdx hd)

/-- a lease nobody relies on as session ends: its keys vanish, nothing owned was backed by them -/
theorem inv_endLease (s : State) (l : Nat) (h : Inv s) (hno : ∀ b, (s.mgr b).session ≠ some l) : Inv (endLease s l) := by
  simp only [endLease]
  inv_auto

theorem inv_revoke (s : State) (i : Nat) (h : Inv s) : Inv (step .byRev s (.revoke i)).1 := by
  simp only [step]
  split
  · rename_i l hl
    have hmem : l ∈ s.revokes := List.mem_of_getElem? hl
    have h' := inv_revokes_sub s (s.revokes.eraseIdx i) h (fun d hd => List.mem_of_mem_eraseIdx hd)
    exact inv_endLease _ l h' (fun b => h.r1 l hmem b)
  · exact h

theorem inv_expire (s : State) (l : Nat) (h : Inv s) (hen : Enabled s (.expire l)) : Inv (step .byRev s (.expire l)).1 := by
  simp only [step]
  split
  · exact inv_endLease s l h hen
  · exact h

theorem inv_crash (s : State) (b : Nat) (h : Inv s) : Inv (step .byRev s (.crash b)).1 := by
  simp only [step, setMgr, Mgr.fresh]
  inv_auto

end KafVerif.Lease
