import KafVerif.Props.C07
/-!
C08 — Point-in-time restore copies an exact, valid prefix or nothing: byte-level and object-level lemmas.

Statement (properties.jsonl): a successful restore of a topic to time T produces, per partition,
records that are an offset-contiguous prefix of the source partition, cut at the final segment's
first record later than T; each restored record matches the source record at the same offset
byte for byte; each rewritten batch has a valid length, count and CRC; a failed restore leaves no
objects under the target topic unless deleting them also fails.
Quantifier: every source history and every S3 failure point during the copy.

Proved here (all for EVERY batch / record list / store / fault set; no size bound):

byte level (`pkg/storage/recovery_exact.go`)
* `scanLoop_keeps_prefix`   — the scan loop over the records of a batch keeps exactly the longest
                              prefix of records with timestamp ≤ T;
* `rewritten_batch_is_encoding` — the rewritten batch is byte for byte the *encoding* of the batch cut
                              to the kept records (so length field, record count, last offset delta,
                              max timestamp and CRC are consistent, and the kept records are the
                              source bytes);
* `truncate_batch`          — `truncateRecordBatchToTimestamp` on a well-formed batch, all five cases;
* `collect_batches`         — `collectRecoverableBatches` frame loop on a broker-written body;
* `restored_records_exact_prefix` — the records of what it returns are a prefix of the source
                              records, none later than T, and the next source record is later than T.

object level (`pkg/storage/recovery.go`)
* `restore_fail_clean`      — for every store with an empty target topic, every fault set, cutoff and
                              partition filter: objects outside the target topic are never changed,
                              and after a failed restore whose rollback deletes all succeeded the
                              target topic is empty;
* `last_candidate_spec`     — candidate selection.

The composition of the two levels over a whole multi-partition run is `KafVerif.C08.restore_run_exact`
in `Props/C08.lean` (via `Lemmas/KafkaRestoreObj.lean`, `KafkaRestoreRun.lean`, `KafkaRestoreBytes.lean`).
(This file was `Props/C08.lean` before the composition was added.)
-/
set_option linter.unusedSimpArgs false
set_option linter.unusedVariables false
set_option linter.unusedSectionVars false
namespace KafVerif.Kafka

/-! ### scanning the records of a well-formed batch -/

theorem encRecs_append (a b : List Rec) : encRecs (a ++ b) = encRecs a ++ encRecs b := by
  induction a with
  | nil => rfl
  | cons r t ih => simp [encRecs, ih]

/-- record timestamps that the scan loop compares with the cutoff -/
def recTs (firstTs : Int) (r : Rec) : Int := wrap64 (firstTs + r.tsDelta)

/-- the records kept by a cut at `cutoff`: the longest prefix of records not later than it -/
def keptPrefix (firstTs cutoff : Int) : List Rec → List Rec
  | [] => []
  | r :: t => if recTs firstTs r > cutoff then [] else r :: keptPrefix firstTs cutoff t

/-- the scan state after keeping the records `ks` (fold of the loop body) -/
def scanFold (firstTs : Int) (total : Nat) : ScanSt → List Rec → Nat → ScanSt
  | st, [], _ => st
  | st, r :: t, remaining =>
    scanFold firstTs total
      ⟨st.kept + 1, total - (remaining - (encRec r).length), r.offDelta,
        if recTs firstTs r > st.maxIncl then recTs firstTs r else st.maxIncl⟩ t (remaining - (encRec r).length)

variable {mk : Alloc} {L : Nat}

/-- `scanLoop` over encoded records stops exactly at the first record later than the cutoff (or
when the announced count is exhausted) and has kept exactly `keptPrefix` -/
theorem scanLoop_enc (hmk : Adm mk L) (firstTs cutoff : Int) (total : Nat) :
    ∀ (rs : List Rec) (n : Nat) (rest : Bytes) (st : ScanSt), (∀ r ∈ rs, r.Wf) → rs.length = n →
      (encRecs rs).length + rest.length ≤ L →
      scanLoop mk firstTs cutoff total n (encRecs rs ++ rest) st =
        .ok (scanFold firstTs total st (keptPrefix firstTs cutoff rs) ((encRecs rs).length + rest.length)) := by
  intro rs
  induction rs with
  | nil => intro n rest st _ hn _; subst hn; simp [scanLoop, keptPrefix, scanFold]
  | cons r t ih =>
    intro n rest st hw hn hL
    subst hn
    simp only [encRecs, List.length_append] at hL
    have hb := recBody_le_encRec r
    simp only [List.length_cons, scanLoop, encRecs, List.append_assoc]
    rw [scanRecord_enc hmk r (hw r (by simp)) _ (by omega)]
    simp only [bind_ok, keptPrefix, recTs]
    by_cases hc : wrap64 (firstTs + r.tsDelta) > cutoff
    · simp [hc, scanFold]
    · simp only [hc, if_false]
      rw [ih t.length rest _ (fun x hx => hw x (by simp [hx])) rfl (by omega)]
      simp only [scanFold, List.length_append, recTs]
      have e : (encRec r).length + ((encRecs t).length + rest.length) - (encRec r).length = (encRecs t).length + rest.length := by omega
      have e' : (encRec r ++ encRecs t).length + rest.length - (encRec r).length = (encRecs t).length + rest.length := by
        simp only [List.length_append]; omega
      simp only [List.length_append, e, e', Nat.add_assoc]
      rfl


/-! ### the rewritten batch is the encoding of the truncated batch -/

/-- the 61-byte header followed by record bytes, with every field explicit -/
def rawBatch (base : Int) (len : Bytes) (epoch : Int) (crcv : Bytes) (attrs lod first mx pid pe bs cnt : Bytes) (recs : Bytes) : Bytes :=
  i64be base ++ (len ++ (i32be epoch ++ ((2 : UInt8) :: (crcv ++ (attrs ++ (lod ++ (first ++ (mx ++ (pid ++ (pe ++ (bs ++ (cnt ++ recs))))))))))))

theorem encBatch_raw (crc : Bytes → Nat) (b : Batch) :
    encBatch crc b = rawBatch b.base (u32be ((batchTail b).length + 9)) b.leaderEpoch (u32be (crc (batchTail b)))
      (i16be b.attrs) (i32be b.lastOffsetDelta) (i64be b.firstTs) (i64be b.maxTs) (i64be b.producerId) (i16be b.producerEpoch)
      (i32be b.baseSeq) (i32be b.recs.length) (encRecs b.recs) := by
  simp [encBatch, batchTail, rawBatch]

theorem take_append_ge {α} (a b : List α) (n : Nat) (h : a.length ≤ n) : (a ++ b).take n = a ++ b.take (n - a.length) := by
  rw [List.take_append, List.take_of_length_le h]

theorem take_cons_succ' {α} (x : α) (l : List α) (n : Nat) (h : 0 < n) : (x :: l).take n = x :: l.take (n - 1) := by
  cases n with
  | zero => omega
  | succ n => simp

theorem drop_cons_succ' {α} (x : α) (l : List α) (n : Nat) (h : 0 < n) : (x :: l).drop n = l.drop (n - 1) := by
  cases n with
  | zero => omega
  | succ n => simp

theorem rawBatch_take {base epoch} {len crcv attrs lod first mx pid pe bs cnt x y : Bytes}
    (h1 : len.length = 4) (h2 : crcv.length = 4) (h3 : attrs.length = 2) (h4 : lod.length = 4) (h5 : first.length = 8)
    (h6 : mx.length = 8) (h7 : pid.length = 8) (h8 : pe.length = 2) (h9 : bs.length = 4) (h10 : cnt.length = 4) :
    (rawBatch base len epoch crcv attrs lod first mx pid pe bs cnt (x ++ y)).take (61 + x.length) =
      rawBatch base len epoch crcv attrs lod first mx pid pe bs cnt x := by
  unfold rawBatch
  simp (disch := simp <;> omega) only [take_append_ge, take_cons_succ']
  have : 61 + x.length - (i64be base).length - len.length - (i32be epoch).length - 1 - crcv.length - attrs.length - lod.length -
      first.length - mx.length - pid.length - pe.length - bs.length - cnt.length = x.length := by simp; omega
  rw [this]; simp


theorem patch_at (A old B v : Bytes) (n : Nat) (hn : A.length = n) (h : v.length = old.length) :
    patch (A ++ (old ++ B)) n v = A ++ (v ++ B) := by
  subst hn
  unfold patch
  rw [List.take_left', drop_append_ge _ _ _ (by omega)]
  · simp [h]
  · rfl

section
variable {base epoch : Int} {len crcv attrs lod first mx pid pe bs cnt x v : Bytes}
  (h1 : len.length = 4) (h2 : crcv.length = 4) (h3 : attrs.length = 2) (h4 : lod.length = 4) (h5 : first.length = 8)
  (h6 : mx.length = 8) (h7 : pid.length = 8) (h8 : pe.length = 2) (h9 : bs.length = 4) (h10 : cnt.length = 4)
include h1 h2 h3 h4 h5 h6 h7 h8 h9 h10

theorem rawBatch_patch_len (hv : v.length = 4) :
    patch (rawBatch base len epoch crcv attrs lod first mx pid pe bs cnt x) 8 v =
      rawBatch base v epoch crcv attrs lod first mx pid pe bs cnt x := by
  unfold rawBatch
  exact patch_at (i64be base) len _ v 8 (by simp) (by omega)

theorem rawBatch_patch_crc (hv : v.length = 4) :
    patch (rawBatch base len epoch crcv attrs lod first mx pid pe bs cnt x) 17 v =
      rawBatch base len epoch v attrs lod first mx pid pe bs cnt x := by
  have := patch_at (i64be base ++ (len ++ (i32be epoch ++ [(2 : UInt8)]))) crcv
    (attrs ++ (lod ++ (first ++ (mx ++ (pid ++ (pe ++ (bs ++ (cnt ++ x)))))))) v 17 (by simp; omega) (by omega)
  simpa [rawBatch] using this

theorem rawBatch_patch_lod (hv : v.length = 4) :
    patch (rawBatch base len epoch crcv attrs lod first mx pid pe bs cnt x) 23 v =
      rawBatch base len epoch crcv attrs v first mx pid pe bs cnt x := by
  have := patch_at (i64be base ++ (len ++ (i32be epoch ++ ((2 : UInt8) :: (crcv ++ attrs))))) lod
    (first ++ (mx ++ (pid ++ (pe ++ (bs ++ (cnt ++ x)))))) v 23 (by simp; omega) (by omega)
  simpa [rawBatch] using this

theorem rawBatch_patch_max (hv : v.length = 8) :
    patch (rawBatch base len epoch crcv attrs lod first mx pid pe bs cnt x) 35 v =
      rawBatch base len epoch crcv attrs lod first v pid pe bs cnt x := by
  have := patch_at (i64be base ++ (len ++ (i32be epoch ++ ((2 : UInt8) :: (crcv ++ (attrs ++ (lod ++ first))))))) mx
    (pid ++ (pe ++ (bs ++ (cnt ++ x)))) v 35 (by simp; omega) (by omega)
  simpa [rawBatch] using this

theorem rawBatch_patch_cnt (hv : v.length = 4) :
    patch (rawBatch base len epoch crcv attrs lod first mx pid pe bs cnt x) 57 v =
      rawBatch base len epoch crcv attrs lod first mx pid pe bs v x := by
  have := patch_at (i64be base ++ (len ++ (i32be epoch ++ ((2 : UInt8) :: (crcv ++ (attrs ++ (lod ++ (first ++ (mx ++ (pid ++ (pe ++ bs)))))))))))
    cnt x v 57 (by simp; omega) (by omega)
  simpa [rawBatch] using this

theorem rawBatch_drop21 :
    (rawBatch base len epoch crcv attrs lod first mx pid pe bs cnt x).drop 21 =
      attrs ++ (lod ++ (first ++ (mx ++ (pid ++ (pe ++ (bs ++ (cnt ++ x))))))) := by
  have h : (i64be base ++ (len ++ (i32be epoch ++ ((2 : UInt8) :: crcv)))).length = 21 := by simp; omega
  have : rawBatch base len epoch crcv attrs lod first mx pid pe bs cnt x =
      (i64be base ++ (len ++ (i32be epoch ++ ((2 : UInt8) :: crcv)))) ++
        (attrs ++ (lod ++ (first ++ (mx ++ (pid ++ (pe ++ (bs ++ (cnt ++ x)))))))) := by simp [rawBatch]
  rw [this, drop_append_ge _ _ _ (by omega), h]; simp

theorem rawBatch_length :
    (rawBatch base len epoch crcv attrs lod first mx pid pe bs cnt x).length = 61 + x.length := by
  simp [rawBatch]; omega
end


/-- the batch that remains after a cut: the kept records, their last offset delta, their max timestamp -/
def cutBatch (b : Batch) (ks : List Rec) (lod mx : Int) : Batch :=
  { b with recs := ks, lastOffsetDelta := lod, maxTs := mx }

theorem batchTail_length (b : Batch) : (batchTail b).length = 40 + (encRecs b.recs).length := by
  simp [batchTail]; omega

/-- **The rewritten batch is the encoding of the truncated batch.**  Hence its length field, record
count, last offset delta, max timestamp and CRC are all consistent, and its records are
byte-identical to the first records of the source batch. -/
theorem rewriteBatch_enc (crc : Bytes → Nat) (b : Batch) (ks rest : List Rec) (hsplit : b.recs = ks ++ rest)
    (st : ScanSt) (hkb : st.keptBytes = (encRecs ks).length) (hk : st.kept = ks.length) :
    rewriteBatch crc (encBatch crc b) st = encBatch crc (cutBatch b ks st.lastOD st.maxIncl) := by
  rw [encBatch_raw crc b, encBatch_raw crc (cutBatch b ks st.lastOD st.maxIncl), hsplit, encRecs_append]
  unfold rewriteBatch
  simp only [hkb]
  rw [rawBatch_take (by simp) (by simp) (by simp) (by simp) (by simp) (by simp) (by simp) (by simp) (by simp) (by simp)]
  rw [rawBatch_length (by simp) (by simp) (by simp) (by simp) (by simp) (by simp) (by simp) (by simp) (by simp) (by simp)]
  rw [rawBatch_patch_len (by simp) (by simp) (by simp) (by simp) (by simp) (by simp) (by simp) (by simp) (by simp) (by simp) (by simp)]
  rw [rawBatch_patch_lod (by simp) (by simp) (by simp) (by simp) (by simp) (by simp) (by simp) (by simp) (by simp) (by simp) (by simp)]
  rw [rawBatch_patch_max (by simp) (by simp) (by simp) (by simp) (by simp) (by simp) (by simp) (by simp) (by simp) (by simp) (by simp)]
  rw [rawBatch_patch_cnt (by simp) (by simp) (by simp) (by simp) (by simp) (by simp) (by simp) (by simp) (by simp) (by simp) (by simp)]
  rw [rawBatch_drop21 (by simp) (by simp) (by simp) (by simp) (by simp) (by simp) (by simp) (by simp) (by simp) (by simp)]
  rw [rawBatch_patch_crc (by simp) (by simp) (by simp) (by simp) (by simp) (by simp) (by simp) (by simp) (by simp) (by simp) (by simp)]
  have hl : 61 + (encRecs ks).length - 12 = (batchTail (cutBatch b ks st.lastOD st.maxIncl)).length + 9 := by
    rw [batchTail_length]; simp [cutBatch]; omega
  have ht : batchTail (cutBatch b ks st.lastOD st.maxIncl) =
      i16be b.attrs ++ (i32be st.lastOD ++ (i64be b.firstTs ++ (i64be st.maxIncl ++ (i64be b.producerId ++
        (i16be b.producerEpoch ++ (i32be b.baseSeq ++ (i32be (st.kept : Int) ++ encRecs ks))))))) := by
    simp [batchTail, cutBatch, hk]
  rw [hl, ← ht]
  simp [cutBatch, hk]


theorem keptPrefix_split (firstTs cutoff : Int) (rs : List Rec) :
    ∃ rest, rs = keptPrefix firstTs cutoff rs ++ rest := by
  induction rs with
  | nil => exact ⟨[], rfl⟩
  | cons r t ih =>
    unfold keptPrefix
    split
    · exact ⟨r :: t, rfl⟩
    · obtain ⟨rest, h⟩ := ih
      exact ⟨rest, by simp [← h]⟩

theorem keptPrefix_all_le (firstTs cutoff : Int) (rs : List Rec) :
    ∀ r ∈ keptPrefix firstTs cutoff rs, recTs firstTs r ≤ cutoff := by
  induction rs with
  | nil => simp [keptPrefix]
  | cons r t ih =>
    unfold keptPrefix
    split
    · simp
    · intro x hx
      simp only [List.mem_cons] at hx
      rcases hx with rfl | hx
      · omega
      · exact ih x hx

/-- the record right after the kept prefix (if any) is later than the cutoff: the cut is at the
FIRST record later than T -/
theorem keptPrefix_next_gt (firstTs cutoff : Int) (rs : List Rec) (rest : List Rec) (r : Rec)
    (h : rs = keptPrefix firstTs cutoff rs ++ r :: rest) : recTs firstTs r > cutoff := by
  induction rs with
  | nil => simp at h
  | cons a t ih =>
    unfold keptPrefix at h
    split at h
    · simp only [List.nil_append, List.cons.injEq] at h
      rw [← h.1]; assumption
    · simp only [List.cons_append, List.cons.injEq, true_and] at h
      exact ih h

theorem scanFold_kept (firstTs : Int) (total : Nat) : ∀ (ks : List Rec) (st : ScanSt) (rem : Nat),
    (scanFold firstTs total st ks rem).kept = st.kept + ks.length := by
  intro ks
  induction ks with
  | nil => intro st rem; simp [scanFold]
  | cons r t ih => intro st rem; simp [scanFold, ih]; omega

theorem scanFold_keptBytes (firstTs : Int) (total : Nat) : ∀ (ks : List Rec) (st : ScanSt) (rem : Nat),
    ks ≠ [] → (encRecs ks).length ≤ rem → rem ≤ total →
    (scanFold firstTs total st ks rem).keptBytes = total - (rem - (encRecs ks).length) := by
  intro ks
  induction ks with
  | nil => intro st rem h; exact absurd rfl h
  | cons r t ih =>
    intro st rem _ hle hrt
    simp only [encRecs, List.length_append] at hle
    cases t with
    | nil => simp [scanFold, encRecs]
    | cons r2 t2 =>
      rw [scanFold, ih _ _ (by simp) (by omega) (by omega)]
      simp only [encRecs, List.length_append] at hle ⊢; omega

theorem scanFold_lastOD (firstTs : Int) (total : Nat) : ∀ (ks : List Rec) (st : ScanSt) (rem : Nat) (h : ks ≠ []),
    (scanFold firstTs total st ks rem).lastOD = (ks.getLast h).offDelta := by
  intro ks
  induction ks with
  | nil => intro st rem h; exact absurd rfl h
  | cons r t ih =>
    intro st rem h
    cases t with
    | nil => simp [scanFold]
    | cons r2 t2 =>
      rw [scanFold, ih _ _ (by simp)]
      simp

/-- `maxIncl` is the running maximum of the kept timestamps (starting from the first timestamp) -/
def maxTsOf (firstTs : Int) : Int → List Rec → Int
  | m, [] => m
  | m, r :: t => maxTsOf firstTs (if recTs firstTs r > m then recTs firstTs r else m) t

theorem scanFold_maxIncl (firstTs : Int) (total : Nat) : ∀ (ks : List Rec) (st : ScanSt) (rem : Nat),
    (scanFold firstTs total st ks rem).maxIncl = maxTsOf firstTs st.maxIncl ks := by
  intro ks
  induction ks with
  | nil => intro st rem; rfl
  | cons r t ih => intro st rem; simp [scanFold, maxTsOf, ih]

theorem maxTsOf_ge (firstTs : Int) : ∀ (ks : List Rec) (m : Int),
    m ≤ maxTsOf firstTs m ks ∧ ∀ r ∈ ks, recTs firstTs r ≤ maxTsOf firstTs m ks := by
  intro ks
  induction ks with
  | nil => intro m; simp [maxTsOf]
  | cons r t ih =>
    intro m
    simp only [maxTsOf, List.mem_cons]
    by_cases h : recTs firstTs r > m
    · have := ih (recTs firstTs r)
      simp only [h, if_true]
      refine ⟨by omega, ?_⟩
      intro x hx
      rcases hx with rfl | hx
      · exact this.1
      · exact this.2 x hx
    · have := ih m
      simp only [h, if_false]
      refine ⟨this.1, ?_⟩
      intro x hx
      rcases hx with rfl | hx
      · omega
      · exact this.2 x hx


/-- a well-formed batch with representable header fields -/
def Batch.WfH (b : Batch) : Prop := b.Wf ∧ InI64 b.maxTs ∧ InI32 b.lastOffsetDelta

theorem sl_eq (b : Bytes) (i j : Nat) : sl b i j = (b.drop i).take (j - i) := rfl

/-- **`truncateRecordBatchToTimestamp` on a well-formed batch.**  With `ks` the longest prefix of
records whose timestamp is ≤ the cutoff:
* the whole batch is kept (and scanning goes on) when its max timestamp is ≤ the cutoff;
* nothing is kept and scanning stops when its first timestamp is later, or when `ks` is empty;
* the whole batch is kept and scanning stops when `ks` is everything;
* otherwise the kept batch is *the encoding of* the batch cut to `ks`, with last offset delta of the
  last kept record and max timestamp of the kept records. -/
theorem truncateBatch_enc (hmk : Adm mk L) (crc : Bytes → Nat) (b : Batch) (hw : b.WfH) (cutoff : Int)
    (hL : (encBatch crc b).length ≤ L) :
    truncateBatch crc mk (encBatch crc b) cutoff =
      if b.maxTs ≤ cutoff then .ok (some (mkSB crc b), false)
      else if b.firstTs > cutoff then .ok (none, true)
      else
        let ks := keptPrefix b.firstTs cutoff b.recs
        if h : ks = [] then .ok (none, true)
        else if ks.length = b.recs.length then .ok (some (mkSB crc b), true)
        else .ok (some (mkSB crc (cutBatch b ks (ks.getLast h).offDelta (maxTsOf b.firstTs b.firstTs ks))), true) := by
  obtain ⟨⟨hbase, hfts, hat, hat8, hcnt, hrw⟩, hmx, hlod⟩ := hw
  have hlen := encBatch_length crc b
  have hnrb := newRecordBatch_enc crc b hbase hlod hcnt
  unfold truncateBatch
  have h61 : ¬ (encBatch crc b).length < 61 := by omega
  simp only [h61, if_false]
  have e1 : sl (encBatch crc b) 27 35 = i64be b.firstTs := by
    simp [sl, encBatch, batchTail, drop_append_ge, take_append_len]
  have e2 : sl (encBatch crc b) 35 43 = i64be b.maxTs := by
    simp [sl, encBatch, batchTail, drop_append_ge, take_append_len]
  have e3 : sl (encBatch crc b) 21 23 = i16be b.attrs := by
    simp [sl, encBatch, batchTail, drop_append_ge, take_append_len]
  have e4 : sl (encBatch crc b) 57 61 = i32be b.recs.length := by
    simp [sl, encBatch, batchTail, drop_append_ge, take_append_len]
  have e5 : (encBatch crc b).drop 61 = encRecs b.recs := by
    simp [encBatch, batchTail, drop_append_ge]
  have hc32 : InI32 (b.recs.length : Int) := by unfold InI32; omega
  simp only [e1, e2, e3, e4, e5, i64_roundtrip hfts, i64_roundtrip hmx, i16_roundtrip hat, i32_roundtrip hc32]
  by_cases h1 : b.maxTs ≤ cutoff
  · simp [h1, hnrb]
  · simp only [h1, if_false]
    by_cases h2 : b.firstTs > cutoff
    · simp [h2]
    · simp only [h2, if_false, hat8, ne_eq, not_true_eq_false, Int.toNat_natCast]
      have hscan := scanLoop_enc (mk := mk) (L := L) hmk b.firstTs cutoff (encRecs b.recs).length b.recs b.recs.length []
        ⟨0, 0, 0, b.firstTs⟩ hrw rfl (by simp; omega)
      rw [List.append_nil] at hscan
      rw [hscan]
      simp only [bind_ok, List.length_nil, Nat.add_zero]
      obtain ⟨rest, hsplit⟩ := keptPrefix_split b.firstTs cutoff b.recs
      generalize hks : keptPrefix b.firstTs cutoff b.recs = ks at hsplit ⊢
      have hkept := scanFold_kept b.firstTs (encRecs b.recs).length ks ⟨0, 0, 0, b.firstTs⟩ (encRecs b.recs).length
      simp only [Nat.zero_add] at hkept
      by_cases hnil : ks = []
      · subst hnil
        simp [scanFold]
      · have hk0 : ¬ ((scanFold b.firstTs (encRecs b.recs).length ⟨0, 0, 0, b.firstTs⟩ ks (encRecs b.recs).length).kept = 0) := by
          rw [hkept]; intro h; exact hnil (List.length_eq_zero_iff.mp h)
        simp only [hk0, if_false, hnil, dite_false, hkept]
        by_cases hall : ks.length = b.recs.length
        · simp [hall, hnrb]
          intro h; rw [h] at hall; exact hnil (List.length_eq_zero_iff.mp (by simpa using hall))
        · have hall' : ¬ ((ks.length : Int) = (b.recs.length : Int)) := by omega
          simp only [hall, hall', if_false]
          have hle : (encRecs ks).length ≤ (encRecs b.recs).length := by
            rw [hsplit, encRecs_append]; simp
          have hkb := scanFold_keptBytes b.firstTs (encRecs b.recs).length ks ⟨0, 0, 0, b.firstTs⟩ (encRecs b.recs).length
            hnil hle (Nat.le_refl _)
          have hlo := scanFold_lastOD b.firstTs (encRecs b.recs).length ks ⟨0, 0, 0, b.firstTs⟩ (encRecs b.recs).length hnil
          have hmi := scanFold_maxIncl b.firstTs (encRecs b.recs).length ks ⟨0, 0, 0, b.firstTs⟩ (encRecs b.recs).length
          rw [rewriteBatch_enc crc b ks rest hsplit _ (by rw [hkb]; omega) hkept, hlo, hmi]
          have hlast : (ks.getLast hnil) ∈ b.recs := by
            rw [hsplit]; exact List.mem_append_left _ (List.getLast_mem hnil)
          have hwl := hrw _ hlast
          have hklen : ks.length < 2 ^ 31 := by
            have : ks.length ≤ b.recs.length := by rw [hsplit]; simp
            omega
          rw [newRecordBatch_enc crc (cutBatch b ks (ks.getLast hnil).offDelta (maxTsOf b.firstTs b.firstTs ks))
            hbase (by unfold InI32; have := hwl.2.1; simp only [cutBatch]; omega) hklen]
          simp
          exact hnil


/-! ### the frame loop on a broker-written body -/

/-- what `truncateRecordBatchToTimestamp` keeps of one batch, and whether scanning stops -/
def cutOne (crc : Bytes → Nat) (cutoff : Int) (b : Batch) : Option SBatch × Bool :=
  if b.maxTs ≤ cutoff then (some (mkSB crc b), false)
  else if b.firstTs > cutoff then (none, true)
  else
    let ks := keptPrefix b.firstTs cutoff b.recs
    if h : ks = [] then (none, true)
    else if ks.length = b.recs.length then (some (mkSB crc b), true)
    else (some (mkSB crc (cutBatch b ks (ks.getLast h).offDelta (maxTsOf b.firstTs b.firstTs ks))), true)

theorem truncateBatch_cutOne (hmk : Adm mk L) (crc : Bytes → Nat) (b : Batch) (hw : b.WfH) (cutoff : Int)
    (hL : (encBatch crc b).length ≤ L) :
    truncateBatch crc mk (encBatch crc b) cutoff = .ok (cutOne crc cutoff b) := by
  rw [truncateBatch_enc hmk crc b hw cutoff hL]
  unfold cutOne
  split
  · rfl
  · split
    · rfl
    · simp only
      split
      · rfl
      · split <;> rfl

/-- the batches `collectRecoverableBatches` returns for a body made of well-formed batches:
whole batches while their max timestamp is ≤ the cutoff, then at most one cut batch, then nothing -/
def collectSpec (crc : Bytes → Nat) (cutoff : Int) : List Batch → List SBatch
  | [] => []
  | b :: t =>
    let r := cutOne crc cutoff b
    if r.2 then r.1.toList else r.1.toList ++ collectSpec crc cutoff t

theorem collectLoop_enc (hmk : Adm mk L) (crc : Bytes → Nat) (cutoff : Int) (bs : List Batch)
    (hw : ∀ b ∈ bs, b.WfH) : ∀ (fuel : Nat), bs.length < fuel → (encBatches crc bs).length < 2 ^ 31 →
    (encBatches crc bs).length ≤ L →
    collectLoop crc mk cutoff fuel (encBatches crc bs) = .ok (collectSpec crc cutoff bs) := by
  induction bs with
  | nil =>
    intro fuel hf _ _
    cases fuel with
    | zero => omega
    | succ f => simp [collectLoop, encBatches, collectSpec]
  | cons b t ih =>
    intro fuel hf hsz hL
    cases fuel with
    | zero => omega
    | succ f =>
      have hlen := encBatch_length crc b
      simp only [encBatches, List.length_append] at hsz hL
      simp only [encBatches, collectLoop, List.length_append]
      have h12 : ¬ ((encBatch crc b).length + (encBatches crc t).length < 12) := by omega
      simp only [h12, if_false]
      have e1 : sl (encBatch crc b ++ encBatches crc t) 8 12 = u32be ((batchTail b).length + 9) := by
        simp [sl, encBatch, drop_append_ge, take_append_len]
      have hbl : (batchTail b).length + 9 + 12 = (encBatch crc b).length := by
        simp [encBatch]; omega
      rw [e1, u32_roundtrip (by omega)]
      have hnz : ¬ ((batchTail b).length + 9 = 0) := by omega
      have hfl : ¬ (12 + ((batchTail b).length + 9) > (encBatch crc b).length + (encBatches crc t).length) := by omega
      simp only [hnz, hfl, if_false]
      have hmk' : mk ((12 + ((batchTail b).length + 9) : Nat) : Int) 1 = .ok () :=
        hmk _ _ (by omega) (by simp only [Int.toNat_natCast]; omega)
      have e2 : (encBatch crc b ++ encBatches crc t).take (12 + ((batchTail b).length + 9)) = encBatch crc b := by
        have : 12 + ((batchTail b).length + 9) = (encBatch crc b).length := by omega
        rw [this]; simp
      have e3 : (encBatch crc b ++ encBatches crc t).drop (12 + ((batchTail b).length + 9)) = encBatches crc t := by
        have : 12 + ((batchTail b).length + 9) = (encBatch crc b).length := by omega
        rw [this]; simp
      simp only [hmk', bind_ok, e2, e3]
      rw [truncateBatch_cutOne hmk crc b (hw b (by simp)) cutoff (by omega)]
      simp only [bind_ok, collectSpec]
      split
      · rfl
      · rw [ih (fun x hx => hw x (by simp [hx])) f (by simp at hf; omega) (by omega) (by omega)]
        simp


/-! ### record level: an exact prefix -/

/-- `cutOne` before serialisation -/
def cutOneB (cutoff : Int) (b : Batch) : Option Batch × Bool :=
  if b.maxTs ≤ cutoff then (some b, false)
  else if b.firstTs > cutoff then (none, true)
  else
    let ks := keptPrefix b.firstTs cutoff b.recs
    if h : ks = [] then (none, true)
    else if ks.length = b.recs.length then (some b, true)
    else (some (cutBatch b ks (ks.getLast h).offDelta (maxTsOf b.firstTs b.firstTs ks)), true)

theorem cutOne_eq (crc : Bytes → Nat) (cutoff : Int) (b : Batch) :
    cutOne crc cutoff b = ((cutOneB cutoff b).1.map (mkSB crc), (cutOneB cutoff b).2) := by
  unfold cutOne cutOneB
  split
  · rfl
  · split
    · rfl
    · simp only
      split
      · rfl
      · split <;> rfl

def collectBatches (cutoff : Int) : List Batch → List Batch
  | [] => []
  | b :: t =>
    let r := cutOneB cutoff b
    if r.2 then r.1.toList else r.1.toList ++ collectBatches cutoff t

theorem collectSpec_eq (crc : Bytes → Nat) (cutoff : Int) (bs : List Batch) :
    collectSpec crc cutoff bs = (collectBatches cutoff bs).map (mkSB crc) := by
  induction bs with
  | nil => rfl
  | cons b t ih =>
    simp only [collectSpec, collectBatches, cutOne_eq]
    split
    · cases (cutOneB cutoff b).1 <;> simp
    · rw [ih]; cases (cutOneB cutoff b).1 <;> simp

/-- records of a batch with their timestamps, as every decoder reports them -/
theorem recordsOf_cutBatch (b : Batch) (ks : List Rec) (lod mx : Int) :
    recordsOf (cutBatch b ks lod mx) = ks.map (toDRec b.base b.firstTs) := rfl

/-- what one batch contributes is a prefix of its records -/
theorem cutOneB_prefix (cutoff : Int) (b : Batch) :
    ∃ rest, recordsOf b = ((cutOneB cutoff b).1.toList.flatMap recordsOf) ++ rest ∧
      ((cutOneB cutoff b).2 = false → rest = []) := by
  unfold cutOneB
  split
  · exact ⟨[], by simp, fun _ => rfl⟩
  · split
    · exact ⟨recordsOf b, by simp, by simp⟩
    · simp only
      obtain ⟨rest, hsplit⟩ := keptPrefix_split b.firstTs cutoff b.recs
      split
      · exact ⟨recordsOf b, by simp, by simp⟩
      · split
        · exact ⟨[], by simp, by simp⟩
        · refine ⟨rest.map (toDRec b.base b.firstTs), ?_, by simp⟩
          simp only [Option.toList, List.flatMap_cons, List.flatMap_nil, List.append_nil, recordsOf_cutBatch]
          conv => lhs; rw [recordsOf, hsplit, List.map_append]

/-- **C08, exact prefix (1/3): what is restored is a prefix of the source records** — same offsets,
timestamps, keys, values, headers, in the same order (and by `rewritten_batch_is_encoding` the same
bytes). -/
theorem collectBatches_prefix (cutoff : Int) (bs : List Batch) :
    ∃ rest, bs.flatMap recordsOf = (collectBatches cutoff bs).flatMap recordsOf ++ rest := by
  induction bs with
  | nil => exact ⟨[], rfl⟩
  | cons b t ih =>
    obtain ⟨r1, h1, h1'⟩ := cutOneB_prefix cutoff b
    obtain ⟨r2, h2⟩ := ih
    simp only [collectBatches, List.flatMap_cons]
    split
    · exact ⟨r1 ++ t.flatMap recordsOf, by rw [h1]; simp⟩
    · rename_i hcont
      have := h1' (by simpa using hcont)
      subst this
      refine ⟨r2, ?_⟩
      rw [h1, h2]; simp


/-- the batch header tells the truth about its records (what a producer / the broker guarantees):
non-empty, first timestamp = timestamp of the first record, max timestamp = the maximum, attained -/
def Batch.HdrTrue (b : Batch) : Prop :=
  (∃ r0 t, b.recs = r0 :: t ∧ recTs b.firstTs r0 = b.firstTs) ∧
  (∀ r ∈ b.recs, recTs b.firstTs r ≤ b.maxTs) ∧ (∃ r ∈ b.recs, recTs b.firstTs r = b.maxTs)

theorem toDRec_ts (base firstTs : Int) (r : Rec) : (toDRec base firstTs r).ts = recTs firstTs r := rfl

/-- **C08, exact prefix (2/3): nothing later than T is restored.** -/
theorem collectBatches_all_le (cutoff : Int) (bs : List Batch) (hh : ∀ b ∈ bs, b.HdrTrue) :
    ∀ d ∈ (collectBatches cutoff bs).flatMap recordsOf, d.ts ≤ cutoff := by
  induction bs with
  | nil => simp [collectBatches]
  | cons b t ih =>
    have hb := hh b (by simp)
    have hone : ∀ d ∈ (cutOneB cutoff b).1.toList.flatMap recordsOf, d.ts ≤ cutoff := by
      unfold cutOneB
      split
      · rename_i hmax
        intro d hd
        simp only [Option.toList, List.flatMap_cons, List.flatMap_nil, List.append_nil, recordsOf, List.mem_map] at hd
        obtain ⟨r, hr, rfl⟩ := hd
        rw [toDRec_ts]; have := hb.2.1 r hr; omega
      · split
        · simp
        · simp only
          split
          · simp
          · split
            · rename_i hall
              intro d hd
              simp only [Option.toList, List.flatMap_cons, List.flatMap_nil, List.append_nil, recordsOf, List.mem_map] at hd
              obtain ⟨r, hr, rfl⟩ := hd
              obtain ⟨rest, hsplit⟩ := keptPrefix_split b.firstTs cutoff b.recs
              have hrest : rest = [] := by
                have : (keptPrefix b.firstTs cutoff b.recs ++ rest).length = b.recs.length := by rw [← hsplit]
                simp only [List.length_append] at this
                exact List.length_eq_zero_iff.mp (by omega)
              rw [hrest, List.append_nil] at hsplit
              rw [toDRec_ts]
              exact keptPrefix_all_le b.firstTs cutoff b.recs r (by rw [← hsplit]; exact hr)
            · intro d hd
              simp only [Option.toList, List.flatMap_cons, List.flatMap_nil, List.append_nil, recordsOf_cutBatch, List.mem_map] at hd
              obtain ⟨r, hr, rfl⟩ := hd
              rw [toDRec_ts]
              exact keptPrefix_all_le b.firstTs cutoff b.recs r hr
    intro d hd
    simp only [collectBatches] at hd
    split at hd
    · exact hone d hd
    · simp only [List.flatMap_append, List.mem_append] at hd
      rcases hd with hd | hd
      · exact hone d hd
      · exact ih (fun x hx => hh x (by simp [hx])) d hd

/-- **C08, exact prefix (3/3): the cut is at the FIRST record later than T** — the source record that
follows the restored prefix (if there is one) has a timestamp later than T. -/
theorem collectBatches_next_gt (cutoff : Int) (bs : List Batch) (hh : ∀ b ∈ bs, b.HdrTrue) (d : DRec) (rest : List DRec)
    (h : bs.flatMap recordsOf = (collectBatches cutoff bs).flatMap recordsOf ++ d :: rest) : d.ts > cutoff := by
  induction bs with
  | nil => simp [collectBatches] at h
  | cons b t ih =>
    have hb := hh b (by simp)
    obtain ⟨⟨r0, t0, hr0, hfirst⟩, hmaxle, ⟨rm, hrm, hmax⟩⟩ := hb
    simp only [collectBatches, List.flatMap_cons] at h
    unfold cutOneB at h
    split at h
    · -- whole batch kept, scanning continues
      simp only [Bool.false_eq_true, if_false, Option.toList, List.flatMap_append, List.flatMap_cons, List.flatMap_nil,
        List.append_nil, List.append_assoc, List.append_cancel_left_eq] at h
      exact ih (fun x hx => hh x (by simp [hx])) h
    · split at h
      · -- first timestamp later than T: nothing kept, stop
        rename_i hf
        simp only [if_true, Option.toList, List.flatMap_nil, List.nil_append] at h
        rw [recordsOf, hr0] at h
        simp only [List.map_cons, List.cons_append, List.cons.injEq] at h
        rw [← h.1, toDRec_ts, hfirst]; omega
      · simp only at h
        obtain ⟨rs, hsplit⟩ := keptPrefix_split b.firstTs cutoff b.recs
        split at h
        · rename_i hnil
          simp only [if_true, Option.toList, List.flatMap_nil, List.nil_append] at h
          rw [recordsOf, hr0] at h
          simp only [List.map_cons, List.cons_append, List.cons.injEq] at h
          rw [← h.1, toDRec_ts]
          rw [hr0] at hnil
          unfold keptPrefix at hnil
          split at hnil
          · assumption
          · simp at hnil
        · split at h
          · -- everything ≤ T although the header says max > T: impossible when the max is attained
            rename_i hmaxgt _ _ hall
            have hrest : rs = [] := by
              have : (keptPrefix b.firstTs cutoff b.recs ++ rs).length = b.recs.length := by rw [← hsplit]
              simp only [List.length_append] at this
              exact List.length_eq_zero_iff.mp (by omega)
            rw [hrest, List.append_nil] at hsplit
            have := keptPrefix_all_le b.firstTs cutoff b.recs rm (by rw [← hsplit]; exact hrm)
            omega
          · simp only [if_true, Option.toList, List.flatMap_cons, List.flatMap_nil, List.append_nil, recordsOf_cutBatch] at h
            cases rs with
            | nil =>
              rename_i hall
              rw [List.append_nil] at hsplit
              exact absurd (by rw [← hsplit]) hall
            | cons r rs' =>
              have hgt := keptPrefix_next_gt b.firstTs cutoff b.recs rs' r hsplit
              have h' := h
              rw [recordsOf] at h'
              conv at h' => lhs; rw [hsplit]
              simp only [List.map_append, List.map_cons, List.append_assoc, List.cons_append, List.append_cancel_left_eq,
                List.cons.injEq] at h'
              rw [← h'.1, toDRec_ts]; exact hgt


/-! ### object level: the rollback leaves nothing behind -/

def isTgt (e : Key × Bytes) : Bool := e.1.topic == 1

/-- every target object in the store was uploaded by this run (is in `copiedObjects`), and the
objects of other topics are the initial ones -/
structure Good (segs0 idxs0 : Objs) (st : CopySt) : Prop where
  segsTracked : ∀ e ∈ st.s3.segs, e.1.topic = 1 → e.1 ∈ st.copied
  idxsTracked : ∀ e ∈ st.s3.idxs, e.1.topic = 1 → e.1 ∈ st.copied
  segsKept : st.s3.segs.filter (fun e => !isTgt e) = segs0.filter (fun e => !isTgt e)
  idxsKept : st.s3.idxs.filter (fun e => !isTgt e) = idxs0.filter (fun e => !isTgt e)
  copiedTgt : ∀ k ∈ st.copied, k.topic = 1

theorem mem_oput {m : Objs} {k : Key} {v : Bytes} {e : Key × Bytes} :
    e ∈ oput m k v ↔ e = (k, v) ∨ (e ∈ m ∧ e.1 ≠ k) := by
  simp [oput, List.mem_filter]

theorem mem_odel {m : Objs} {k : Key} {e : Key × Bytes} : e ∈ odel m k ↔ e ∈ m ∧ e.1 ≠ k := by
  simp [odel, List.mem_filter]

theorem filter_oput_tgt (m : Objs) (k : Key) (v : Bytes) (hk : k.topic = 1) :
    (oput m k v).filter (fun e => !isTgt e) = m.filter (fun e => !isTgt e) := by
  unfold oput
  have h1 : isTgt (k, v) = true := by simp [isTgt, hk]
  simp only [List.filter_cons, h1, Bool.not_true, Bool.false_eq_true, if_false, List.filter_filter]
  apply List.filter_congr
  intro e _
  by_cases he : isTgt e = true
  · simp [he]
  · have : e.1 ≠ k := by
      intro h; apply he; simp [isTgt, h, hk]
    simp [he, this]

theorem filter_odel_tgt (m : Objs) (k : Key) (hk : k.topic = 1) :
    (odel m k).filter (fun e => !isTgt e) = m.filter (fun e => !isTgt e) := by
  unfold odel
  simp only [List.filter_filter]
  apply List.filter_congr
  intro e _
  by_cases he : isTgt e = true
  · simp [he]
  · have : e.1 ≠ k := by
      intro h; apply he; simp [isTgt, h, hk]
    simp [he, this]

variable {crc : Bytes → Nat} {mk : Alloc} {restoreMs : Int} {segs0 idxs0 : Objs}

theorem good_same {st st' : CopySt} (h : Good segs0 idxs0 st) (hs : st'.s3.segs = st.s3.segs)
    (hi : st'.s3.idxs = st.s3.idxs) (hc : st'.copied = st.copied) : Good segs0 idxs0 st' :=
  ⟨by rw [hs, hc]; exact h.segsTracked, by rw [hi, hc]; exact h.idxsTracked, by rw [hs]; exact h.segsKept,
   by rw [hi]; exact h.idxsKept, by rw [hc]; exact h.copiedTgt⟩

theorem good_upSeg {st st' : CopySt} (tk : Key) (v : Bytes) (htk : tk.topic = 1) (h : Good segs0 idxs0 st)
    (hs : st'.s3.segs = oput st.s3.segs tk v) (hi : st'.s3.idxs = st.s3.idxs) (hc : st'.copied = st.copied ++ [tk]) :
    Good segs0 idxs0 st' := by
  refine ⟨?_, ?_, ?_, by rw [hi]; exact h.idxsKept, ?_⟩
  rotate_left 3
  · intro k hk; rw [hc] at hk; simp only [List.mem_append, List.mem_singleton] at hk
    rcases hk with hk | rfl
    · exact h.copiedTgt k hk
    · exact htk
  · intro e he ht
    rw [hs] at he; rw [hc]
    rcases mem_oput.mp he with rfl | ⟨hm, _⟩
    · simp
    · exact List.mem_append_left _ (h.segsTracked e hm ht)
  · intro e he ht
    rw [hi] at he; rw [hc]
    exact List.mem_append_left _ (h.idxsTracked e he ht)
  · rw [hs, filter_oput_tgt _ _ _ htk]; exact h.segsKept

theorem good_upBoth {st st' : CopySt} (tk : Key) (v w : Bytes) (htk : tk.topic = 1) (h : Good segs0 idxs0 st)
    (hs : st'.s3.segs = oput st.s3.segs tk v) (hi : st'.s3.idxs = oput st.s3.idxs tk w)
    (hc : st'.copied = st.copied ++ [tk]) : Good segs0 idxs0 st' := by
  refine ⟨?_, ?_, ?_, ?_, ?_⟩
  rotate_left 4
  · intro k hk; rw [hc] at hk; simp only [List.mem_append, List.mem_singleton] at hk
    rcases hk with hk | rfl
    · exact h.copiedTgt k hk
    · exact htk
  · intro e he ht
    rw [hs] at he; rw [hc]
    rcases mem_oput.mp he with rfl | ⟨hm, _⟩
    · simp
    · exact List.mem_append_left _ (h.segsTracked e hm ht)
  · intro e he ht
    rw [hi] at he; rw [hc]
    rcases mem_oput.mp he with rfl | ⟨hm, _⟩
    · simp
    · exact List.mem_append_left _ (h.idxsTracked e hm ht)
  · rw [hs, filter_oput_tgt _ _ _ htk]; exact h.segsKept
  · rw [hi, filter_oput_tgt _ _ _ htk]; exact h.idxsKept

theorem copyOne_good (seg : Src) (isLast : Bool) (sum : Summary) (st : CopySt) (h : Good segs0 idxs0 st) :
    Good segs0 idxs0 (copyOne crc mk restoreMs seg isLast sum st).2 := by
  unfold copyOne
  simp only
  split
  · exact good_same h rfl rfl rfl
  · split
    · exact good_same h rfl rfl rfl
    · split
      · exact good_same h rfl rfl rfl
      · split
        · exact good_same h rfl rfl rfl
        · split
          · exact good_same h rfl rfl rfl
          · exact good_same h rfl rfl rfl
          · split
            · exact good_same h rfl rfl rfl
            · split
              · exact good_same h rfl rfl rfl
              · split
                · exact good_upSeg _ _ rfl h rfl rfl rfl
                · exact good_upBoth _ _ _ rfl h rfl rfl rfl

theorem copySegs_good : ∀ (segs : List Src) (sum : Summary) (st : CopySt),
    Good segs0 idxs0 st → Good segs0 idxs0 (copySegs crc mk restoreMs segs sum st).2 := by
  intro segs
  induction segs with
  | nil => intro sum st h; simpa [copySegs] using h
  | cons seg rest ih =>
    intro sum st h
    have h1 := copyOne_good (crc := crc) (mk := mk) (restoreMs := restoreMs) seg rest.isEmpty sum st h
    unfold copySegs
    split
    · rename_i heq; rw [heq] at h1; exact ih _ _ h1
    · rename_i heq; rw [heq] at h1; exact h1
    · rename_i heq; rw [heq] at h1; exact h1
    · rename_i heq; rw [heq] at h1; exact h1

theorem copyParts_good : ∀ (ps : List (Int × List Src)) (st : CopySt),
    Good segs0 idxs0 st → Good segs0 idxs0 (copyParts crc mk restoreMs ps st).2 := by
  intro ps
  induction ps with
  | nil => intro st h; simpa [copyParts] using h
  | cons p t ih =>
    intro st h
    obtain ⟨pid, segs⟩ := p
    have h1 := copySegs_good (crc := crc) (mk := mk) (restoreMs := restoreMs)
      (segs.take (lastCandidate restoreMs segs + 1)) ⟨pid, 0, -1⟩ st h
    unfold copyParts
    simp only
    split
    · rename_i heq; rw [heq] at h1
      have h2 := ih _ h1
      split
      · rename_i heq2; rw [heq2] at h2; exact h2
      · rename_i heq2; rw [heq2] at h2; exact h2
    · rename_i heq; rw [heq] at h1; exact h1
    · rename_i heq; rw [heq] at h1; exact h1


/-! ### rollback -/

theorem rollback_segs_sub : ∀ (ks : List Key) (s : S3),
    (∀ e ∈ (rollback ks s).1.segs, e ∈ s.segs) ∧ (∀ e ∈ (rollback ks s).1.idxs, e ∈ s.idxs) := by
  intro ks
  induction ks with
  | nil => intro s; simp [rollback]
  | cons k t ih =>
    intro s
    simp only [rollback]
    constructor
    · intro e he
      have h1 := (ih _).1 e he
      split at h1 <;> split at h1 <;> simp only [S3.bump] at h1 <;>
        first | exact h1 | exact (mem_odel.mp h1).1
    · intro e he
      have h1 := (ih _).2 e he
      split at h1 <;> split at h1 <;> simp only [S3.bump] at h1 <;>
        first | exact h1 | exact (mem_odel.mp h1).1

/-- if no delete failed, none of the listed keys is left in either map -/
theorem rollback_clean : ∀ (ks : List Key) (s : S3), (rollback ks s).2 = false →
    (∀ e ∈ (rollback ks s).1.segs, e.1 ∉ ks) ∧ (∀ e ∈ (rollback ks s).1.idxs, e.1 ∉ ks) := by
  intro ks
  induction ks with
  | nil => intro s _; simp
  | cons k t ih =>
    intro s hf
    simp only [rollback, Bool.or_eq_false_iff] at hf
    obtain ⟨⟨hf1, hf2⟩, hf3⟩ := hf
    simp only [rollback, hf1, Bool.false_eq_true, if_false] at hf2 hf3 ⊢
    simp only [hf2, Bool.false_eq_true, if_false] at hf3 ⊢
    have h1 := ih _ hf3
    have h2 := rollback_segs_sub t ({ ({ s.bump with idxs := odel s.idxs k } : S3).bump with
      segs := odel ({ s.bump with idxs := odel s.idxs k } : S3).segs k })
    constructor
    · intro e he
      simp only [List.mem_cons, not_or]
      refine ⟨?_, h1.1 e he⟩
      have := h2.1 e he
      simp only [S3.bump] at this
      exact (mem_odel.mp this).2
    · intro e he
      simp only [List.mem_cons, not_or]
      refine ⟨?_, h1.2 e he⟩
      have := h2.2 e he
      simp only [S3.bump] at this
      exact (mem_odel.mp this).2

theorem rollback_keeps_others : ∀ (ks : List Key) (s : S3), (∀ k ∈ ks, k.topic = 1) →
    (rollback ks s).1.segs.filter (fun e => !isTgt e) = s.segs.filter (fun e => !isTgt e) ∧
    (rollback ks s).1.idxs.filter (fun e => !isTgt e) = s.idxs.filter (fun e => !isTgt e) := by
  intro ks
  induction ks with
  | nil => intro s _; simp [rollback]
  | cons k t ih =>
    intro s hk
    have hk1 := hk k (by simp)
    simp only [rollback]
    have := ih (if ((if s.failing = true then s.bump else { s.bump with idxs := odel s.idxs k }) : S3).failing = true
        then ((if s.failing = true then s.bump else { s.bump with idxs := odel s.idxs k }) : S3).bump
        else { ((if s.failing = true then s.bump else { s.bump with idxs := odel s.idxs k }) : S3).bump with
          segs := odel ((if s.failing = true then s.bump else { s.bump with idxs := odel s.idxs k }) : S3).segs k })
      (fun x hx => hk x (by simp [hx]))
    rw [this.1, this.2]
    constructor
    · split <;> split <;> simp [S3.bump, filter_odel_tgt _ _ hk1]
    · split <;> split <;> simp [S3.bump, filter_odel_tgt _ _ hk1]


theorem inspect_same (s : S3) (k : Key) (d : Bytes) :
    (inspect s k d).2.segs = s.segs ∧ (inspect s k d).2.idxs = s.idxs := by
  unfold inspect
  split
  · simp
  · split
    · simp [S3.bump]
    · split
      · simp [S3.bump]
      · split
        · simp [S3.bump]
        · split <;> simp [S3.bump]

theorem inspectAll_same : ∀ (objs : Objs) (s : S3),
    (inspectAll s objs).2.segs = s.segs ∧ (inspectAll s objs).2.idxs = s.idxs := by
  intro objs
  induction objs with
  | nil => intro s; simp [inspectAll]
  | cons o t ih =>
    intro s
    obtain ⟨k, d⟩ := o
    have h1 := inspect_same s k d
    unfold inspectAll
    split
    · rename_i heq; rw [heq] at h1; exact h1
    · rename_i x s1 heq
      rw [heq] at h1
      have h2 := ih s1
      split
      · rename_i heq2; rw [heq2] at h2; simp only at h1 h2 ⊢; rw [h2.1, h2.2]; exact h1
      · rename_i heq2; rw [heq2] at h2; simp only at h1 h2 ⊢; rw [h2.1, h2.2]; exact h1

/-- no object of the target topic -/
def TargetFree (m : Objs) : Prop := ∀ e ∈ m, e.1.topic ≠ 1

theorem good_init (s s' : S3) (hs : s'.segs = s.segs) (hi : s'.idxs = s.idxs)
    (h1 : TargetFree s.segs) (h2 : TargetFree s.idxs) : Good s.segs s.idxs ⟨s', []⟩ :=
  ⟨by intro e he ht; rw [hs] at he; exact absurd ht (h1 e he),
   by intro e he ht; rw [hi] at he; exact absurd ht (h2 e he),
   by rw [hs], by rw [hi], by simp⟩

/-- **C08, failure leaves nothing (and nothing else is touched).**  For every initial store whose
target topic is empty, every fault set, cutoff and partition filter:
* objects of other topics (the source!) are exactly what they were, whatever the outcome;
* if the restore did not succeed and no rollback delete failed, the target topic is empty again. -/
theorem recoverTopic_clean (crc : Bytes → Nat) (mk : Alloc) (restoreMs : Int) (allowed : List Int) (s : S3)
    (h1 : TargetFree s.segs) (h2 : TargetFree s.idxs) :
    let o := recoverTopic crc mk restoreMs allowed s
    (o.s3.segs.filter (fun e => !isTgt e) = s.segs.filter (fun e => !isTgt e) ∧
     o.s3.idxs.filter (fun e => !isTgt e) = s.idxs.filter (fun e => !isTgt e)) ∧
    ((∀ sums, o.res ≠ .ok sums) → o.delFailed = false → TargetFree o.s3.segs ∧ TargetFree o.s3.idxs) := by
  intro o
  have hbase : (TargetFree s.segs ∧ TargetFree s.idxs) := ⟨h1, h2⟩
  simp only [o]
  unfold recoverTopic
  split
  · exact ⟨⟨rfl, rfl⟩, fun _ _ => hbase⟩
  · split
    · exact ⟨⟨rfl, rfl⟩, fun _ _ => hbase⟩
    · split
      · exact ⟨⟨rfl, rfl⟩, fun _ _ => hbase⟩
      · have hins := inspectAll_same (s.segs.filter (fun e => e.1.topic = 0)) s.bump.bump
        split
        · rename_i s1 heq
          rw [heq] at hins
          simp only [S3.bump] at hins
          exact ⟨⟨by simp only; rw [hins.1], by simp only; rw [hins.2]⟩,
            fun _ _ => ⟨by simp only; rw [hins.1]; exact h1, by simp only; rw [hins.2]; exact h2⟩⟩
        · rename_i srcs s1 heq
          rw [heq] at hins
          simp only [S3.bump] at hins
          have hg0 : Good s.segs s.idxs ⟨s1, []⟩ := good_init s s1 hins.1 hins.2 h1 h2
          have hg := copyParts_good (crc := crc) (mk := mk) (restoreMs := restoreMs)
            (groupParts (if allowed.isEmpty = true then srcs else srcs.filter (fun x => allowed.contains x.key.part))) ⟨s1, []⟩ hg0
          simp only
          split
          · rename_i sums st heq2
            rw [heq2] at hg
            exact ⟨⟨hg.segsKept, hg.idxsKept⟩, fun hne _ => absurd rfl (hne sums)⟩
          · rename_i r st hnot heq2
            rw [heq2] at hg
            simp only at hg
            have hk := rollback_keeps_others st.copied.reverse st.s3 (fun k hk => hg.copiedTgt k (by simpa using hk))
            refine ⟨⟨by simp only; rw [hk.1]; exact hg.segsKept, by simp only; rw [hk.2]; exact hg.idxsKept⟩, ?_⟩
            intro _ hdf
            simp only at hdf
            have hc := rollback_clean st.copied.reverse st.s3 hdf
            have hsub := rollback_segs_sub st.copied.reverse st.s3
            constructor
            · intro e he ht
              have hm := hsub.1 e he
              have := hg.segsTracked e hm ht
              exact hc.1 e he (by simpa using this)
            · intro e he ht
              have hm := hsub.2 e he
              have := hg.idxsTracked e hm ht
              exact hc.2 e he (by simpa using this)


theorem lastCandidate_lt (restoreMs : Int) : ∀ (segs : List Src), segs ≠ [] → lastCandidate restoreMs segs < segs.length := by
  intro segs
  induction segs with
  | nil => intro h; exact absurd rfl h
  | cons s t ih =>
    intro _
    cases t with
    | nil => simp [lastCandidate]
    | cons s2 t2 =>
      unfold lastCandidate
      split
      · simp
      · have := ih (by simp); simp at this ⊢; omega

theorem lastCandidate_before (restoreMs : Int) : ∀ (segs : List Src) (i : Nat) (hi : i < lastCandidate restoreMs segs)
    (hl : i < segs.length), (segs[i]).created ≤ restoreMs := by
  intro segs
  induction segs with
  | nil => intro i hi hl; simp at hl
  | cons s t ih =>
    intro i hi hl
    cases t with
    | nil => simp [lastCandidate] at hi
    | cons s2 t2 =>
      unfold lastCandidate at hi
      split at hi
      · omega
      · rename_i hle
        cases i with
        | zero => simp; omega
        | succ j =>
          simp only [List.getElem_cons_succ]
          exact ih j (by omega) (by simp at hl ⊢; omega)

theorem lastCandidate_at (restoreMs : Int) : ∀ (segs : List Src) (hne : segs ≠ []),
    (segs[lastCandidate restoreMs segs]'(lastCandidate_lt restoreMs segs hne)).created > restoreMs ∨
      lastCandidate restoreMs segs = segs.length - 1 := by
  intro segs
  induction segs with
  | nil => intro h; exact absurd rfl h
  | cons s t ih =>
    intro _
    cases t with
    | nil => right; simp [lastCandidate]
    | cons s2 t2 =>
      by_cases hc : s.created > restoreMs
      · left
        have : lastCandidate restoreMs (s :: s2 :: t2) = 0 := by simp [lastCandidate, hc]
        simp [this, hc]
      · have hlc : lastCandidate restoreMs (s :: s2 :: t2) = 1 + lastCandidate restoreMs (s2 :: t2) := by
          simp [lastCandidate, hc]
        rcases ih (by simp) with h | h
        · left
          simp only [hlc]
          have : (s :: s2 :: t2)[1 + lastCandidate restoreMs (s2 :: t2)]'(by
              have := lastCandidate_lt restoreMs (s2 :: t2) (by simp); simp at this ⊢; omega) =
              (s2 :: t2)[lastCandidate restoreMs (s2 :: t2)]'(lastCandidate_lt restoreMs (s2 :: t2) (by simp)) := by
            simp [Nat.add_comm 1]
          rw [this]; exact h
        · right; rw [hlc, h]; simp; omega

/-! ### the property theorems -/

/-- the scan loop keeps exactly the longest prefix of records not later than the cutoff -/
theorem _root_.KafVerif.C08.scanLoop_keeps_prefix (lim : Nat) (firstTs cutoff : Int) (rs : List Rec) (hw : ∀ r ∈ rs, r.Wf)
    (st : ScanSt) (hl : (encRecs rs).length ≤ lim) :
    scanLoop (goMakeLim lim) firstTs cutoff (encRecs rs).length rs.length (encRecs rs) st =
      .ok (scanFold firstTs (encRecs rs).length st (keptPrefix firstTs cutoff rs) (encRecs rs).length) ∧
    (∀ r ∈ keptPrefix firstTs cutoff rs, recTs firstTs r ≤ cutoff) ∧
    (∀ r rest, rs = keptPrefix firstTs cutoff rs ++ r :: rest → recTs firstTs r > cutoff) := by
  refine ⟨?_, keptPrefix_all_le firstTs cutoff rs, fun r rest h => keptPrefix_next_gt firstTs cutoff rs rest r h⟩
  have := scanLoop_enc (mk := goMakeLim lim) (L := lim) (adm_goMakeLim (Nat.le_refl _)) firstTs cutoff (encRecs rs).length
    rs rs.length [] st hw rfl (by simpa using hl)
  simpa using this

/-- **the rewritten batch is the encoding of the truncated batch** (valid length, count, last offset
delta, max timestamp, CRC; kept record bytes identical to the source) -/
theorem _root_.KafVerif.C08.rewritten_batch_is_encoding (crc : Bytes → Nat) (b : Batch) (ks rest : List Rec)
    (hsplit : b.recs = ks ++ rest) (st : ScanSt) (hkb : st.keptBytes = (encRecs ks).length) (hk : st.kept = ks.length) :
    rewriteBatch crc (encBatch crc b) st = encBatch crc (cutBatch b ks st.lastOD st.maxIncl) :=
  rewriteBatch_enc crc b ks rest hsplit st hkb hk

/-- **`truncateRecordBatchToTimestamp` on every well-formed batch** -/
theorem _root_.KafVerif.C08.truncate_batch (lim : Nat) (crc : Bytes → Nat) (b : Batch) (hw : b.WfH) (cutoff : Int)
    (hL : (encBatch crc b).length ≤ lim) :
    truncateBatch crc (goMakeLim lim) (encBatch crc b) cutoff = .ok (cutOne crc cutoff b) :=
  truncateBatch_cutOne (adm_goMakeLim (Nat.le_refl _)) crc b hw cutoff hL

/-- **`collectRecoverableBatches` on a broker-written segment body** -/
theorem _root_.KafVerif.C08.collect_batches (lim : Nat) (crc : Bytes → Nat) (cutoff : Int) (bs : List Batch)
    (hw : ∀ b ∈ bs, b.WfH) (hsz : (encBatches crc bs).length < 2 ^ 31) (hL : (encBatches crc bs).length ≤ lim) :
    collectLoop crc (goMakeLim lim) cutoff ((encBatches crc bs).length + 1) (encBatches crc bs) =
      .ok ((collectBatches cutoff bs).map (mkSB crc)) := by
  have hge := encBatches_length_ge crc bs
  rw [collectLoop_enc (adm_goMakeLim (Nat.le_refl _)) crc cutoff bs hw _ (by omega) hsz hL, collectSpec_eq]

/-- **C08, exact prefix.** The records of the batches kept for the final segment are a prefix of
the source records; none of them is later than T; and the source record right after them (if
any) is later than T. -/
theorem _root_.KafVerif.C08.restored_records_exact_prefix (cutoff : Int) (bs : List Batch) (hh : ∀ b ∈ bs, b.HdrTrue) :
    (∃ rest, bs.flatMap recordsOf = (collectBatches cutoff bs).flatMap recordsOf ++ rest) ∧
    (∀ d ∈ (collectBatches cutoff bs).flatMap recordsOf, d.ts ≤ cutoff) ∧
    (∀ d rest, bs.flatMap recordsOf = (collectBatches cutoff bs).flatMap recordsOf ++ d :: rest → d.ts > cutoff) :=
  ⟨collectBatches_prefix cutoff bs, collectBatches_all_le cutoff bs hh,
   fun d rest h => collectBatches_next_gt cutoff bs hh d rest h⟩

/-- **C08, failure leaves nothing; nothing else is ever touched.** -/
theorem _root_.KafVerif.C08.restore_fail_clean (crc : Bytes → Nat) (mk : Alloc) (restoreMs : Int) (allowed : List Int) (s : S3)
    (h1 : TargetFree s.segs) (h2 : TargetFree s.idxs) :
    ((recoverTopic crc mk restoreMs allowed s).s3.segs.filter (fun e => !isTgt e) = s.segs.filter (fun e => !isTgt e) ∧
     (recoverTopic crc mk restoreMs allowed s).s3.idxs.filter (fun e => !isTgt e) = s.idxs.filter (fun e => !isTgt e)) ∧
    ((∀ sums, (recoverTopic crc mk restoreMs allowed s).res ≠ .ok sums) →
      (recoverTopic crc mk restoreMs allowed s).delFailed = false →
      TargetFree (recoverTopic crc mk restoreMs allowed s).s3.segs ∧
      TargetFree (recoverTopic crc mk restoreMs allowed s).s3.idxs) :=
  recoverTopic_clean crc mk restoreMs allowed s h1 h2

/-- candidate selection: every segment before the last candidate was created at or before T; the
last candidate is the first one created after T, or the last segment -/
theorem _root_.KafVerif.C08.last_candidate_spec (restoreMs : Int) (segs : List Src) (hne : segs ≠ []) :
    lastCandidate restoreMs segs < segs.length ∧
    (∀ (i : Nat) (hi : i < lastCandidate restoreMs segs) (hl : i < segs.length), (segs[i]).created ≤ restoreMs) ∧
    ((segs[lastCandidate restoreMs segs]'(lastCandidate_lt restoreMs segs hne)).created > restoreMs ∨
      lastCandidate restoreMs segs = segs.length - 1) :=
  ⟨lastCandidate_lt restoreMs segs hne, lastCandidate_before restoreMs segs, lastCandidate_at restoreMs segs hne⟩

/-! ### non-vacuity -/

def exR0 : Rec := ⟨0, 0, 0, none, some [1], []⟩
def exR1 : Rec := ⟨0, 50, 1, some [2], none, []⟩
def exR2 : Rec := ⟨0, 200, 2, none, none, []⟩
def exB : Batch := { base := 10, lastOffsetDelta := 2, firstTs := 1000, maxTs := 1200, recs := [exR0, exR1, exR2] }

example : exB.HdrTrue := by
  refine ⟨⟨exR0, [exR1, exR2], rfl, by decide⟩, by decide, ⟨exR2, by decide, by decide⟩⟩
example : keptPrefix exB.firstTs 1100 exB.recs = exB.recs.take 2 := by decide
example : (collectBatches 1100 [exB]).flatMap recordsOf = (recordsOf exB).take 2 := by decide
example : (cutOneB 1100 exB).2 = true ∧ ((cutOneB 1100 exB).1.map (·.lastOffsetDelta)) = some 1 ∧
    ((cutOneB 1100 exB).1.map (·.maxTs)) = some 1050 := by decide
example : TargetFree ([(⟨0, 0, 0⟩, [1, 2, 3])] : Objs) := by
  intro e he; simp at he; subst he; decide
example : lastCandidate 5 [⟨⟨0, 0, 0⟩, 1, 3, 48⟩, ⟨⟨0, 0, 2⟩, 3, 9, 48⟩, ⟨⟨0, 0, 4⟩, 5, 12, 48⟩] = 1 := by decide

end KafVerif.Kafka
