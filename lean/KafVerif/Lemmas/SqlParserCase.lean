import KafVerif.Model.SqlParser
/-!
Helper lemmas for C35 (keyword-case invariance): every string operation of the parser model
commutes with the ASCII lowering `L = asciiLower`.  Core Lean only.
-/
namespace KafVerif.SqlParser

local notation "L" => asciiLower

theorem forall_uint8' (P : UInt8 → Prop) (h : ∀ v : Fin 256, P (UInt8.ofNat v.val)) : ∀ x, P x := by
  intro x
  have := h ⟨x.toNat, x.toNat_lt⟩
  simpa using this

/-- all byte-class facts in one kernel evaluation over the 256 bytes -/
def ByteFacts (x : UInt8) : Prop :=
  lowerB (lowerB x) = lowerB x ∧ isSpaceB (lowerB x) = isSpaceB x ∧ isReSpace (lowerB x) = isReSpace x ∧
  isIdentB (lowerB x) = isIdentB x ∧
  (lowerB x == 39) = (x == 39) ∧ (lowerB x == 40) = (x == 40) ∧ (lowerB x == 41) = (x == 41) ∧
  (lowerB x == 44) = (x == 44) ∧ (lowerB x == 46) = (x == 46) ∧ (lowerB x == 59) = (x == 59) ∧
  (lowerB x == 61) = (x == 61)

instance (x : UInt8) : Decidable (ByteFacts x) := by unfold ByteFacts; exact inferInstance

set_option maxRecDepth 100000 in
theorem byteFacts (x : UInt8) : ByteFacts x := forall_uint8' ByteFacts (by decide) x

theorem lowerB_idem (x : UInt8) : lowerB (lowerB x) = lowerB x := (byteFacts x).1
theorem isSpaceB_lowerB (x : UInt8) : isSpaceB (lowerB x) = isSpaceB x := (byteFacts x).2.1
theorem isReSpace_lowerB (x : UInt8) : isReSpace (lowerB x) = isReSpace x := (byteFacts x).2.2.1
theorem isIdentB_lowerB (x : UInt8) : isIdentB (lowerB x) = isIdentB x := (byteFacts x).2.2.2.1

/-- bytes that are not ASCII letters are fixed by, and only reached from themselves under, `lowerB` -/
def Punct (c : UInt8) : Prop := ∀ x, (lowerB x == c) = (x == c)

theorem punct_39 : Punct 39 := fun x => (byteFacts x).2.2.2.2.1
theorem punct_40 : Punct 40 := fun x => (byteFacts x).2.2.2.2.2.1
theorem punct_41 : Punct 41 := fun x => (byteFacts x).2.2.2.2.2.2.1
theorem punct_44 : Punct 44 := fun x => (byteFacts x).2.2.2.2.2.2.2.1
theorem punct_46 : Punct 46 := fun x => (byteFacts x).2.2.2.2.2.2.2.2.1
theorem punct_59 : Punct 59 := fun x => (byteFacts x).2.2.2.2.2.2.2.2.2.1
theorem punct_61 : Punct 61 := fun x => (byteFacts x).2.2.2.2.2.2.2.2.2.2

/-! ### list operations -/

@[simp] theorem L_nil : L [] = [] := rfl
@[simp] theorem L_cons (c : UInt8) (t : Bytes) : L (c :: t) = lowerB c :: L t := rfl
@[simp] theorem L_length (s : Bytes) : (L s).length = s.length := by simp [asciiLower]
@[simp] theorem L_isEmpty (s : Bytes) : (L s).isEmpty = s.isEmpty := by cases s <;> rfl

theorem L_idem (s : Bytes) : L (L s) = L s := by
  simp [asciiLower, List.map_map, Function.comp_def, lowerB_idem]

theorem L_append (a b : Bytes) : L (a ++ b) = L a ++ L b := by simp [asciiLower]
theorem L_reverse (s : Bytes) : L s.reverse = (L s).reverse := by simp [asciiLower]
theorem L_drop (n : Nat) (s : Bytes) : L (s.drop n) = (L s).drop n := by simp [asciiLower, List.map_drop]
theorem L_take (n : Nat) (s : Bytes) : L (s.take n) = (L s).take n := by simp [asciiLower, List.map_take]

theorem dropWhile_L (p : UInt8 → Bool) (hp : ∀ x, p (lowerB x) = p x) (s : Bytes) :
    (L s).dropWhile p = L (s.dropWhile p) := by
  induction s with
  | nil => rfl
  | cons c t ih =>
    simp only [L_cons, List.dropWhile_cons, hp]
    split
    · exact ih
    · rfl

theorem takeWhile_L (p : UInt8 → Bool) (hp : ∀ x, p (lowerB x) = p x) (s : Bytes) :
    (L s).takeWhile p = L (s.takeWhile p) := by
  induction s with
  | nil => rfl
  | cons c t ih =>
    simp only [L_cons, List.takeWhile_cons, hp]
    split
    · simp [ih]
    · rfl

theorem trimLeft_L (s : Bytes) : trimLeft (L s) = L (trimLeft s) := dropWhile_L _ isSpaceB_lowerB s

theorem trimRight_L (s : Bytes) : trimRight (L s) = L (trimRight s) := by
  unfold trimRight
  rw [← L_reverse, dropWhile_L _ isSpaceB_lowerB, L_reverse]

theorem trimSpace_L (s : Bytes) : trimSpace (L s) = L (trimSpace s) := by
  unfold trimSpace; rw [trimLeft_L, trimRight_L]

theorem getLast?_L (s : Bytes) : (L s).getLast? = s.getLast?.map lowerB := by
  simp [asciiLower, List.getLast?_map]

theorem trimSemi_L (s : Bytes) : trimSemi (L s) = L (trimSemi s) := by
  unfold trimSemi
  rw [getLast?_L]
  cases h : s.getLast? with
  | none => simp
  | some x =>
    have hp := punct_59 x
    simp only [Option.map_some, Option.some.injEq]
    by_cases hx : x = 59
    · subst hx
      have : lowerB 59 = 59 := by decide
      simp [this, asciiLower, List.map_dropLast]
    · have : lowerB x ≠ 59 := by
        intro hl
        have := hp
        simp [hl] at this
        exact hx this
      simp [hx, this]

theorem skipWs_L (s : Bytes) : skipWs (L s) = L (skipWs s) := dropWhile_L _ isReSpace_lowerB s

theorem expectByte_L (b : UInt8) (hb : Punct b) (s : Bytes) :
    expectByte b (L s) = (expectByte b s).map L := by
  cases s with
  | nil => rfl
  | cons c t =>
    simp only [L_cons, expectByte, hb c]
    split <;> rfl

theorem kwAt_L (kw t : Bytes) : kwAt kw (L t) = kwAt kw t := by
  unfold kwAt
  simp only [L_length, ← L_take]
  congr 1
  have : (L (t.take kw.length)).map lowerB = (t.take kw.length).map lowerB := by
    simp [asciiLower, List.map_map, Function.comp_def, lowerB_idem]
  rw [this]

theorem hasPrefix_LL (s p : Bytes) : hasPrefix (L (L s)) p = hasPrefix (L s) p := by rw [L_idem]

/-! ### splitters -/

theorem splitOnAux_L (sep : UInt8) (hs : Punct sep) (s cur : Bytes) :
    splitOnAux sep (L s) (L cur) = (splitOnAux sep s cur).map L := by
  induction s generalizing cur with
  | nil => simp [splitOnAux, L_reverse]
  | cons c t ih =>
    simp only [L_cons, splitOnAux, hs c]
    split
    · simp only [List.map_cons, L_reverse]
      congr 1
      exact ih []
    · exact ih (c :: cur)

theorem splitOn_L (sep : UInt8) (hs : Punct sep) (s : Bytes) : splitOn sep (L s) = (splitOn sep s).map L :=
  splitOnAux_L sep hs s []

theorem splitColumnsAux_L (s : Bytes) : ∀ (depth : Nat) (cur : Bytes),
    splitColumnsAux (L s) depth (L cur) = (splitColumnsAux s depth cur).map L := by
  induction s with
  | nil =>
    intro depth cur
    simp only [L_nil, splitColumnsAux, L_isEmpty]
    split <;> simp [L_reverse]
  | cons c t ih =>
    intro depth cur
    simp only [L_cons, splitColumnsAux, punct_40 c, punct_41 c, punct_44 c]
    split
    · exact ih _ (c :: cur)
    · split
      · exact ih _ (c :: cur)
      · split
        · simp only [List.map_cons, L_reverse]
          congr 1
          exact ih 0 []
        · exact ih _ (c :: cur)

theorem splitColumns_L (s : Bytes) : splitColumns (L s) = (splitColumns s).map L := splitColumnsAux_L s 0 []

theorem splitIdentifiers_L (s : Bytes) : splitIdentifiers (L s) = splitIdentifiers s := by
  unfold splitIdentifiers
  rw [splitOn_L 44 punct_44, List.map_map]
  congr 1
  apply List.map_congr_left
  intro p _
  simp [Function.comp, L_idem]

theorem parseColumnRef_LL (s : Bytes) : parseColumnRef (L (L s)) = parseColumnRef (L s) := by rw [L_idem]

end KafVerif.SqlParser
