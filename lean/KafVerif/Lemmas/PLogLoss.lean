import KafVerif.Lemmas.PLogReadReach
import KafVerif.Model.PLogLoss
/-!
`PartitionLog.Read` on a log whose restored segment list has HOLES (segments skipped by the orphan rule of
`RestoreFromS3`, segment objects deleted): `SegGap` generalises C02's `SegChain` (consecutive segments) to
"each segment starts at or after the end of the one before".  Used by Props/C03 (`read_run_after_loss`) and
Props/C04 (`fetch_progress_after_loss`).
-/
namespace KafVerif.PLog
open KafVerif KafVerif.RecBatch

/-- committed segments in base order, each a non-empty chain of batches, possibly with holes between them; `e` is an
upper bound of the last segment's end -/
def SegGap : Int → List Seg → Int → Prop
  | s, [], e => s ≤ e
  | s, g :: t, e => g.batches ≠ [] ∧ s ≤ g.base ∧ Chain g.base g.batches (g.last + 1) ∧ SegGap (g.last + 1) t e

theorem segchain_gap {s e : Int} {ss : List Seg} (h : SegChain s ss e) : SegGap s ss e := by
  induction ss generalizing s with
  | nil => simp only [SegChain] at h; simp only [SegGap]; omega
  | cons g t ih =>
    obtain ⟨h1, h2, h3, h4⟩ := h
    exact ⟨h1, by omega, h2 ▸ h3, ih h4⟩

theorem seggap_le {s e : Int} {ss : List Seg} (h : SegGap s ss e) : s ≤ e := by
  induction ss generalizing s with
  | nil => exact h
  | cons g t ih =>
    obtain ⟨h1, h2, h3, h4⟩ := h
    have := ih h4
    have := chain_lt h3 h1
    omega

theorem seggap_start {s s' e : Int} {ss : List Seg} (h : SegGap s ss e) (hs : s' ≤ s) : SegGap s' ss e := by
  cases ss with
  | nil => simp only [SegGap] at *; omega
  | cons g t =>
    obtain ⟨h1, h2, h3, h4⟩ := h
    exact ⟨h1, by omega, h3, h4⟩

theorem seggap_end {s e e' : Int} {ss : List Seg} (h : SegGap s ss e) (he : e ≤ e') : SegGap s ss e' := by
  induction ss generalizing s with
  | nil => simp only [SegGap] at *; omega
  | cons g t ih =>
    obtain ⟨h1, h2, h3, h4⟩ := h
    exact ⟨h1, h2, h3, ih h4⟩

/-- the tight end: one past the last offset of the last segment -/
theorem seggap_tight {s e : Int} {ss : List Seg} {g : Seg} (h : SegGap s ss e) (hl : ss.getLast? = some g) :
    SegGap s ss (g.last + 1) := by
  induction ss generalizing s with
  | nil => simp at hl
  | cons x t ih =>
    obtain ⟨h1, h2, h3, h4⟩ := h
    cases t with
    | nil =>
      simp at hl; subst hl
      exact ⟨h1, h2, h3, by simp [SegGap]⟩
    | cons y t' =>
      rw [List.getLast?_cons_cons] at hl
      exact ⟨h1, h2, h3, ih h4 hl⟩

theorem seggap_mem {s e : Int} {ss : List Seg} (h : SegGap s ss e) :
    ∀ g ∈ ss, g.batches ≠ [] ∧ Chain g.base g.batches (g.last + 1) ∧ s ≤ g.base ∧ g.last + 1 ≤ e := by
  induction ss generalizing s with
  | nil => simp
  | cons x t ih =>
    obtain ⟨h1, h2, h3, h4⟩ := h
    intro g hg
    simp only [List.mem_cons] at hg
    rcases hg with rfl | hg
    · exact ⟨h1, h3, h2, seggap_le h4⟩
    · obtain ⟨a, b, c, d⟩ := ih h4 g hg
      have := chain_lt h3 h1
      exact ⟨a, b, by omega, d⟩

/-- every batch of a gapped segment list lies inside its segment -/
theorem seggap_batches {s e : Int} {ss : List Seg} (h : SegGap s ss e) :
    ∀ x ∈ segBatches ss, s ≤ x.base ∧ x.last < e := by
  induction ss generalizing s with
  | nil => simp [segBatches]
  | cons g t ih =>
    obtain ⟨h1, h2, h3, h4⟩ := h
    intro x hx
    simp only [segBatches, List.map_cons, List.flatten_cons, List.mem_append] at hx
    have hle := seggap_le h4
    rcases hx with hx | hx
    · have := (KafVerif.C02.chain_strict h3).1 x hx
      omega
    · have := ih h4 x hx
      have := chain_lt h3 h1
      omega

/-- a sublist of consecutive (or gapped) segments is a gapped segment list -/
theorem seggap_sublist {s e : Int} {ss sub : List Seg} (h : SegGap s ss e) (hs : sub.Sublist ss) : SegGap s sub e := by
  induction hs generalizing s with
  | slnil => exact h
  | cons a _ ih =>
    obtain ⟨h1, h2, h3, h4⟩ := h
    have := chain_lt h3 h1
    exact seggap_start (ih h4) (by omega)
  | cons_cons a _ ih =>
    obtain ⟨h1, h2, h3, h4⟩ := h
    exact ⟨h1, h2, h3, ih h4⟩

/-- bases of a gapped list strictly increase -/
theorem seggap_bases {s e : Int} {ss : List Seg} (h : SegGap s ss e) : ss.Pairwise (fun a b => a.base < b.base) := by
  induction ss generalizing s with
  | nil => simp
  | cons g t ih =>
    obtain ⟨h1, h2, h3, h4⟩ := h
    refine List.pairwise_cons.mpr ⟨?_, ih h4⟩
    intro x hx
    have := (seggap_mem h4 x hx).2.2.1
    have := chain_lt h3 h1
    omega

theorem sortSegs_gap {s e : Int} {ss : List Seg} (h : SegGap s ss e) : sortSegs ss = ss := by
  induction ss generalizing s with
  | nil => rfl
  | cons g t ih =>
    obtain ⟨h1, h2, h3, h4⟩ := h
    have : sortSegs (g :: t) = insertSeg g (sortSegs t) := rfl
    rw [this, ih h4]
    cases t with
    | nil => rfl
    | cons x t' =>
      have hx : g.last + 1 ≤ x.base := h4.2.1
      have := chain_lt h3 h1
      simp only [insertSeg]
      rw [if_pos (by omega)]

theorem s3get_of_mem {ss : List Seg} (hp : ss.Pairwise (fun a b => a.base < b.base)) {g : Seg} (hg : g ∈ ss) :
    s3get ss g.base = some g.data := by
  unfold s3get
  induction ss with
  | nil => simp at hg
  | cons x t ih =>
    obtain ⟨hx, ht⟩ := List.pairwise_cons.mp hp
    simp only [List.mem_cons] at hg
    rcases hg with rfl | hg
    · simp
    · have := hx g hg
      have hne : (x.base == g.base) = false := by simp; omega
      rw [List.find?_cons, hne]
      exact ih ht hg

/-! ### the segment lookup of `Read` on a gapped list -/

theorem findSeg_gap {s e : Int} {segs : List Seg} (h : SegGap s segs e) (o : Int) :
    ((∀ g ∈ segs, g.last < o) → findSeg segs o = none) ∧
    (∀ g0 ∈ segs, o ≤ g0.last → ∃ pre g post, segs = pre ++ g :: post ∧ (∀ x ∈ segBatches pre, x.last < o) ∧
      findSeg segs o = some (g, if g.base ≤ o then o else g.base) ∧ o ≤ g.last) := by
  induction segs generalizing s with
  | nil => exact ⟨fun _ => rfl, fun g0 hg0 => by simp at hg0⟩
  | cons g t ih =>
    obtain ⟨h1, h2, h3, h4⟩ := h
    obtain ⟨ih1, ih2⟩ := ih h4
    have hlt := chain_lt h3 h1
    constructor
    · intro hall
      have hg := hall g (by simp)
      simp only [findSeg]
      rw [if_neg (by omega), if_neg (by omega)]
      exact ih1 (fun x hx => hall x (by simp [hx]))
    · intro g0 hg0 hog0
      by_cases hin : g.base ≤ o ∧ o ≤ g.last
      · refine ⟨[], g, t, rfl, by simp [segBatches], ?_, hin.2⟩
        simp only [findSeg, if_pos hin, if_pos hin.1]
      · by_cases hbefore : g.base > o
        · refine ⟨[], g, t, rfl, by simp [segBatches], ?_, by omega⟩
          simp only [findSeg, if_neg hin, if_pos hbefore]
          rw [if_neg (by omega)]
        · simp only [List.mem_cons] at hg0
          have hg0t : g0 ∈ t := by
            rcases hg0 with rfl | hg0
            · omega
            · exact hg0
          obtain ⟨pre, g', post, hs, hp, hf, hl⟩ := ih2 g0 hg0t hog0
          refine ⟨g :: pre, g', post, by simp [hs], ?_, ?_, hl⟩
          · intro x hx
            simp only [segBatches, List.map_cons, List.flatten_cons, List.mem_append] at hx
            rcases hx with hx | hx
            · have := (KafVerif.C02.chain_strict h3).1 x hx
              omega
            · exact hp x hx
          · simp only [findSeg, if_neg hin, if_neg hbefore]
            exact hf

/-- **`PartitionLog.Read` on a log with holes.**  Same conclusion as `read_good`, for a gapped segment list and a
tail (in-flight + buffered batches) that starts at or after the end of the last segment. -/
theorem read_gapped {start : Int} {l : PLog} (m0 : Int) (hseg : SegGap start l.segs m0)
    (htail : Chain m0 (l.fl ++ l.buf) l.next) (hbuilt : ∀ g ∈ l.segs, SegBuilt l.interval g)
    (hcoh : Coherent l) (hne : ∀ b ∈ l.fl ++ l.buf, b.bytes ≠ []) (o m : Int) :
    (runFrom (segBatches l.segs ++ (l.fl ++ l.buf)) o = [] → (read l o m).2 = .oor) ∧
    (runFrom (segBatches l.segs ++ (l.fl ++ l.buf)) o ≠ [] → ∃ d, (read l o m).2 = .data d ∧ d ≠ [] ∧
      d <+: body (runFrom (segBatches l.segs ++ (l.fl ++ l.buf)) o)) := by
  obtain ⟨fs1, fs2⟩ := findSeg_gap hseg o
  by_cases hom : ∀ g ∈ l.segs, g.last < o
  · -- beyond every committed segment: flush window / buffer
    have hnone := fs1 hom
    have hrun : runFrom (segBatches l.segs ++ (l.fl ++ l.buf)) o = runFrom (l.fl ++ l.buf) o := by
      apply runFrom_append_right
      apply runFrom_eq_nil
      intro x hx
      simp only [segBatches, List.mem_flatten, List.mem_map] at hx
      obtain ⟨bs, ⟨g, hg, rfl⟩, hxb⟩ := hx
      obtain ⟨_, hc, _, _⟩ := seggap_mem hseg g hg
      have := (KafVerif.C02.chain_strict hc).1 x hxb
      have := hom g hg
      omega
    obtain ⟨fb1, fb2⟩ := fallback_chain htail hne o m
    have hread : (read l o m).2 = fallback l.fl l.buf o m := by
      unfold read; rw [hnone]
    rw [hrun, hread]
    refine ⟨fb1, fun hrne => ?_⟩
    obtain ⟨k, hk1, hk⟩ := fb2 hrne
    refine ⟨_, hk, ?_, ?_⟩
    · exact body_take_ne_nil hk1 hrne (fun b hb => hne b (mem_runFrom hb))
    · conv => rhs; rw [← List.take_append_drop k (runFrom (l.fl ++ l.buf) o), body_append]
      exact List.prefix_append _ _
  · -- inside, before, or in a hole before a committed segment
    have hex : ∃ g0 ∈ l.segs, o ≤ g0.last := by
      apply Classical.byContradiction
      intro hno
      apply hom
      intro g hg
      apply Classical.byContradiction
      intro hlt
      exact hno ⟨g, hg, by omega⟩
    obtain ⟨g0, hg0, hog0⟩ := hex
    obtain ⟨pre, g, post, hsplit, hpre, hfind, hol⟩ := fs2 g0 hg0 hog0
    have hgmem : g ∈ l.segs := by rw [hsplit]; simp
    obtain ⟨hb1, hb2, hb3, hb4, hb5⟩ := hbuilt g hgmem
    obtain ⟨hgne, hgc, _, _⟩ := seggap_mem hseg g hgmem
    let o' := if g.base ≤ o then o else g.base
    have ho'1 : g.base ≤ o' := by simp only [o']; split <;> omega
    have hglt := chain_lt hgc hgne
    have ho'2 : o' < g.last + 1 := by simp only [o']; split <;> omega
    obtain ⟨n, hn1, hslice, hn2, _⟩ :=
      sliceCached_segment l.interval hgne hgc hb4 hb5 o' m (by omega) ho'2
    rw [← hb1, ← hb2, ← hb3] at hslice
    have hrange := range_eq_sliceCached l.interval hgne hgc hb4 hb5 o' m (by omega) ho'2
    rw [← hb1, ← hb2, ← hb3] at hrange
    have hrun_o' : runFrom g.batches o' = runFrom g.batches o := by
      simp only [o']
      split
      · rfl
      · rw [runFrom_below hgc g.base (by omega), runFrom_below hgc o (by omega)]
    have hgrne : runFrom g.batches o ≠ [] := by
      obtain ⟨bh, hbh, _, hbh2⟩ := KafVerif.C02.chain_covers hgc o' (by omega) ho'2
      rw [← hrun_o']
      exact runFrom_ne_nil hbh (by omega)
    have hrun : runFrom (segBatches l.segs ++ (l.fl ++ l.buf)) o =
        runFrom g.batches o ++ (segBatches post ++ (l.fl ++ l.buf)) := by
      have : segBatches l.segs ++ (l.fl ++ l.buf) =
          segBatches pre ++ (g.batches ++ (segBatches post ++ (l.fl ++ l.buf))) := by
        rw [hsplit]; simp [segBatches]
      rw [this, runFrom_append_right (runFrom_eq_nil hpre), runFrom_append_left hgrne]
    have hd_ne : (body (runFrom g.batches o')).take n ≠ [] := by
      intro hnil
      have : ((body (runFrom g.batches o')).take n).length = 0 := by rw [hnil]; rfl
      rw [List.length_take] at this
      omega
    have hpref : (body (runFrom g.batches o')).take n <+:
        body (runFrom (segBatches l.segs ++ (l.fl ++ l.buf)) o) := by
      rw [hrun, body_append, hrun_o']
      exact prefix_take_append _ _ n
    refine ⟨fun h => ?_, fun _ => ⟨_, ?_, hd_ne, hpref⟩⟩
    · rw [hrun] at h
      exact absurd (List.append_eq_nil_iff.mp h).1 hgrne
    unfold read
    rw [hfind]
    simp only
    have hs3 := hcoh.1 g hgmem
    cases hcg' : (if l.cacheOn then cacheGet l.cached g.base else none) with
    | some d =>
      have hd : d = g.data := by
        by_cases hc : l.cacheOn = true
        · simp only [hc, if_true] at hcg'; exact hcoh.2 g hgmem d hcg'
        · simp [hc] at hcg'
      simp only [hd]
      exact hslice
    | none =>
      simp only [hs3]
      cases hr : segmentRangeFor g.size g.entries o' m with
      | some p =>
        obtain ⟨st, en⟩ := p
        simp only
        rw [← hslice]
        exact hrange st en hr
      | none =>
        simp only
        exact hslice

/-! ### object loss + restore -/

/-- losing objects only removes entries from the S3 listing of the partition; nothing else of the log changes -/
theorem lose_fold (losses : List Loss) (x : LLog) :
    ((losses.foldl lose x).l.s3).Sublist x.l.s3 ∧
    (losses.foldl lose x).l = { x.l with s3 := (losses.foldl lose x).l.s3 } := by
  induction losses generalizing x with
  | nil => exact ⟨List.Sublist.refl _, rfl⟩
  | cons a t ih =>
    obtain ⟨i1, i2⟩ := ih (lose x a)
    have hstep : (lose x a).l.s3.Sublist x.l.s3 ∧ (lose x a).l = { x.l with s3 := (lose x a).l.s3 } := by
      cases a with
      | index b =>
        simp only [lose, loseIndex]
        split <;> exact ⟨List.Sublist.refl _, rfl⟩
      | seg b =>
        simp only [lose, loseSeg]
        exact ⟨List.filter_sublist, trivial⟩
    simp only [List.foldl_cons]
    refine ⟨i1.trans hstep.1, ?_⟩
    rw [i2, hstep.2]

theorem scanIdx_sublist (noIdx : List Int) (next : Int) (ss out : List Seg) (h : scanIdx noIdx next ss = some out) :
    out.Sublist ss := by
  induction ss generalizing out with
  | nil => simp [scanIdx] at h; subst h; exact List.Sublist.refl _
  | cons g t ih =>
    simp only [scanIdx] at h
    split at h
    · split at h
      · exact (ih out h).cons g
      · simp at h
    · cases hr : scanIdx noIdx next t with
      | none => simp [hr] at h
      | some r =>
        simp only [hr, Option.map_some, Option.some.injEq] at h
        subst h
        exact (ih r hr).cons_cons g

theorem getLast_batch {g : Seg} (hne : g.batches ≠ []) (hc : Chain g.base g.batches (g.last + 1)) :
    ∃ b ∈ g.batches, b.last = g.last := by
  cases hl : g.batches.getLast? with
  | none => simp at hl; exact absurd hl hne
  | some b =>
    have := chain_end hc hl
    exact ⟨b, List.mem_of_getLast? hl, by simp only [Batch.last]; omega⟩

/-- **Restore after object loss.**  From a state satisfying the fault-free invariants (`Inv`, `Good`: any reachable state),
lose ANY set of index / segment objects and restart at ANY store offset `st ≥ start`: if `RestoreFromS3` succeeds, the
restored log satisfies the hypotheses of `read_gapped`, its segments are a sub-list of the old ones, and its next offset is
past the last retained segment. -/
theorem restore_gapped {start : Int} {l : PLog} (hi : Inv start l) (hg : Good l) (losses : List Loss) (st last : Int)
    (hst : start ≤ st) (hr : (restoreAt (losses.foldl lose { l := l }) st).2 = .ok last) :
    let l' := (restoreAt (losses.foldl lose { l := l }) st).1.l
    SegGap start l'.segs l'.next ∧ l'.fl = [] ∧ l'.buf = [] ∧ (∀ g ∈ l'.segs, SegBuilt l'.interval g) ∧ Coherent l' ∧
    l'.segs.Sublist l.segs ∧ (∀ g, l'.segs.getLast? = some g → last = g.last ∧ g.last < l'.next) ∧
    (l'.segs = [] → last = -1) := by
  obtain ⟨m, h1, h2, h3, _⟩ := hi
  obtain ⟨g1, g2, g3, g4⟩ := hg
  obtain ⟨x1, x2⟩ := lose_fold losses { l := l }
  generalize losses.foldl lose { l := l } = x at x1 x2 hr ⊢
  intro l'
  simp only at x1 x2
  have hgap0 : SegGap start l.segs m := segchain_gap h1
  have hs3gap : SegGap start x.l.s3 m := seggap_sublist hgap0 (h3 ▸ x1)
  have hsort : sortSegs x.l.s3 = x.l.s3 := sortSegs_gap hs3gap
  have hl' : l' = (restoreAt x st).1.l := rfl
  unfold restoreAt at hr hl'
  rw [hsort] at hr hl'
  cases hscan : scanIdx x.noIdx st x.l.s3 with
  | none => simp [hscan] at hr
  | some segs =>
    rw [hscan] at hr hl'
    simp only at hr hl'
    have hsub : segs.Sublist x.l.s3 := scanIdx_sublist _ _ _ _ hscan
    have hsubl : segs.Sublist l.segs := hsub.trans (h3 ▸ x1)
    have hgap : SegGap start segs m := seggap_sublist hs3gap hsub
    have hpw : x.l.s3.Pairwise (fun a b => a.base < b.base) := seggap_bases hs3gap
    have hfields : x.l.interval = l.interval ∧ x.l.cached = l.cached := by rw [x2]; exact ⟨rfl, rfl⟩
    cases hlast : segs.getLast? with
    | none =>
      have hnil : segs = [] := by simpa using hlast
      rw [hlast] at hr hl'
      simp only [RestoreOut.ok.injEq] at hr
      simp only [freshAt] at hl'
      refine ⟨?_, by rw [hl'], by rw [hl'], ?_, ?_, ?_, ?_, ?_⟩
      · rw [hl']; simp only [SegGap]; exact hst
      · rw [hl']; intro g hg; simp at hg
      · rw [hl']; exact ⟨by intro g hg; simp at hg, by intro g hg; simp at hg⟩
      · rw [hl']; exact List.nil_sublist _
      · rw [hl']; intro g hg; simp at hg
      · intro _; omega
    | some s =>
      rw [hlast] at hr hl'
      simp only [RestoreOut.ok.injEq] at hr
      have hsmem : s ∈ segs := List.mem_of_getLast? hlast
      have htight := seggap_tight hgap hlast
      have hsegs : l'.segs = segs := by rw [hl']
      have hnext : l'.next = if s.last ≥ st then s.last + 1 else st := by rw [hl']
      have hnext_ge : s.last + 1 ≤ l'.next := by rw [hnext]; split <;> omega
      refine ⟨?_, by rw [hl'], by rw [hl'], ?_, ?_, ?_, ?_, ?_⟩
      · rw [hsegs]; exact seggap_end htight hnext_ge
      · rw [hsegs]
        intro g hg
        have : l'.interval = l.interval := by rw [hl']; exact hfields.1
        rw [this]
        exact g1 g (hsubl.subset hg)
      · constructor
        · rw [hsegs]
          intro g hg
          have : l'.s3 = x.l.s3 := by rw [hl']
          rw [this]
          exact s3get_of_mem hpw (hsub.subset hg)
        · rw [hsegs]
          intro g hg d hd
          have : l'.cached = l.cached := by rw [hl']; exact hfields.2
          rw [this] at hd
          exact g2.2 g (hsubl.subset hg) d hd
      · rw [hsegs]; exact hsubl
      · rw [hsegs, hlast]
        intro g hg
        simp only [Option.some.injEq] at hg
        subst hg
        exact ⟨hr.symm, by omega⟩
      · rw [hsegs]; intro hn; rw [hn] at hsmem; simp at hsmem


/-! ### the gapped invariant is kept by everything but a restart -/

/-- offsets / flush protocol part: gapped segments, then the in-flight and buffered batches as one chain up to `nextOffset` -/
def InvG (start : Int) (l : PLog) : Prop :=
  ∃ m, SegGap start l.segs m ∧ Chain m (l.fl ++ l.buf) l.next ∧ (l.gated = false → l.fl = []) ∧ (l.gated = true → l.fl ≠ [])

/-- bytes part: segments as built, cache and S3 hold them, pending batches framed; with the cache off nothing is cached -/
def GoodG (l : PLog) : Prop :=
  (∀ g ∈ l.segs, SegBuilt l.interval g) ∧ Coherent l ∧ (∀ b ∈ l.fl ++ l.buf, BatchOK b) ∧ (l.cacheOn = false → l.cached = [])

theorem s3get_s3put_same (s3 : List Seg) (seg : Seg) : s3get (s3put s3 seg) seg.base = some seg.data := by
  unfold s3put s3get
  split
  · rename_i hany
    induction s3 with
    | nil => simp at hany
    | cons x t ih =>
      simp only [List.map_cons]
      by_cases hx : (x.base == seg.base) = true
      · simp [hx]
      · have hx' : (x.base == seg.base) = false := by simpa using hx
        simp only [hx', Bool.false_eq_true, if_false, List.find?_cons]
        simp only [List.any_cons, hx', Bool.false_or] at hany
        exact ih hany
  · rename_i hany
    have hnone : s3.find? (fun x => x.base == seg.base) = none := by
      apply List.find?_eq_none.mpr
      intro x hx hk
      exact hany (List.any_eq_true.mpr ⟨x, hx, hk⟩)
    rw [List.find?_append, hnone]
    simp

theorem find_s3map_other (s3 : List Seg) (seg : Seg) (b : Int) (h : b ≠ seg.base) :
    (s3.map fun x => if x.base == seg.base then seg else x).find? (fun x => x.base == b) = s3.find? (fun x => x.base == b) := by
  induction s3 with
  | nil => rfl
  | cons x t ih =>
    simp only [List.map_cons, List.find?_cons]
    by_cases hx : (x.base == seg.base) = true
    · have hxe : x.base = seg.base := by simpa using hx
      have h1 : (seg.base == b) = false := by simp; omega
      have h2 : (x.base == b) = false := by simp [hxe]; omega
      simp only [hx, if_true, h1, h2]
      exact ih
    · have hx' : (x.base == seg.base) = false := by simpa using hx
      simp only [hx', Bool.false_eq_true, if_false]
      split
      · rfl
      · exact ih

theorem s3get_s3put_other (s3 : List Seg) (seg : Seg) (b : Int) (h : b ≠ seg.base) :
    s3get (s3put s3 seg) b = s3get s3 b := by
  unfold s3put s3get
  split
  · rw [find_s3map_other s3 seg b h]
  · rw [List.find?_append]
    have : ([seg] : List Seg).find? (fun x => x.base == b) = none := by
      simp; omega
    rw [this]; simp

theorem seggap_snoc {s m : Int} {ss : List Seg} {g : Seg} (h : SegGap s ss m) (hne : g.batches ≠ []) (hb : m ≤ g.base)
    (hc : Chain g.base g.batches (g.last + 1)) : SegGap s (ss ++ [g]) (g.last + 1) := by
  induction ss generalizing s with
  | nil =>
    simp only [SegGap] at h
    exact ⟨hne, by omega, hc, by simp [SegGap]⟩
  | cons x t ih =>
    obtain ⟨h1, h2, h3, h4⟩ := h
    exact ⟨h1, h2, h3, ih h4⟩

theorem read_cache_off (l : PLog) (o m : Int) (hc : l.cacheOn = false) : (read l o m).1 = l := by
  unfold read
  split
  · rfl
  · split
    · rfl
    · split
      · rfl
      · split
        · rfl
        · simp [hc]

/-- `commit` (the success path of `uploadFlush`) keeps the gapped invariants -/
theorem gapped_commit {start : Int} {l : PLog} (m : Int) (h1 : SegGap start l.segs m)
    (hcm : Chain m (l.fl ++ l.buf) l.next) (hne : l.fl ≠ []) (hg : GoodG l) (hs : Small l) :
    InvG start (commit l) ∧ GoodG (commit l) := by
  obtain ⟨g1, g2, g3, g4⟩ := hg
  obtain ⟨k, hk1, hk2⟩ := chain_append.mp hcm
  obtain ⟨hb, hlast⟩ := buildSegment_meta (iv := l.interval) hne hk1
  have hsmall : (body l.fl).length + 48 < 2147483648 := by
    have := hs.2.2
    rw [body_append] at this
    simp at this; omega
  have hbuilt : SegBuilt l.interval (buildSegment l.interval l.fl) :=
    ⟨rfl, rfl, rfl, fun b hb => g3 b (List.mem_append_left _ hb), hsmall⟩
  have hfresh : ∀ x ∈ l.segs, x.base ≠ (buildSegment l.interval l.fl).base := by
    intro x hx
    obtain ⟨a, b, _, d⟩ := seggap_mem h1 x hx
    have := chain_lt b a
    rw [hb]; omega
  have hchain : Chain (buildSegment l.interval l.fl).base (buildSegment l.interval l.fl).batches
      ((buildSegment l.interval l.fl).last + 1) := by
    rw [buildSegment_batches, hb, hlast]; exact hk1
  refine ⟨⟨k, ?_, ?_, ?_, ?_⟩, ?_, ⟨?_, ?_⟩, ?_, ?_⟩
  · have := seggap_snoc h1 (by rw [buildSegment_batches]; exact hne) (by rw [hb]; omega) hchain
    rw [hlast] at this
    simpa [commit] using this
  · simpa [commit] using hk2
  · intro _; simp [commit]
  · intro hgt; simp [commit] at hgt
  · intro x hx
    simp only [commit, List.mem_append, List.mem_singleton] at hx
    rcases hx with hx | rfl
    · exact g1 x hx
    · exact hbuilt
  · intro x hx
    simp only [commit, List.mem_append, List.mem_singleton] at hx
    show s3get (s3put l.s3 (buildSegment l.interval l.fl)) x.base = some x.data
    rcases hx with hx | rfl
    · rw [s3get_s3put_other _ _ _ (hfresh x hx)]
      exact g2.1 x hx
    · exact s3get_s3put_same _ _
  · intro x hx d hd
    simp only [commit, List.mem_append, List.mem_singleton] at hx
    simp only [commit] at hd
    by_cases hc : l.cacheOn = true
    · simp only [hc, if_true] at hd
      rcases hx with hx | rfl
      · rw [cacheGet_put_other _ _ _ _ (hfresh x hx)] at hd
        exact g2.2 x hx d hd
      · rw [cacheGet_put_same] at hd
        simpa using hd.symm
    · have hcf : l.cacheOn = false := by simpa using hc
      simp only [hcf, Bool.false_eq_true, if_false] at hd
      rw [g4 hcf] at hd
      simp [cacheGet] at hd
  · intro x hx
    simp only [commit, List.nil_append] at hx
    exact g3 x (List.mem_append_right _ hx)
  · intro hcf
    have : (commit l).cacheOn = l.cacheOn := rfl
    rw [this] at hcf
    simp only [commit, hcf, Bool.false_eq_true, if_false]
    exact g4 hcf

/-- operations other than a restart -/
def NoRestart : Op → Prop
  | .restart => False
  | .restartAt _ => False
  | _ => True

theorem gapped_step {start : Int} {l : PLog} (op : Op) (hi : InvG start l) (hg : GoodG l) (hs : Small l)
    (hd : Declared op) (hn : NoRestart op) : InvG start (step l op) ∧ GoodG (step l op) := by
  obtain ⟨m, h1, h2, h4, h5⟩ := hi
  obtain ⟨g1, g2, g3, g4⟩ := hg
  have hg' : GoodG l := ⟨g1, g2, g3, g4⟩
  have hi' : InvG start l := ⟨m, h1, h2, h4, h5⟩
  cases op with
  | append data =>
    simp only [step]
    split
    · exact ⟨hi', hg'⟩
    · rename_i b hp
      unfold append
      split
      · rename_i hv
        have hb : b.bytes = data ∧ b.lod = hdrLod data ∧ hdrMin ≤ data.length := by
          unfold parse at hp
          split at hp
          · simp at hp
          · simp only [Option.some.injEq] at hp
            rw [← hp]; exact ⟨rfl, rfl, by omega⟩
        obtain ⟨hbytes, hlod, hlen⟩ := hb
        obtain ⟨hfr, hlod'⟩ := KafVerif.C02.stored_is_one_frame b l.next hv (by rw [hbytes]; exact hlen) (by rw [hbytes]; exact hd)
        refine ⟨⟨m, h1, ?_, h4, h5⟩, g1, ⟨g2.1, g2.2⟩, ?_, g4⟩
        · simp only
          rw [← List.append_assoc]
          refine chain_append.mpr ⟨l.next, h2, ?_⟩
          show Chain l.next [patch b l.next] (l.next + b.lod + 1)
          exact ⟨rfl, (validOk_lod hv : 0 ≤ b.lod), rfl⟩
        · intro x hx
          simp only at hx
          rw [← List.append_assoc] at hx
          rcases List.mem_append.mp hx with hx | hx
          · exact g3 x hx
          · simp only [List.mem_singleton] at hx
            subst hx
            refine ⟨hfr, ?_, ?_, hfr.2⟩
            · simp only [patch, hdrBase]
              rw [field_zero_prefix _ _ (be64Bytes_length _)]
              exact toInt64_be64 _ hs.1 hs.2.1
            · rw [hlod', hbytes]; exact hlod.symm
      · exact ⟨hi', hg'⟩
  | flush =>
    simp only [step]
    by_cases hgt : l.gated = true
    · simp [hgt]; exact ⟨hi', hg'⟩
    · have hgf : l.gated = false := by simpa using hgt
      have hfl := h4 hgf
      simp only [hgf, Bool.false_eq_true, if_false]
      unfold flush
      split
      · split
        · exact ⟨⟨m, h1, h2, h4, h5⟩, g1, ⟨g2.1, g2.2⟩, g3, g4⟩
        · exact ⟨hi', hg'⟩
      · rename_i hemp
        have hb : l.buf ≠ [] := by simpa using hemp
        have hp : (prepare l).fl ++ (prepare l).buf = l.fl ++ l.buf := by simp [prepare, hfl]
        apply gapped_commit (start := start) m
        · exact h1
        · rw [hp]; exact h2
        · simpa [prepare] using hb
        · exact ⟨g1, ⟨g2.1, g2.2⟩, by rw [hp]; exact g3, g4⟩
        · obtain ⟨s1, s2, s3⟩ := hs
          exact ⟨s1, s2, by rw [hp]; exact s3⟩
  | gate =>
    simp only [step]
    by_cases hgt : l.gated = true
    · simp [hgt]; exact ⟨hi', hg'⟩
    · have hgf : l.gated = false := by simpa using hgt
      have hfl := h4 hgf
      simp only [hgf, Bool.false_eq_true, if_false]
      unfold gate
      split
      · unfold flush
        rename_i hemp
        simp only [hemp, if_true]
        split
        · exact ⟨⟨m, h1, h2, h4, h5⟩, g1, ⟨g2.1, g2.2⟩, g3, g4⟩
        · exact ⟨hi', hg'⟩
      · rename_i hemp
        have hb : l.buf ≠ [] := by simpa using hemp
        have hp : (prepare l).fl ++ (prepare l).buf = l.fl ++ l.buf := by simp [prepare, hfl]
        refine ⟨⟨m, h1, ?_, by simp, ?_⟩, g1, ⟨g2.1, g2.2⟩, ?_, g4⟩
        · show Chain m ((prepare l).fl ++ (prepare l).buf) l.next
          rw [hp]; exact h2
        · intro _; simpa [prepare] using hb
        · show ∀ b ∈ (prepare l).fl ++ (prepare l).buf, BatchOK b
          rw [hp]; exact g3
  | release =>
    simp only [step]
    by_cases hgt : l.gated = true
    · simp only [hgt, if_true]
      exact gapped_commit (start := start) m h1 h2 (h5 hgt) hg' hs
    · have hgf : l.gated = false := by simpa using hgt
      simp [hgf]; exact ⟨hi', hg'⟩
  | restart => exact absurd hn (by simp [NoRestart])
  | restartAt st => exact absurd hn (by simp [NoRestart])
  | read o mb =>
    simp only [step]
    obtain ⟨e1, e2, e3, e4, e5, e6, e7, e8⟩ := read_frame l o mb
    refine ⟨⟨m, by rw [e1]; exact h1, by rw [e2, e3, e4]; exact h2, by rw [e6, e3]; exact h4, by rw [e6, e3]; exact h5⟩, ?_⟩
    rcases read_state l o mb with h | ⟨g, o', obj, hf, hs3, h⟩
    · rw [h]; exact hg'
    · by_cases hc : l.cacheOn = true
      · rw [h]
        have hgm := findSeg_mem hf
        exact ⟨g1, coherent_cachePut g2 g hgm obj hs3, g3, by intro hcf; simp [hc] at hcf⟩
      · have hcf : l.cacheOn = false := by simpa using hc
        rw [read_cache_off l o mb hcf]; exact hg'
  | dropcache =>
    simp only [step]
    exact ⟨⟨m, h1, h2, h4, h5⟩, g1, ⟨g2.1, by intro x _ d hd; simp [cacheGet] at hd⟩, g3, by intro _; rfl⟩

/-- every state of the run is `Small`, every appended record set declares its length, and no operation is a restart -/
def RunOKG : PLog → List Op → Prop
  | l, [] => Small l
  | l, op :: t => Small l ∧ Declared op ∧ NoRestart op ∧ RunOKG (step l op) t

theorem gapped_reach {start : Int} (l : PLog) (ops : List Op) (hi : InvG start l) (hg : GoodG l) (hr : RunOKG l ops) :
    InvG start (ops.foldl step l) ∧ GoodG (ops.foldl step l) := by
  induction ops generalizing l with
  | nil => exact ⟨hi, hg⟩
  | cons op t ih =>
    obtain ⟨hs, hd, hn, hr'⟩ := hr
    obtain ⟨a, b⟩ := gapped_step op hi hg hs hd hn
    exact ih (step l op) a b hr'

/-- with the cache switched off nothing is ever cached -/
def CacheOff (l : PLog) : Prop := l.cacheOn = false → l.cached = []

theorem cacheOff_commit (l : PLog) (h : CacheOff l) : CacheOff (commit l) := by
  intro hc
  have hc' : l.cacheOn = false := hc
  simp only [commit, hc', Bool.false_eq_true, if_false]
  exact h hc'

theorem cacheOff_flush (l : PLog) (h : CacheOff l) : CacheOff (flush l) := by
  unfold flush
  split
  · split
    · exact h
    · exact h
  · exact cacheOff_commit (prepare l) h

theorem cacheOff_restartAt (l : PLog) (st : Int) (h : CacheOff l) : CacheOff (restartAt l st).1 := by
  unfold restartAt
  simp only
  cases (sortSegs l.s3).getLast? with
  | none => exact h
  | some s => exact h

theorem cacheOff_step (l : PLog) (op : Op) (h : CacheOff l) : CacheOff (step l op) := by
  cases op with
  | append data =>
    simp only [step]
    split
    · exact h
    · unfold append; split <;> exact h
  | flush => simp only [step]; split; exact h; exact cacheOff_flush l h
  | gate =>
    simp only [step]
    split
    · exact h
    · unfold gate
      split
      · exact cacheOff_flush l h
      · exact h
  | release => simp only [step]; split; exact cacheOff_commit l h; exact h
  | restart => simp only [step]; split; exact h; exact cacheOff_restartAt l l.hw h
  | restartAt st => simp only [step]; split; exact h; exact cacheOff_restartAt l st h
  | read o mb =>
    simp only [step]
    intro hc
    by_cases hcl : l.cacheOn = true
    · rcases read_state l o mb with e | ⟨g, o', obj, _, _, e⟩
      · rw [e] at hc; rw [hcl] at hc; simp at hc
      · rw [e] at hc; simp only at hc; rw [hcl] at hc; simp at hc
    · have hcf : l.cacheOn = false := by simpa using hcl
      rw [read_cache_off l o mb hcf]; exact h hcf
  | dropcache => simp only [step]; intro _; rfl

theorem cacheOff_reach (iv : Int) (c : Bool) (start : Int) (ops : List Op) :
    CacheOff (ops.foldl step (PLog.new iv c start)) := by
  have h0 : CacheOff (PLog.new iv c start) := fun _ => rfl
  generalize PLog.new iv c start = l at h0
  induction ops generalizing l with
  | nil => exact h0
  | cons op t ih => exact ih _ (cacheOff_step l op h0)

/-- the restored log satisfies the gapped invariants (so everything after the restart up to the next restart does) -/
theorem restore_invG {start : Int} {l : PLog} (hi : Inv start l) (hg : Good l) (hcache : l.cacheOn = false → l.cached = [])
    (losses : List Loss) (st last : Int) (hst : start ≤ st)
    (hr : (restoreAt (losses.foldl lose { l := l }) st).2 = .ok last) :
    InvG start (restoreAt (losses.foldl lose { l := l }) st).1.l ∧ GoodG (restoreAt (losses.foldl lose { l := l }) st).1.l := by
  obtain ⟨r1, r2, r3, r4, r5, _⟩ := restore_gapped hi hg losses st last hst hr
  have hgated : (restoreAt (losses.foldl lose { l := l }) st).1.l.gated = false ∧
      (restoreAt (losses.foldl lose { l := l }) st).1.l.cacheOn = l.cacheOn ∧
      (restoreAt (losses.foldl lose { l := l }) st).1.l.cached = l.cached := by
    obtain ⟨_, x2⟩ := lose_fold losses { l := l }
    generalize losses.foldl lose { l := l } = x at x2 hr ⊢
    simp only at x2
    unfold restoreAt
    split
    · simp only [freshAt]; rw [x2]; simp
    · split
      · simp only [freshAt]; rw [x2]; simp
      · simp only; rw [x2]; simp
  refine ⟨⟨_, r1, by rw [r2, r3]; simp [Chain], fun _ => r2, fun h => by rw [hgated.1] at h; simp at h⟩,
    r4, r5, by rw [r2, r3]; simp, fun h => ?_⟩
  rw [hgated.2.2]
  exact hcache (hgated.2.1 ▸ h)
end KafVerif.PLog
