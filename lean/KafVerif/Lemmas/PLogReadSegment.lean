import KafVerif.Lemmas.PLogReadFallback
import KafVerif.Lemmas.PLogReadIndex
/-!
The read path on a committed segment (`sliceCachedSegment`, `skipBatchesBefore`,
`computeSegmentRange`, `segmentRangeForOffset`) for a segment built by `BuildSegment` from a chain
of framed batches.  Used by Props/C03 (`segment_read_run`, `range_read_eq_slice`) and Props/C04.
-/
namespace KafVerif.PLog
open KafVerif KafVerif.RecBatch

/-! ### bytes of a segment -/

theorem zeros_length (n : Nat) : (zeros n).length = n := by simp [zeros]

theorem field_take (a : Bytes) (k i n : Nat) (h : i + n ≤ k) : field (a.take k) i n = field a i n := by
  unfold field
  rw [List.drop_take, List.take_take]
  congr 1
  omega

theorem hdr_take (a : Bytes) :
    hdrBase (a.take hdrMin) = hdrBase a ∧ hdrLen (a.take hdrMin) = hdrLen a ∧ hdrLod (a.take hdrMin) = hdrLod a := by
  simp only [hdrBase, hdrLen, hdrLod, hdrMin]
  rw [field_take a 61 0 8 (by omega), field_take a 61 8 4 (by omega), field_take a 61 23 4 (by omega)]
  exact ⟨rfl, rfl, rfl⟩

/-- the segment object for batches `bs` -/
def segData (bs : List Batch) : Bytes := zeros headerLen ++ body bs ++ zeros footerLen.toNat

theorem segData_length (bs : List Batch) : (segData bs).length = 48 + (body bs).length := by
  simp [segData, zeros_length, headerLen, footerLen]; omega

/-- position of the batch that follows the batches `pre` -/
def posAfter (pre : List Batch) : Nat := 32 + (body pre).length

theorem segData_drop (pre rest : List Batch) :
    (segData (pre ++ rest)).drop (posAfter pre) = body rest ++ zeros footerLen.toNat := by
  have : segData (pre ++ rest) = (zeros headerLen ++ body pre) ++ (body rest ++ zeros footerLen.toNat) := by
    simp [segData, body_append, List.append_assoc]
  rw [this]
  exact List.drop_left' (by simp [zeros_length, headerLen, posAfter])

/-- the 61 header bytes read at the position of batch `x` are `x`'s -/
theorem hdr_at (pre : List Batch) (x : Batch) (post : List Batch) (hx : hdrMin ≤ x.bytes.length) :
    field (segData (pre ++ x :: post)) (posAfter pre) hdrMin = x.bytes.take hdrMin := by
  unfold field
  rw [segData_drop, body_cons, List.append_assoc]
  exact List.take_append_of_le_length hx

theorem posAfter_snoc (pre : List Batch) (x : Batch) : posAfter (pre ++ [x]) = posAfter pre + x.bytes.length := by
  simp [posAfter, body]; omega

/-! ### the frame walk -/

/-- `skipBatchesBefore` started at the position after `pre` walks over `mid` (all before `o`) and stops at
the first batch `h` that reaches `o`. -/
theorem skip_walk (o : Int) (h : Batch) (post : List Batch) (hh : ¬ h.last < o) (hfh : Framed h ∧ HdrOK h) :
    ∀ (mid pre : List Batch) (fuel : Nat) (data : Bytes) (L : Int),
      data = segData (pre ++ mid ++ h :: post) →
      L = 32 + (body (pre ++ mid ++ h :: post)).length →
      (∀ b ∈ mid, b.last < o ∧ Framed b ∧ HdrOK b) →
      mid.length < fuel →
      skipBatches data L o fuel (posAfter pre) = posAfter (pre ++ mid) := by
  intro mid
  induction mid with
  | nil =>
    intro pre fuel data L hd hL _ hfuel
    cases fuel with
    | zero => simp at hfuel
    | succ f =>
      simp only [List.append_nil] at hd hL ⊢
      obtain ⟨⟨hf1, hf2⟩, hb, hl, _⟩ := hfh
      have hmin : (hdrMin : Int) = 61 := rfl
      have hlen : (body (pre ++ h :: post)).length = (body pre).length + h.bytes.length + (body post).length := by
        simp [body_append, body_cons]; omega
      unfold skipBatches
      have hc : ((posAfter pre : Nat) : Int) ≥ 0 ∧ ((posAfter pre : Nat) : Int) + hdrMin ≤ L := by
        simp only [posAfter] at *; omega
      rw [if_pos hc]
      simp only [Int.toNat_natCast]
      rw [hd, hdr_at pre h post hf2]
      obtain ⟨e1, e2, e3⟩ := hdr_take h.bytes
      simp only [e1, e2, e3, hb, hl]
      have : h.base + h.lod ≥ o := by simp only [Batch.last] at hh; omega
      simp [this]
  | cons x mid ih =>
    intro pre fuel data L hd hL hmid hfuel
    cases fuel with
    | zero => simp at hfuel
    | succ f =>
      obtain ⟨hxl, ⟨hf1, hf2⟩, hb, hl, _⟩ := hmid x (by simp)
      have hmin : (hdrMin : Int) = 61 := rfl
      have hmin' : hdrMin = 61 := rfl
      -- the batch after x (the head of mid ++ [h]) has at least a header
      have hnext : 61 ≤ (body (mid ++ h :: post)).length := by
        cases mid with
        | nil => simp [body_cons]; have := hfh.1.2; omega
        | cons y t =>
          have := (hmid y (by simp)).2.1.2
          simp [body_cons]; omega
      have hlen : (body (pre ++ x :: mid ++ h :: post)).length =
          (body pre).length + x.bytes.length + (body (mid ++ h :: post)).length := by
        simp [body_append, body_cons]; omega
      unfold skipBatches
      have hc : ((posAfter pre : Nat) : Int) ≥ 0 ∧ ((posAfter pre : Nat) : Int) + hdrMin ≤ L := by
        simp only [posAfter] at *; omega
      rw [if_pos hc]
      simp only [Int.toNat_natCast]
      have hd' : data = segData (pre ++ x :: (mid ++ h :: post)) := by rw [hd]; simp
      rw [hd', hdr_at pre x (mid ++ h :: post) hf2]
      obtain ⟨e1, e2, e3⟩ := hdr_take x.bytes
      simp only [e1, e2, e3, hb, hl]
      have hstop : ¬ (x.base + x.lod ≥ o ∨ 12 + hdrLen x.bytes < hdrMin ∨
          ((posAfter pre : Nat) : Int) + (12 + hdrLen x.bytes) + hdrMin > L) := by
        simp only [Batch.last] at hxl
        simp only [posAfter] at *
        omega
      rw [if_neg hstop]
      have hpos : ((posAfter pre : Nat) : Int) + (12 + hdrLen x.bytes) = ((posAfter (pre ++ [x]) : Nat) : Int) := by
        rw [posAfter_snoc]; push_cast; omega
      rw [hpos, ← hd']
      have := ih (pre ++ [x]) f data L (by rw [hd]; simp) (by rw [hL]; simp)
        (fun b hb => hmid b (by simp [hb])) (by simpa using hfuel)
      rw [this]; simp

/-! ### index entries of a built segment -/

theorem wrap32_small (x : Int) (h0 : 0 ≤ x) (h1 : x < 2147483648) : wrap32 x = x := by
  unfold wrap32 toInt32
  have : (x % 4294967296).toNat % 4294967296 = x.toNat := by omega
  rw [this]
  split <;> omega

/-- every index entry is `(base, position)` of some batch of the segment -/
theorem buildIndex_mem (iv : Int) (t : List Batch) (pre : List Batch) (since : Int) (hv : Bool) (e : Int × Int)
    (h : e ∈ buildIndex iv t (posAfter pre) since hv) :
    ∃ mid x post, t = mid ++ x :: post ∧ e = (x.base, wrap32 (posAfter (pre ++ mid))) := by
  induction t generalizing pre since hv with
  | nil => simp [buildIndex] at h
  | cons b t ih =>
    simp only [buildIndex] at h
    have hpos : ((posAfter pre : Nat) : Int) + (b.bytes.length : Int) = ((posAfter (pre ++ [b]) : Nat) : Int) := by
      rw [posAfter_snoc]; push_cast; rfl
    rw [hpos] at h
    split at h
    · simp only [List.mem_cons] at h
      rcases h with rfl | h
      · exact ⟨[], b, t, rfl, by simp⟩
      · obtain ⟨mid, x, post, ht, he⟩ := ih _ _ _ h
        exact ⟨b :: mid, x, post, by simp [ht], by simpa using he⟩
    · obtain ⟨mid, x, post, ht, he⟩ := ih _ _ _ h
      exact ⟨b :: mid, x, post, by simp [ht], by simpa using he⟩

theorem buildIndex_head (iv : Int) (b : Batch) (t : List Batch) (pos : Int) :
    ∃ rest, buildIndex iv (b :: t) pos 0 false = (b.base, wrap32 pos) :: rest := by
  simp [buildIndex]

theorem buildSegment_data (iv : Int) (bs : List Batch) :
    (buildSegment iv bs).data = segData bs ∧ (buildSegment iv bs).size = 48 + (body bs).length := by
  constructor
  · rfl
  · show ((zeros headerLen ++ body bs ++ zeros footerLen.toNat).length : Int) = _
    have := segData_length bs
    simp only [segData] at this
    rw [this]; push_cast; rfl

/-! ### `sliceCachedSegment`, arithmetic core -/

theorem sliceCached_core (size : Int) (es : List (Int × Int)) (o m : Int) (data : Bytes) (P0 E0 L P1 : Int)
    (h1 : es.isEmpty = false) (h2 : computeSegmentRange size es o m = (P0, E0))
    (h3 : (if size - footerLen > data.length then (data.length : Int) else size - footerLen) = L)
    (h4 : skipBatches data L o data.length P0 = P1)
    (hP0 : 0 ≤ P0) (hP : P0 ≤ P1) (hL : P1 < L) (hLd : L ≤ data.length)
    (hE0 : E0 = if m > 0 ∧ P0 + m - 1 < L - 1 then P0 + m - 1 else L - 1) :
    sliceCached size es o m data =
      .data ((data.drop P1.toNat).take (if m > 0 ∧ P1 + m - 1 < L - 1 then m else L - P1).toNat) := by
  unfold sliceCached
  simp only [h1, h2, h3, h4, Bool.false_eq_true, if_false]
  have hE0' : P0 ≤ E0 ∧ E0 ≤ L - 1 := by rw [hE0]; split <;> omega
  have hc1 : ¬ (P0 < 0 ∨ E0 < P0) := by omega
  rw [if_neg hc1]
  by_cases hadv : P1 > P0
  · simp only [hadv, if_true]
    by_cases hm : m > 0 ∧ P1 + m - 1 < L - 1
    · have hm0 : m > 0 ∧ P0 + m - 1 < L - 1 := by omega
      rw [if_pos hm0] at hE0
      have e1 : (if E0 + (P1 - P0) > L - 1 then L - 1 else E0 + (P1 - P0)) = P1 + m - 1 := by
        rw [hE0]; split <;> omega
      simp only [e1, if_pos hm]
      have e2 : ¬ (P1 + m - 1 ≥ (data.length : Int)) := by omega
      rw [if_neg e2]
      unfold sliceOut goSlice
      have e3 : 0 ≤ P1 ∧ P1 ≤ P1 + m - 1 + 1 ∧ P1 + m - 1 + 1 ≤ (data.length : Int) := by omega
      rw [if_pos e3]
      simp only
      congr 2
      omega
    · have e1 : (if E0 + (P1 - P0) > L - 1 then L - 1 else E0 + (P1 - P0)) = L - 1 := by
        rw [hE0]; split <;> split <;> omega
      simp only [e1, if_neg hm]
      have e2 : ¬ (L - 1 ≥ (data.length : Int)) := by omega
      rw [if_neg e2]
      unfold sliceOut goSlice
      have e3 : 0 ≤ P1 ∧ P1 ≤ L - 1 + 1 ∧ L - 1 + 1 ≤ (data.length : Int) := by omega
      rw [if_pos e3]
      simp only
      congr 2
      omega
  · have hEq : P1 = P0 := by omega
    subst hEq
    simp only [hadv, if_false]
    have e2 : ¬ (E0 ≥ (data.length : Int)) := by omega
    rw [if_neg e2]
    unfold sliceOut goSlice
    have e3 : 0 ≤ P1 ∧ P1 ≤ E0 + 1 ∧ E0 + 1 ≤ (data.length : Int) := by omega
    rw [if_pos e3]
    simp only
    congr 2
    rw [hE0]
    split <;> omega

/-! ### assembling: a read inside a built segment -/

theorem length_le_body (l : List Batch) (h : ∀ b ∈ l, hdrMin ≤ b.bytes.length) : l.length ≤ (body l).length := by
  induction l with
  | nil => simp
  | cons x t ih =>
    have := h x (by simp)
    have := ih (fun b hb => h b (by simp [hb]))
    simp [body_cons, hdrMin] at *; omega

theorem runFrom_eq_nil {l : List Batch} {o : Int} (h : ∀ b ∈ l, b.last < o) : runFrom l o = [] := by
  unfold runFrom
  induction l with
  | nil => rfl
  | cons x t ih =>
    have hx := h x (by simp)
    simp only [List.dropWhile_cons, hx, decide_true, if_true]
    exact ih (fun b hb => h b (by simp [hb]))

theorem runFrom_ne_nil {l : List Batch} {o : Int} {b : Batch} (hb : b ∈ l) (h : ¬ b.last < o) : runFrom l o ≠ [] := by
  unfold runFrom
  induction l with
  | nil => simp at hb
  | cons x t ih =>
    simp only [List.dropWhile_cons]
    split
    · rename_i hx
      simp only [List.mem_cons] at hb
      rcases hb with rfl | hb
      · simp at hx; exact absurd hx h
      · exact ih hb
    · simp

theorem runFrom_head {l : List Batch} {o : Int} {h : Batch} {t : List Batch} (hr : runFrom l o = h :: t) :
    ¬ h.last < o := by
  unfold runFrom at hr
  induction l with
  | nil => simp at hr
  | cons x t' ih =>
    simp only [List.dropWhile_cons] at hr
    split at hr
    · exact ih hr
    · rename_i hx
      simp only [List.cons.injEq] at hr
      rw [← hr.1]; simpa using hx

theorem split_runFrom (l : List Batch) (o : Int) :
    l = l.takeWhile (fun b => decide (b.last < o)) ++ runFrom l o := (List.takeWhile_append_dropWhile).symm

/-- The index lookup on a built segment lands on a batch that starts at or before `o`. -/
theorem entry_decomp {s e : Int} {bs : List Batch} (iv : Int) (hne : bs ≠ []) (hc : Chain s bs e)
    (hsmall : (body bs).length + 48 < 2147483648) (o : Int) (ho1 : s ≤ o) :
    ∃ pre x post, bs = pre ++ x :: post ∧ x.base ≤ o ∧
      findIndexEntry (buildSegment iv bs).entries o = (x.base, ((posAfter pre : Nat) : Int)) ∧
      (buildSegment iv bs).entries.isEmpty = false := by
  cases bs with
  | nil => exact absurd rfl hne
  | cons b0 t =>
    have hents : (buildSegment iv (b0 :: t)).entries =
        buildIndex (if iv ≤ 0 then 1 else iv) (b0 :: t) ((posAfter [] : Nat) : Int) 0 false := by
      simp [buildSegment, posAfter, body, headerLen]
    obtain ⟨rest, hhead⟩ := buildIndex_head (if iv ≤ 0 then 1 else iv) b0 t ((posAfter [] : Nat) : Int)
    have hne' : (buildSegment iv (b0 :: t)).entries ≠ [] := by rw [hents, hhead]; simp
    have hemp : (buildSegment iv (b0 :: t)).entries.isEmpty = false := by
      cases hx : (buildSegment iv (b0 :: t)).entries with
      | nil => exact absurd hx hne'
      | cons _ _ => rfl
    obtain ⟨hmem, hle⟩ := findIndexEntry_spec _ o hne'
    have hw0 : wrap32 ((posAfter [] : Nat) : Int) = ((posAfter [] : Nat) : Int) := by
      apply wrap32_small <;> simp [posAfter, body]
    have hb0 : b0.base = s := hc.1
    rcases hle with hle | hle
    · rw [hents] at hmem
      obtain ⟨mid, x, post, hbs, he⟩ := buildIndex_mem _ _ [] _ _ _ hmem
      refine ⟨mid, x, post, hbs, ?_, ?_, hemp⟩
      · rw [hents, he] at hle; exact hle
      · rw [hents, he]
        have hlen : (body mid).length ≤ (body (b0 :: t)).length := by
          rw [hbs, body_append]; simp
        have : wrap32 ((posAfter ([] ++ mid) : Nat) : Int) = ((posAfter mid : Nat) : Int) := by
          simp only [List.nil_append]
          apply wrap32_small
          · omega
          · simp only [posAfter]; push_cast; omega
        rw [this]
    · refine ⟨[], b0, t, rfl, by omega, ?_, hemp⟩
      rw [hle, hents, hhead]
      simp [hw0]

/-- everything the read path computes on a built segment, in one place -/
theorem segment_facts {s e : Int} {bs : List Batch} (iv : Int) (hne : bs ≠ []) (hc : Chain s bs e)
    (hfr : ∀ b ∈ bs, Framed b ∧ HdrOK b) (hsmall : (body bs).length + 48 < 2147483648)
    (o : Int) (ho1 : s ≤ o) (ho2 : o < e) :
    ∃ (pre mid : List Batch) (x : Batch) (post : List Batch),
      bs = pre ++ mid ++ runFrom bs o ∧ runFrom bs o ≠ [] ∧ pre ++ mid = bs.takeWhile (fun b => decide (b.last < o)) ∧
      (buildSegment iv bs).entries.isEmpty = false ∧
      findIndexEntry (buildSegment iv bs).entries o = (x.base, ((posAfter pre : Nat) : Int)) ∧
      x.base ≤ o ∧ bs = pre ++ x :: post ∧
      skipBatches (segData bs) (32 + (body bs).length) o (segData bs).length (posAfter pre) = posAfter (pre ++ mid) ∧
      61 ≤ (body (runFrom bs o)).length := by
  obtain ⟨pre, x, post, hbs, hxo, hfind, hemp⟩ := entry_decomp iv hne hc hsmall o ho1
  -- batches before x end before x.base ≤ o
  have hpw := (KafVerif.C02.chain_strict hc).2
  rw [hbs] at hpw
  have hpre : ∀ b ∈ pre, b.last < o := by
    intro b hb
    have := (List.pairwise_append.mp hpw).2.2 b hb x (by simp)
    omega
  have hrun : runFrom bs o = runFrom (x :: post) o := by
    rw [hbs]; exact runFrom_append_right (runFrom_eq_nil hpre)
  -- some batch reaches o
  obtain ⟨bh, hbh, hbh1, hbh2⟩ := KafVerif.C02.chain_covers hc o ho1 ho2
  have hrne : runFrom bs o ≠ [] := runFrom_ne_nil hbh (by omega)
  let mid := (x :: post).takeWhile (fun b => decide (b.last < o))
  have hsplit : x :: post = mid ++ runFrom bs o := by rw [hrun]; exact split_runFrom _ o
  have hbs2 : bs = pre ++ mid ++ runFrom bs o := by
    rw [List.append_assoc, ← hsplit]; exact hbs
  have htw : pre ++ mid = bs.takeWhile (fun b => decide (b.last < o)) := by
    have h1 : bs = (pre ++ mid) ++ runFrom bs o := hbs2
    have hall : ∀ b ∈ pre ++ mid, (fun b : Batch => decide (b.last < o)) b = true := by
      intro b hb
      rcases List.mem_append.mp hb with hb | hb
      · simpa using hpre b hb
      · simpa using takeWhile_all (x :: post) o b hb
    cases hr : runFrom bs o with
    | nil => exact absurd hr hrne
    | cons h t =>
      have hh := runFrom_head hr
      conv => rhs; rw [h1, hr]
      rw [List.takeWhile_append_of_pos hall]
      simp [hh]
  cases hr : runFrom bs o with
  | nil => exact absurd hr hrne
  | cons h t =>
    have hh := runFrom_head hr
    have hmem_h : h ∈ bs := mem_runFrom (by rw [hr]; simp)
    have hmid : ∀ b ∈ mid, b.last < o ∧ Framed b ∧ HdrOK b := by
      intro b hb
      refine ⟨takeWhile_all (x :: post) o b hb, hfr b ?_⟩
      rw [hbs2]; simp [hb]
    have hmidlen : mid.length < (segData bs).length := by
      rw [segData_length]
      have h1 := length_le_body bs (fun b hb => (hfr b hb).1.2)
      have h2 : mid.length ≤ bs.length := by
        rw [hbs2]; simp; omega
      omega
    have hwalk := skip_walk o h t hh (hfr h hmem_h) mid pre (segData bs).length (segData bs)
      (32 + (body bs).length) (by rw [← hr, ← hbs2]) (by rw [← hr, ← hbs2]) hmid hmidlen
    refine ⟨pre, mid, x, post, by rw [← hr]; exact hbs2, by simp, htw, hemp, hfind, hxo, hbs, hwalk, ?_⟩
    have := (hfr h hmem_h).1.2
    simp [body_cons, hdrMin] at *; omega

theorem limit_eq (size : Int) (n : Nat) (L : Int) (h1 : size - footerLen = L) (h2 : L ≤ n) :
    (if size - footerLen > (n : Int) then (n : Int) else size - footerLen) = L := by
  rw [if_neg (by omega)]; exact h1

theorem computeSegmentRange_built (size : Int) (es : List (Int × Int)) (o m : Int) (P0 L : Int) (xb : Int)
    (hfind : findIndexEntry es o = (xb, P0)) (hsize : size = L + 16) (hP : P0 < L) (hL : 0 < L) :
    computeSegmentRange size es o m = (P0, if m > 0 ∧ P0 + m - 1 < L - 1 then P0 + m - 1 else L - 1) := by
  unfold computeSegmentRange
  simp only [hfind, footerLen]
  have c1 : ¬ size ≤ 16 := by omega
  have c2 : ¬ size - 16 ≤ P0 := by omega
  rw [if_neg c1, if_neg c2]
  have : size - 16 - 1 = L - 1 := by omega
  rw [this]
  split <;> rfl

/-- **Read inside a built segment (cached / full-download path).** -/
theorem sliceCached_segment {s e : Int} {bs : List Batch} (iv : Int) (hne : bs ≠ []) (hc : Chain s bs e)
    (hfr : ∀ b ∈ bs, Framed b ∧ HdrOK b) (hsmall : (body bs).length + 48 < 2147483648)
    (o m : Int) (ho1 : s ≤ o) (ho2 : o < e) :
    ∃ n, 1 ≤ n ∧
      sliceCached (buildSegment iv bs).size (buildSegment iv bs).entries o m (buildSegment iv bs).data =
        .data ((body (runFrom bs o)).take n) ∧
      n ≤ (body (runFrom bs o)).length ∧
      (n = (body (runFrom bs o)).length ∨ (0 < m ∧ (n : Int) = m)) := by
  obtain ⟨pre, mid, x, post, hbs, hrne, _, hemp, hfind, hxo, hbs1, hwalk, hrun61⟩ :=
    segment_facts iv hne hc hfr hsmall o ho1 ho2
  obtain ⟨hdata, hsize⟩ := buildSegment_data iv bs
  have hlen : (body bs).length = (body (pre ++ mid)).length + (body (runFrom bs o)).length := by
    conv => lhs; rw [hbs, body_append]
    simp
  have hlenx : (body pre).length ≤ (body (pre ++ mid)).length := by rw [body_append]; simp
  have hdl := segData_length bs
  have hcsr := computeSegmentRange_built (buildSegment iv bs).size (buildSegment iv bs).entries o m
    ((posAfter pre : Nat) : Int) (32 + (body bs).length) x.base hfind (by rw [hsize]; omega)
    (by simp only [posAfter]; push_cast; omega) (by omega)
  have hcore := sliceCached_core (buildSegment iv bs).size (buildSegment iv bs).entries o m (segData bs)
    ((posAfter pre : Nat) : Int) _ (32 + (body bs).length) ((posAfter (pre ++ mid) : Nat) : Int)
    hemp hcsr
    (limit_eq _ _ _ (by rw [hsize]; simp only [footerLen]; omega) (by rw [hdl]; push_cast; omega))
    hwalk (by omega) (by simp only [posAfter]; push_cast; omega)
    (by simp only [posAfter]; push_cast; omega) (by rw [hdl]; push_cast; omega) rfl
  rw [hdata, hcore]
  simp only [Int.toNat_natCast]
  have hdrop : (segData bs).drop (posAfter (pre ++ mid)) = body (runFrom bs o) ++ zeros footerLen.toNat := by
    conv => lhs; rw [hbs]
    exact segData_drop (pre ++ mid) (runFrom bs o)
  rw [hdrop]
  have hLP : (32 + ((body bs).length : Int)) - ((posAfter (pre ++ mid) : Nat) : Int) = ((body (runFrom bs o)).length : Int) := by
    simp only [posAfter]; push_cast; omega
  by_cases hm : m > 0 ∧ ((posAfter (pre ++ mid) : Nat) : Int) + m - 1 < 32 + ((body bs).length : Int) - 1
  · rw [if_pos hm]
    refine ⟨m.toNat, by omega, ?_, by omega, Or.inr ⟨by omega, by omega⟩⟩
    rw [List.take_append_of_le_length (by omega)]
  · rw [if_neg hm, hLP]
    refine ⟨(body (runFrom bs o)).length, by omega, ?_, by omega, Or.inl rfl⟩
    simp only [Int.toNat_natCast]
    rw [List.take_append_of_le_length (Nat.le_refl _)]

theorem takeWhile_len_le (p : Batch → Bool) (pre : List Batch) (x : Batch) (post : List Batch) (hx : p x = false) :
    ((pre ++ x :: post).takeWhile p).length ≤ pre.length := by
  induction pre with
  | nil => simp [hx]
  | cons a t ih =>
    simp only [List.cons_append, List.takeWhile_cons]
    split
    · simp; exact ih
    · simp

/-- **Range-read path = cached path.** -/
theorem range_eq_sliceCached {s e : Int} {bs : List Batch} (iv : Int) (hne : bs ≠ []) (hc : Chain s bs e)
    (hfr : ∀ b ∈ bs, Framed b ∧ HdrOK b) (hsmall : (body bs).length + 48 < 2147483648)
    (o m : Int) (ho1 : s ≤ o) (ho2 : o < e) (st en : Int)
    (hr : segmentRangeFor (buildSegment iv bs).size (buildSegment iv bs).entries o m = some (st, en)) :
    (match s3Range (buildSegment iv bs).data st en with | some b => ReadOut.data b | none => ReadOut.err) =
      sliceCached (buildSegment iv bs).size (buildSegment iv bs).entries o m (buildSegment iv bs).data := by
  obtain ⟨pre, mid, x, post, hbs, hrne, htw, hemp, hfind, hxo, hbs1, hwalk, hrun61⟩ :=
    segment_facts iv hne hc hfr hsmall o ho1 ho2
  obtain ⟨hdata, hsize⟩ := buildSegment_data iv bs
  have hlen : (body bs).length = (body (pre ++ mid)).length + (body (runFrom bs o)).length := by
    conv => lhs; rw [hbs, body_append]
    simp
  have hlenx : (body pre).length ≤ (body (pre ++ mid)).length := by rw [body_append]; simp
  have hdl := segData_length bs
  have hcsr := computeSegmentRange_built (buildSegment iv bs).size (buildSegment iv bs).entries o m
    ((posAfter pre : Nat) : Int) (32 + (body bs).length) x.base hfind (by rw [hsize]; omega)
    (by simp only [posAfter]; push_cast; omega) (by omega)
  -- the range read is only allowed on an exact index hit
  unfold segmentRangeFor at hr
  simp only [hemp, hfind, hcsr, Bool.false_eq_true, or_false] at hr
  have hs0 : ¬ (buildSegment iv bs).size ≤ 0 := by rw [hsize]; omega
  rw [if_neg hs0] at hr
  split at hr
  · simp at hr
  · rename_i hexact
    have hxeq : x.base = o := by omega
    -- so x itself holds o and the walk does not move
    have hxl : ¬ x.last < o := by
      have := (KafVerif.C02.chain_strict hc).1 x (by rw [hbs1]; simp)
      omega
    have hmid : mid = [] := by
      have h1 := takeWhile_len_le (fun b => decide (b.last < o)) pre x post (by simpa using hxl)
      rw [← hbs1, ← htw] at h1
      have : mid.length = 0 := by simp at h1; omega
      exact List.length_eq_zero_iff.mp this
    subst hmid
    simp only [List.append_nil] at hwalk hlen hlenx
    have hcore := sliceCached_core (buildSegment iv bs).size (buildSegment iv bs).entries o m (segData bs)
      ((posAfter pre : Nat) : Int) _ (32 + (body bs).length) ((posAfter pre : Nat) : Int)
      hemp hcsr
      (limit_eq _ _ _ (by rw [hsize]; simp only [footerLen]; omega) (by rw [hdl]; push_cast; omega))
      hwalk (by omega) (by omega)
      (by simp only [posAfter]; push_cast; omega) (by rw [hdl]; push_cast; omega) rfl
    rw [hdata, hcore]
    generalize hE0 : (if m > 0 ∧ ((posAfter pre : Nat) : Int) + m - 1 < 32 + ((body bs).length : Int) - 1
      then ((posAfter pre : Nat) : Int) + m - 1 else 32 + ((body bs).length : Int) - 1) = E0 at hr
    have hP0L : ((posAfter pre : Nat) : Int) < 32 + ((body bs).length : Int) := by
      simp only [posAfter]; push_cast; omega
    have hEb : ((posAfter pre : Nat) : Int) ≤ E0 ∧ E0 ≤ 32 + ((body bs).length : Int) - 1 := by
      rw [← hE0]; split <;> omega
    rw [if_neg (by omega)] at hr
    simp only [Option.some.injEq, Prod.mk.injEq] at hr
    obtain ⟨rfl, rfl⟩ := hr
    unfold s3Range
    simp only
    have c1 : ¬ ((posAfter pre : Nat) : Int) < 0 := by omega
    have c2 : ¬ (E0 ≥ ((segData bs).length : Int)) := by omega
    rw [if_neg c1, if_neg c2]
    have c3 : ¬ (((posAfter pre : Nat) : Int) > E0 ∨ ((posAfter pre : Nat) : Int) ≥ ((segData bs).length : Int)) := by
      omega
    rw [if_neg c3]
    simp only
    congr 2
    rw [← hE0]
    split <;> omega

end KafVerif.PLog
