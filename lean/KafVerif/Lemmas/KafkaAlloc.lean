import KafVerif.Model.KafkaAlloc
import KafVerif.Lemmas.Kafka
/-!
C34, allocation accounting: (1) the instrumented functions of `Model/KafkaAlloc.lean` return exactly
what the uninstrumented model returns (`…A_res`, for every input and every allocator); (2) the bytes
they request in total are bounded linearly in the input length (`…A_cost`).  Core Lean only.
-/
set_option linter.unusedSimpArgs false
set_option linter.unusedVariables false
set_option linter.unusedSectionVars false
namespace KafVerif.Kafka
open AM

/-! ### the counting monad -/

theorem AM.bind_def {α β} (x : AM α) (f : α → AM β) : (x >>= f) = AM.bind x f := rfl

@[simp] theorem AM.res_bind {α β} (x : AM α) (f : α → AM β) : (x >>= f).res = (x.res >>= fun a => (f a).res) := by
  rw [AM.bind_def]; unfold AM.bind
  cases h : x.res <;> simp [h]

theorem AM.cost_bind {α β} (x : AM α) (f : α → AM β) :
    (x >>= f).cost = x.cost + (match x.res with | .ok a => (f a).cost | _ => 0) := by
  rw [AM.bind_def]; unfold AM.bind
  cases h : x.res <;> simp [h]

@[simp] theorem AM.res_lift {α} (r : GoResult α) : (lift r).res = r := rfl
@[simp] theorem AM.cost_lift {α} (r : GoResult α) : (lift r).cost = 0 := rfl
@[simp] theorem AM.res_tick (n : Nat) : (tick n).res = .ok () := rfl
@[simp] theorem AM.cost_tick (n : Nat) : (tick n).cost = n := rfl
@[simp] theorem res_mkA (mk : Alloc) (n : Int) (e : Nat) : (mkA mk n e).res = mk n e := rfl
@[simp] theorem cost_mkA (mk : Alloc) (n : Int) (e : Nat) : (mkA mk n e).cost = n.toNat * e := rfl

theorem AM.res_ite {α} (c : Prop) [Decidable c] (a b : AM α) : (if c then a else b).res = if c then a.res else b.res := by
  split <;> rfl

/-! ### (1) erasure: the instrumented functions compute the model's results -/

variable (mk : Alloc) (c : Cfg)

theorem readNullableA_res (len : Int) (r : Bytes) : (readNullableA mk c len r).res = readNullable mk c len r := by
  unfold readNullableA readNullable
  split
  · rfl
  · split
    · rfl
    · split
      · rfl
      · simp only [AM.res_bind, res_mkA, AM.res_lift]

theorem readHeaderA_res (r : Bytes) : (readHeaderA mk c r).res = readHeader mk c r := by
  unfold readHeaderA readHeader
  simp only [AM.res_bind, AM.res_lift, readNullableA_res]

theorem readHeadersA_res (n : Nat) : ∀ r : Bytes, (readHeadersA mk c n r).res = readHeaders mk c n r := by
  induction n with
  | zero => intro r; rfl
  | succ n ih =>
    intro r
    unfold readHeadersA readHeaders
    simp only [AM.res_bind, AM.res_lift, readHeaderA_res, ih]

theorem decodeRecordBodyA_res (base firstTs : Int) (data : Bytes) :
    (decodeRecordBodyA mk c base firstTs data).res = decodeRecordBody mk c base firstTs data := by
  unfold decodeRecordBodyA decodeRecordBody
  cases data with
  | nil => rfl
  | cons a b1 =>
    simp only [AM.res_bind, AM.res_lift, readNullableA_res, AM.res_ite, res_mkA, readHeadersA_res]

theorem decodeRecordA_res (base firstTs : Int) (r : Bytes) :
    (decodeRecordA mk c base firstTs r).res = decodeRecord mk c base firstTs r := by
  unfold decodeRecordA decodeRecord
  simp only [AM.res_bind, AM.res_lift, AM.res_ite, res_mkA, decodeRecordBodyA_res]

theorem decodeRecordsA_res (base firstTs : Int) (n : Nat) : ∀ r : Bytes,
    (decodeRecordsA mk c base firstTs n r).res = decodeRecords mk c base firstTs n r := by
  induction n with
  | zero => intro r; rfl
  | succ n ih =>
    intro r
    unfold decodeRecordsA decodeRecords
    simp only [AM.res_bind, AM.res_lift, decodeRecordA_res, ih]

theorem decodeBatchRecordsA_res (batch : Bytes) : (decodeBatchRecordsA mk c batch).res = decodeBatchRecords mk c batch := by
  unfold decodeBatchRecordsA decodeBatchRecords
  simp only [AM.res_bind, AM.res_lift, AM.res_ite, res_mkA, decodeRecordsA_res]

theorem decodeBatchesA_res (fuel : Nat) : ∀ rem : Bytes, (decodeBatchesA mk c fuel rem).res = decodeBatches mk c fuel rem := by
  induction fuel with
  | zero => intro rem; rfl
  | succ fuel ih =>
    intro rem
    unfold decodeBatchesA decodeBatches
    simp only [AM.res_bind, AM.res_lift, AM.res_ite, decodeBatchRecordsA_res, ih]

/-- **erasure, decoders**: the instrumented `decodeSegment` returns what `decodeSegment` returns -/
theorem decodeSegmentA_res (seg : Bytes) : (decodeSegmentA mk c seg).res = decodeSegment mk c seg := by
  unfold decodeSegmentA decodeSegment
  simp only [AM.res_bind, AM.res_lift, AM.res_ite, decodeBatchesA_res]

theorem parseIndexRootA_res (data : Bytes) : (parseIndexRootA mk data).res = parseIndexRoot mk data := by
  unfold parseIndexRootA parseIndexRoot
  simp only [AM.res_bind, AM.res_lift, AM.res_ite, res_mkA]

theorem parseIndexIcebergA_res (g : Bool) (data : Bytes) : (parseIndexIcebergA mk g data).res = parseIndexIceberg mk g data := by
  unfold parseIndexIcebergA parseIndexIceberg
  simp only [AM.res_bind, AM.res_lift, AM.res_ite, res_mkA]

theorem parseIndexSqlA_res (g : Bool) (data : Bytes) : (parseIndexSqlA mk g data).res = parseIndexSql mk g data := by
  unfold parseIndexSqlA parseIndexSql
  simp only [AM.res_bind, AM.res_lift, AM.res_ite, res_mkA]

theorem scanRecordA_res (r : Bytes) : (scanRecordA mk r).res = scanRecord mk r := by
  unfold scanRecordA scanRecord
  simp only [AM.res_bind, AM.res_lift, AM.res_ite, res_mkA]
  congr 1; funext len
  split
  · rfl
  · split
    · rfl
    · congr 1; funext _; congr 1; funext p
      obtain ⟨p1, p2⟩ := p
      cases p1 with
      | nil => rfl
      | cons a b1 => simp only [AM.res_bind, AM.res_lift]

theorem scanLoopA_res (firstTs cutoff : Int) (total : Nat) (n : Nat) : ∀ (r : Bytes) (st : ScanSt),
    (scanLoopA mk firstTs cutoff total n r st).res = scanLoop mk firstTs cutoff total n r st := by
  induction n with
  | zero => intro r st; rfl
  | succ n ih =>
    intro r st
    unfold scanLoopA scanLoop
    simp only [AM.res_bind, AM.res_lift, AM.res_ite, scanRecordA_res, ih]

theorem truncateBatchA_res (crc : Bytes → Nat) (batch : Bytes) (cutoff : Int) :
    (truncateBatchA crc mk batch cutoff).res = truncateBatch crc mk batch cutoff := by
  unfold truncateBatchA truncateBatch
  simp only [AM.res_bind, AM.res_lift, AM.res_ite, AM.res_tick, scanLoopA_res, bind_ok]

theorem collectLoopA_res (crc : Bytes → Nat) (cutoff : Int) (fuel : Nat) : ∀ rem : Bytes,
    (collectLoopA crc mk cutoff fuel rem).res = collectLoop crc mk cutoff fuel rem := by
  induction fuel with
  | zero => intro rem; rfl
  | succ fuel ih =>
    intro rem
    unfold collectLoopA collectLoop
    simp only [AM.res_bind, AM.res_lift, AM.res_ite, res_mkA, truncateBatchA_res, ih]

/-- **erasure, restore scanner** -/
theorem collectRecoverableA_res (crc : Bytes → Nat) (seg : Bytes) (cutoff : Int) :
    (collectRecoverableA crc mk seg cutoff).res = collectRecoverable crc mk seg cutoff := by
  unfold collectRecoverableA collectRecoverable
  simp only [AM.res_ite, AM.res_lift, collectLoopA_res]


variable {mk} {c}

/-- readers that consume at least one byte -/
def Cfg.Shrinks (c : Cfg) : Prop :=
  (∀ r v rest, c.rdInt r = some (v, rest) → rest.length < r.length) ∧
  (∀ r v rest, c.rdTs r = some (v, rest) → rest.length < r.length)

theorem cfgIceberg_shrinks : cfgIceberg.Shrinks :=
  ⟨fun _ _ _ h => readVarint64_rest_lt h, fun _ _ _ h => readVarint64_rest_lt h⟩
theorem cfgSql_shrinks : cfgSql.Shrinks :=
  ⟨fun _ _ _ h => readVarint32Sql_rest_lt h, fun _ _ _ h => readVarint64_rest_lt h⟩

/-! ### (2) a budget calculus for the counter

`Spends x B left`: `x` requests at most `B` bytes, and when it returns `a` it leaves `left a` of the
budget unspent. -/

def Spends {α} (x : AM α) (B : Nat) (left : α → Nat) : Prop :=
  x.cost ≤ B ∧ ∀ a, x.res = .ok a → x.cost + left a ≤ B

theorem Spends.bind {α β} {x : AM α} {f : α → AM β} {B : Nat} {left : α → Nat} {left' : β → Nat}
    (hx : Spends x B left) (hf : ∀ a, x.res = .ok a → Spends (f a) (left a) left') : Spends (x >>= f) B left' := by
  constructor
  · rw [AM.cost_bind]
    cases h : x.res with
    | ok a => have := hx.2 a h; have := (hf a h).1; simp only; omega
    | err => have := hx.1; simp only; omega
    | panic => have := hx.1; simp only; omega
  · intro b hb
    rw [AM.cost_bind]
    rw [AM.res_bind] at hb
    cases h : x.res with
    | ok a =>
      rw [h] at hb
      simp only [bind_ok] at hb
      have := hx.2 a h; have := (hf a h).2 b hb; simp only; omega
    | err => rw [h] at hb; simp at hb
    | panic => rw [h] at hb; simp at hb

theorem Spends.mono {α} {x : AM α} {B B' : Nat} {left left' : α → Nat} (h : Spends x B left) (hB : B ≤ B')
    (hl : ∀ a, x.res = .ok a → left' a ≤ left a) : Spends x B' left' :=
  ⟨by have := h.1; omega, fun a ha => by have := h.2 a ha; have := hl a ha; omega⟩

theorem Spends.scale41 {α} {x : AM α} {B : Nat} {left : α → Nat} (h : Spends x B left) :
    Spends x (41 * B) (fun a => 41 * left a) :=
  ⟨by have := h.1; omega, fun a ha => by have := h.2 a ha; simp only; omega⟩

theorem Spends.frame {α} {x : AM α} {B : Nat} {left : α → Nat} (h : Spends x B left) (F : Nat) :
    Spends x (B + F) (fun a => left a + F) :=
  ⟨by have := h.1; omega, fun a ha => by have := h.2 a ha; simp only; omega⟩

theorem spends_lift {α} {r : GoResult α} {B : Nat} {left : α → Nat} (h : ∀ a, r = .ok a → left a ≤ B) :
    Spends (lift r) B left :=
  ⟨by simp, fun a ha => by simp only [AM.res_lift] at ha; have := h a ha; simp; omega⟩

theorem spends_lift_opt {α} {o : Option α} {B : Nat} {left : α → Nat} (h : ∀ a, o = some a → left a ≤ B) :
    Spends (lift (ofOpt o)) B left :=
  spends_lift (fun a ha => h a (ofOpt_eq_ok ha))

theorem spends_err {α} {B : Nat} {left : α → Nat} : Spends (lift (GoResult.err : GoResult α)) B left :=
  spends_lift (fun a ha => by simp at ha)

theorem spends_mkA {n : Int} {e B L : Nat} (h : n.toNat * e + L ≤ B) : Spends (mkA mk n e) B (fun _ => L) :=
  ⟨by simp only [cost_mkA]; omega, fun _ _ => by simp only [cost_mkA]; omega⟩

theorem spends_tick {n B L : Nat} (h : n + L ≤ B) : Spends (tick n) B (fun _ => L) :=
  ⟨by simp only [AM.cost_tick]; omega, fun _ _ => by simp only [AM.cost_tick]; omega⟩

/-! ### (2a) the decoders -/

theorem readNullableA_spends (hg : c.guard = true) (len : Int) (r : Bytes) :
    Spends (readNullableA mk c len r) r.length (fun p => p.2.length) := by
  unfold readNullableA
  split
  · exact spends_lift (fun a ha => by simp only [GoResult.ok.injEq] at ha; rw [← ha]; exact Nat.le_refl _)
  · split
    · exact spends_lift (fun a ha => by simp only [GoResult.ok.injEq] at ha; rw [← ha]; exact Nat.le_refl _)
    · split
      · exact spends_err
      · rename_i h1 h2 h3
        have hle : ¬ len > (r.length : Int) := by simpa [hg] using h3
        refine (spends_mkA (L := r.length - len.toNat) (by omega)).bind (fun _ _ => ?_)
        refine (spends_lift_opt (left := fun p => p.2.length) ?_).bind (fun p hp => ?_)
        · intro p hp
          obtain ⟨p1, p2⟩ := p
          have := readN_eq hp
          rw [this.2.1, List.length_drop]; exact Nat.le_refl _
        · exact spends_lift (fun a ha => by simp only [GoResult.ok.injEq] at ha; rw [← ha]; exact Nat.le_refl _)

theorem readHeaderA_spends (hg : c.guard = true) (hs : c.Shrinks) (r : Bytes) :
    Spends (readHeaderA mk c r) r.length (fun p => p.2.length) := by
  unfold readHeaderA
  refine (spends_lift_opt (left := fun p => p.2.length) ?_).bind (fun k hk => ?_)
  · intro k hk; have := hs.1 r k.1 k.2 hk; omega
  refine (readNullableA_spends hg k.1 k.2).bind (fun kb hkb => ?_)
  refine (spends_lift_opt (left := fun p => p.2.length) ?_).bind (fun v hv => ?_)
  · intro v hv; have := hs.1 kb.2 v.1 v.2 hv; omega
  refine (readNullableA_spends hg v.1 v.2).bind (fun vb hvb => ?_)
  exact spends_lift (fun a ha => by simp only [GoResult.ok.injEq] at ha; rw [← ha]; exact Nat.le_refl _)

theorem readHeadersA_spends (hg : c.guard = true) (hs : c.Shrinks) (n : Nat) : ∀ r : Bytes,
    Spends (readHeadersA mk c n r) r.length (fun _ => 0) := by
  induction n with
  | zero => intro r; unfold readHeadersA; exact spends_lift (fun _ _ => Nat.zero_le _)
  | succ n ih =>
    intro r
    unfold readHeadersA
    refine (readHeaderA_spends hg hs r).bind (fun h hh => ?_)
    refine (ih h.2).bind (fun t ht => ?_)
    exact spends_lift (fun _ _ => Nat.le_refl _)

/-- key, value, header slice (40 bytes per announced header, at most one per remaining byte) and
header contents: at most 41 bytes per byte of record data -/
theorem decodeRecordBodyA_spends (hg : c.guard = true) (hs : c.Shrinks) (base firstTs : Int) (data : Bytes) :
    Spends (decodeRecordBodyA mk c base firstTs data) (41 * data.length) (fun _ => 0) := by
  have hhs : hdrSize = 40 := rfl
  unfold decodeRecordBodyA
  cases data with
  | nil => exact spends_err
  | cons a0 b1 =>
    simp only [List.length_cons]
    refine (spends_lift_opt (left := fun p => 41 * p.2.length) ?_).bind (fun ts hts => ?_)
    · intro ts hts; have := hs.2 b1 ts.1 ts.2 hts; omega
    refine (spends_lift_opt (left := fun p => 41 * p.2.length) ?_).bind (fun od hod => ?_)
    · intro od hod; have := hs.1 ts.2 od.1 od.2 hod; omega
    refine (spends_lift_opt (left := fun p => 41 * p.2.length) ?_).bind (fun kl hkl => ?_)
    · intro kl hkl; have := hs.1 od.2 kl.1 kl.2 hkl; omega
    refine (readNullableA_spends hg kl.1 kl.2).scale41.bind (fun key hkey => ?_)
    refine (spends_lift_opt (left := fun p => 41 * p.2.length) ?_).bind (fun vl hvl => ?_)
    · intro vl hvl; have := hs.1 key.2 vl.1 vl.2 hvl; omega
    refine (readNullableA_spends hg vl.1 vl.2).scale41.bind (fun val hval => ?_)
    refine (spends_lift_opt (left := fun p => 41 * p.2.length) ?_).bind (fun hc hhc => ?_)
    · intro hc hhc; have := hs.1 val.2 hc.1 hc.2 hhc; omega
    split
    · exact spends_err
    · rename_i hbad
      have hb' : ¬ hc.1 < 0 ∧ ¬ hc.1 > (hc.2.length : Int) := by
        simpa [hg, Bool.or_eq_true, not_or] using hbad
      refine (spends_mkA (L := hc.2.length) (by rw [hhs]; omega)).bind (fun _ _ => ?_)
      refine (readHeadersA_spends hg hs _ hc.2).bind (fun _ _ => ?_)
      exact spends_lift (fun _ _ => Nat.le_refl _)

/-- record buffer + record body: at most 42 bytes per consumed byte -/
theorem decodeRecordA_spends (hg : c.guard = true) (hs : c.Shrinks) (base firstTs : Int) (r : Bytes) :
    Spends (decodeRecordA mk c base firstTs r) (42 * r.length) (fun p => 42 * p.2.length) := by
  unfold decodeRecordA
  refine (spends_lift_opt (left := fun p => 42 * p.2.length) ?_).bind (fun len hlen => ?_)
  · intro len hlen; have := hs.1 r len.1 len.2 hlen; omega
  split
  · exact spends_err
  · split
    · exact spends_err
    · rename_i h1 h2
      have hle : ¬ len.1 > (len.2.length : Int) := by simpa [hg] using h2
      refine (spends_mkA (L := 42 * len.2.length - len.1.toNat) (by omega)).bind (fun _ _ => ?_)
      refine (spends_lift_opt (left := fun p => 41 * p.1.length + 42 * p.2.length) ?_).bind (fun p hp => ?_)
      · intro p hp
        obtain ⟨p1, p2⟩ := p
        have := readN_eq hp
        simp only [this.1, this.2.1, List.length_take, List.length_drop]
        omega
      refine ((decodeRecordBodyA_spends hg hs base firstTs p.1).frame (42 * p.2.length)).bind (fun d _ => ?_)
      exact spends_lift (fun a ha => by simp only [GoResult.ok.injEq] at ha; rw [← ha]; simp)

theorem decodeRecordsA_spends (hg : c.guard = true) (hs : c.Shrinks) (base firstTs : Int) (n : Nat) : ∀ r : Bytes,
    Spends (decodeRecordsA mk c base firstTs n r) (42 * r.length) (fun _ => 0) := by
  induction n with
  | zero => intro r; unfold decodeRecordsA; exact spends_lift (fun _ _ => Nat.zero_le _)
  | succ n ih =>
    intro r
    unfold decodeRecordsA
    refine (decodeRecordA_spends hg hs base firstTs r).bind (fun d hd => ?_)
    refine (ih d.2).bind (fun t ht => ?_)
    exact spends_lift (fun _ _ => Nat.le_refl _)

theorem goSlice_length {b x : Bytes} {i j : Int} (h : goSlice b i j = .ok x) : x.length ≤ b.length ∧ x.length ≤ (j - i).toNat := by
  unfold goSlice at h
  split at h
  · simp only [GoResult.ok.injEq] at h
    rw [← h]
    simp only [List.length_take, List.length_drop]
    omega
  · simp at h

/-- record slice (112 bytes per announced record, at most one per byte of record data) + records:
at most 154 bytes per batch byte -/
theorem decodeBatchRecordsA_spends (hg : c.guard = true) (hc0 : c.cnt32 = 0) (hs : c.Shrinks) (batch : Bytes) :
    Spends (decodeBatchRecordsA mk c batch) (154 * batch.length) (fun _ => 0) := by
  have hrs : recSize = 112 := rfl
  unfold decodeBatchRecordsA
  split
  · exact spends_err
  · refine (spends_lift (left := fun _ => 154 * batch.length) (fun _ _ => Nat.le_refl _)).bind (fun at_ _ => ?_)
    split
    · exact spends_err
    · refine (spends_lift (left := fun _ => 154 * batch.length) (fun _ _ => Nat.le_refl _)).bind (fun bo _ => ?_)
      refine (spends_lift (left := fun _ => 154 * batch.length) (fun _ _ => Nat.le_refl _)).bind (fun ft _ => ?_)
      refine (spends_lift (left := fun _ => 154 * batch.length) (fun _ _ => Nat.le_refl _)).bind (fun rc _ => ?_)
      simp only
      split
      · exact spends_lift (fun _ _ => Nat.zero_le _)
      · rename_i hpos
        refine (spends_lift (left := fun rd => 154 * rd.length) ?_).bind (fun rd hrd => ?_)
        · intro rd hrd; have := (goSlice_length hrd).1; omega
        split
        · exact spends_err
        · rename_i hcnt
          rw [hg, Bool.true_and, countExceeds_std hc0 (toS32_in _)] at hcnt
          have hcnt' : ¬ toS32 (beDec rc) > (rd.length : Int) := by simpa using hcnt
          refine (spends_mkA (L := 42 * rd.length) (by rw [hrs]; omega)).bind (fun _ _ => ?_)
          exact decodeRecordsA_spends hg hs _ _ _ rd

theorem decodeBatchesA_spends (hg : c.guard = true) (hc0 : c.cnt32 = 0) (hs : c.Shrinks) (fuel : Nat) : ∀ rem : Bytes,
    Spends (decodeBatchesA mk c fuel rem) (154 * rem.length) (fun _ => 0) := by
  induction fuel with
  | zero => intro rem; unfold decodeBatchesA; exact spends_lift (fun _ _ => Nat.zero_le _)
  | succ fuel ih =>
    intro rem
    unfold decodeBatchesA
    split
    · exact spends_lift (fun _ _ => Nat.zero_le _)
    · refine (spends_lift (left := fun _ => 154 * rem.length) (fun _ _ => Nat.le_refl _)).bind (fun lb _ => ?_)
      simp only
      split
      · exact spends_lift (fun _ _ => Nat.zero_le _)
      · split
        · exact spends_lift (fun _ _ => Nat.zero_le _)
        · rename_i hfl
          refine (spends_lift (left := fun b => 154 * b.length + 154 * (rem.drop (12 + beDec lb)).length) ?_).bind
            (fun batch hb => ?_)
          · intro b hb
            have := (goSlice_length hb).2
            simp only [List.length_drop]
            omega
          refine ((decodeBatchRecordsA_spends hg hc0 hs batch).frame _).bind (fun rs _ => ?_)
          refine (Spends.mono (ih (rem.drop (12 + beDec lb))) (by omega) (fun _ _ => Nat.le_refl _)).bind (fun more _ => ?_)
          exact spends_lift (fun _ _ => Nat.le_refl _)

/-- **total allocation of `decodeSegment`**: at most 154 bytes per segment byte, whatever the bytes -/
theorem decodeSegmentA_spends (hg : c.guard = true) (hc0 : c.cnt32 = 0) (hs : c.Shrinks) (seg : Bytes) :
    (decodeSegmentA mk c seg).cost ≤ 154 * seg.length := by
  have : Spends (decodeSegmentA mk c seg) (154 * seg.length) (fun _ => 0) := by
    unfold decodeSegmentA
    split
    · exact spends_err
    · refine (spends_lift (left := fun _ => 154 * seg.length) (fun _ _ => Nat.le_refl _)).bind (fun magic _ => ?_)
      split
      · exact spends_err
      · refine (spends_lift (left := fun b => 154 * b.length) ?_).bind (fun body hb => ?_)
        · intro b hb; have := (goSlice_length hb).1; omega
        exact decodeBatchesA_spends hg hc0 hs _ body
  exact this.1

/-! ### (2b) the index parsers -/

theorem parseIndexRootA_spends (data : Bytes) : (parseIndexRootA mk data).cost ≤ 1 * data.length := by
  have : Spends (parseIndexRootA mk data) (1 * data.length) (fun _ => 0) := by
    unfold parseIndexRootA
    split
    · exact spends_err
    · refine (spends_lift (left := fun _ => 1 * data.length) (fun _ _ => Nat.le_refl _)).bind (fun magic _ => ?_)
      split
      · exact spends_err
      · simp only
        split
        · exact spends_err
        · split
          · exact spends_err
          · split
            · exact spends_err
            · rename_i h0 hbig
              generalize toS32 (beDec (sl data 6 10)) = count at *
              refine (spends_mkA (L := 0) (by omega)).bind (fun _ _ => ?_)
              refine (spends_lift_opt (left := fun _ => 0) (fun _ _ => Nat.le_refl _)).bind (fun _ _ => ?_)
              exact spends_lift (fun _ _ => Nat.le_refl _)
  exact this.1

theorem parseIndexIcebergA_spends (data : Bytes) : (parseIndexIcebergA mk true data).cost ≤ 2 * data.length := by
  have : Spends (parseIndexIcebergA mk true data) (2 * data.length) (fun _ => 0) := by
    unfold parseIndexIcebergA
    split
    · exact spends_err
    · refine (spends_lift (left := fun _ => 2 * data.length) (fun _ _ => Nat.le_refl _)).bind (fun magic _ => ?_)
      split
      · exact spends_err
      · simp only
        split
        · exact spends_err
        · generalize toS32 (beDec (sl data 6 10)) = count
          split
          · exact spends_err
          · rename_i hbad
            have hb' : ¬ count < 0 ∧ ¬ count * 12 > ((data.length - 16 : Nat) : Int) := by
              simpa [Bool.or_eq_true, not_or] using hbad
            refine (spends_mkA (L := 0) (by omega)).bind (fun _ _ => ?_)
            exact spends_lift_opt (fun _ _ => Nat.le_refl _)
  exact this.1

theorem parseIndexSqlA_spends (data : Bytes) : (parseIndexSqlA mk true data).cost ≤ 2 * data.length := by
  have : Spends (parseIndexSqlA mk true data) (2 * data.length) (fun _ => 0) := by
    unfold parseIndexSqlA
    split
    · exact spends_err
    · refine (spends_lift (left := fun _ => 2 * data.length) (fun _ _ => Nat.le_refl _)).bind (fun magic _ => ?_)
      split
      · exact spends_err
      · simp only
        generalize beDec (sl data 6 10) = count
        split
        · exact spends_err
        · rename_i hbad
          have hb' : ¬ count > (data.length - 16) / 12 := by simpa using hbad
          refine (spends_mkA (L := 0) (by simp only [Int.toNat_natCast]; omega)).bind (fun _ _ => ?_)
          exact spends_lift_opt (fun _ _ => Nat.le_refl _)
  exact this.1

/-! ### (2c) the restore scanner -/

theorem scanRecordA_spends (r : Bytes) : Spends (scanRecordA mk r) r.length (fun p => p.2.length) := by
  unfold scanRecordA
  refine (spends_lift_opt (left := fun p => p.2.length) ?_).bind (fun len hlen => ?_)
  · intro len hlen; have := readVarint64_rest_lt (r := r) (v := len.1) (rest := len.2) hlen; omega
  split
  · exact spends_err
  · split
    · exact spends_err
    · rename_i h1 h2
      refine (spends_mkA (L := len.2.length - len.1.toNat) (by omega)).bind (fun _ _ => ?_)
      refine (spends_lift_opt (left := fun p => p.2.length) ?_).bind (fun p hp => ?_)
      · intro p hp
        obtain ⟨p1, p2⟩ := p
        have := readN_eq hp
        rw [this.2.1, List.length_drop]; exact Nat.le_refl _
      obtain ⟨p1, p2⟩ := p
      cases p1 with
      | nil => exact spends_err
      | cons a b1 =>
        simp only
        refine (spends_lift_opt (left := fun _ => p2.length) (fun _ _ => Nat.le_refl _)).bind (fun ts _ => ?_)
        refine (spends_lift_opt (left := fun _ => p2.length) (fun _ _ => Nat.le_refl _)).bind (fun od _ => ?_)
        exact spends_lift (fun a ha => by simp only [GoResult.ok.injEq] at ha; rw [← ha]; exact Nat.le_refl _)

theorem scanLoopA_spends (firstTs cutoff : Int) (total : Nat) (n : Nat) : ∀ (r : Bytes) (st : ScanSt),
    Spends (scanLoopA mk firstTs cutoff total n r st) r.length (fun _ => 0) := by
  induction n with
  | zero => intro r st; unfold scanLoopA; exact spends_lift (fun _ _ => Nat.zero_le _)
  | succ n ih =>
    intro r st
    unfold scanLoopA
    refine (scanRecordA_spends r).bind (fun s hs => ?_)
    simp only
    split
    · exact spends_lift (fun _ _ => Nat.zero_le _)
    · exact ih _ _

/-- the scan state never claims more kept bytes than there are record bytes -/
theorem scanLoop_keptBytes (firstTs cutoff : Int) (total : Nat) (n : Nat) : ∀ (r : Bytes) (st st' : ScanSt),
    st.keptBytes ≤ total → scanLoop mk firstTs cutoff total n r st = .ok st' → st'.keptBytes ≤ total := by
  induction n with
  | zero => intro r st st' h0 h; simp only [scanLoop, GoResult.ok.injEq] at h; rw [← h]; exact h0
  | succ n ih =>
    intro r st st' h0 h
    unfold scanLoop at h
    cases hs : scanRecord mk r with
    | err => simp [hs] at h
    | panic => simp [hs] at h
    | ok s =>
      simp only [hs, bind_ok] at h
      split at h
      · simp only [GoResult.ok.injEq] at h; rw [← h]; exact h0
      · exact ih _ _ _ (by simp only; omega) h

theorem truncateBatchA_spends (crc : Bytes → Nat) (batch : Bytes) (cutoff : Int) :
    Spends (truncateBatchA crc mk batch cutoff) (2 * batch.length) (fun _ => 0) := by
  unfold truncateBatchA
  split
  · exact spends_err
  · rename_i h61
    simp only
    split
    · refine (spends_lift_opt (left := fun _ => 0) (fun _ _ => Nat.zero_le _)).bind (fun _ _ => ?_)
      exact spends_lift (fun _ _ => Nat.le_refl _)
    · split
      · exact spends_lift (fun _ _ => Nat.zero_le _)
      · split
        · exact spends_err
        · have hd : (batch.drop 61).length = batch.length - 61 := List.length_drop
          refine (Spends.mono (left' := fun _ => batch.length) ((scanLoopA_spends _ _ _ _ _ _).frame batch.length) (by omega)
            (fun _ _ => by simp)).bind (fun st hst => ?_)
          rw [scanLoopA_res] at hst
          have hkb := scanLoop_keptBytes _ _ _ _ _ _ _ (Nat.zero_le _) hst
          split
          · exact spends_lift (fun _ _ => Nat.zero_le _)
          · split
            · refine (spends_lift_opt (left := fun _ => 0) (fun _ _ => Nat.zero_le _)).bind (fun _ _ => ?_)
              exact spends_lift (fun _ _ => Nat.le_refl _)
            · refine (spends_tick (L := 0) (by omega)).bind (fun _ _ => ?_)
              refine (spends_lift_opt (left := fun _ => 0) (fun _ _ => Nat.le_refl _)).bind (fun _ _ => ?_)
              exact spends_lift (fun _ _ => Nat.le_refl _)

theorem collectLoopA_spends (crc : Bytes → Nat) (cutoff : Int) (fuel : Nat) : ∀ rem : Bytes,
    Spends (collectLoopA crc mk cutoff fuel rem) (3 * rem.length) (fun _ => 0) := by
  induction fuel with
  | zero => intro rem; unfold collectLoopA; exact spends_lift (fun _ _ => Nat.zero_le _)
  | succ fuel ih =>
    intro rem
    unfold collectLoopA
    split
    · exact spends_lift (fun _ _ => Nat.zero_le _)
    · simp only
      split
      · exact spends_lift (fun _ _ => Nat.zero_le _)
      · split
        · exact spends_err
        · rename_i h12 h0 hfl
          generalize beDec (sl rem 8 12) = batchLen at *
          have ht : (rem.take (12 + batchLen)).length = 12 + batchLen := by rw [List.length_take]; omega
          have hdr : (rem.drop (12 + batchLen)).length = rem.length - (12 + batchLen) := List.length_drop
          refine (spends_mkA (L := 2 * (12 + batchLen) + 3 * (rem.length - (12 + batchLen)))
            (by simp only [Int.toNat_natCast]; omega)).bind (fun _ _ => ?_)
          refine (Spends.mono ((truncateBatchA_spends crc (rem.take (12 + batchLen)) cutoff).frame
            (3 * (rem.length - (12 + batchLen)))) (by rw [ht]; exact Nat.le_refl _) (fun _ _ => Nat.le_refl _)).bind (fun t _ => ?_)
          split
          · exact spends_lift (fun _ _ => Nat.zero_le _)
          · refine (Spends.mono (ih _) (by rw [hdr]; omega) (fun _ _ => Nat.le_refl _)).bind (fun _ _ => ?_)
            exact spends_lift (fun _ _ => Nat.le_refl _)

theorem collectRecoverableA_spends (crc : Bytes → Nat) (seg : Bytes) (cutoff : Int) :
    Spends (collectRecoverableA crc mk seg cutoff) (3 * seg.length) (fun _ => 0) := by
  unfold collectRecoverableA
  split
  · exact spends_err
  · split
    · exact spends_err
    · refine Spends.mono (collectLoopA_spends crc cutoff _ _) ?_ (fun _ _ => Nat.le_refl _)
      simp only [sl, List.length_take, List.length_drop]; omega

theorem buildRestorePlanA_res (crc : Bytes → Nat) (seg idx : Bytes) (r cr : Int) :
    (buildRestorePlanA crc mk seg idx r cr).res = buildRestorePlan crc mk seg idx r cr := by
  unfold buildRestorePlanA buildRestorePlan
  simp only [AM.res_bind, AM.res_lift, AM.res_ite, parseIndexRootA_res, collectRecoverableA_res]

theorem buildRestorePlanA_spends (crc : Bytes → Nat) (seg idx : Bytes) (r cr : Int) :
    (buildRestorePlanA crc mk seg idx r cr).cost ≤ 3 * seg.length + 1 * idx.length := by
  have h1 : Spends (parseIndexRootA mk idx) (1 * idx.length) (fun _ => 0) :=
    ⟨parseIndexRootA_spends idx, fun _ _ => by have := parseIndexRootA_spends (mk := mk) idx; omega⟩
  have : Spends (buildRestorePlanA crc mk seg idx r cr) (1 * idx.length + 3 * seg.length) (fun _ => 0) := by
    unfold buildRestorePlanA
    refine ((h1.frame (3 * seg.length))).bind (fun pi _ => ?_)
    refine (Spends.mono (collectRecoverableA_spends crc seg r) (by omega) (fun _ _ => Nat.le_refl _)).bind (fun bs _ => ?_)
    split
    · exact spends_lift (fun _ _ => Nat.le_refl _)
    · refine (spends_lift_opt (left := fun _ => 0) (fun _ _ => Nat.le_refl _)).bind (fun _ _ => ?_)
      exact spends_lift (fun _ _ => Nat.le_refl _)
  have := this.1
  omega

end KafVerif.Kafka
