import KafVerif.Lemmas.KafkaPitr
/-!
C08, two additions to the byte-level theorems of `Lemmas/KafkaPitr.lean`.

1. **The restore time is a `time.Time` with nanosecond resolution** (`GoTime` in `Model/KafkaRecovery.lean`):
   `restoreTo.UnixMilli()` is the floor of the time in milliseconds — also before 1970, because Go keeps
   `nsec ∈ [0, 10^9)` — so "record timestamp ≤ cutoffMs" is exactly "the record is not later than
   `restoreTo`" (`cutoff_is_floor`), and `CreatedAt.After(RestoreTo)` on a millisecond creation time is
   exactly "created > cutoffMs" (`candidate_after_is_floor`, `lastCandidateAt_eq`).  A conversion that
   rounds to the nearest millisecond is refuted by `cutoff_round_is_wrong`.

2. **The restored batches have true headers again** (`collect_hdr_true`: first timestamp = first record,
   max timestamp = the maximum of the KEPT records — the running maximum, not the last kept record, which
   differs when record timestamps inside a batch go backwards), all their timestamps are ≤ T, and therefore
   restoring a restored segment again is harmless: at the same or a later time it is the identity
   (`restore_again_identity`), at an earlier time T' it gives what restoring the source at T' gives
   (`restore_again_earlier`).
-/
set_option linter.unusedSimpArgs false
set_option linter.unusedVariables false
namespace KafVerif.Kafka

/-! ### 1. the restore time -/

theorem GoTime.ofNanos_valid (ns : Int) : (GoTime.ofNanos ns).Valid := by
  unfold GoTime.ofNanos GoTime.Valid
  simp only
  omega

theorem GoTime.ofMilli_valid (ms : Int) : (GoTime.ofMilli ms).Valid := by
  unfold GoTime.ofMilli GoTime.Valid
  simp only
  omega

theorem GoTime.unixNano_ofNanos (ns : Int) : (GoTime.ofNanos ns).unixNano = ns := by
  unfold GoTime.ofNanos GoTime.unixNano
  simp only
  omega

/-- `time.Unix(0, ns).UnixMilli()` is `ns` divided by 10^6 rounding towards minus infinity (Lean's `/` on `Int`
with a positive divisor), for negative `ns` too -/
theorem GoTime.unixMilli_ofNanos (ns : Int) : (GoTime.ofNanos ns).unixMilli = ns / 1000000 := by
  unfold GoTime.ofNanos GoTime.unixMilli
  simp only
  omega

theorem GoTime.unixMilli_ofMilli (ms : Int) : (GoTime.ofMilli ms).unixMilli = ms := by
  unfold GoTime.ofMilli GoTime.unixMilli
  simp only
  omega

/-- **the record cutoff is the floor of the restore time**: for every Go time value `t` (before or after 1970)
and every millisecond timestamp `ts`, `ts ≤ t.UnixMilli()` — the test `recordTimestamp > cutoffMs` of the scanner
negated — holds iff the instant `ts` ms is not later than `t` (compared in nanoseconds). -/
theorem _root_.KafVerif.C08.cutoff_is_floor (t : GoTime) (hv : t.Valid) (ts : Int) :
    ts ≤ t.unixMilli ↔ ts * 1000000 ≤ t.unixNano := by
  unfold GoTime.unixMilli GoTime.unixNano
  unfold GoTime.Valid at hv
  omega

/-- the same for a time given in nanoseconds since the epoch (`time.Unix(0, ns)`, any sign) -/
theorem cutoff_is_floor_nanos (ns ts : Int) : ts ≤ (GoTime.ofNanos ns).unixMilli ↔ ts * 1000000 ≤ ns := by
  rw [KafVerif.C08.cutoff_is_floor _ (GoTime.ofNanos_valid ns), GoTime.unixNano_ofNanos]

/-- **candidate selection compares at the same resolution**: `time.UnixMilli(created).After(restoreTo)` iff
`created > restoreTo.UnixMilli()` iff the creation instant is later than `restoreTo` in nanoseconds -/
theorem _root_.KafVerif.C08.candidate_after_is_floor (t : GoTime) (hv : t.Valid) (created : Int) :
    ((GoTime.ofMilli created).after t = true ↔ created > t.unixMilli) ∧
    ((GoTime.ofMilli created).after t = true ↔ created * 1000000 > t.unixNano) := by
  unfold GoTime.after GoTime.ofMilli GoTime.unixMilli GoTime.unixNano
  unfold GoTime.Valid at hv
  simp only [Bool.or_eq_true, Bool.and_eq_true, decide_eq_true_eq]
  constructor <;> omega

/-- the candidate index computed on `time.Time`s is the one of the millisecond model -/
theorem lastCandidateAt_eq (t : GoTime) (hv : t.Valid) : ∀ segs : List Src,
    lastCandidateAt t segs = lastCandidate t.unixMilli segs
  | [] => rfl
  | [_] => rfl
  | s :: s2 :: rest => by
    unfold lastCandidateAt lastCandidate
    have h := (KafVerif.C08.candidate_after_is_floor t hv s.created).1
    by_cases hc : s.created > t.unixMilli
    · rw [if_pos (h.mpr hc), if_pos hc]
    · rw [if_neg (fun x => hc (h.mp x)), if_neg hc, lastCandidateAt_eq t hv (s2 :: rest)]

/-- rounding to the NEAREST millisecond is not the cutoff: at 0.6 ms past a millisecond a record stamped at the next
millisecond is later than the restore time, yet `≤` the rounded value -/
theorem cutoff_round_is_wrong : ∃ (ns ts : Int), ¬ (ts * 1000000 ≤ ns) ∧ ts ≤ (ns + 500000) / 1000000 :=
  ⟨1700000100000600000, 1700000100001, by decide, by decide⟩

/-- before 1970 truncation towards zero would be wrong as well: one nanosecond before the epoch is millisecond −1 -/
example : (GoTime.ofNanos (-1)).unixMilli = -1 ∧ (GoTime.ofNanos (-1)) = ⟨-1, 999999999⟩ ∧
    (GoTime.ofNanos (-1000000)).unixMilli = -1 ∧ (GoTime.ofNanos (-1000001)).unixMilli = -2 := by decide
example : (GoTime.ofNanos 1700000100000499999).unixMilli = 1700000100000 ∧
    (GoTime.ofNanos 1700000100000500000).unixMilli = 1700000100000 ∧
    (GoTime.ofNanos 1700000100000999999).unixMilli = 1700000100000 := by decide

/-- **C08, exact prefix, in terms of the restore time itself**: what is restored from the final segment is a prefix
of the source records, none of them later than `restoreTo`, and the source record right after them is later than
`restoreTo` — instants compared in nanoseconds. -/
theorem _root_.KafVerif.C08.restored_prefix_cut_at_time (t : GoTime) (hv : t.Valid) (bs : List Batch) (hh : ∀ b ∈ bs, b.HdrTrue) :
    (∃ rest, bs.flatMap recordsOf = (collectBatches t.unixMilli bs).flatMap recordsOf ++ rest) ∧
    (∀ d ∈ (collectBatches t.unixMilli bs).flatMap recordsOf, d.ts * 1000000 ≤ t.unixNano) ∧
    (∀ d rest, bs.flatMap recordsOf = (collectBatches t.unixMilli bs).flatMap recordsOf ++ d :: rest →
      d.ts * 1000000 > t.unixNano) := by
  obtain ⟨h1, h2, h3⟩ := KafVerif.C08.restored_records_exact_prefix t.unixMilli bs hh
  refine ⟨h1, fun d hd => (KafVerif.C08.cutoff_is_floor t hv d.ts).mp (h2 d hd), fun d rest h => ?_⟩
  have := h3 d rest h
  have hc := KafVerif.C08.cutoff_is_floor t hv d.ts
  omega

/-! ### 2. the restored batches have true headers; restoring again -/

theorem Batch.HdrTrue.first_le_max {b : Batch} (h : b.HdrTrue) : b.firstTs ≤ b.maxTs := by
  obtain ⟨⟨r0, t, hr, hf⟩, hle, _⟩ := h
  have := hle r0 (by rw [hr]; simp)
  omega

/-- the running maximum is the start value or is attained by a record -/
theorem maxTsOf_attained (firstTs : Int) : ∀ (ks : List Rec) (m : Int),
    maxTsOf firstTs m ks = m ∨ ∃ r ∈ ks, recTs firstTs r = maxTsOf firstTs m ks := by
  intro ks
  induction ks with
  | nil => intro m; left; rfl
  | cons r t ih =>
    intro m
    simp only [maxTsOf]
    by_cases h : recTs firstTs r > m
    · simp only [h, if_true]
      rcases ih (recTs firstTs r) with e | ⟨x, hx, e⟩
      · right; exact ⟨r, by simp, e.symm⟩
      · right; exact ⟨x, by simp [hx], e⟩
    · simp only [h, if_false]
      rcases ih m with e | ⟨x, hx, e⟩
      · left; exact e
      · right; exact ⟨x, by simp [hx], e⟩

theorem maxTsOf_le (firstTs c : Int) (ks : List Rec) (m : Int) (hm : m ≤ c) (hk : ∀ r ∈ ks, recTs firstTs r ≤ c) :
    maxTsOf firstTs m ks ≤ c := by
  rcases maxTsOf_attained firstTs ks m with e | ⟨r, hr, e⟩
  · omega
  · have := hk r hr; omega

theorem keptPrefix_keptPrefix (firstTs T' T : Int) (hT : T' ≤ T) (rs : List Rec) :
    keptPrefix firstTs T' (keptPrefix firstTs T rs) = keptPrefix firstTs T' rs := by
  induction rs with
  | nil => rfl
  | cons r t ih =>
    by_cases h : recTs firstTs r > T
    · have h' : recTs firstTs r > T' := by omega
      simp [keptPrefix, h, h']
    · by_cases h' : recTs firstTs r > T'
      · simp [keptPrefix, h, h']
      · simp [keptPrefix, h, h', ih]

theorem keptPrefix_of_all_le (firstTs T : Int) (rs : List Rec) (h : ∀ r ∈ rs, recTs firstTs r ≤ T) :
    keptPrefix firstTs T rs = rs := by
  induction rs with
  | nil => rfl
  | cons r t ih =>
    have h0 := h r (by simp)
    have : ¬ recTs firstTs r > T := by omega
    simp [keptPrefix, this, ih (fun x hx => h x (by simp [hx]))]

theorem cutBatch_cutBatch (b : Batch) (ks ks2 : List Rec) (lod mx lod2 mx2 : Int) :
    cutBatch (cutBatch b ks lod mx) ks2 lod2 mx2 = cutBatch b ks2 lod2 mx2 := rfl

/-- `truncateRecordBatchToTimestamp` on a batch with a true header: three outcomes -/
theorem cutOneB_hdr (T : Int) (b : Batch) (hb : b.HdrTrue) :
    (b.maxTs ≤ T ∧ cutOneB T b = (some b, false)) ∨
    (T < b.maxTs ∧ keptPrefix b.firstTs T b.recs = [] ∧ cutOneB T b = (none, true)) ∨
    (T < b.maxTs ∧ b.firstTs ≤ T ∧ ∃ (ks : List Rec) (h : ks ≠ []), ks = keptPrefix b.firstTs T b.recs ∧
      ks.length < b.recs.length ∧
      cutOneB T b = (some (cutBatch b ks (ks.getLast h).offDelta (maxTsOf b.firstTs b.firstTs ks)), true)) := by
  obtain ⟨⟨r0, t0, hr0, hfirst⟩, hmaxle, ⟨rm, hrm, hmax⟩⟩ := hb
  unfold cutOneB
  by_cases h1 : b.maxTs ≤ T
  · left; exact ⟨h1, by rw [if_pos h1]⟩
  · right
    rw [if_neg h1]
    by_cases h2 : b.firstTs > T
    · left
      refine ⟨by omega, ?_, by rw [if_pos h2]⟩
      rw [hr0]
      have : recTs b.firstTs r0 > T := by omega
      simp [keptPrefix, this]
    · rw [if_neg h2]
      simp only
      by_cases h3 : keptPrefix b.firstTs T b.recs = []
      · left; exact ⟨by omega, h3, by rw [dif_pos h3]⟩
      · right
        rw [dif_neg h3]
        obtain ⟨rest, hsplit⟩ := keptPrefix_split b.firstTs T b.recs
        have hlen : (keptPrefix b.firstTs T b.recs).length < b.recs.length := by
          cases rest with
          | nil =>
            rw [List.append_nil] at hsplit
            have := keptPrefix_all_le b.firstTs T b.recs rm (by rw [← hsplit]; exact hrm)
            omega
          | cons x xs =>
            have : b.recs.length = (keptPrefix b.firstTs T b.recs ++ x :: xs).length := by rw [← hsplit]
            simp only [List.length_append, List.length_cons] at this
            omega
        refine ⟨by omega, by omega, keptPrefix b.firstTs T b.recs, h3, rfl, hlen, ?_⟩
        rw [if_neg (by omega)]

/-- the batch that remains after a cut has a true header, and its max timestamp is not later than T -/
theorem cutBatch_hdr (T : Int) (b : Batch) (hb : b.HdrTrue) (ks : List Rec) (hks : ks = keptPrefix b.firstTs T b.recs)
    (hne : ks ≠ []) (lod : Int) :
    (cutBatch b ks lod (maxTsOf b.firstTs b.firstTs ks)).HdrTrue ∧ maxTsOf b.firstTs b.firstTs ks ≤ T := by
  obtain ⟨⟨r0, t0, hr0, hfirst⟩, hmaxle, _⟩ := hb
  have hle := keptPrefix_all_le b.firstTs T b.recs
  rw [← hks] at hle
  have hhead : ∃ t1, ks = r0 :: t1 := by
    rw [hks, hr0]
    rw [hks, hr0] at hne
    unfold keptPrefix at hne ⊢
    split
    · rename_i hgt; simp [hgt] at hne
    · exact ⟨_, rfl⟩
  obtain ⟨t1, hk1⟩ := hhead
  have hr0k : r0 ∈ ks := by rw [hk1]; simp
  have hge := maxTsOf_ge b.firstTs ks b.firstTs
  refine ⟨⟨⟨r0, t1, hk1, hfirst⟩, hge.2, ?_⟩, maxTsOf_le b.firstTs T ks b.firstTs (by have := hle r0 hr0k; omega) hle⟩
  rcases maxTsOf_attained b.firstTs ks b.firstTs with e | ⟨r, hr, e⟩
  · exact ⟨r0, hr0k, by show recTs b.firstTs r0 = maxTsOf b.firstTs b.firstTs ks; rw [e, hfirst]⟩
  · exact ⟨r, hr, e⟩

/-- **the restored batches have true headers, none later than T**: in every batch kept for the final segment the
first timestamp is the first record's, the max timestamp is the maximum over the records it holds (for the cut batch:
over the KEPT records) and is attained, and it is ≤ T.  So the header fast path (`maxTimestamp <= cutoff` keeps the
whole batch) of any later scan of the restored segment decides correctly. -/
theorem _root_.KafVerif.C08.collect_hdr_true (T : Int) (bs : List Batch) (hh : ∀ b ∈ bs, b.HdrTrue) :
    ∀ b ∈ collectBatches T bs, b.HdrTrue ∧ b.maxTs ≤ T := by
  induction bs with
  | nil => simp [collectBatches]
  | cons b t ih =>
    have hb := hh b (by simp)
    have iht := ih (fun x hx => hh x (by simp [hx]))
    intro x hx
    simp only [collectBatches] at hx
    rcases cutOneB_hdr T b hb with ⟨hle, he⟩ | ⟨_, _, he⟩ | ⟨_, _, ks, hne, hks, _, he⟩
    · rw [he] at hx
      simp only [Bool.false_eq_true, if_false, Option.toList, List.cons_append, List.nil_append, List.mem_cons] at hx
      rcases hx with rfl | hx
      · exact ⟨hb, hle⟩
      · exact iht x hx
    · rw [he] at hx
      simp at hx
    · rw [he] at hx
      simp only [if_true, Option.toList, List.mem_singleton] at hx
      subst hx
      exact cutBatch_hdr T b hb ks hks hne _

theorem collectBatches_of_all_le (T : Int) (l : List Batch) (h : ∀ b ∈ l, b.maxTs ≤ T) : collectBatches T l = l := by
  induction l with
  | nil => rfl
  | cons b t ih =>
    have hb := h b (by simp)
    simp only [collectBatches, cutOneB, if_pos hb, Bool.false_eq_true, if_false, Option.toList, List.cons_append,
      List.nil_append, ih (fun x hx => h x (by simp [hx]))]

/-- **restoring the restored segment again, at the same or a later time, changes nothing** (batch level:
`collectRecoverableBatches` at `T2 ≥ T` over what it kept at `T` keeps every batch whole) -/
theorem _root_.KafVerif.C08.restore_again_identity (T T2 : Int) (hT : T ≤ T2) (bs : List Batch) (hh : ∀ b ∈ bs, b.HdrTrue) :
    collectBatches T2 (collectBatches T bs) = collectBatches T bs :=
  collectBatches_of_all_le T2 _ (fun b hb => by have := (KafVerif.C08.collect_hdr_true T bs hh b hb).2; omega)

theorem collectBatches_single (T : Int) (b : Batch) : collectBatches T [b] = (cutOneB T b).1.toList := by
  simp only [collectBatches]
  split <;> simp

/-- **restoring the restored segment again at an earlier time `T' ≤ T` gives what restoring the source at `T'`
gives** (batch level, byte for byte after `encBatch`): the header of the batch cut at `T` must carry the maximum of the
records kept at `T` for this — a smaller value lets the second scan keep the whole batch although it holds a record
later than `T'`. -/
theorem _root_.KafVerif.C08.restore_again_earlier (T' T : Int) (hT : T' ≤ T) (bs : List Batch) (hh : ∀ b ∈ bs, b.HdrTrue) :
    collectBatches T' (collectBatches T bs) = collectBatches T' bs := by
  induction bs with
  | nil => rfl
  | cons b t ih =>
    have hb := hh b (by simp)
    have iht := ih (fun x hx => hh x (by simp [hx]))
    rcases cutOneB_hdr T b hb with ⟨hle, he⟩ | ⟨hgt, hnil, he⟩ | ⟨hgt, hfl, ks, hne, hks, hlen, he⟩
    · -- kept whole at T, the scan at T went on
      have e1 : collectBatches T (b :: t) = b :: collectBatches T t := by simp [collectBatches, he]
      rw [e1]
      simp only [collectBatches]
      rw [iht]
    · -- nothing kept at T: nothing at T' either
      have e1 : collectBatches T (b :: t) = [] := by simp [collectBatches, he]
      rw [e1]
      have hnil' : keptPrefix b.firstTs T' b.recs = [] := by
        rw [← keptPrefix_keptPrefix b.firstTs T' T hT, hnil]; rfl
      rcases cutOneB_hdr T' b hb with ⟨hle', _⟩ | ⟨_, _, he'⟩ | ⟨_, _, ks', hne', hks', _, _⟩
      · omega
      · simp [collectBatches, he']
      · rw [hnil'] at hks'; exact absurd hks' hne'
    · -- cut inside the batch at T
      have e1 : collectBatches T (b :: t) = [cutBatch b ks (ks.getLast hne).offDelta (maxTsOf b.firstTs b.firstTs ks)] := by
        simp [collectBatches, he]
      rw [e1, collectBatches_single]
      obtain ⟨hcb, hmx⟩ := cutBatch_hdr T b hb ks hks hne (ks.getLast hne).offDelta
      have hk2 : keptPrefix b.firstTs T' ks = keptPrefix b.firstTs T' b.recs := by
        rw [hks]; exact keptPrefix_keptPrefix b.firstTs T' T hT b.recs
      -- the source batch at T': its max timestamp is later than T ≥ T', so the scan stops here
      have e2 : collectBatches T' (b :: t) = (cutOneB T' b).1.toList := by
        rcases cutOneB_hdr T' b hb with ⟨hle', _⟩ | ⟨_, _, he'⟩ | ⟨_, _, _, _, _, _, he'⟩
        · omega
        · simp [collectBatches, he']
        · simp [collectBatches, he']
      rw [e2]
      congr 1
      rcases cutOneB_hdr T' _ hcb with ⟨hle2, he2⟩ | ⟨hgt2, hnil2, he2⟩ | ⟨hgt2, hfl2, ks2, hne2, hks2, hlen2, he2⟩
      · -- every record kept at T is ≤ T': kept whole; the source is cut at the same place
        have hall : ∀ r ∈ ks, recTs b.firstTs r ≤ T' := by
          intro r hr
          have := (maxTsOf_ge b.firstTs ks b.firstTs).2 r hr
          have h2 : maxTsOf b.firstTs b.firstTs ks ≤ T' := hle2
          omega
        have hsame : keptPrefix b.firstTs T' b.recs = ks := by rw [← hk2]; exact keptPrefix_of_all_le _ _ _ hall
        rcases cutOneB_hdr T' b hb with ⟨hle', _⟩ | ⟨_, hnil', _⟩ | ⟨_, _, ks', hne', hks', _, he'⟩
        · omega
        · rw [hsame] at hnil'; exact absurd hnil' hne
        · rw [hsame] at hks'
          subst hks'
          rw [he2, he']
      · -- the first record is later than T'
        have hnil' : keptPrefix b.firstTs T' b.recs = [] := by rw [← hk2]; exact hnil2
        rcases cutOneB_hdr T' b hb with ⟨hle', _⟩ | ⟨_, _, he'⟩ | ⟨_, _, ks', hne', hks', _, _⟩
        · omega
        · rw [he2, he']
        · rw [hnil'] at hks'; exact absurd hks' hne'
      · -- cut again, further to the front
        have hks2' : ks2 = keptPrefix b.firstTs T' b.recs := by rw [← hk2]; exact hks2
        rcases cutOneB_hdr T' b hb with ⟨hle', _⟩ | ⟨_, hnil', _⟩ | ⟨_, _, ks', hne', hks', _, he'⟩
        · omega
        · rw [← hks2'] at hnil'; exact absurd hnil' hne2
        · rw [← hks2'] at hks'
          subst hks'
          rw [he2, he']
          rfl

/-! ### non-vacuity: a batch whose record timestamps go backwards (1000, 1200, 970, 1500) -/

def exO1 : Rec := ⟨0, 200, 1, none, some [7], []⟩
def exO2 : Rec := ⟨0, -30, 2, none, some [8], []⟩
def exO3 : Rec := ⟨0, 500, 3, none, some [9], []⟩
def exO : Batch := { base := 20, lastOffsetDelta := 3, firstTs := 1000, maxTs := 1500, recs := [exR0, exO1, exO2, exO3] }

theorem exO_hdr : exO.HdrTrue :=
  ⟨⟨exR0, [exO1, exO2, exO3], rfl, by decide⟩, by decide, ⟨exO3, by decide, by decide⟩⟩

/-- cut at 1300: three records kept, the last kept one is stamped 970 but the header max is 1200 -/
example : (collectBatches 1300 [exO]).map (fun b => (b.recs.length, b.lastOffsetDelta, b.maxTs)) = [(3, 2, 1200)] := by decide
/-- restoring that again at 1100 keeps the first record only — as restoring the source at 1100 does -/
example : (collectBatches 1100 (collectBatches 1300 [exO])).flatMap recordsOf = (recordsOf exO).take 1 ∧
    (collectBatches 1100 (collectBatches 1300 [exO])).map (fun b => (b.recs.length, b.lastOffsetDelta, b.maxTs)) = [(1, 0, 1000)] := by
  decide
example : collectBatches 1100 (collectBatches 1300 [exO]) = collectBatches 1100 [exO] :=
  KafVerif.C08.restore_again_earlier 1100 1300 (by decide) [exO] (by intro b hb; simp at hb; subst hb; exact exO_hdr)
/-- with the last kept timestamp (970) in the header instead, the second scan would keep the record stamped 1200 -/
example : (collectBatches 1100 [cutBatch exO [exR0, exO1, exO2] 2 970]).flatMap recordsOf = (recordsOf exO).take 3 := by decide
example : ∀ b ∈ collectBatches 1300 [exO], b.HdrTrue ∧ b.maxTs ≤ 1300 :=
  KafVerif.C08.collect_hdr_true 1300 [exO] (by intro b hb; simp at hb; subst hb; exact exO_hdr)
example : (GoTime.ofNanos 1700000100000600000).Valid := GoTime.ofNanos_valid _
example : lastCandidateAt (GoTime.ofNanos 5999999) [⟨⟨0, 0, 0⟩, 1, 5, 48⟩, ⟨⟨0, 0, 2⟩, 3, 6, 48⟩, ⟨⟨0, 0, 4⟩, 5, 12, 48⟩] = 1 := by decide

end KafVerif.Kafka
