import KafVerif.Model.S3Chunks
/-!
Lemmas about `Model/S3Chunks.lean`: what one `Read` does to a body, what `io.ReadAll` returns, what a page of
`ListObjectsV2` is, the paginator's invariant (`out = all.take from`).
-/
namespace KafVerif.S3Chunks
open KafVerif
open KafVerif.S3Aws (Api Err lookup Ret isBucketMissing isNotFound)

/-! ### bodies -/

theorem deliver_spec (b : Body) (n : Nat) :
    b.data = (b.deliver n).1.1 ++ (b.deliver n).2.data ∧ (b.deliver n).2.term = b.term ∧
    (∀ x, (b.deliver n).1.2 = some x → x = b.term ∧ (b.deliver n).2.data = []) := by
  unfold Body.deliver
  simp only
  split
  · rename_i h
    simp only [Bool.and_eq_true, List.isEmpty_iff] at h
    refine ⟨by simp, rfl, ?_⟩
    intro x hx
    simp only [Option.some.injEq] at hx
    exact ⟨hx.symm, h.1.1⟩
  · refine ⟨by simp, rfl, ?_⟩
    intro x hx
    simp at hx

/-- one `Read`: the bytes handed out are the next bytes of the body; the terminal condition, if reported, is the
body's and nothing is left -/
theorem read_spec (b : Body) (cap : Nat) :
    b.data = (b.read cap).1.1 ++ (b.read cap).2.data ∧ (b.read cap).2.term = b.term ∧
    (∀ x, (b.read cap).1.2 = some x → x = b.term ∧ (b.read cap).2.data = []) := by
  unfold Body.read
  by_cases h0 : b.data.isEmpty = true
  · have : b.data = [] := List.isEmpty_iff.mp h0
    simp [this]
  · by_cases hc : cap = 0
    · simp [h0, hc]
    · simp only [h0, hc, if_false, Bool.false_eq_true]
      exact deliver_spec b _

/-- **`io.ReadAll` returns nil only with ALL the bytes of the body, and only when the body ended with `io.EOF`** —
whatever the sizes of the individual `Read`s (`sizes`, `cap`), the number of calls, and whether EOF came with the last
bytes. -/
theorem readAll_ok (cap : Nat) : ∀ (fuel : Nat) (b : Body) (acc d : Bytes),
    readAll cap fuel b acc = .ok d → d = acc ++ b.data ∧ b.term = .eof := by
  intro fuel
  induction fuel with
  | zero => intro b acc d h; simp [readAll] at h
  | succ n ih =>
    intro b acc d h
    have hs := read_spec b cap
    rcases hr : b.read cap with ⟨⟨d', t⟩, b'⟩
    rw [hr] at hs
    simp only at hs
    obtain ⟨h1, h2, h3⟩ := hs
    unfold readAll at h
    rw [hr] at h
    cases t with
    | none =>
      simp only at h
      obtain ⟨e1, e2⟩ := ih b' (acc ++ d') d h
      refine ⟨?_, by rw [← h2]; exact e2⟩
      rw [e1, h1, List.append_assoc]
    | some x =>
      obtain ⟨hx, hnil⟩ := h3 x rfl
      cases x with
      | eof =>
        simp only [Except.ok.injEq] at h
        refine ⟨?_, hx.symm⟩
        rw [← h, h1, hnil, List.append_nil]
      | uexp => simp at h
      | reset => simp at h
      | fuel => simp at h

/-- a complete transfer is read completely: `io.ReadAll` needs at most `fuelFor` calls -/
theorem readAll_complete : ∀ (fuel : Nat) (b : Body) (acc : Bytes),
    b.sizes.length + b.data.length + 2 ≤ fuel → b.term = .eof → readAll 512 fuel b acc = .ok (acc ++ b.data) := by
  intro fuel
  induction fuel with
  | zero => intro b acc h; omega
  | succ n ih =>
    intro b acc hf ht
    unfold readAll
    by_cases h0 : b.data.isEmpty = true
    · have hd : b.data = [] := List.isEmpty_iff.mp h0
      simp [Body.read, ht, hd]
    · have hne : b.data ≠ [] := by intro e; rw [e] at h0; simp at h0
      have hlen : 0 < b.data.length := List.length_pos_iff.mpr hne
      simp only [Body.read, h0, Bool.false_eq_true, if_false, show ¬ (512 = 0) by omega]
      generalize hk : (min (match b.sizes with
        | [] => b.data.length
        | k :: _ => min k b.data.length) 512) = k
      have hprog : b.sizes.tail.length + (b.data.drop k).length + 2 ≤ n := by
        rw [List.length_drop, List.length_tail]
        cases hs : b.sizes with
        | nil => rw [hs] at hk hf; simp only [List.length_nil] at hf ⊢; simp only at hk; omega
        | cons x t => rw [hs] at hf; simp only [List.length_cons] at hf ⊢; omega
      by_cases hc : ((b.data.drop k).isEmpty && b.ew && decide (k > 0)) = true
      · have hd : b.deliver k = ((b.data.take k, some b.term), { b with data := b.data.drop k, sizes := b.sizes.tail }) := by
          unfold Body.deliver; simp only [hc, if_true]
        rw [hd, ht]
        simp only
        simp only [Bool.and_eq_true, List.isEmpty_iff] at hc
        have : b.data.take k = b.data := by
          have := List.take_append_drop k b.data
          rw [hc.1.1, List.append_nil] at this
          exact this
        rw [this]
      · have hd : b.deliver k = ((b.data.take k, none), { b with data := b.data.drop k, sizes := b.sizes.tail }) := by
          unfold Body.deliver; simp only [hc, if_false, Bool.false_eq_true]
        rw [hd]
        simp only
        have := ih { b with data := b.data.drop k, sizes := b.sizes.tail } (acc ++ b.data.take k) hprog ht
        simp only at this
        rw [this, List.append_assoc, List.take_append_drop]

/-- the endpoint never ends a SHORT transfer with a clean EOF: a body that ends with `io.EOF` carries all the
selected bytes -/
theorem mkBody_eof (sel : Bytes) (sp : BodySpec) (h : (mkBody sel sp).term = .eof) : (mkBody sel sp).data = sel := by
  unfold mkBody at h ⊢
  simp only at h ⊢
  cases hc : sp.cut with
  | none => simp
  | some jr =>
    obtain ⟨j, r⟩ := jr
    rw [hc] at h
    simp only at h ⊢
    by_cases hj : j < sel.length
    · simp only [hj, if_true] at h
      cases r <;> simp at h
    · simp [hj]

/-- what a successful `GetObject` answers: a body for the requested slice of the stored object -/
theorem apiGet_ok (s : St) (key : String) (rng : Option (Int × Int)) (s' : St) (body : Body)
    (h : apiGet s key rng = (s', .ok body)) :
    ∃ obj sel sp, lookup s.api.objs key = some obj ∧ sliceOf obj rng = some sel ∧ body = mkBody sel sp ∧ s'.api = s.api := by
  unfold apiGet at h
  have hp : (popGet s).2.api = s.api := by unfold popGet; split <;> rfl
  rcases hpop : popGet s with ⟨t, s1⟩
  rw [hpop] at h hp
  simp only at h hp
  split at h
  · simp at h
  · rename_i sp _
    split at h
    · simp at h
    · split at h
      · simp at h
      · rename_i data hl
        split at h
        · simp at h
        · rename_i sel hsel
          simp only [Prod.mk.injEq, Except.ok.injEq] at h
          refine ⟨data, sel, sp, by rw [← hp]; exact hl, hsel, h.2.symm, ?_⟩
          rw [← h.1]; exact hp

/-- a requested range is a contiguous piece of the object that starts at the requested position -/
theorem sliceOf_range (data : Bytes) (a b : Int) (d : Bytes) (h : sliceOf data (some (a, b)) = some d) :
    ∃ pre post, data = pre ++ d ++ post ∧ (pre.length : Int) = a ∧ (post = [] ∨ (d.length : Int) = b + 1 - a) := by
  unfold sliceOf at h
  simp only at h
  split at h
  · simp at h
  · rename_i hc
    simp only [Option.some.injEq] at h
    generalize hn : ((if b ≥ (data.length : Int) then (data.length : Int) - 1 else b) + 1 - a).toNat = n at h
    refine ⟨data.take a.toNat, (data.drop a.toNat).drop n, ?_, ?_, ?_⟩
    · rw [← h, List.append_assoc, List.take_append_drop, List.take_append_drop]
    · rw [List.length_take]; omega
    · split at hn
      · left; apply List.drop_eq_nil_of_le; rw [List.length_drop]; omega
      · right; rw [← h, List.length_take, List.length_drop]; omega

/-! ### listing -/

theorem popList_fields {κ} (s : LSt κ) :
    (popList s).2.bucket = s.bucket ∧ (popList s).2.all = s.all ∧ (popList s).2.calls = s.calls ∧
    (∀ t, t ∈ (popList s).2.lists → t ∈ s.lists) ∧ ((popList s).1 = .nat ∨ (popList s).1 ∈ s.lists) := by
  unfold popList
  split
  · simp
  · rename_i t r h
    simp [h]
    intro x hx; exact Or.inr hx

/-- one `ListObjectsV2` call: the endpoint is unchanged; a page is the next `k` keys after the token, the next token
is given exactly when keys remain; an error is an injected one or NoSuchBucket of a missing bucket -/
theorem apiList_spec {κ} (s : LSt κ) (mk : Option Nat) (frm : Nat) :
    (apiList s mk frm).1.bucket = s.bucket ∧ (apiList s mk frm).1.all = s.all ∧
    (∀ t, t ∈ (apiList s mk frm).1.lists → t ∈ s.lists) ∧
    (∀ page next, (apiList s mk frm).2 = .ok (page, next) →
      ∃ k, page = (s.all.drop frm).take k ∧ next = if (s.all.drop frm).length > k then some (frm + k) else none) ∧
    (∀ e, (apiList s mk frm).2 = .error e → (e = .nsb ∧ s.bucket = false) ∨ ListTok.fail e ∈ s.lists) := by
  unfold apiList
  obtain ⟨hb, ha, _, hl, ht⟩ := popList_fields s
  rcases hpop : popList s with ⟨t, s1⟩
  rw [hpop] at hb ha hl ht
  simp only at hb ha hl ht ⊢
  cases t with
  | fail e =>
    simp only [lnote]
    refine ⟨hb, ha, hl, by simp, ?_⟩
    intro e' he
    simp only [Except.error.injEq] at he
    right
    rcases ht with h | h
    · simp at h
    · rw [← he]; exact h
  | nat =>
    simp only
    by_cases hbk : s1.bucket = true
    · simp only [hbk, Bool.not_true, Bool.false_eq_true, if_false, lnote]
      refine ⟨by rw [← hb, hbk], ha, hl, ?_, by simp⟩
      intro page next he
      simp only [Except.ok.injEq, Prod.mk.injEq] at he
      obtain ⟨e1, e2⟩ := he
      subst e1; subst e2
      rw [ha]
      exact ⟨_, rfl, rfl⟩
    · have hbf : s1.bucket = false := by simpa using hbk
      simp only [hbf, Bool.not_false, if_true, lnote]
      refine ⟨by rw [← hb, hbf], ha, hl, by simp, ?_⟩
      intro e he
      simp only [Except.error.injEq] at he
      left; exact ⟨he.symm, by rw [← hb, hbf]⟩
  | page n =>
    simp only
    by_cases hbk : s1.bucket = true
    · simp only [hbk, Bool.not_true, Bool.false_eq_true, if_false, lnote]
      refine ⟨by rw [← hb, hbk], ha, hl, ?_, by simp⟩
      intro page next he
      simp only [Except.ok.injEq, Prod.mk.injEq] at he
      obtain ⟨e1, e2⟩ := he
      subst e1; subst e2
      rw [ha]
      exact ⟨_, rfl, rfl⟩
    · have hbf : s1.bucket = false := by simpa using hbk
      simp only [hbf, Bool.not_false, if_true, lnote]
      refine ⟨by rw [← hb, hbf], ha, hl, by simp, ?_⟩
      intro e he
      simp only [Except.error.injEq] at he
      left; exact ⟨he.symm, by rw [← hb, hbf]⟩

end KafVerif.S3Chunks
