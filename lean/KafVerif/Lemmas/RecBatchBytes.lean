import KafVerif.Model.RecBatch
/-!
Byte-level lemmas about the record batch header accessors of `KafVerif.Model.RecBatch`
(used by Props/C02, C03, C04).  Core Lean only.
-/
namespace KafVerif.RecBatch

theorem field_append_left (a r : Bytes) (i n : Nat) (h : i + n ≤ a.length) :
    field (a ++ r) i n = field a i n := by
  unfold field
  rw [List.drop_append_of_le_length (by omega)]
  rw [List.take_append_of_le_length (by simp; omega)]

theorem field_length (a : Bytes) (i n : Nat) (h : i + n ≤ a.length) : (field a i n).length = n := by
  unfold field; simp; omega

/-- reading `n` bytes at `i ≥ 8` is not affected by replacing the first 8 bytes -/
theorem field_patch (x b : Bytes) (i n : Nat) (hx : x.length = 8) (hi : 8 ≤ i) :
    field (x ++ b.drop 8) i n = field b i n := by
  unfold field
  rw [List.drop_append]
  have h1 : List.drop i x = [] := List.drop_eq_nil_of_le (by omega)
  rw [h1, hx, List.nil_append, List.drop_drop]
  congr 2
  omega

theorem be64Bytes_length (v : Int) : (be64Bytes v).length = 8 := by simp [be64Bytes]

theorem field_zero_prefix (x r : Bytes) (hx : x.length = 8) : field (x ++ r) 0 8 = x := by
  unfold field
  simp only [List.drop_zero]
  rw [List.take_append_of_le_length (by omega)]
  exact List.take_of_length_le (by omega)

theorem horner8 (u : Nat) (h : u < 18446744073709551616) :
  (((((((0 * 256 + u / 72057594037927936 % 256) * 256 + u / 281474976710656 % 256) * 256 +
    u / 1099511627776 % 256) * 256 + u / 4294967296 % 256) * 256 + u / 16777216 % 256) * 256 +
    u / 65536 % 256) * 256 + u / 256 % 256) * 256 + u % 256 = u := by
  have e0 : u = u / 256 * 256 + u % 256 := by omega
  have e1 : u / 256 = u / 65536 * 256 + u / 256 % 256 := by omega
  have e2 : u / 65536 = u / 16777216 * 256 + u / 65536 % 256 := by omega
  have e3 : u / 16777216 = u / 4294967296 * 256 + u / 16777216 % 256 := by omega
  have e4 : u / 4294967296 = u / 1099511627776 * 256 + u / 4294967296 % 256 := by omega
  have e5 : u / 1099511627776 = u / 281474976710656 * 256 + u / 1099511627776 % 256 := by omega
  have e6 : u / 281474976710656 = u / 72057594037927936 * 256 + u / 281474976710656 % 256 := by omega
  have e7 : u / 72057594037927936 = u / 72057594037927936 % 256 := by omega
  generalize u / 72057594037927936 % 256 = d7 at *
  generalize u / 281474976710656 % 256 = d6 at *
  generalize u / 1099511627776 % 256 = d5 at *
  generalize u / 4294967296 % 256 = d4 at *
  generalize u / 16777216 % 256 = d3 at *
  generalize u / 65536 % 256 = d2 at *
  generalize u / 256 % 256 = d1 at *
  generalize u % 256 = d0 at *
  generalize u / 72057594037927936 = q7 at *
  generalize u / 281474976710656 = q6 at *
  generalize u / 1099511627776 = q5 at *
  generalize u / 4294967296 = q4 at *
  generalize u / 16777216 = q3 at *
  generalize u / 65536 = q2 at *
  generalize u / 256 = q1 at *
  omega

theorem beNat_be64Bytes (v : Int) : beNat (be64Bytes v) = (v % 18446744073709551616).toNat := by
  have hlt : (v % 18446744073709551616).toNat < 18446744073709551616 := by omega
  simp only [be64Bytes, beNat, List.foldl_cons, List.foldl_nil, UInt8.toNat_ofNat', Nat.reducePow, Nat.mod_mod]
  exact horner8 _ hlt

/-- `PutUint64` then reading the int64 back gives the value, for values in the int64 range -/
theorem toInt64_be64 (v : Int) (h1 : -9223372036854775808 ≤ v) (h2 : v < 9223372036854775808) :
    toInt64 (beNat (be64Bytes v)) = v := by
  rw [beNat_be64Bytes]
  unfold toInt64
  split <;> omega

end KafVerif.RecBatch
