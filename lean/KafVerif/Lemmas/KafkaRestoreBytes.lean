import KafVerif.Lemmas.KafkaPitr
/-!
C08, byte level of the last candidate: `buildRestorePlan` applied to a segment that `BuildSegment`
wrote from well-formed batches returns `BuildSegment` of `collectBatches` (whole batches, then at
most one cut batch) with the same base offset and creation time, or "nothing to keep".

Core Lean only.
-/
set_option linter.unusedSimpArgs false
set_option linter.unusedVariables false
set_option linter.unusedSectionVars false
namespace KafVerif.Kafka

/-! ### what `collectBatches` keeps -/

/-- whatever one batch contributes has the base offset and first timestamp of that batch, is well
formed, and is not longer than the batch -/
theorem cutOneB_some (crc : Bytes → Nat) (T : Int) (b k : Batch) (h : (cutOneB T b).1 = some k) :
    k.base = b.base ∧ k.firstTs = b.firstTs ∧ (b.Wf → k.Wf) ∧ (encBatch crc k).length ≤ (encBatch crc b).length := by
  unfold cutOneB at h
  split at h
  · simp only [Option.some.injEq] at h; subst h; exact ⟨rfl, rfl, id, Nat.le_refl _⟩
  · split at h
    · simp at h
    · simp only at h
      split at h
      · simp at h
      · split at h
        · simp only [Option.some.injEq] at h; subst h; exact ⟨rfl, rfl, id, Nat.le_refl _⟩
        · simp only [Option.some.injEq] at h
          subst h
          obtain ⟨rest, hsplit⟩ := keptPrefix_split b.firstTs T b.recs
          refine ⟨rfl, rfl, ?_, ?_⟩
          · intro hw
            obtain ⟨h1, h2, h3, h4, h5, h6⟩ := hw
            refine ⟨h1, h2, h3, h4, ?_, ?_⟩
            · have : (keptPrefix b.firstTs T b.recs).length ≤ b.recs.length := by
                conv => rhs; rw [hsplit]
                simp
              simp only [cutBatch]; omega
            · intro r hr
              simp only [cutBatch] at hr
              exact h6 r (by rw [hsplit]; exact List.mem_append_left _ hr)
          · rw [encBatch_length, encBatch_length]
            simp only [cutBatch]
            conv => rhs; rw [hsplit, encRecs_append]
            simp only [List.length_append]; omega

theorem cutOneB_none (T : Int) (b : Batch) (h : (cutOneB T b).1 = none) : (cutOneB T b).2 = true := by
  unfold cutOneB at h ⊢
  split
  · rename_i h1; simp [h1] at h
  · split
    · rfl
    · simp only
      split
      · rfl
      · split <;> rfl

/-- the first kept batch starts where the first source batch starts -/
theorem collectBatches_head (crc : Bytes → Nat) (T : Int) (bs : List Batch) (k0 : Batch) (kt : List Batch)
    (h : collectBatches T bs = k0 :: kt) : ∃ b0 t, bs = b0 :: t ∧ k0.base = b0.base := by
  cases bs with
  | nil => simp [collectBatches] at h
  | cons b0 t =>
    refine ⟨b0, t, rfl, ?_⟩
    simp only [collectBatches] at h
    cases h1 : (cutOneB T b0).1 with
    | none =>
      have := cutOneB_none T b0 h1
      simp [h1, this] at h
    | some k =>
      have hk := (cutOneB_some crc T b0 k h1).1
      split at h
      · simp only [h1, Option.toList, List.cons.injEq] at h; rw [← h.1]; exact hk
      · simp only [h1, Option.toList, List.cons_append, List.nil_append, List.cons.injEq] at h; rw [← h.1]; exact hk

theorem collectBatches_wf (crc : Bytes → Nat) (T : Int) (bs : List Batch) (hw : ∀ b ∈ bs, b.Wf) :
    (∀ k ∈ collectBatches T bs, k.Wf) ∧ (encBatches crc (collectBatches T bs)).length ≤ (encBatches crc bs).length := by
  induction bs with
  | nil => simp [collectBatches, encBatches]
  | cons b t ih =>
    obtain ⟨i1, i2⟩ := ih (fun x hx => hw x (by simp [hx]))
    have hone : (∀ k ∈ (cutOneB T b).1.toList, k.Wf) ∧
        (encBatches crc (cutOneB T b).1.toList).length ≤ (encBatch crc b).length := by
      cases h1 : (cutOneB T b).1 with
      | none => simp [encBatches]
      | some k =>
        have hk := cutOneB_some crc T b k h1
        simp only [Option.toList, List.mem_singleton, forall_eq, encBatches, List.append_nil]
        exact ⟨hk.2.2.1 (hw b (by simp)), hk.2.2.2⟩
    have happ : ∀ a c : List Batch, (encBatches crc (a ++ c)).length = (encBatches crc a).length + (encBatches crc c).length := by
      intro a c
      induction a with
      | nil => simp [encBatches]
      | cons x a iha => simp only [List.cons_append, encBatches, List.length_append, iha]; omega
    simp only [collectBatches, encBatches, List.length_append]
    split
    · exact ⟨hone.1, by have := hone.2; omega⟩
    · constructor
      · intro k hk
        simp only [List.mem_append] at hk
        rcases hk with hk | hk
        · exact hone.1 k hk
        · exact i1 k hk
      · rw [happ]; have := hone.2; omega

/-- **shape of what is kept**: the first `n` source batches unchanged, then nothing, or the next
source batch cut to its records not later than T — with the last kept record's offset delta as
`lastOffsetDelta`, the largest kept timestamp as `maxTimestamp` (record count, batch length and CRC
follow from `encBatch`) -/
def KeptShape (T : Int) (bs kept : List Batch) : Prop :=
  ∃ n, kept = bs.take n ∨
    ∃ (b : Batch) (ks : List Rec) (h : ks ≠ []), bs[n]? = some b ∧ ks = keptPrefix b.firstTs T b.recs ∧
      ks.length < b.recs.length ∧
      kept = bs.take n ++ [cutBatch b ks (ks.getLast h).offDelta (maxTsOf b.firstTs b.firstTs ks)]

theorem collectBatches_shape (T : Int) (bs : List Batch) : KeptShape T bs (collectBatches T bs) := by
  induction bs with
  | nil => exact ⟨0, Or.inl (by simp [collectBatches])⟩
  | cons b t ih =>
    simp only [collectBatches]
    unfold cutOneB
    split
    · -- whole batch, continue
      simp only [Bool.false_eq_true, if_false, Option.toList, List.cons_append, List.nil_append]
      obtain ⟨n, hn⟩ := ih
      refine ⟨n + 1, ?_⟩
      rcases hn with hn | ⟨b', ks, hks, h1, h2, h3, h4⟩
      · left; rw [hn]; simp
      · right; exact ⟨b', ks, hks, by simpa using h1, h2, h3, by rw [h4]; simp⟩
    · split
      · exact ⟨0, Or.inl (by simp)⟩
      · simp only
        split
        · exact ⟨0, Or.inl (by simp)⟩
        · split
          · exact ⟨1, Or.inl (by simp)⟩
          · rename_i hnil hall
            refine ⟨0, Or.inr ⟨b, keptPrefix b.firstTs T b.recs, hnil, by simp, rfl, ?_, by simp⟩⟩
            obtain ⟨rest, hsplit⟩ := keptPrefix_split b.firstTs T b.recs
            have : (keptPrefix b.firstTs T b.recs).length ≤ b.recs.length := by
              conv => rhs; rw [hsplit]
              simp
            omega

/-! ### the segment `BuildSegment` wrote, read by the restore scanner -/

variable {mk : Alloc} {L : Nat}

theorem mkSB_bytes_ne (crc : Bytes → Nat) (bs : List Batch) : ∀ b ∈ bs.map (mkSB crc), b.bytes ≠ [] := by
  intro b hb
  simp only [List.mem_map] at hb
  obtain ⟨x, _, rfl⟩ := hb
  have := encBatch_length crc x
  intro h
  have h' : encBatch crc x = [] := h
  rw [h'] at this; simp at this; omega

/-- `collectRecoverableBatches` on a broker-written segment -/
theorem collectRecoverable_built (hmk : Adm mk L) (crc : Bytes → Nat) (iv created T : Int) (bs : List Batch) (a : Artifact)
    (hne : bs ≠ []) (hw : ∀ b ∈ bs, b.WfH) (hsz : (encBatches crc bs).length < 2 ^ 31) (hL : (encBatches crc bs).length ≤ L)
    (hb : buildSegment crc iv (bs.map (mkSB crc)) created = some a) :
    collectRecoverable crc mk a.seg T = .ok ((collectBatches T bs).map (mkSB crc)) := by
  obtain ⟨a', ha', hdr, foot, hh, hf, hm, hseg⟩ := buildSegment_seg crc iv (bs.map (mkSB crc)) created (by simpa using hne)
    (mkSB_bytes_ne crc bs)
  rw [hb] at ha'
  simp only [Option.some.injEq] at ha'
  subst ha'
  rw [bodyOf_mkSB] at hseg
  have hlen : a.seg.length = 32 + ((encBatches crc bs).length + 16) := by simp [hseg, hh, hf]
  unfold collectRecoverable
  have h48 : ¬ a.seg.length < 32 + 16 := by omega
  have e1 : sl a.seg 0 4 = segMagic := by
    rw [hseg]; simp only [sl, List.drop_zero, Nat.sub_zero]
    rw [List.take_append_of_le_length (by omega)]; exact hm
  have e2 : sl a.seg 32 (a.seg.length - 16) = encBatches crc bs := by
    have : a.seg.length - 16 - 32 = (encBatches crc bs).length := by omega
    simp only [sl, this]
    rw [hseg, drop_append_ge _ _ _ (by omega), hh]
    simp
  simp only [h48, if_false, e1, ne_eq, not_true_eq_false, e2]
  have hge := encBatches_length_ge crc bs
  rw [collectLoop_enc hmk crc T bs hw _ (by omega) hsz hL, collectSpec_eq]

/-- **`buildRestorePlan` on a broker-written segment**: nothing to keep when no record is ≤ T;
otherwise `BuildSegment` (index interval of the stored index, creation time as passed) of the kept
batches -/
theorem plan_built (hmk : Adm mk L) (crc : Bytes → Nat) (iv created T cr : Int) (bs : List Batch) (a : Artifact) (ib : Bytes)
    (hne : bs ≠ []) (hw : ∀ b ∈ bs, b.WfH) (hsz : (encBatches crc bs).length < 2 ^ 31) (hL : (encBatches crc bs).length ≤ L)
    (hb : buildSegment crc iv (bs.map (mkSB crc)) created = some a) (plan : Plan)
    (hp : buildRestorePlan crc mk a.seg ib T cr = .ok plan) :
    (collectBatches T bs = [] → plan.keep = false) ∧
    (collectBatches T bs ≠ [] → ∃ pi a', parseIndexRoot mk ib = .ok pi ∧
      buildSegment crc pi.1 ((collectBatches T bs).map (mkSB crc)) cr = some a' ∧
      plan = ⟨a'.seg, a'.idx, a'.base, a'.last, true⟩) := by
  unfold buildRestorePlan at hp
  cases hpi : parseIndexRoot mk ib with
  | err => simp [hpi] at hp
  | panic => simp [hpi] at hp
  | ok pi =>
    simp only [hpi, bind_ok, collectRecoverable_built hmk crc iv created T bs a hne hw hsz hL hb] at hp
    constructor
    · intro hk
      simp only [hk, List.map_nil, List.isEmpty_nil, if_true, GoResult.ok.injEq] at hp
      rw [← hp]
    · intro hk
      have : ((collectBatches T bs).map (mkSB crc)).isEmpty = false := by
        cases hc : collectBatches T bs with
        | nil => exact absurd hc hk
        | cons _ _ => rfl
      simp only [this, Bool.false_eq_true, if_false] at hp
      cases hbs : buildSegment crc pi.1 ((collectBatches T bs).map (mkSB crc)) cr with
      | none => simp [hbs] at hp
      | some a' =>
        simp only [hbs, ofOpt_some, bind_ok, GoResult.ok.injEq] at hp
        exact ⟨pi, a', rfl, hbs, hp.symm⟩

/-- everything about the segment built from the kept batches -/
theorem built_kept (crc : Bytes → Nat) (iv cr : Int) (kept : List Batch) (k0 : Batch) (kt : List Batch) (hk : kept = k0 :: kt)
    (a' : Artifact) (hb : buildSegment crc iv (kept.map (mkSB crc)) cr = some a') :
    a'.base = k0.base ∧
    a'.last = wrap64 ((kept.getLast (by rw [hk]; simp)).base + (kept.getLast (by rw [hk]; simp)).lastOffsetDelta) ∧
    a'.seg = segHeader k0.base a'.count cr ++ (encBatches crc kept ++ segFooter (crc (encBatches crc kept)) a'.last) := by
  subst hk
  have hne := mkSB_bytes_ne crc (k0 :: kt)
  simp only [List.map_cons] at hne hb
  obtain ⟨a, h1, h2, h3, _, h5, _, _⟩ := buildSegment_spec crc iv (mkSB crc k0) (kt.map (mkSB crc)) cr hne
  rw [hb] at h1
  simp only [Option.some.injEq] at h1
  subst h1
  have hbody : bodyOf (mkSB crc k0 :: kt.map (mkSB crc)) = encBatches crc (k0 :: kt) := by
    have := bodyOf_mkSB crc (k0 :: kt)
    simpa using this
  refine ⟨h2, ?_, ?_⟩
  · rw [h3]
    have : (mkSB crc k0 :: kt.map (mkSB crc)).getLast (by simp) = mkSB crc ((k0 :: kt).getLast (by simp)) := by
      have := List.getLast_map (f := mkSB crc) (l := k0 :: kt) (by simp)
      simpa using this
    rw [this]; rfl
  · rw [h5, hbody]; rfl

/-- the header of a broker-written segment carries its creation time (read back by `inspectSourceSegment`) -/
theorem built_created (crc : Bytes → Nat) (iv created : Int) (bs : List Batch) (a : Artifact) (hne : bs ≠ [])
    (hc : InI64 created) (hb : buildSegment crc iv (bs.map (mkSB crc)) created = some a) :
    parseSegmentHeaderCreatedAt (a.seg.take 32) = some created := by
  cases bs with
  | nil => exact absurd rfl hne
  | cons b0 t =>
    have hbn := mkSB_bytes_ne crc (b0 :: t)
    simp only [List.map_cons] at hbn hb
    obtain ⟨a', h1, _, _, _, _, h6, _⟩ := KafVerif.C07.buildSegment_wf crc iv (mkSB crc b0) (t.map (mkSB crc)) created hbn hc
    rw [hb] at h1
    simp only [Option.some.injEq] at h1
    subst h1
    exact h6

end KafVerif.Kafka
