import KafVerif.Lemmas.GroupSorted
/-!
How one entry of the coordinator's group table can change in one step of the model (fixed code):
`step_groups` says that every entry after a step is the entry before it (or the group restored
from the store, or a fresh Empty group), passed through one of the group-level functions.
-/
namespace KafVerif.Group
open Group

/-- the group a request on `g` starts from -/
inductive Base (s : State) (g : Nat) : Group → Prop where
  | loaded {st : Group} : lookup s.groups g = some st → Base s g st
  | restored {p : PGroup} : lookup s.groups g = none → lookup s.persisted g = some p → Base s g (restore fixed p s.clock)
  | fresh : lookup s.groups g = none → lookup s.persisted g = none → Base s g newGroup

/-- what one step can do to a group -/
inductive Derived : Group → Group → Prop where
  | refl (st : Group) : Derived st st
  | join (st : Group) (mid : Nat) (se rb : Int) (pt : Nat) (pr : Option (Nat × List Nat)) (nk now : Nat) :
      Derived st (joinCore fixed st mid se rb pt pr nk now).1
  | assign (st : Group) (s : State) : st.phase = .completing → Derived st (leaderAssign s st).2
  | heartbeat (st : Group) (mid : Nat) (m : Member) (now : Nat) : lookup st.members mid = some m →
      Derived st { st with members := insert st.members mid { m with lastHb := now } }
  | leave (st : Group) (mid now : Nat) : Derived st (leaveCore st mid now)
  | cleanup (st st' : Group) (now : Nat) : (cleanupOutcome st now).group? = some st' → Derived st st'

theorem base_of_load {s s1 : State} {g : Nat} {st : Group} (hl : loadGroup fixed s g = some (s1, some st)) :
    Base s g st := by
  rcases loadGroup_cases fixed s g with ⟨st0, hs, h'⟩ | ⟨_, _, h'⟩ | ⟨_, _, _, h'⟩ | ⟨p, hn, _, hp, h'⟩ <;> rw [h'] at hl
  · cases hl; exact .loaded hs
  · cases hl
  · cases hl
  · cases hl; exact .restored hn hp

/-- entries of other groups after a load -/
theorem load_other {s s1 : State} {g : Nat} {o : Option Group} (hl : loadGroup fixed s g = some (s1, o)) (g' : Nat) (hne : g ≠ g') :
    lookup s1.groups g' = lookup s.groups g' := by
  rcases loadGroup_cases fixed s g with ⟨st0, hs, h'⟩ | ⟨_, _, h'⟩ | ⟨_, _, _, h'⟩ | ⟨p, hn, _, hp, h'⟩ <;> rw [h'] at hl
  · cases hl; rfl
  · cases hl
  · cases hl; rfl
  · cases hl; simp [lookup_insert, hne]

theorem load_persisted {s s1 : State} {g : Nat} {o : Option Group} (hl : loadGroup fixed s g = some (s1, o)) :
    s1.persisted = s.persisted := (loadGroup_faults hl).2.1

/-- the entry a step leaves for group `g'`, when the request was about group `g` and ended with
`setGroup … g st'` after a load -/
theorem entry_after_set {s s1 : State} {g g' : Nat} {o : Option Group} (hl : loadGroup fixed s g = some (s1, o))
    {st0 st' stx : Group} (hb : Base s g st0) (hd : Derived st0 st')
    (h : lookup (insert s1.groups g st') g' = some stx) :
    ∃ st0', Base s g' st0' ∧ Derived st0' stx := by
  rw [lookup_insert] at h
  by_cases hk : g = g'
  · subst hk; simp only [if_true, Option.some.injEq] at h; subst h; exact ⟨st0, hb, hd⟩
  · simp only [hk, if_false] at h
    rw [load_other hl g' hk] at h
    exact ⟨stx, .loaded h, .refl _⟩

theorem entry_after_load {s s1 : State} {g g' : Nat} {o : Option Group} (hl : loadGroup fixed s g = some (s1, o))
    {stx : Group} (h : lookup s1.groups g' = some stx) : ∃ st0', Base s g' st0' ∧ Derived st0' stx := by
  by_cases hk : g = g'
  · subst hk
    rw [loadGroup_lookup hl] at h
    subst h
    exact ⟨stx, base_of_load hl, .refl _⟩
  · rw [load_other hl g' hk] at h
    exact ⟨stx, .loaded h, .refl _⟩

theorem entry_after_erase {s s1 : State} {g g' : Nat} {o : Option Group} (hl : loadGroup fixed s g = some (s1, o))
    {stx : Group} (h : lookup (erase s1.groups g) g' = some stx) : ∃ st0', Base s g' st0' ∧ Derived st0' stx := by
  rw [lookup_erase] at h
  by_cases hk : g = g'
  · simp [hk] at h
  · simp only [hk, if_false] at h
    rw [load_other hl g' hk] at h
    exact ⟨stx, .loaded h, .refl _⟩

theorem commitWrites_groups (s : State) (g : Nat) (parts : List (Nat × Int × Int × Nat)) :
    (commitWrites s g parts).1.groups = s.groups := by
  induction parts generalizing s with
  | nil => rfl
  | cons e t ih =>
    obtain ⟨tp, p, off, md⟩ := e
    unfold commitWrites
    split <;> (simp only; rw [ih])

theorem fetchRows_groups (v : Variant) (s : State) (g : Nat) (parts : List (Nat × Int)) :
    (fetchRows v s g parts).1.groups = s.groups := by
  induction parts generalizing s with
  | nil => rfl
  | cons e t ih =>
    obtain ⟨tp, p⟩ := e
    unfold fetchRows
    split <;> (simp only; rw [ih])

theorem cleanupGroup_other (s : State) (g g' : Nat) (st : Group) (hne : g ≠ g') :
    lookup (cleanupGroup fixed s g st).groups g' = lookup s.groups g' := by
  unfold cleanupGroup
  split
  · rw [persist_groups]; simp [lookup_erase, hne]
  · rw [persist_groups]; simp [setGroup, lookup_insert, hne]
  · simp [setGroup, lookup_insert, hne]

theorem cleanupGroup_clock (s : State) (g : Nat) (st : Group) : (cleanupGroup fixed s g st).clock = s.clock :=
  (cleanupGroup_frame fixed s g st).clock

/-- the cleanup pass, entry by entry (needs the table's keys to be pairwise distinct) -/
theorem cleanup_entry (s : State) (hs : SortedKeys s.groups) (g' : Nat) (stx : Group)
    (h : lookup (cleanup fixed s).groups g' = some stx) :
    ∃ st0, lookup s.groups g' = some st0 ∧ (cleanupOutcome st0 s.clock).group? = some stx := by
  unfold cleanup at h
  have key : ∀ (l : List (Nat × Group)) (acc : State), SortedKeys l → acc.clock = s.clock →
      (∀ e ∈ l, lookup acc.groups e.1 = some e.2) →
      lookup (l.foldl (fun acc e => cleanupGroup fixed acc e.1 e.2) acc).groups g' = some stx →
      (∃ st0, (g', st0) ∈ l ∧ (cleanupOutcome st0 s.clock).group? = some stx) ∨
        (g' ∉ keys l ∧ lookup acc.groups g' = some stx) := by
    intro l
    induction l with
    | nil => intro acc _ _ _ h; exact Or.inr ⟨by simp [keys], h⟩
    | cons e t ih =>
      intro acc hsl hclk hacc h
      simp only [List.foldl_cons] at h
      have hst : SortedKeys t := by
        unfold SortedKeys keys at hsl ⊢; simp only [List.map_cons, List.pairwise_cons] at hsl; exact hsl.2
      have hlt : ∀ e' ∈ t, e.1 < e'.1 := by
        intro e' he'
        unfold SortedKeys keys at hsl; simp only [List.map_cons, List.pairwise_cons] at hsl
        exact hsl.1 _ (List.mem_map.mpr ⟨e', he', rfl⟩)
      have hacc' : ∀ e' ∈ t, lookup (cleanupGroup fixed acc e.1 e.2).groups e'.1 = some e'.2 := by
        intro e' he'
        rw [cleanupGroup_other acc e.1 e'.1 e.2 (by have := hlt e' he'; omega)]
        exact hacc e' (List.mem_cons_of_mem _ he')
      rcases ih (cleanupGroup fixed acc e.1 e.2) hst (by rw [cleanupGroup_clock]; exact hclk) hacc' h with
        ⟨st0, hm, ho⟩ | ⟨hnk, hl⟩
      · exact Or.inl ⟨st0, List.mem_cons_of_mem _ hm, ho⟩
      · by_cases hk : e.1 = g'
        · left
          subst hk
          rw [cleanupGroup_lookup fixed acc e.1 e.2, hclk] at hl
          exact ⟨e.2, by simp, hl⟩
        · right
          rw [cleanupGroup_other acc e.1 g' e.2 hk] at hl
          refine ⟨?_, hl⟩
          simp only [keys, List.map_cons, List.mem_cons, not_or]
          exact ⟨fun hh => hk hh.symm, hnk⟩
  rcases key s.groups s hs rfl (fun e he => lookup_of_mem_sorted hs he) h with ⟨st0, hm, ho⟩ | ⟨hnk, hl⟩
  · exact ⟨st0, lookup_of_mem_sorted hs hm, ho⟩
  · exfalso
    apply hnk
    exact List.mem_map.mpr ⟨(g', stx), lookup_some_mem hl, rfl⟩

theorem lookup_none_of_lt {α : Type} {l : List (Nat × α)} {k : Nat} (h : ∀ e ∈ l, k < e.1) : lookup l k = none := by
  induction l with
  | nil => rfl
  | cons e t ih =>
    obtain ⟨k0, v0⟩ := e
    have : ¬ k0 = k := by have := h (k0, v0) (by simp); simp at this; omega
    simp only [lookup, this, if_false]
    exact ih (fun e he => h e (List.mem_cons_of_mem _ he))

/-- the cleanup pass as a map over the group table: every loaded group gets its `cleanupOutcome` -/
theorem cleanup_lookup (s : State) (hs : SortedKeys s.groups) (g' : Nat) :
    lookup (cleanup fixed s).groups g' =
      match lookup s.groups g' with
      | some st0 => (cleanupOutcome st0 s.clock).group?
      | none => none := by
  unfold cleanup
  have key : ∀ (l : List (Nat × Group)) (acc : State), SortedKeys l → acc.clock = s.clock →
      (∀ e ∈ l, lookup acc.groups e.1 = some e.2) →
      lookup (l.foldl (fun acc e => cleanupGroup fixed acc e.1 e.2) acc).groups g' =
        match lookup l g' with
        | some st0 => (cleanupOutcome st0 s.clock).group?
        | none => lookup acc.groups g' := by
    intro l
    induction l with
    | nil => intro acc _ _ _; rfl
    | cons e t ih =>
      intro acc hsl hclk hacc
      simp only [List.foldl_cons]
      have hst : SortedKeys t := by
        unfold SortedKeys keys at hsl ⊢; simp only [List.map_cons, List.pairwise_cons] at hsl; exact hsl.2
      have hlt : ∀ e' ∈ t, e.1 < e'.1 := by
        intro e' he'
        unfold SortedKeys keys at hsl; simp only [List.map_cons, List.pairwise_cons] at hsl
        exact hsl.1 _ (List.mem_map.mpr ⟨e', he', rfl⟩)
      have hacc' : ∀ e' ∈ t, lookup (cleanupGroup fixed acc e.1 e.2).groups e'.1 = some e'.2 := by
        intro e' he'
        rw [cleanupGroup_other acc e.1 e'.1 e.2 (by have := hlt e' he'; omega)]
        exact hacc e' (List.mem_cons_of_mem _ he')
      rw [ih (cleanupGroup fixed acc e.1 e.2) hst (by rw [cleanupGroup_clock]; exact hclk) hacc']
      obtain ⟨k0, v0⟩ := e
      by_cases hk : k0 = g'
      · subst hk
        rw [lookup_none_of_lt hlt]
        simp only [lookup, if_true]
        rw [cleanupGroup_lookup, hclk]
      · simp only [lookup, hk, if_false]
        cases hq : lookup t g' with
        | some st0 => rfl
        | none => simp only; exact cleanupGroup_other acc k0 g' v0 hk
  rw [key s.groups s hs rfl (fun e he => lookup_of_mem_sorted hs he)]
  cases lookup s.groups g' <;> rfl

/-- **every entry of the group table after a step comes from the entry before it** -/
theorem step_groups (s : State) (hs : SortedKeys s.groups) (op : Op) (g' : Nat) (stx : Group)
    (h : lookup (step s op).1.groups g' = some stx) : ∃ st0, Base s g' st0 ∧ Derived st0 stx := by
  cases op with
  | join g mid se rb pt pr nk =>
    simp only [step, stepV] at h
    unfold join at h
    cases he : ensureGroup fixed s g with
    | none => rw [he] at h; exact ⟨stx, .loaded h, .refl _⟩
    | some x =>
      obtain ⟨s1, st0⟩ := x
      rw [he] at h
      simp only [persist_groups, setGroup] at h
      unfold ensureGroup at he
      split at he
      · cases he
      · rename_i s2 st2 hl; cases he
        exact entry_after_set hl (base_of_load hl) (.join st0 mid se rb pt pr nk s1.clock) h
      · rename_i s2 hl; cases he
        have hn : lookup s.groups g = none ∧ lookup s.persisted g = none := by
          rcases loadGroup_cases fixed s g with ⟨st0, hs', h'⟩ | ⟨_, _, h'⟩ | ⟨hn, _, hp, h'⟩ | ⟨p, hn, _, hp, h'⟩ <;> rw [h'] at hl
          · cases hl
          · cases hl
          · exact ⟨hn, hp⟩
          · cases hl
        exact entry_after_set hl (.fresh hn.1 hn.2) (.join newGroup mid se rb pt pr nk s1.clock) h
  | sync g mid gen =>
    simp only [step, stepV] at h
    unfold sync at h
    split at h
    · exact ⟨stx, .loaded h, .refl _⟩
    · rename_i s1 hl; exact entry_after_load hl h
    · rename_i s1 st hl
      have hfin : ∀ (s2 : State) (st' : Group), s2.groups = s1.groups → Derived st st' →
          lookup (syncFinish fixed s2 g st' mid).1.groups g' = some stx → ∃ st0, Base s g' st0 ∧ Derived st0 stx := by
        intro s2 st' hg hd hh
        unfold syncFinish at hh
        split at hh
        · simp only [setGroup, hg] at hh; exact entry_after_set hl (base_of_load hl) hd hh
        · simp only [persist_groups, setGroup, hg] at hh; exact entry_after_set hl (base_of_load hl) hd hh
      split at h
      · exact entry_after_load hl h
      · split at h
        · exact entry_after_load hl h
        · split at h
          · exact entry_after_load hl h
          · split at h
            · rename_i hcomp
              split at h
              · exact entry_after_load hl h
              · exact hfin (leaderAssign s1 st).1 _ rfl (.assign st s1 hcomp.1) h
            · exact hfin _ _ rfl (.refl st) h
  | heartbeat g mid gen =>
    simp only [step, stepV] at h
    unfold heartbeat at h
    split at h
    · exact ⟨stx, .loaded h, .refl _⟩
    · rename_i s1 hl; exact entry_after_load hl h
    · rename_i s1 st hl
      split at h
      · exact entry_after_load hl h
      · rename_i m hm
        split at h
        · exact entry_after_load hl h
        · split at h
          · exact entry_after_load hl h
          · simp only [persist_groups, setGroup] at h
            exact entry_after_set hl (base_of_load hl) (.heartbeat st mid m s1.clock hm) h
  | leave g mid =>
    simp only [step, stepV] at h
    unfold leave at h
    split at h
    · exact ⟨stx, .loaded h, .refl _⟩
    · rename_i s1 hl; exact entry_after_load hl h
    · rename_i s1 st hl
      split at h
      · exact entry_after_load hl h
      · split at h
        · simp only [persist_groups] at h; exact entry_after_erase hl h
        · simp only [persist_groups, setGroup] at h
          exact entry_after_set hl (base_of_load hl) (.leave st mid s1.clock) h
  | commit g mid gen parts =>
    simp only [step, stepV] at h
    unfold commit at h
    split at h
    · exact ⟨stx, .loaded h, .refl _⟩
    · rename_i s1 st hl
      split at h
      · simp only [commitWrites_groups] at h; exact entry_after_load hl h
      · exact entry_after_load hl h
  | fetch g parts =>
    simp only [step, stepV, fetch, fetchRows_groups] at h
    exact ⟨stx, .loaded h, .refl _⟩
  | tick d => exact ⟨stx, .loaded h, .refl _⟩
  | cleanup =>
    simp only [step, stepV] at h
    obtain ⟨st0, hl, ho⟩ := cleanup_entry s hs g' stx h
    exact ⟨st0, .loaded hl, .cleanup st0 stx s.clock ho⟩
  | failover => simp [step, stepV, lookup] at h
  | load g =>
    simp only [step, stepV] at h
    split at h
    · exact ⟨stx, .loaded h, .refl _⟩
    · rename_i s1 o hl; exact entry_after_load hl h
  | fail k => exact ⟨stx, .loaded h, .refl _⟩
  | setMeta tm => exact ⟨stx, .loaded h, .refl _⟩


/-! ### the group table keeps strictly increasing keys -/

theorem sorted_load {s s1 : State} {g : Nat} {o : Option Group} (hs : SortedKeys s.groups)
    (hl : loadGroup fixed s g = some (s1, o)) : SortedKeys s1.groups := by
  rcases loadGroup_cases fixed s g with ⟨st0, _, h'⟩ | ⟨_, _, h'⟩ | ⟨_, _, _, h'⟩ | ⟨p, _, _, _, h'⟩ <;> rw [h'] at hl
  · cases hl; exact hs
  · cases hl
  · cases hl; exact hs
  · cases hl; exact sorted_insert hs _ _

theorem sorted_cleanupGroup {s : State} (hs : SortedKeys s.groups) (g : Nat) (st : Group) :
    SortedKeys (cleanupGroup fixed s g st).groups := by
  unfold cleanupGroup
  split
  · rw [persist_groups]; exact sorted_erase hs _
  · rw [persist_groups]; exact sorted_insert hs _ _
  · exact sorted_insert hs _ _

theorem sorted_step {s : State} (hs : SortedKeys s.groups) (op : Op) : SortedKeys (step s op).1.groups := by
  cases op with
  | join g mid se rb pt pr nk =>
    simp only [step, stepV]
    unfold join
    cases he : ensureGroup fixed s g with
    | none => exact hs
    | some x =>
      obtain ⟨s1, st0⟩ := x
      simp only [persist_groups, setGroup]
      have h1 : SortedKeys s1.groups := by
        unfold ensureGroup at he
        split at he
        · cases he
        · rename_i s2 st2 hl; cases he; exact sorted_load hs hl
        · rename_i s2 hl; cases he; exact sorted_load hs hl
      exact sorted_insert h1 _ _
  | sync g mid gen =>
    simp only [step, stepV]
    unfold sync
    split
    · exact hs
    · rename_i s1 hl; exact sorted_load hs hl
    · rename_i s1 st hl
      have h1 := sorted_load hs hl
      have hfin : ∀ (s2 : State) (st' : Group), SortedKeys s2.groups → SortedKeys (syncFinish fixed s2 g st' mid).1.groups := by
        intro s2 st' h2
        unfold syncFinish
        split
        · exact sorted_insert h2 _ _
        · rw [persist_groups]; exact sorted_insert h2 _ _
      split
      · exact h1
      · split
        · exact h1
        · split
          · exact h1
          · split
            · split
              · exact h1
              · exact hfin _ _ h1
            · exact hfin _ _ h1
  | heartbeat g mid gen =>
    simp only [step, stepV]
    unfold heartbeat
    split
    · exact hs
    · rename_i s1 hl; exact sorted_load hs hl
    · rename_i s1 st hl
      have h1 := sorted_load hs hl
      split
      · exact h1
      · split
        · exact h1
        · split
          · exact h1
          · rw [persist_groups]; exact sorted_insert h1 _ _
  | leave g mid =>
    simp only [step, stepV]
    unfold leave
    split
    · exact hs
    · rename_i s1 hl; exact sorted_load hs hl
    · rename_i s1 st hl
      have h1 := sorted_load hs hl
      split
      · exact h1
      · split
        · rw [persist_groups]; exact sorted_erase h1 _
        · rw [persist_groups]; exact sorted_insert h1 _ _
  | commit g mid gen parts =>
    simp only [step, stepV]
    unfold commit
    split
    · exact hs
    · rename_i s1 st hl
      split
      · rw [commitWrites_groups]; exact sorted_load hs hl
      · exact sorted_load hs hl
  | fetch g parts => simp only [step, stepV, fetch, fetchRows_groups]; exact hs
  | tick d => exact hs
  | cleanup =>
    simp only [step, stepV]
    unfold cleanup
    have key : ∀ (l : List (Nat × Group)) (acc : State), SortedKeys acc.groups →
        SortedKeys (l.foldl (fun acc e => cleanupGroup fixed acc e.1 e.2) acc).groups := by
      intro l
      induction l with
      | nil => intro acc h; exact h
      | cons e t ih => intro acc h; exact ih _ (sorted_cleanupGroup h e.1 e.2)
    exact key _ _ hs
  | failover => exact sorted_nil
  | load g =>
    simp only [step, stepV]
    split
    · exact hs
    · rename_i s1 o hl; exact sorted_load hs hl
  | fail k => exact hs
  | setMeta tm => exact hs

/-- in every reachable state the group table is a canonical map -/
theorem sorted_run (ops : List Op) : SortedKeys (run init ops).groups := by
  have : ∀ (s : State), SortedKeys s.groups → SortedKeys (run s ops).groups := by
    induction ops with
    | nil => intro s h; exact h
    | cons op ops ih => intro s h; exact ih _ (sorted_step h op)
  exact this init sorted_nil

/-! ### generations only grow -/

theorem joinCore_gen_ge (st : Group) (mid : Nat) (se rb : Int) (pt : Nat) (pr : Option (Nat × List Nat)) (nk now : Nat) :
    st.gen ≤ (joinCore fixed st mid se rb pt pr nk now).1.gen := by
  unfold joinCore
  simp only
  rw [(joinFinish_spec _ _).2.1]
  obtain ⟨m', _, hgen, _⟩ := joinMember_spec st mid se pt pr nk now
  generalize joinMember st mid se pt pr nk now = jm at hgen
  rcases joinPhase_cases fixed jm.1 jm.2.1 jm.2.2.1 jm.2.2.2 (topicsOfProto pr) (timeoutOf rb) now with
    ⟨st', he, _, hg', _⟩ | ⟨he, _⟩ | ⟨he, _⟩
  · rw [he]; have := startRebalance_gen_ge st' (timeoutOf rb) now; omega
  · rw [he]; simp [hgen]
  · rw [he]; omega

theorem derived_gen_le {st st' : Group} (h : Derived st st') : st.gen ≤ st'.gen := by
  cases h with
  | refl => exact Nat.le_refl _
  | join mid se rb pt pr nk now => exact joinCore_gen_ge st mid se rb pt pr nk now
  | assign s hph => rw [(leaderAssign_spec s st hph).2.2.1]; exact Nat.le_refl _
  | heartbeat mid m now hm => exact Nat.le_refl _
  | leave mid now =>
    unfold leaveCore
    simp only
    split
    · have := startRebalance_gen_ge ({ st with members := erase st.members mid, asg := erase st.asg mid, leader := 0 } : Group) 0 now
      exact this
    · have := startRebalance_gen_ge ({ st with members := erase st.members mid, asg := erase st.asg mid } : Group) 0 now
      exact this
  | cleanup =>
    rename_i nw ho
    cases hc : cleanupOutcome st nw with
    | gone => rw [hc] at ho; simp [CleanupOutcome.group?] at ho
    | kept st2 =>
      rw [hc] at ho; simp only [CleanupOutcome.group?, Option.some.injEq] at ho
      subst ho; rw [cleanupOutcome_kept hc]; exact Nat.le_refl _
    | rebalanced st2 =>
      rw [hc] at ho; simp only [CleanupOutcome.group?, Option.some.injEq] at ho
      subst ho
      obtain ⟨st3, _, rfl, ⟨hg3, _⟩, _⟩ := cleanupOutcome_rebalanced hc
      have h1 := startRebalance_gen_ge st3 0 nw
      omega

end KafVerif.Group
