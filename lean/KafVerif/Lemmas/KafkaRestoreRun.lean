import KafVerif.Lemmas.KafkaRestoreObj
/-!
C08, a whole successful run of `recoverTopic`: what `inspectSourceSegment` returns for the listed
source objects, how they are grouped and sorted, which candidates are copied, and that the target
topic afterwards holds exactly the uploads of the fault-free specification (`recoverTopic_ok`).

Core Lean only.
-/
set_option linter.unusedSimpArgs false
set_option linter.unusedVariables false
set_option linter.unusedSectionVars false
namespace KafVerif.Kafka

/-! ### inspectSourceSegment without faults -/

/-- what `inspectSourceSegment` reads from an object (header creation time, footer last offset) -/
def srcOf (k : Key) (d : Bytes) : Option Src :=
  if d.length < 16 then none
  else match parseSegmentHeaderCreatedAt (d.take 32) with
    | none => none
    | some created =>
      match parseSegmentFooter (d.drop (d.length - 16)) with
      | none => none
      | some last => some ⟨k, last, created, d.length⟩

theorem inspect_some {s s' : S3} {k : Key} {d : Bytes} {x : Src} (h : inspect s k d = (some x, s')) :
    srcOf k d = some x := by
  unfold inspect at h
  unfold srcOf
  split at h
  · simp at h
  · rename_i h16
    simp only [h16, if_false]
    split at h
    · simp at h
    · split at h
      · simp at h
      · rename_i created hc
        rw [hc]
        simp only
        split at h
        · simp at h
        · split at h
          · simp at h
          · rename_i last hl
            rw [hl]
            simp only [Prod.mk.injEq, Option.some.injEq] at h
            simp only [h.1]

theorem inspectAll_some : ∀ (objs : Objs) (s s' : S3) (srcs : List Src), inspectAll s objs = (some srcs, s') →
    srcs.map some = objs.map (fun o => srcOf o.1 o.2) := by
  intro objs
  induction objs with
  | nil =>
    intro s s' srcs h
    simp only [inspectAll, Prod.mk.injEq, Option.some.injEq] at h
    rw [← h.1]; rfl
  | cons o t ih =>
    intro s s' srcs h
    obtain ⟨k, d⟩ := o
    unfold inspectAll at h
    split at h
    · simp at h
    · rename_i x s1 heq
      split at h
      · simp at h
      · rename_i xs s2 heq2
        simp only [Prod.mk.injEq, Option.some.injEq] at h
        rw [← h.1]
        simp only [List.map_cons, inspect_some heq, ih s1 s2 xs heq2]

theorem srcOf_key {k : Key} {d : Bytes} {x : Src} (h : srcOf k d = some x) : x.key = k := by
  unfold srcOf at h
  split at h
  · simp at h
  · split at h
    · simp at h
    · split at h
      · simp at h
      · simp only [Option.some.injEq] at h; rw [← h]

theorem srcs_keys {srcs : List Src} {objs : Objs} (h : srcs.map some = objs.map (fun o => srcOf o.1 o.2)) :
    srcs.map (·.key) = objs.map (·.1) := by
  induction objs generalizing srcs with
  | nil => cases srcs with
    | nil => rfl
    | cons _ _ => simp at h
  | cons o t ih =>
    cases srcs with
    | nil => simp at h
    | cons x xs =>
      simp only [List.map_cons, List.cons.injEq] at h
      simp only [List.map_cons, ih h.2, srcOf_key h.1.symm]

theorem srcs_mem {srcs : List Src} {objs : Objs} (h : srcs.map some = objs.map (fun o => srcOf o.1 o.2)) {x : Src}
    (hx : x ∈ srcs) : ∃ o ∈ objs, srcOf o.1 o.2 = some x := by
  have : some x ∈ srcs.map some := List.mem_map.mpr ⟨x, hx, rfl⟩
  rw [h] at this
  obtain ⟨o, ho, he⟩ := List.mem_map.mp this
  exact ⟨o, ho, he⟩

/-! ### sorting and grouping -/

theorem insertBy_perm {α} (lt : α → α → Bool) (x : α) : ∀ l : List α, (insertBy lt x l).Perm (x :: l) := by
  intro l
  induction l with
  | nil => exact List.Perm.refl _
  | cons y t ih =>
    unfold insertBy
    split
    · exact List.Perm.refl _
    · exact ((List.Perm.cons y ih).trans (List.Perm.swap x y t))

theorem sortBy_perm {α} (lt : α → α → Bool) : ∀ l : List α, (sortBy lt l).Perm l := by
  intro l
  induction l with
  | nil => exact List.Perm.refl _
  | cons x t ih =>
    unfold sortBy
    exact (insertBy_perm lt x _).trans (List.Perm.cons x ih)

theorem eraseDups_nodup : ∀ (n : Nat) (l : List Int), l.length ≤ n → l.eraseDups.Nodup := by
  intro n
  induction n with
  | zero =>
    intro l hl
    have : l = [] := List.length_eq_zero_iff.mp (by omega)
    subst this; simp
  | succ n ih =>
    intro l hl
    cases l with
    | nil => simp
    | cons a t =>
      rw [List.eraseDups_cons, List.nodup_cons]
      constructor
      · intro hm
        rw [List.mem_eraseDups, List.mem_filter] at hm
        simpa using hm.2
      · apply ih
        have := List.length_filter_le (fun b => !b == a) t
        simp only [List.length_cons] at hl
        omega

theorem partsOf_nodup (srcs : List Src) : (partsOf srcs).Nodup := by
  unfold partsOf
  exact (List.Perm.nodup_iff (sortBy_perm _ _)).mpr (eraseDups_nodup _ _ (Nat.le_refl _))

theorem mem_groupParts {srcs : List Src} {g : Int × List Src} (h : g ∈ groupParts srcs) :
    g.1 ∈ partsOf srcs ∧ g.2.Perm (srcs.filter (fun x => x.key.part = g.1)) := by
  unfold groupParts at h
  obtain ⟨p, hp, rfl⟩ := List.mem_map.mp h
  exact ⟨hp, sortBy_perm _ _⟩

theorem mem_group_mem {srcs : List Src} {g : Int × List Src} (h : g ∈ groupParts srcs) {x : Src} (hx : x ∈ g.2) :
    x ∈ srcs ∧ x.key.part = g.1 := by
  have := ((mem_groupParts h).2.mem_iff).mp hx
  simpa [List.mem_filter] using this


/-! ### what the specification uploads for one partition -/

/-- target key of a candidate: same partition and base offset under the target topic -/
def ukey (x : Src) : Key := ⟨1, x.key.part, x.key.base⟩

/-- a whole-segment copy -/
def wholeUp (segs idxs : Objs) (x : Src) : Upload :=
  ⟨ukey x, (oget segs x.key).getD [], (oget idxs x.key).getD []⟩

/-- the upload (if any) for the last candidate -/
def finalUp (x : Src) (plan : Plan) : List Upload :=
  if plan.keep then [⟨⟨1, x.key.part, plan.base⟩, plan.seg, plan.idx⟩] else []

variable {crc : Bytes → Nat} {mk : Alloc} {T : Int} {segs idxs : Objs}

theorem specSegs_snoc : ∀ (pre : List Src) (xl : Src) (ups : List Upload),
    specSegs crc mk T segs idxs (pre ++ [xl]) = some ups →
    (∀ x ∈ pre, (oget segs x.key).isSome ∧ (oget idxs x.key).isSome) ∧
    ∃ plan, planOf crc mk T segs idxs xl true = .ok plan ∧
      ups = pre.map (wholeUp segs idxs) ++ finalUp xl plan := by
  intro pre
  induction pre with
  | nil =>
    intro xl ups h
    simp only [List.nil_append, specSegs, List.isEmpty_nil] at h
    refine ⟨by simp, ?_⟩
    split at h
    · rename_i plan hp
      refine ⟨plan, hp, ?_⟩
      unfold finalUp
      split at h
      · rename_i hk; simp only [Option.map_some, Option.some.injEq] at h; simp [hk, ← h]
      · rename_i hk; simp only [Option.some.injEq] at h; simp [hk, ← h]
    · simp at h
  | cons x pre ih =>
    intro xl ups h
    have hne : (pre ++ [xl]).isEmpty = false := by cases pre <;> rfl
    simp only [List.cons_append, specSegs, hne] at h
    unfold planOf at h
    cases hs : oget segs x.key with
    | none => simp [hs] at h
    | some sb =>
      cases hi : oget idxs x.key with
      | none => simp [hs, hi] at h
      | some ib =>
        simp only [hs, hi, Bool.false_eq_true, if_false, if_true] at h
        cases hr : specSegs crc mk T segs idxs (pre ++ [xl]) with
        | none => simp [hr] at h
        | some ups' =>
          simp only [hr, Option.map_some, Option.some.injEq] at h
          obtain ⟨h1, plan, hp, he⟩ := ih xl ups' hr
          refine ⟨?_, plan, hp, ?_⟩
          · intro y hy
            simp only [List.mem_cons] at hy
            rcases hy with rfl | hy
            · simp [hs, hi]
            · exact h1 y hy
          · rw [← h, he]
            simp [wholeUp, ukey, hs, hi]

/-- the candidates of a non-empty partition: the segments before the last candidate, then it -/
theorem cands_split (ss : List Src) (hne : ss ≠ []) :
    ss.take (lastCandidate T ss + 1) =
      ss.take (lastCandidate T ss) ++ [ss[lastCandidate T ss]'(lastCandidate_lt T ss hne)] :=
  List.take_succ_eq_append_getElem (lastCandidate_lt T ss hne)

/-- the last candidate's plan carries the base offset of its object key -/
def BaseOK (crc : Bytes → Nat) (mk : Alloc) (T : Int) (segs idxs : Objs) (ss : List Src) : Prop :=
  ∀ (hne : ss ≠ []) (plan : Plan),
    planOf crc mk T segs idxs (ss[lastCandidate T ss]'(lastCandidate_lt T ss hne)) true = .ok plan →
    plan.keep = true → plan.base = (ss[lastCandidate T ss]'(lastCandidate_lt T ss hne)).key.base

theorem specSegs_keys (ss : List Src) (ups : List Upload) (hb : BaseOK crc mk T segs idxs ss)
    (h : specSegs crc mk T segs idxs (ss.take (lastCandidate T ss + 1)) = some ups) :
    (ups.map (·.key)).Sublist (ss.map ukey) := by
  by_cases hne : ss = []
  · subst hne
    simp only [List.take_nil, specSegs, Option.some.injEq] at h
    rw [← h]; exact List.Sublist.refl _
  · rw [cands_split ss hne] at h
    obtain ⟨_, plan, hp, he⟩ := specSegs_snoc _ _ _ h
    have hsub : ((ss.take (lastCandidate T ss) ++ [ss[lastCandidate T ss]'(lastCandidate_lt T ss hne)]).map ukey).Sublist
        (ss.map ukey) := by
      rw [← cands_split ss hne]
      exact (List.take_sublist _ _).map _
    refine List.Sublist.trans ?_ hsub
    rw [he]
    simp only [List.map_append, List.map_map]
    refine List.Sublist.append ?_ ?_
    · have : (fun x => (wholeUp segs idxs x).key) = ukey := rfl
      show (List.map (fun x => (wholeUp segs idxs x).key) _).Sublist _
      rw [this]; exact List.Sublist.refl _
    · unfold finalUp
      split
      · rename_i hk
        have := hb hne plan hp hk
        simp [ukey, this]
      · simp

/-! ### the whole partition loop -/

theorem specParts_keys : ∀ (gs : List (Int × List Src)) (ups : List Upload),
    (∀ g ∈ gs, BaseOK crc mk T segs idxs g.2) → specParts crc mk T segs idxs gs = some ups →
    (ups.map (·.key)).Sublist ((gs.flatMap (·.2)).map ukey) := by
  intro gs
  induction gs with
  | nil => intro ups _ h; simp only [specParts, Option.some.injEq] at h; rw [← h]; exact List.Sublist.refl _
  | cons g t ih =>
    intro ups hb h
    obtain ⟨p, ss⟩ := g
    unfold specParts at h
    split at h
    · rename_i a b ha hb'
      simp only [Option.some.injEq] at h
      rw [← h]
      simp only [List.map_append, List.flatMap_cons]
      exact List.Sublist.append (specSegs_keys ss a (hb (p, ss) (by simp)) ha) (ih b (fun g hg => hb g (by simp [hg])) hb')
    · simp at h

theorem specParts_group : ∀ (gs : List (Int × List Src)) (ups : List Upload),
    specParts crc mk T segs idxs gs = some ups →
    (∀ g ∈ gs, ∃ upsg, specSegs crc mk T segs idxs (g.2.take (lastCandidate T g.2 + 1)) = some upsg ∧ ∀ u ∈ upsg, u ∈ ups) ∧
    (∀ u ∈ ups, ∃ g ∈ gs, ∃ upsg, specSegs crc mk T segs idxs (g.2.take (lastCandidate T g.2 + 1)) = some upsg ∧ u ∈ upsg) := by
  intro gs
  induction gs with
  | nil => intro ups h; simp only [specParts, Option.some.injEq] at h; subst h; simp
  | cons g t ih =>
    intro ups h
    obtain ⟨p, ss⟩ := g
    unfold specParts at h
    split at h
    · rename_i a b ha hb'
      simp only [Option.some.injEq] at h
      subst h
      obtain ⟨i1, i2⟩ := ih b hb'
      constructor
      · intro g hg
        simp only [List.mem_cons] at hg
        rcases hg with rfl | hg
        · exact ⟨a, ha, fun u hu => List.mem_append_left _ hu⟩
        · obtain ⟨upsg, h1, h2⟩ := i1 g hg
          exact ⟨upsg, h1, fun u hu => List.mem_append_right _ (h2 u hu)⟩
      · intro u hu
        simp only [List.mem_append] at hu
        rcases hu with hu | hu
        · exact ⟨(p, ss), by simp, a, ha, hu⟩
        · obtain ⟨g, hg, upsg, h1, h2⟩ := i2 u hu
          exact ⟨g, by simp [hg], upsg, h1, h2⟩
    · simp at h

/-! ### distinct target keys -/

theorem ukey_ne {a b : Src} (ha : a.key.topic = 0) (hb : b.key.topic = 0) (h : a.key ≠ b.key) : ukey a ≠ ukey b := by
  intro e
  apply h
  simp only [ukey, Key.mk.injEq, true_and] at e
  cases hka : a.key; cases hkb : b.key
  simp_all

theorem group_keys_nodup (srcs : List Src) (hnd : (srcs.map (·.key)).Nodup) (ht : ∀ x ∈ srcs, x.key.topic = 0) :
    (((groupParts srcs).flatMap (·.2)).map ukey).Nodup := by
  have hR : srcs.Pairwise (fun a b => ukey a ≠ ukey b) := by
    have h0 : srcs.Pairwise (fun a b => a.key ≠ b.key) := List.pairwise_map.mp hnd
    exact h0.imp_of_mem (fun ha hb h => ukey_ne (ht _ ha) (ht _ hb) h)
  unfold List.Nodup
  rw [List.pairwise_map, List.pairwise_flatMap]
  constructor
  · intro g hg
    have hp := (mem_groupParts hg).2
    exact (hp.pairwise_iff (fun h => fun e => h e.symm)).mpr (hR.filter _)
  · unfold groupParts
    rw [List.pairwise_map]
    have hp : (partsOf srcs).Pairwise (· ≠ ·) := partsOf_nodup srcs
    refine hp.imp ?_
    intro p q hpq x hx y hy e
    have hx' := ((sortBy_perm _ _).mem_iff).mp hx
    have hy' := ((sortBy_perm _ _).mem_iff).mp hy
    simp only [List.mem_filter, decide_eq_true_eq] at hx' hy'
    simp only [ukey, Key.mk.injEq, true_and] at e
    exact hpq (by rw [← hx'.2, ← hy'.2, e.1])

/-! ### a successful run -/

/-- `cfg.Partitions`: the selected sources -/
def selSrcs (allowed : List Int) (srcs : List Src) : List Src :=
  if allowed.isEmpty then srcs else srcs.filter (fun x => allowed.contains x.key.part)

theorem selSrcs_sublist (allowed : List Int) (srcs : List Src) : (selSrcs allowed srcs).Sublist srcs := by
  unfold selSrcs
  split
  · exact List.Sublist.refl _
  · exact List.filter_sublist

/-- **a successful `recoverTopic` refines the fault-free specification**: the descriptors are what
header/footer of the listed source objects say, the uploads are `specParts` of the grouped
selection, and (when their keys are pairwise different) the target topic holds exactly them -/
theorem recoverTopic_ok (crc : Bytes → Nat) (mk : Alloc) (T : Int) (allowed : List Int) (s : S3) (sums : List Summary)
    (h1 : TargetFree s.segs) (h2 : TargetFree s.idxs)
    (h : (recoverTopic crc mk T allowed s).res = .ok sums) :
    ∃ srcs ups,
      srcs.map some = (s.segs.filter (fun e => e.1.topic = 0)).map (fun o => srcOf o.1 o.2) ∧
      specParts crc mk T s.segs s.idxs (groupParts (selSrcs allowed srcs)) = some ups ∧
      ((ups.map (·.key)).Nodup → Applied ups ⟨(recoverTopic crc mk T allowed s).s3, []⟩) := by
  revert h
  unfold recoverTopic
  split
  · intro h; simp at h
  · split
    · intro h; simp at h
    · split
      · intro h; simp at h
      · have hins := inspectAll_same (s.segs.filter (fun e => e.1.topic = 0)) s.bump.bump
        split
        · intro h; simp at h
        · rename_i srcs s1 heq
          rw [heq] at hins
          simp only [S3.bump] at hins
          have hsp := inspectAll_some _ _ _ _ heq
          simp only
          split
          · rename_i sums' st heq2
            intro _
            have hsrc0 : SrcSame s.segs s.idxs ⟨s1, []⟩ :=
              ⟨fun k _ => by simp only; rw [hins.1], fun k _ => by simp only; rw [hins.2]⟩
            have hsel : ∀ g ∈ groupParts (selSrcs allowed srcs), ∀ x ∈ g.2, x.key.topic ≠ 1 := by
              intro g hg x hx
              have hx1 := (mem_group_mem hg hx).1
              have hx2 := (selSrcs_sublist allowed srcs).subset hx1
              obtain ⟨o, ho, hso⟩ := srcs_mem hsp hx2
              rw [srcOf_key hso]
              simp only [List.mem_filter, decide_eq_true_eq] at ho
              omega
            have hsel' : groupParts (if allowed.isEmpty = true then srcs else srcs.filter (fun x => allowed.contains x.key.part)) =
                groupParts (selSrcs allowed srcs) := rfl
            rw [hsel'] at heq2
            obtain ⟨ups, hu, _, happ⟩ := copyParts_ok (segs0 := s.segs) (idxs0 := s.idxs) _ _ _ _ hsrc0 hsel heq2
            refine ⟨srcs, ups, hsp, hu, ?_⟩
            intro hnd
            have ha0 : Applied [] ⟨s1, []⟩ :=
              ⟨by simp, by simp,
               by intro e he ht; simp only at he; rw [hins.1] at he; exact absurd ht (h1 e he),
               by intro e he ht; simp only at he; rw [hins.2] at he; exact absurd ht (h2 e he), by simp⟩
            have := happ [] ha0 (by simpa using hnd)
            simp only [List.nil_append] at this
            exact ⟨this.segsIn, this.idxsIn, this.segsOnly, this.idxsOnly, this.tgt⟩
          · rename_i r st hne heq2
            intro h
            simp only at h
            exact absurd h (hne sums)

end KafVerif.Kafka
