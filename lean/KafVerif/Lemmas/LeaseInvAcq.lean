import KafVerif.Lemmas.LeaseInv
/-! Invariant preservation: the steps of an in-flight `Acquire` (entry checks, then one lemma per pc). -/
namespace KafVerif.Lease

theorem inv_acquire (s : State) (b r : Nat) (h : Inv s) : Inv (step .byRev s (.acquire b r)).1 := by
  simp only [step]
  split
  · exact h
  · split
    · exact h
    · split
      · exact h
      · rename_i h1 h2 h3
        simp only [setAcq]
        have hown : (s.mgr b).owned r = none := by simpa using h2
        have hacq : s.acq b r = none := by simpa using h3
        inv_auto

theorem inv_g1 (s : State) (b r : Nat) (h : Inv s) (hpc : s.acq b r = some .g1) : Inv (acqStep s b r .g1).1 := by
  simp only [acqStep]
  split
  · simp only [setAcq]; inv_auto
  · simp only [setAcq]; inv_auto

theorem inv_grant (s : State) (b r : Nat) (h : Inv s) (hpc : s.acq b r = some .grant) : Inv (acqStep s b r .grant).1 := by
  simp only [acqStep, setAcq]
  inv_auto

theorem inv_mine (s : State) (b r l : Nat) (h : Inv s) (hpc : s.acq b r = some (.mine l)) : Inv (acqStep s b r (.mine l)).1 := by
  simp only [acqStep, setAcq]
  inv_auto

theorem inv_notMine (s : State) (b r : Nat) (h : Inv s) (hpc : s.acq b r = some .notMine) : Inv (acqStep s b r .notMine).1 := by
  simp only [acqStep, setAcq]
  inv_auto

theorem inv_errR (s : State) (b r : Nat) (h : Inv s) (hpc : s.acq b r = some .errR) : Inv (acqStep s b r .errR).1 := by
  simp only [acqStep, setAcq]
  inv_auto

end KafVerif.Lease
