import KafVerif.Lemmas.GroupJoin
/-! Strictly increasing keys: the association lists of the model are canonical forms of Go maps. -/
namespace KafVerif.Group
open Group

def SortedKeys {α : Type} (l : List (Nat × α)) : Prop := (keys l).Pairwise (· < ·)

theorem sorted_nil {α : Type} : SortedKeys ([] : List (Nat × α)) := List.Pairwise.nil

theorem sorted_insert {α : Type} {l : List (Nat × α)} (h : SortedKeys l) (k : Nat) (v : α) : SortedKeys (insert l k v) := by
  induction l with
  | nil => simp [insert, SortedKeys, keys]
  | cons e t ih =>
    obtain ⟨k0, v0⟩ := e
    unfold SortedKeys keys at h ih ⊢
    simp only [List.map_cons, List.pairwise_cons] at h
    unfold insert
    split
    · rename_i hlt
      simp only [List.map_cons, List.pairwise_cons, List.mem_cons, List.mem_map]
      refine ⟨?_, ?_, h.2⟩
      · intro a ha
        rcases ha with rfl | ⟨e, he, rfl⟩
        · exact hlt
        · exact Nat.lt_trans hlt (h.1 _ (List.mem_map.mpr ⟨e, he, rfl⟩))
      · intro a ⟨e, he, hea⟩; exact h.1 a (List.mem_map.mpr ⟨e, he, hea⟩)
    · split
      · rename_i h1 h2; subst h2
        simp only [List.map_cons, List.pairwise_cons]
        exact h
      · rename_i h1 h2
        simp only [List.map_cons, List.pairwise_cons]
        refine ⟨?_, ih h.2⟩
        intro a ha
        obtain ⟨e, he, rfl⟩ := List.mem_map.mp ha
        rcases mem_insert he with rfl | he
        · simp only; omega
        · exact h.1 _ (List.mem_map.mpr ⟨e, he, rfl⟩)

theorem keys_map_val {α β : Type} (l : List (Nat × α)) (f : Nat × α → β) : keys (l.map fun e => (e.1, f e)) = keys l := by
  simp [keys, List.map_map, Function.comp_def]

theorem sorted_map_val {α β : Type} {l : List (Nat × α)} (h : SortedKeys l) (f : Nat × α → β) :
    SortedKeys (l.map fun e => (e.1, f e)) := by
  unfold SortedKeys; rw [keys_map_val]; exact h

theorem sorted_filter {α : Type} {l : List (Nat × α)} (h : SortedKeys l) (p : Nat × α → Bool) : SortedKeys (l.filter p) := by
  unfold SortedKeys keys at *
  exact List.Pairwise.sublist (List.Sublist.map _ List.filter_sublist) h

theorem sorted_erase {α : Type} {l : List (Nat × α)} (h : SortedKeys l) (k : Nat) : SortedKeys (erase l k) :=
  sorted_filter h _

theorem keys_setJoinGen (ms : List (Nat × Member)) (m gen : Nat) : keys (setJoinGen ms m gen) = keys ms := by
  unfold setJoinGen keys
  rw [List.map_map]
  apply List.map_congr_left
  intro e _
  simp only [Function.comp]
  split <;> rfl

theorem sorted_setJoinGen {ms : List (Nat × Member)} (h : SortedKeys ms) (m gen : Nat) : SortedKeys (setJoinGen ms m gen) := by
  unfold SortedKeys; rw [keys_setJoinGen]; exact h

theorem sorted_resetJoins {ms : List (Nat × Member)} (h : SortedKeys ms) : SortedKeys (resetJoins ms) := by
  unfold resetJoins; exact sorted_map_val h _

/-- in a list with strictly increasing keys, membership and lookup coincide -/
theorem lookup_of_mem_sorted {α : Type} {l : List (Nat × α)} (h : SortedKeys l) {k : Nat} {v : α} (hm : (k, v) ∈ l) :
    lookup l k = some v := by
  induction l with
  | nil => simp at hm
  | cons e t ih =>
    obtain ⟨k0, v0⟩ := e
    unfold SortedKeys keys at h ih
    simp only [List.map_cons, List.pairwise_cons] at h
    rcases List.mem_cons.mp hm with heq | hm'
    · cases heq; simp [lookup]
    · have hlt : k0 < k := h.1 k (List.mem_map.mpr ⟨(k, v), hm', rfl⟩)
      have : ¬ k0 = k := by omega
      simp only [lookup, this, if_false]
      exact ih h.2 hm'

/-- `cleanupOutcome` keeps a group only when it removed nobody: the group is then unchanged -/
theorem cleanupOutcome_kept {st st' : Group} {now : Nat} (ho : cleanupOutcome st now = .kept st') : st' = st := by
  unfold cleanupOutcome at ho
  simp only at ho
  split at ho
  · cases ho
  · rename_i hemp
    split at ho
    · cases ho
    · rename_i hflags
      cases ho
      by_cases hne : st.members = []
      · -- an empty group never reaches this branch
        exfalso
        apply hemp
        have : ((st.removeExpired now).1.dropLaggers now).1.members = [] := by
          unfold removeExpired dropLaggers
          split
          · simp [dropMembers_members, hne]
          · simp [dropMembers_members, hne]
        simp [this]
      · have hf1 : (st.removeExpired now).2 = false := by
          cases hb : (st.removeExpired now).2 <;> simp_all
        have hf2 : ((st.removeExpired now).1.dropLaggers now).2 = false := by
          cases hb : ((st.removeExpired now).1.dropLaggers now).2 <;> simp_all
        have hexp : ∀ e ∈ st.members, expired now e.2 = false := by
          intro e he
          cases hb : expired now e.2 with
          | false => rfl
          | true =>
            have := (dropMembers_changed st (expired now)).mpr ⟨e, he, hb⟩
            unfold removeExpired at hf1; rw [hf1] at this; cases this
        have h1 : (st.removeExpired now).1 = st := dropMembers_none st _ hexp hne
        rw [h1] at hf2 ⊢
        unfold dropLaggers at hf2 ⊢
        split
        · rfl
        · rename_i hd
          simp only [hd, if_false] at hf2
          have hlag : ∀ e ∈ st.members, (e.2.joinGen != st.gen) = false := by
            intro e he
            cases hb : (e.2.joinGen != st.gen) with
            | false => rfl
            | true =>
              have := (dropMembers_changed st (fun m => m.joinGen != st.gen)).mpr ⟨e, he, hb⟩
              rw [hf2] at this; cases this
          exact dropMembers_none st _ hlag hne

/-- a cleanup pass that removed somebody leaves a freshly rebalancing group -/
theorem cleanupOutcome_rebalanced {st st' : Group} {now : Nat} (ho : cleanupOutcome st now = .rebalanced st') :
    ∃ st2 : Group, st2.members ≠ [] ∧ st' = st2.startRebalance 0 now ∧ (st2.gen = st.gen ∧ st2.rebTimeout = st.rebTimeout) ∧
      st2.members = st.members.filter (fun e => !expired now e.2 &&
        !(!(decide (st.deadline = 0) || decide (now < st.deadline)) && (e.2.joinGen != st.gen))) := by
  unfold cleanupOutcome at ho
  simp only at ho
  split at ho
  · cases ho
  · rename_i hemp
    split at ho
    · cases ho
      refine ⟨_, by intro hh; simp [hh] at hemp, rfl, ?_, ?_⟩
      · unfold removeExpired dropLaggers
        split <;> exact ⟨rfl, rfl⟩
      unfold removeExpired dropLaggers
      simp only [dropMembers_deadline, dropMembers_gen]
      by_cases h : st.deadline = 0 ∨ now < st.deadline
      · simp only [h, if_true, dropMembers_members]
        apply List.filter_congr
        intro e _
        rcases h with h | h <;> simp [h]
      · simp only [h, if_false, dropMembers_members, List.filter_filter]
        apply List.filter_congr
        intro e _
        have h1 : ¬ st.deadline = 0 := fun hh => h (Or.inl hh)
        have h2 : ¬ now < st.deadline := fun hh => h (Or.inr hh)
        simp [h1, h2, Bool.and_comm]
    · cases ho

end KafVerif.Group
