import KafVerif.Lemmas.Lease
/-!
The inductive invariant of the lease-manager model with the proposed fix (`Variant.byRev`).

  i1   an owned resource is backed by an etcd key that carries this broker, its CURRENT session's
       live lease and exactly the mod revision the broker remembered
  i3   a pending guarded insert (`ins l v`) whose session is still current is backed the same way
  k    an in-flight acquire of (b, r) excludes r ∈ owned_b (entry check + singleflight)
  t2*  the revision of a pending insert is a fresh token: not in any `owned`, not in any pending
       delete, not in another pending insert
  t4/t5 an owned revision is in no pending delete, and in no other ownership entry
  g1   (fix) every pending Release delete is guarded by a mod revision
  d1   a pending delete whose guard matches the key it finds was issued by that key's owner
  f2*  remembered revisions are ≤ the store revision (so a new put's revision is fresh)
  r1/u1 a lease in a pending revoke is nobody's session; sessions are not shared
  p1*  a granted-but-unpublished lease (`g3 l`) is private: nobody's session, not being revoked,
       held by exactly one in-flight call
  f1*  lease ids in use are below the allocation counter (so a granted id is fresh)
-/
namespace KafVerif.Lease


def pcLease : PC → Option Nat
  | .g3 l => some l
  | .txn l => some l
  | .ins l _ => some l
  | .mine l => some l
  | .re l => some l
  | _ => none

structure Inv (s : State) : Prop where
  i1 : ∀ b r v, (s.mgr b).owned r = some v → ∃ l, (s.mgr b).session = some l ∧ s.live l = true ∧ s.kv r = some ⟨b, l, v⟩
  i3 : ∀ b r l v, s.acq b r = some (.ins l v) → (s.mgr b).session = some l → s.live l = true ∧ s.kv r = some ⟨b, l, v⟩
  k  : ∀ b r pc, s.acq b r = some pc → (s.mgr b).owned r = none
  t2a : ∀ b r l v, s.acq b r = some (.ins l v) → ∀ c r', (s.mgr c).owned r' ≠ some v
  t2b : ∀ b r l v, s.acq b r = some (.ins l v) → ∀ d ∈ s.dels, d.guard ≠ .rev v
  t2c : ∀ b r l v c r' l', s.acq b r = some (.ins l v) → s.acq c r' = some (.ins l' v) → c = b ∧ r' = r
  t4 : ∀ b r v, (s.mgr b).owned r = some v → ∀ d ∈ s.dels, d.guard ≠ .rev v
  t5 : ∀ b r c r' v, (s.mgr b).owned r = some v → (s.mgr c).owned r' = some v → b = c ∧ r = r'
  g1 : ∀ d ∈ s.dels, ∃ v, d.guard = .rev v
  d1 : ∀ d ∈ s.dels, ∀ v k, d.guard = .rev v → s.kv d.res = some k → k.modRev = v → k.owner = d.broker
  f2a : ∀ b r v, (s.mgr b).owned r = some v → v ≤ s.rev
  f2b : ∀ d ∈ s.dels, ∀ v, d.guard = .rev v → v ≤ s.rev
  f2c : ∀ b r l v, s.acq b r = some (.ins l v) → v ≤ s.rev
  r1 : ∀ l ∈ s.revokes, ∀ b, (s.mgr b).session ≠ some l
  u1 : ∀ b c l, (s.mgr b).session = some l → (s.mgr c).session = some l → b = c
  p1a : ∀ b r l, s.acq b r = some (.g3 l) → ∀ c, (s.mgr c).session ≠ some l
  p1b : ∀ b r l, s.acq b r = some (.g3 l) → l ∉ s.revokes
  p1c : ∀ b r l c r' pc, s.acq b r = some (.g3 l) → s.acq c r' = some pc → pcLease pc = some l → c = b ∧ r' = r
  f1a : ∀ b l, (s.mgr b).session = some l → l < s.nextLease
  f1b : ∀ l ∈ s.revokes, l < s.nextLease
  f1c : ∀ b r pc l, s.acq b r = some pc → pcLease pc = some l → l < s.nextLease



/-- closes the routine clauses: case analysis on the updated functions + instantiation of the old invariant -/
theorem ite_app {α β : Type} (c : Prop) [Decidable c] (f g : α → β) (a : α) :
    (if c then f else g) a = if c then f a else g a := by split <;> rfl

macro "inv_clause" : tactic =>
  `(tactic| (intros
             try simp only [apply_ite Mgr.owned, apply_ite Mgr.session, apply_ite Mgr.closed, ite_app] at *
             grind (splits := 14) (instances := 4000) (gen := 10) [Inv, pcLease]))

macro "inv_auto" : tactic => `(tactic| (constructor <;> inv_clause))

theorem inv_init : Inv init := by
  constructor <;> simp [init, Mgr.fresh]

end KafVerif.Lease
