import KafVerif.Lemmas.GroupInv
/-! What `joinMember`, `joinPhase`, `joinMark`, `joinFinish` do to a group state. -/
namespace KafVerif.Group
open Group

theorem joinRecord_spec (found : Option Member) (se : Int) (pr : Option (Nat × List Nat)) (now : Nat) :
    (joinRecord found se pr now).topics = topicsOfProto pr ∧ (joinRecord found se pr now).lastHb = now ∧
    0 < (joinRecord found se pr now).session := by
  unfold joinRecord
  refine ⟨rfl, rfl, ?_⟩
  simp only
  split
  · rename_i h; simp only; omega
  · split
    · simp [defaultSession]
    · rename_i h1 h2; omega

/-- `joinMember` inserts one member record and only touches the protocol fields besides -/
theorem joinMember_spec (st : Group) (mid : Nat) (se : Int) (pt : Nat) (pr : Option (Nat × List Nat)) (nk now : Nat) :
    ∃ m' : Member,
      (joinMember st mid se pt pr nk now).1.members = insert st.members (joinMember st mid se pt pr nk now).2.1 m' ∧
      (joinMember st mid se pt pr nk now).1.gen = st.gen ∧
      (joinMember st mid se pt pr nk now).1.phase = st.phase ∧
      (joinMember st mid se pt pr nk now).1.leader = st.leader ∧
      (joinMember st mid se pt pr nk now).1.asg = st.asg ∧
      (joinMember st mid se pt pr nk now).1.rebTimeout = st.rebTimeout ∧
      m'.topics = topicsOfProto pr ∧ m'.lastHb = now ∧ 0 < m'.session ∧
      ((joinMember st mid se pt pr nk now).2.2.1 = true →
        ∃ m0, lookup st.members mid = some m0 ∧ (joinMember st mid se pt pr nk now).2.1 = mid ∧
          (joinMember st mid se pt pr nk now).2.2.2 = m0.topics) := by
  have hsp := joinRecord_spec (if mid = 0 then none else lookup st.members mid) se pr now
  unfold joinMember
  simp only
  refine ⟨joinRecord (if mid = 0 then none else lookup st.members mid) se pr now, rfl, ?_, ?_, ?_, ?_, ?_, hsp.1, hsp.2.1, hsp.2.2, ?_⟩
  · cases pr <;> rfl
  · cases pr <;> rfl
  · cases pr <;> rfl
  · cases pr <;> rfl
  · cases pr <;> rfl
  · intro hex
    by_cases hm : mid = 0
    · simp [hm] at hex
    · simp only [hm, if_false] at hex ⊢
      cases hq : lookup st.members mid with
      | none => simp [hq] at hex
      | some m0 => exact ⟨m0, rfl, by simp, by simp⟩

theorem joinPhase_cases (v : Variant) (st : Group) (m : Nat) (ex : Bool) (prev new : List Nat) (t now : Nat) :
    (∃ st' : Group, joinPhase v st m ex prev new t now = st'.startRebalance t now ∧ st'.members = st.members ∧ st'.gen = st.gen ∧
        st'.asg = st.asg ∧ (st.phase = .empty ∨ st.phase = .stable))
    ∨ (joinPhase v st m ex prev new t now = st.bump t now ∧ (st.phase = .preparing ∨ st.phase = .completing))
    ∨ (joinPhase v st m ex prev new t now = st ∧ (st.phase = .dead ∨
        (st.phase = .stable ∧ ex = true ∧ (v.c12Old = true ∨ prev = new)))) := by
  unfold joinPhase
  split
  · rename_i h; exact Or.inl ⟨_, rfl, rfl, rfl, rfl, Or.inl h.2⟩
  · split
    · rename_i h; exact Or.inl ⟨_, rfl, rfl, rfl, rfl, Or.inr h.1⟩
    · split
      · rename_i h; exact Or.inl ⟨_, rfl, rfl, rfl, rfl, Or.inr h.1⟩
      · split
        · rename_i h; exact Or.inl ⟨_, rfl, rfl, rfl, rfl, Or.inl h⟩
        · split
          · rename_i h; exact Or.inr (Or.inl ⟨rfl, h⟩)
          · rename_i h1 h2 h3 h4 h5
            refine Or.inr (Or.inr ⟨rfl, ?_⟩)
            cases hp : st.phase with
            | empty => exact absurd hp h4
            | preparing => exact absurd (Or.inl hp) h5
            | completing => exact absurd (Or.inr hp) h5
            | dead => exact Or.inl rfl
            | stable =>
              right
              refine ⟨rfl, ?_, ?_⟩
              · cases ex with
                | true => rfl
                | false => exact absurd ⟨hp, by simp⟩ h2
              · cases hv : v.c12Old with
                | true => exact Or.inl rfl
                | false =>
                  right
                  cases Classical.em (prev = new) with
                  | inl h => exact h
                  | inr h => exact absurd ⟨hp, by simp [hv], h⟩ h3

theorem mem_setJoinGen {ms : List (Nat × Member)} {m gen : Nat} {e : Nat × Member} (h : e ∈ setJoinGen ms m gen) :
    ∃ e0 ∈ ms, e.1 = e0.1 ∧ e.2.topics = e0.2.topics ∧ e.2.session = e0.2.session ∧ e.2.lastHb = e0.2.lastHb ∧
      (if e0.1 = m then e.2.joinGen = gen else e.2.joinGen = e0.2.joinGen) := by
  unfold setJoinGen at h
  obtain ⟨e0, he0, rfl⟩ := List.mem_map.mp h
  refine ⟨e0, he0, ?_⟩
  split <;> simp_all

theorem lookup_setJoinGen (ms : List (Nat × Member)) (m gen k : Nat) :
    lookup (setJoinGen ms m gen) k = (lookup ms k).map fun x => if k = m then { x with joinGen := gen } else x := by
  induction ms with
  | nil => simp [setJoinGen, lookup]
  | cons e t ih =>
    obtain ⟨k0, v0⟩ := e
    unfold setJoinGen at ih ⊢
    simp only [List.map_cons]
    by_cases hk : k0 = k
    · subst hk
      by_cases hm : k0 = m
      · simp [lookup, hm]
      · simp [lookup, hm]
    · by_cases hm : k0 = m
      · simp only [hm, if_true, lookup]
        have : ¬ m = k := by rw [← hm]; exact hk
        simp only [this, if_false]
        rw [← hm] at ih ⊢
        simpa [hk] using ih
      · simp only [hm, if_false, lookup, hk]
        exact ih

theorem setJoinGen_ne_nil {ms : List (Nat × Member)} (h : ms ≠ []) (m gen : Nat) : setJoinGen ms m gen ≠ [] := by
  unfold setJoinGen; intro hh; exact h (List.map_eq_nil_iff.mp hh)

theorem joinMark_spec (st : Group) (m : Nat) :
    (joinMark st m).members = setJoinGen st.members m st.gen ∧ (joinMark st m).gen = st.gen ∧
    (joinMark st m).phase = st.phase ∧ (joinMark st m).asg = st.asg ∧ (joinMark st m).rebTimeout = st.rebTimeout ∧
    ((joinMark st m).leader ≠ 0 → (st.leader ≠ 0 → (lookup (setJoinGen st.members m st.gen) st.leader).isSome) →
       (lookup (joinMark st m).members (joinMark st m).leader).isSome) := by
  unfold joinMark
  simp only
  split
  · rename_i h
    refine ⟨by simp, by simp, by simp, by simp, by simp, ?_⟩
    intro hne _
    exact ensureLeader_valid _ hne
  · rename_i h
    refine ⟨rfl, rfl, rfl, rfl, rfl, ?_⟩
    intro _ hv
    exact hv h

theorem joinFinish_spec (st : Group) (m : Nat) :
    (joinFinish st m).1.members = (joinMark st m).members ∧ (joinFinish st m).1.gen = st.gen ∧
    (joinFinish st m).1.leader = (joinMark st m).leader ∧ (joinFinish st m).1.asg = st.asg ∧
    (joinFinish st m).1.rebTimeout = st.rebTimeout ∧
    ((joinFinish st m).1.phase = st.phase ∨
      (st.phase ≠ .stable ∧ st.phase ≠ .completing ∧ (joinFinish st m).1.phase = .completing ∧
        ∀ e ∈ (joinMark st m).members, e.2.joinGen = st.gen)) := by
  have hm := joinMark_spec st m
  unfold joinFinish
  generalize joinMark st m = x at hm ⊢
  simp only
  by_cases hp : x.phase = .stable ∨ x.phase = .completing
  · rw [if_pos hp]
    exact ⟨rfl, hm.2.1, rfl, hm.2.2.2.1, hm.2.2.2.2.1, Or.inl hm.2.2.1⟩
  · rw [if_neg hp]
    refine ⟨completeIfReady_members x, by rw [completeIfReady_gen]; exact hm.2.1, completeIfReady_leader x,
      by rw [completeIfReady_asg]; exact hm.2.2.2.1, ?_, ?_⟩
    · unfold completeIfReady; split
      · exact hm.2.2.2.2.1
      · split <;> exact hm.2.2.2.2.1
    · unfold completeIfReady
      split
      · exact Or.inl hm.2.2.1
      · split
        · rename_i hall
          right
          refine ⟨?_, ?_, rfl, ?_⟩
          · rw [← hm.2.2.1]; exact fun h => hp (Or.inl h)
          · rw [← hm.2.2.1]; exact fun h => hp (Or.inr h)
          · intro e he
            unfold allJoined at hall
            have := List.all_eq_true.mp hall e he
            rw [← hm.2.1]
            simpa using this
        · exact Or.inl hm.2.2.1

end KafVerif.Group
