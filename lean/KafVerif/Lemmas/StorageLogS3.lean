import KafVerif.Model.StorageLogS3
/-!
Lemmas about `Model/StorageLogS3.lean` (awsS3Client over an S3 API with an outcome oracle) for Props/C01:
what an API call / `EnsureBucket` can do to the object map.
-/
namespace KafVerif.S3Aws
open KafVerif

theorem lookup_store_same (objs : List (String × Bytes)) (key : String) (body : Bytes) :
    lookup (store objs key body) key = some body := by
  unfold store lookup
  split
  · rename_i hany
    induction objs with
    | nil => simp at hany
    | cons x t ih =>
      simp only [List.map_cons]
      by_cases hx : (x.1 == key) = true
      · simp [hx]
      · have hx' : (x.1 == key) = false := by simpa using hx
        simp only [hx', Bool.false_eq_true, if_false, List.find?_cons]
        simp only [List.any_cons, hx', Bool.false_or] at hany
        exact ih hany
  · rename_i hany
    have hnone : objs.find? (fun x => x.1 == key) = none := by
      apply List.find?_eq_none.mpr
      intro x hx hk
      exact hany (List.any_eq_true.mpr ⟨x, hx, hk⟩)
    rw [List.find?_append, hnone]
    simp

theorem find_map_other (objs : List (String × Bytes)) (key k : String) (body : Bytes) (h : k ≠ key) :
    (objs.map fun x => if x.1 == key then (key, body) else x).find? (fun x => x.1 == k) = objs.find? (fun x => x.1 == k) := by
  induction objs with
  | nil => rfl
  | cons x t ih =>
    simp only [List.map_cons, List.find?_cons]
    by_cases hx : (x.1 == key) = true
    · have hxe : x.1 = key := by simpa using hx
      have h1 : ((key, body).1 == k) = false := by simp; exact fun e => h e.symm
      have h2 : (x.1 == k) = false := by simp [hxe]; exact fun e => h e.symm
      simp only [hx, if_true, h1, h2]
      exact ih
    · have hx' : (x.1 == key) = false := by simpa using hx
      simp only [hx', Bool.false_eq_true, if_false]
      split
      · rfl
      · exact ih

theorem lookup_store_other (objs : List (String × Bytes)) (key k : String) (body : Bytes) (h : k ≠ key) :
    lookup (store objs key body) k = lookup objs k := by
  unfold store lookup
  split
  · rw [find_map_other objs key k body h]
  · rw [List.find?_append]
    have : ([(key, body)] : List (String × Bytes)).find? (fun x => x.1 == k) = none := by
      simp; exact fun e => h e.symm
    rw [this]; simp

/-- what a step may do to the endpoint's objects: nothing, or store `body` under `key` -/
def ObjsStep (key : String) (body : Bytes) (a b : List (String × Bytes)) : Prop :=
  b = a ∨ b = store a key body

theorem pop_api (s : St) : (pop s).2.api = s.api := by
  unfold pop; split <;> rfl

theorem note_api (s : St) (a o : String) : (note s a o).api = s.api := rfl

theorem apiPut_spec (s : St) (key : String) (body : Bytes) :
    (∀ s' u, apiPut s key body = (s', .ok u) → s'.api.objs = store s.api.objs key body) ∧
    (∀ s' e, apiPut s key body = (s', .error e) → s'.api.objs = s.api.objs) := by
  unfold apiPut failWith
  have hp := pop_api s
  cases hpop : pop s with
  | mk t s1 =>
    rw [hpop] at hp
    simp only at hp
    cases t with
    | fail e =>
      simp only
      refine ⟨fun s' u h => by simp at h, fun s' e' h => ?_⟩
      simp only [Prod.mk.injEq] at h
      rw [← h.1, note_api, hp]
    | nat =>
      simp only
      by_cases hb : s1.api.bucket = true
      · simp only [hb, if_true]
        refine ⟨fun s' u h => ?_, fun s' e' h => by simp at h⟩
        simp only [Prod.mk.injEq] at h
        rw [← h.1, note_api]; simp [hp]
      · simp only [hb, Bool.false_eq_true, if_false]
        refine ⟨fun s' u h => by simp at h, fun s' e' h => ?_⟩
        simp only [Prod.mk.injEq] at h
        rw [← h.1, note_api, hp]

theorem apiHead_objs (s : St) : (apiHead s).1.api.objs = s.api.objs ∧
    (∀ u, (apiHead s).2 = .ok u → (apiHead s).1.api.bucket = true) := by
  unfold apiHead failWith
  have hp := pop_api s
  cases hpop : pop s with
  | mk t s1 =>
    rw [hpop] at hp
    simp only at hp
    cases t with
    | fail e => simp [note_api, hp]
    | nat =>
      simp only
      by_cases hb : s1.api.bucket = true
      · have hb' := hb; rw [hp] at hb'; simp [hb', note_api, hp]
      · have hb' := hb; rw [hp] at hb'; simp [hb', note_api, hp]

theorem apiCreate_objs (s : St) : (apiCreate s).1.api.objs = s.api.objs ∧
    (∀ u, (apiCreate s).2 = .ok u → (apiCreate s).1.api.bucket = true) ∧
    (∀ e, (apiCreate s).2 = .error e → (e = .owned ∨ e = .exists_) → (apiCreate s).1.api.bucket = true) := by
  unfold apiCreate failWith
  have hp := pop_api s
  cases hpop : pop s with
  | mk t s1 =>
    rw [hpop] at hp
    simp only at hp
    cases t with
    | fail e =>
      simp only
      by_cases he : e = .owned ∨ e = .exists_
      · simp [he, note_api, hp]
      · simp [he, note_api, hp]
    | nat =>
      simp only
      by_cases hb : s1.api.bucket = true
      · have hb' := hb; rw [hp] at hb'; simp [hb', note_api, hp]
      · have hb' := hb; rw [hp] at hb'; simp [hb', note_api, hp]

theorem ensureBucket_spec (s : St) : (ensureBucket s).1.api.objs = s.api.objs ∧
    ((ensureBucket s).2 = true → (ensureBucket s).1.api.bucket = true) := by
  unfold ensureBucket
  obtain ⟨h1, h2⟩ := apiHead_objs s
  cases hh : apiHead s with
  | mk s1 r1 =>
    rw [hh] at h1 h2
    simp only at h1 h2
    cases r1 with
    | ok u => exact ⟨h1, fun _ => h2 u rfl⟩
    | error e =>
      simp only
      by_cases hm : isBucketMissing e = true
      · simp only [hm, if_true]
        obtain ⟨c1, c2, c3⟩ := apiCreate_objs s1
        cases hc : apiCreate s1 with
        | mk s2 r2 =>
          rw [hc] at c1 c2 c3
          simp only at c1 c2 c3
          cases r2 with
          | ok u => exact ⟨c1.trans h1, fun _ => c2 u rfl⟩
          | error e2 =>
            refine ⟨c1.trans h1, fun h => c3 e2 rfl ?_⟩
            simpa using h
      · simp only [hm, Bool.false_eq_true, if_false]
        exact ⟨h1, fun h => by simp at h⟩

/-- `putObject`: the object map afterwards, by result -/
theorem putObject_spec (s : St) (key : String) (body : Bytes) :
    ((putObject s key body).2 = true → (putObject s key body).1.api.objs = store s.api.objs key body) ∧
    ((putObject s key body).2 = false →
      (putObject s key body).1.api.objs = s.api.objs ∨ (putObject s key body).1.api.objs = store s.api.objs key body) := by
  unfold putObject
  obtain ⟨p1, p2⟩ := apiPut_spec s key body
  cases h1 : apiPut s key body with
  | mk s1 r1 =>
    cases r1 with
    | ok u => exact ⟨fun _ => p1 s1 u h1, fun h => by simp at h⟩
    | error e =>
      have hs1 := p2 s1 e h1
      simp only
      by_cases hm : isBucketMissing e = true
      · simp only [hm, if_true]
        obtain ⟨e1, _⟩ := ensureBucket_spec s1
        cases he : ensureBucket s1 with
        | mk s2 ok =>
          rw [he] at e1
          simp only at e1
          cases ok with
          | false => exact ⟨fun h => by simp at h, fun _ => Or.inl (e1.trans hs1)⟩
          | true =>
            simp only
            obtain ⟨q1, q2⟩ := apiPut_spec s2 key body
            cases h3 : apiPut s2 key body with
            | mk s3 r3 =>
              cases r3 with
              | ok u =>
                refine ⟨fun _ => ?_, fun h => by simp at h⟩
                have := q1 s3 u h3
                simp only
                rw [this, e1, hs1]
              | error e3 =>
                refine ⟨fun h => by simp at h, fun _ => Or.inl ?_⟩
                have := q2 s3 e3 h3
                simp only
                rw [this, e1, hs1]
      · simp only [hm, Bool.false_eq_true, if_false]
        exact ⟨fun h => by simp at h, fun _ => Or.inl hs1⟩

theorem apiGet_spec (s : St) (key : String) (rng : Option (Int × Int)) (s' : St) (d : Bytes)
    (h : apiGet s key rng = (s', .ok d)) :
    ∃ obj, lookup s.api.objs key = some obj ∧ (rng = none → d = obj) ∧ ∃ i n, d = (obj.drop i).take n := by
  unfold apiGet failWith at h
  have hp := pop_api s
  cases hpop : pop s with
  | mk t s1 =>
    rw [hpop] at hp h
    simp only at hp h
    generalize (if decide (t = Tok.fail Err.badbody) = true then Tok.nat else t) = t' at h
    cases t' with
    | fail e => simp at h
    | nat =>
      simp only at h
      by_cases hb : s1.api.bucket = true
      · simp only [hb, Bool.not_true, Bool.false_eq_true, if_false] at h
        cases hl : lookup s1.api.objs key with
        | none => simp [hl] at h
        | some data =>
          rw [hp] at hl
          simp only [hp, hl] at h
          cases rng with
          | none =>
            simp only at h
            split at h
            · simp at h
            · simp only [Prod.mk.injEq, Except.ok.injEq] at h
              exact ⟨data, hl, fun _ => h.2.symm, 0, data.length, by simp [← h.2]⟩
          | some ab =>
            obtain ⟨a, b⟩ := ab
            simp only at h
            split at h
            · simp at h
            · rename_i dd hsel
              split at hsel
              · simp at hsel
              · simp only [Option.some.injEq] at hsel
                split at h
                · simp at h
                · simp only [Prod.mk.injEq, Except.ok.injEq] at h
                  exact ⟨data, hl, fun hr => by simp at hr, a.toNat, _, by rw [← h.2, ← hsel]⟩
      · simp [hb] at h

end KafVerif.S3Aws
