import KafVerif.Lemmas.PLogReadWhole
/-!
The hypotheses of C03 `read_run` / C04 `fetch_progress` (`SegBuilt`, `Coherent`, framed batches) hold in
every state reachable by operations whose appended record sets declare their length, as long as the
offsets stay inside int64 and a flush never has to build a segment of 2 GiB (`Small`).
-/
namespace KafVerif.PLog
open KafVerif KafVerif.RecBatch

def BatchOK (b : Batch) : Prop := Framed b ∧ HdrOK b

/-- every cache entry of this partition is filed under the base offset of one of its segments -/
def CacheDom (l : PLog) : Prop := ∀ e ∈ l.cached, ∃ g ∈ l.segs, g.base = e.1

def Good (l : PLog) : Prop :=
  (∀ g ∈ l.segs, SegBuilt l.interval g) ∧ Coherent l ∧ (∀ b ∈ l.fl ++ l.buf, BatchOK b) ∧ CacheDom l

/-- the next offset fits int64 and the batches waiting for a flush fit one segment with int32 positions -/
def Small (l : PLog) : Prop :=
  -9223372036854775808 ≤ l.next ∧ l.next < 9223372036854775808 ∧
  (body (l.fl ++ l.buf)).length + 48 < 2147483648

theorem good_new (iv : Int) (c : Bool) (start : Int) : Good (PLog.new iv c start) := by
  refine ⟨by simp [PLog.new], ⟨by simp [PLog.new], by simp [PLog.new]⟩, by simp [PLog.new], by simp [PLog.new, CacheDom]⟩

/-! ### cache / S3 lookups -/

theorem cacheGet_put_same (c : List (Int × Bytes)) (base : Int) (d : Bytes) :
    cacheGet (cachePut c base d) base = some d := by
  simp [cacheGet, cachePut]

theorem cacheGet_put_other (c : List (Int × Bytes)) (base b2 : Int) (d : Bytes) (h : b2 ≠ base) :
    cacheGet (cachePut c base d) b2 = cacheGet c b2 := by
  unfold cacheGet cachePut
  have h1 : ((base, d).1 == b2) = false := by simp; omega
  rw [List.find?_cons_of_neg (by simpa using h1)]
  congr 1
  induction c with
  | nil => rfl
  | cons x t ih =>
    simp only [List.filter_cons]
    by_cases hx : x.1 = base
    · have : (x.1 != base) = false := by simp [hx]
      rw [this]
      simp only [Bool.false_eq_true, if_false]
      rw [ih]
      have : (x.1 == b2) = false := by simp [hx]; omega
      rw [List.find?_cons_of_neg (by simpa using this)]
    · have : (x.1 != base) = true := by simp [hx]
      rw [this]
      simp only [if_true, List.find?_cons]
      split
      · rfl
      · exact ih

theorem cacheGet_mem {c : List (Int × Bytes)} {b : Int} {d : Bytes} (h : cacheGet c b = some d) :
    ∃ e ∈ c, e.1 = b := by
  unfold cacheGet at h
  cases hf : c.find? (fun x => x.1 == b) with
  | none => simp [hf] at h
  | some e =>
    exact ⟨e, List.mem_of_find?_eq_some hf, by simpa using List.find?_some hf⟩

theorem cacheDom_put {l : PLog} (hd : CacheDom l) (g : Seg) (hg : g ∈ l.segs) (obj : Bytes) :
    CacheDom { l with cached := cachePut l.cached g.base obj } := by
  intro e he
  simp only [cachePut, List.mem_cons, List.mem_filter] at he
  rcases he with rfl | ⟨he, _⟩
  · exact ⟨g, hg, rfl⟩
  · exact hd e he

theorem s3get_append_left (s3 : List Seg) (g : Seg) (base : Int) (d : Bytes) (h : s3get s3 base = some d) :
    s3get (s3 ++ [g]) base = some d := by
  unfold s3get at *
  cases hf : s3.find? (fun x => x.base == base) with
  | none => simp [hf] at h
  | some x =>
    rw [List.find?_append, hf]
    simpa [hf] using h

theorem s3get_append_new (s3 : List Seg) (g : Seg) (hno : (s3.any fun x => x.base == g.base) = false) :
    s3get (s3 ++ [g]) g.base = some g.data := by
  unfold s3get
  have : s3.find? (fun x => x.base == g.base) = none := by
    apply List.find?_eq_none.mpr
    intro x hx hb
    have : (s3.any fun x => x.base == g.base) = true := List.any_eq_true.mpr ⟨x, hx, hb⟩
    rw [hno] at this; exact Bool.noConfusion this
  rw [List.find?_append, this]
  simp

theorem findSeg_mem {segs : List Seg} {o : Int} {g : Seg} {o' : Int} (h : findSeg segs o = some (g, o')) : g ∈ segs := by
  induction segs with
  | nil => simp [findSeg] at h
  | cons x t ih =>
    simp only [findSeg] at h
    split at h
    · simp only [Option.some.injEq, Prod.mk.injEq] at h; simp [h.1]
    · split at h
      · simp only [Option.some.injEq, Prod.mk.injEq] at h; simp [h.1]
      · exact List.mem_cons_of_mem _ (ih h)

/-- a read leaves everything but the cache alone, and what it may put into the cache is the S3 object of a segment
of this log under that segment's base -/
theorem read_state (l : PLog) (o m : Int) :
    (read l o m).1 = l ∨
    ∃ g o' obj, findSeg l.segs o = some (g, o') ∧ s3get l.s3 g.base = some obj ∧
      (read l o m).1 = { l with cached := cachePut l.cached g.base obj } := by
  unfold read
  split
  · left; rfl
  · rename_i g o' hf
    split
    · left; rfl
    · split
      · left; rfl
      · rename_i obj hs
        split
        · left; rfl
        · by_cases hc : l.cacheOn = true
          · right; exact ⟨g, o', obj, hf, hs, by simp [hc]⟩
          · left; simp [hc]

theorem coherent_cachePut {l : PLog} (hc : Coherent l) (g : Seg) (_hg : g ∈ l.segs) (obj : Bytes)
    (hobj : s3get l.s3 g.base = some obj) :
    Coherent { l with cached := cachePut l.cached g.base obj } := by
  refine ⟨hc.1, ?_⟩
  intro x hx d hd
  by_cases hb : x.base = g.base
  · simp only at hd
    rw [hb, cacheGet_put_same] at hd
    have h1 := hc.1 x hx
    rw [hb, hobj] at h1
    simp only [Option.some.injEq] at hd h1
    rw [← hd, h1]
  · simp only at hd
    rw [cacheGet_put_other _ _ _ _ hb] at hd
    exact hc.2 x hx d hd

/-! ### steps -/

theorem good_append {l : PLog} (data : Bytes) (b : Batch) (hp : parse data = some b)
    (hdecl : hdrLen data ≠ 0) (hg : Good l) (hs : Small l) : Good (append l b).1 := by
  unfold append
  split
  · rename_i hv
    obtain ⟨g1, g2, g3, g4⟩ := hg
    have hb : b.bytes = data ∧ b.lod = hdrLod data ∧ hdrMin ≤ data.length := by
      unfold parse at hp
      split at hp
      · simp at hp
      · simp only [Option.some.injEq] at hp
        rw [← hp]; exact ⟨rfl, rfl, by omega⟩
    obtain ⟨hbytes, hlod, hlen⟩ := hb
    obtain ⟨hfr, hlod'⟩ := KafVerif.C02.stored_is_one_frame b l.next hv (by rw [hbytes]; exact hlen) (by rw [hbytes]; exact hdecl)
    refine ⟨g1, ⟨g2.1, g2.2⟩, ?_, g4⟩
    intro x hx
    simp only at hx
    rw [← List.append_assoc] at hx
    rcases List.mem_append.mp hx with hx | hx
    · exact g3 x hx
    · simp only [List.mem_singleton] at hx
      subst hx
      refine ⟨hfr, ?_, ?_, hfr.2⟩
      · simp only [patch, hdrBase]
        rw [field_zero_prefix _ _ (be64Bytes_length _)]
        exact toInt64_be64 _ hs.1 hs.2.1
      · rw [hlod', hbytes]; exact hlod.symm
  · exact hg

theorem good_commit {start : Int} {l : PLog} (m : Int) (h1 : SegChain start l.segs m) (h3 : l.s3 = l.segs)
    (hne : l.fl ≠ []) (hcm : Chain m (l.fl ++ l.buf) l.next) (hg : Good l) (hs : Small l) : Good (commit l) := by
  obtain ⟨g1, g2, g3, g4⟩ := hg
  obtain ⟨k, hk1, _⟩ := chain_append.mp hcm
  obtain ⟨hb, _⟩ := buildSegment_meta (iv := l.interval) hne hk1
  have hno : (l.s3.any fun x => x.base == (buildSegment l.interval l.fl).base) = false := by
    rw [h3, hb]
    apply Bool.eq_false_iff.mpr
    intro hany
    obtain ⟨x, hx, hxb⟩ := List.any_eq_true.mp hany
    have := segchain_bases h1 x hx
    have : x.base = m := by simpa using hxb
    omega
  have hs3 : (commit l).s3 = l.s3 ++ [buildSegment l.interval l.fl] := by
    simp only [commit, s3put, hno]; simp
  have hsmall : (body l.fl).length + 48 < 2147483648 := by
    have := hs.2.2
    rw [body_append] at this
    simp at this; omega
  have hbuilt : SegBuilt l.interval (buildSegment l.interval l.fl) :=
    ⟨rfl, rfl, rfl, fun b hb => g3 b (List.mem_append_left _ hb), hsmall⟩
  have hfresh : ∀ x ∈ l.segs, x.base ≠ (buildSegment l.interval l.fl).base := by
    intro x hx
    have := segchain_bases h1 x hx
    rw [hb]; omega
  refine ⟨?_, ⟨?_, ?_⟩, ?_, ?_⟩
  · intro x hx
    simp only [commit, List.mem_append, List.mem_singleton] at hx
    rcases hx with hx | rfl
    · exact g1 x hx
    · exact hbuilt
  · intro x hx
    rw [hs3]
    simp only [commit, List.mem_append, List.mem_singleton] at hx
    rcases hx with hx | rfl
    · exact s3get_append_left _ _ _ _ (g2.1 x hx)
    · exact s3get_append_new _ _ hno
  · intro x hx d hd
    simp only [commit, List.mem_append, List.mem_singleton] at hx
    simp only [commit] at hd
    by_cases hc : l.cacheOn = true
    · simp only [hc, if_true] at hd
      rcases hx with hx | rfl
      · rw [cacheGet_put_other _ _ _ _ (hfresh x hx)] at hd
        exact g2.2 x hx d hd
      · rw [cacheGet_put_same] at hd
        simpa using hd.symm
    · simp only [hc, Bool.false_eq_true, if_false] at hd
      rcases hx with hx | rfl
      · exact g2.2 x hx d hd
      · -- not cached by this commit, and no older entry can sit under the fresh base
        obtain ⟨e, he, heb⟩ := cacheGet_mem hd
        obtain ⟨x, hx, hxb⟩ := g4 e he
        exact absurd (hxb.trans heb) (hfresh x hx)
  · intro x hx
    simp only [commit, List.nil_append] at hx
    exact g3 x (List.mem_append_right _ hx)
  · intro e he
    simp only [commit] at he ⊢
    by_cases hc : l.cacheOn = true
    · simp only [hc, if_true, cachePut, List.mem_cons, List.mem_filter] at he
      rcases he with rfl | ⟨he, _⟩
      · exact ⟨_, by simp, rfl⟩
      · obtain ⟨x, hx, hxb⟩ := g4 e he
        exact ⟨x, by simp [hx], hxb⟩
    · simp only [hc, Bool.false_eq_true, if_false] at he
      obtain ⟨x, hx, hxb⟩ := g4 e he
      exact ⟨x, by simp [hx], hxb⟩

/-- the appended record set declares its batch length (every real Kafka client does) -/
def Declared : Op → Prop
  | .append d => hdrLen d ≠ 0
  | _ => True

theorem good_of_same {l l' : PLog} (hg : Good l) (h1 : l'.segs = l.segs) (h2 : l'.interval = l.interval)
    (h3 : l'.s3 = l.s3) (h4 : l'.cached = l.cached) (h5 : l'.fl ++ l'.buf = l.fl ++ l.buf) : Good l' := by
  obtain ⟨g1, g2, g3, g4⟩ := hg
  refine ⟨by rw [h1, h2]; exact g1, ⟨by rw [h1, h3]; exact g2.1, by rw [h1, h4]; exact g2.2⟩, by rw [h5]; exact g3, ?_⟩
  intro e he
  rw [h4] at he
  rw [h1]
  exact g4 e he

theorem good_restartAt {start : Int} {l : PLog} (st : Int) (hi : Inv start l) (hg : Good l) :
    Good (restartAt l st).1 := by
  obtain ⟨m, h1, h2, h3, h4, h5, h6, h7, h8⟩ := hi
  have hsort : sortSegs l.s3 = l.segs := by rw [h3]; exact sortSegs_id h1
  obtain ⟨g1, g2, g3, g4⟩ := hg
  unfold restartAt
  simp only [hsort]
  cases hl : l.segs.getLast? with
  | none =>
    have hnil : l.segs = [] := by simpa using hl
    refine ⟨by simp, ⟨by simp, by simp⟩, by simp, ?_⟩
    intro e he
    obtain ⟨x, hx, _⟩ := g4 e he
    rw [hnil] at hx; simp at hx
  | some g =>
    exact ⟨g1, ⟨g2.1, g2.2⟩, by simp, g4⟩

theorem good_step {start : Int} {l : PLog} (op : Op) (hi : Inv start l) (hg : Good l) (hs : Small l)
    (hd : Declared op) : Good (step l op) := by
  obtain ⟨m, h1, h2, h3, h4, h5, h6, h7, h8⟩ := hi
  have hi' : Inv start l := ⟨m, h1, h2, h3, h4, h5, h6, h7, h8⟩
  cases op with
  | append data =>
    simp only [step]
    split
    · exact hg
    · rename_i b hp
      exact good_append data b hp hd hg hs
  | flush =>
    simp only [step]
    by_cases hgt : l.gated = true
    · simp [hgt]; exact hg
    · have hgf : l.gated = false := by simpa using hgt
      have hfl := h4 hgf
      simp only [hgf, Bool.false_eq_true, if_false]
      unfold flush
      split
      · split
        · exact good_of_same hg rfl rfl rfl rfl rfl
        · exact hg
      · rename_i hemp
        have hb : l.buf ≠ [] := by simpa using hemp
        apply good_commit (start := start) m
        · exact h1
        · exact h3
        · simpa [prepare] using hb
        · simpa [prepare, hfl] using h2
        · exact good_of_same hg rfl rfl rfl rfl (by simp [prepare, hfl])
        · obtain ⟨s1, s2, s3⟩ := hs
          exact ⟨s1, s2, by simpa [prepare, hfl] using s3⟩
  | gate =>
    simp only [step]
    by_cases hgt : l.gated = true
    · simp [hgt]; exact hg
    · have hgf : l.gated = false := by simpa using hgt
      have hfl := h4 hgf
      simp only [hgf, Bool.false_eq_true, if_false]
      unfold gate
      split
      · unfold flush
        rename_i hemp
        simp only [hemp, if_true]
        split
        · exact good_of_same hg rfl rfl rfl rfl rfl
        · exact hg
      · exact good_of_same hg rfl rfl rfl rfl (by simp [prepare, hfl])
  | release =>
    simp only [step]
    by_cases hgt : l.gated = true
    · simp only [hgt, if_true]
      exact good_commit (start := start) m h1 h3 (h5 hgt) h2 hg hs
    · have hgf : l.gated = false := by simpa using hgt
      simp [hgf]; exact hg
  | restart =>
    simp only [step]
    split
    · exact hg
    · exact good_restartAt l.hw hi' hg
  | restartAt st =>
    simp only [step]
    split
    · exact hg
    · exact good_restartAt st hi' hg
  | read o mb =>
    simp only [step]
    rcases read_state l o mb with h | ⟨g, o', obj, hf, hs3, h⟩
    · rw [h]; exact hg
    · rw [h]
      have hgm := findSeg_mem hf
      obtain ⟨g1, g2, g3, g4⟩ := hg
      exact ⟨g1, coherent_cachePut g2 g hgm obj hs3, g3, cacheDom_put g4 g hgm obj⟩
  | dropcache =>
    simp only [step]
    obtain ⟨g1, g2, g3, g4⟩ := hg
    exact ⟨g1, ⟨g2.1, by intro x _ d hd; simp [cacheGet] at hd⟩, g3, by intro e he; simp at he⟩

/-- every state of the run is `Small` and every appended record set declares its length -/
def RunOK : PLog → List Op → Prop
  | l, [] => Small l
  | l, op :: t => Small l ∧ Declared op ∧ RunOK (step l op) t

/-- **Reachable states are good.** -/
theorem good_reach {start : Int} (l : PLog) (ops : List Op) (hi : Inv start l) (hg : Good l) (hr : RunOK l ops) :
    Inv start (ops.foldl step l) ∧ Good (ops.foldl step l) ∧ Small (ops.foldl step l) := by
  induction ops generalizing l with
  | nil => exact ⟨hi, hg, hr⟩
  | cons op t ih =>
    obtain ⟨hs, hd, hr'⟩ := hr
    exact ih (step l op) (inv_step op hi) (good_step op hi hg hs hd) hr'

end KafVerif.PLog
