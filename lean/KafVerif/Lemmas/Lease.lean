import KafVerif.Model.Lease
/-! Small facts about the lease-manager model shared by C18 and C19. -/
namespace KafVerif.Lease

@[simp] theorem setAcq_mgr (s : State) (b r : Nat) (p : Option PC) : (setAcq s b r p).mgr = s.mgr := rfl
@[simp] theorem setAcq_kv (s : State) (b r : Nat) (p : Option PC) : (setAcq s b r p).kv = s.kv := rfl
@[simp] theorem setAcq_live (s : State) (b r : Nat) (p : Option PC) : (setAcq s b r p).live = s.live := rfl
@[simp] theorem setMgr_kv (s : State) (b : Nat) (m : Mgr) : (setMgr s b m).kv = s.kv := rfl
@[simp] theorem setMgr_live (s : State) (b : Nat) (m : Mgr) : (setMgr s b m).live = s.live := rfl
@[simp] theorem setMgr_acq (s : State) (b : Nat) (m : Mgr) : (setMgr s b m).acq = s.acq := rfl
@[simp] theorem setMgr_self (s : State) (b : Nat) (m : Mgr) : (setMgr s b m).mgr b = m := by simp [setMgr]

/-- `Acquire` returns nil only in a state in which the resource is in the local ownership set:
either the entry check found it there, or the guarded insert has just put it there. -/
theorem acqStep_ok_owns (s : State) (b r : Nat) (pc : PC) (s' : State)
    (h : acqStep s b r pc = (s', some .ok)) : owns s' b r = true := by
  cases pc with
  | g1 => simp only [acqStep] at h; split at h <;> simp at h
  | grant => simp [acqStep] at h
  | g3 l =>
    simp only [acqStep] at h
    split at h
    · simp at h
    · split at h <;> simp at h
  | txn l =>
    simp only [acqStep] at h
    split at h
    · split at h <;> simp at h
    · split at h <;> simp at h
  | ins l v =>
    simp only [acqStep, insertStep] at h
    split at h
    · simp only [Prod.mk.injEq, and_true] at h
      subst h
      simp [owns, setOwned]
    · simp at h
  | mine l => simp [acqStep] at h
  | notMine => simp [acqStep] at h
  | errR => simp [acqStep] at h
  | re l =>
    simp only [acqStep] at h
    split at h
    · split at h
      · split at h <;> simp at h
      · simp at h
    · simp at h

theorem step_ok_owns (var : Variant) (s : State) (op : Op) (s' : State)
    (h : step var s op = (s', some .ok)) :
    ∃ b r, (op = .acquire b r ∨ op = .step b r) ∧ owns s' b r = true := by
  cases op with
  | acquire b r =>
    refine ⟨b, r, Or.inl rfl, ?_⟩
    simp only [step] at h
    split at h
    · simp at h
    · split at h
      · rename_i ho
        simp only [Prod.mk.injEq, and_true] at h
        subst h
        simpa [owns] using ho
      · split at h <;> simp at h
  | step b r =>
    refine ⟨b, r, Or.inr rfl, ?_⟩
    simp only [step] at h
    split at h
    · rename_i pc _
      exact acqStep_ok_owns s b r pc s' h
    · simp at h
  | abort b r => simp [step] at h
  | release b r => simp only [step] at h; split at h <;> simp at h
  | del i =>
    simp only [step] at h
    split at h
    · split at h
      · split at h <;> simp at h
      · simp at h
    · simp at h
  | dropDel i => simp [step] at h
  | releaseAll b => simp only [step] at h; split at h <;> simp at h
  | revoke i => simp only [step] at h; split at h <;> simp at h
  | dropRevoke i => simp [step] at h
  | sessionLost b => simp only [step] at h; split at h <;> simp at h
  | expire l => simp only [step] at h; split at h <;> simp at h
  | crash b => simp [step] at h

end KafVerif.Lease
