import KafVerif.Lemmas.LeaseInv
/-! Invariant preservation: the etcd transactions and locked regions of an in-flight `Acquire`
(one lemma per branch so that each stays within the default heartbeat budget). -/
namespace KafVerif.Lease

/-! ### getOrCreateSession lock 2 (`g3 l`) -/

theorem inv_g3_closed (s : State) (b r l : Nat) (h : Inv s) (hpc : s.acq b r = some (.g3 l)) :
    Inv (setAcq { s with live := fun x => if x = l then false else s.live x } b r none) := by
  simp only [setAcq]; inv_auto

theorem inv_g3_dup (s : State) (b r l l' : Nat) (h : Inv s) (hpc : s.acq b r = some (.g3 l))
    (hs : (s.mgr b).session = some l') :
    Inv (setAcq { s with live := fun x => if x = l then false else s.live x } b r (some (.txn l'))) := by
  simp only [setAcq]; inv_auto

theorem inv_g3_publish (s : State) (b r l : Nat) (h : Inv s) (hpc : s.acq b r = some (.g3 l))
    (hs : (s.mgr b).session = none) :
    Inv (setAcq (setMgr s b { s.mgr b with session := some l }) b r (some (.txn l))) := by
  simp only [setAcq, setMgr]; inv_auto

theorem inv_g3 (s : State) (b r l : Nat) (h : Inv s) (hpc : s.acq b r = some (.g3 l)) : Inv (acqStep s b r (.g3 l)).1 := by
  simp only [acqStep]
  split
  · exact inv_g3_closed s b r l h hpc
  · split
    · rename_i l' hs; exact inv_g3_dup s b r l l' h hpc hs
    · rename_i hs; exact inv_g3_publish s b r l h hpc hs

/-! ### the guarded insert (`ins l v`) -/

theorem inv_ins_ok (s : State) (b r l v : Nat) (h : Inv s) (hpc : s.acq b r = some (.ins l v))
    (hs : (s.mgr b).session = some l) :
    Inv (setAcq (setMgr s b (setOwned (s.mgr b) r (some v))) b r none) := by
  simp only [setAcq, setMgr, setOwned]; inv_auto

theorem inv_drop (s : State) (b r : Nat) (h : Inv s) : Inv (setAcq s b r none) := by
  simp only [setAcq]; inv_auto

theorem inv_ins (s : State) (b r l v : Nat) (h : Inv s) (hpc : s.acq b r = some (.ins l v)) :
    Inv (acqStep s b r (.ins l v)).1 := by
  simp only [acqStep, insertStep]
  split
  · rename_i hs; exact inv_ins_ok s b r l v h hpc hs
  · exact inv_drop s b r h

/-! ### the create-if-absent transaction (`txn l`) and the reacquire transaction (`re l`) -/

theorem inv_put (s : State) (b r l : Nat) (pc : PC) (h : Inv s) (hpc : s.acq b r = some pc) (hl : pcLease pc = some l)
    (hnot : ∀ l' v', pc ≠ .ins l' v') (hg3 : ∀ l', pc ≠ .g3 l')
    (hkv : s.kv r = none ∨ ∃ k, s.kv r = some k ∧ k.owner = b) (hlive : s.live l = true) :
    Inv (setAcq { setKV s r (some ⟨b, l, s.rev + 1⟩) with rev := s.rev + 1 } b r (some (.ins l (s.rev + 1)))) := by
  simp only [setAcq, setKV]; inv_auto

theorem inv_setpc (s : State) (b r : Nat) (pc pc' : PC) (h : Inv s) (hpc : s.acq b r = some pc)
    (hl : pcLease pc' = none ∨ (pcLease pc' = pcLease pc ∧ (∀ l', pc ≠ .g3 l'))) (hnot : ∀ l' v', pc' ≠ .ins l' v') (hg3 : ∀ l', pc' ≠ .g3 l') :
    Inv (setAcq s b r (some pc')) := by
  simp only [setAcq]; inv_auto

theorem inv_txn (s : State) (b r l : Nat) (h : Inv s) (hpc : s.acq b r = some (.txn l)) :
    Inv (acqStep s b r (.txn l)).1 := by
  simp only [acqStep]
  split
  · rename_i hkv
    split
    · rename_i hlive
      exact inv_put s b r l (.txn l) h hpc rfl (by simp) (by simp) (Or.inl hkv) hlive
    · exact inv_setpc s b r (.txn l) .errR h hpc (Or.inl rfl) (by simp) (by simp)
  · split
    · exact inv_setpc s b r (.txn l) (.mine l) h hpc (Or.inr ⟨rfl, by simp⟩) (by simp) (by simp)
    · exact inv_setpc s b r (.txn l) .notMine h hpc (Or.inl rfl) (by simp) (by simp)

theorem inv_re (s : State) (b r l : Nat) (h : Inv s) (hpc : s.acq b r = some (.re l)) :
    Inv (acqStep s b r (.re l)).1 := by
  simp only [acqStep]
  split
  · rename_i k hkv
    split
    · rename_i hown
      split
      · rename_i hlive
        exact inv_put s b r l (.re l) h hpc rfl (by simp) (by simp) (Or.inr ⟨k, hkv, hown⟩) hlive
      · exact inv_setpc s b r (.re l) .errR h hpc (Or.inl rfl) (by simp) (by simp)
    · exact inv_setpc s b r (.re l) .notMine h hpc (Or.inl rfl) (by simp) (by simp)
  · exact inv_setpc s b r (.re l) .notMine h hpc (Or.inl rfl) (by simp) (by simp)

end KafVerif.Lease
