import KafVerif.Model.StorageLog
/-!
Invariant of the `StorageLog` transition system (fixed variant) and the lemmas the C01 / C05 / C06
theorems are derived from.  Core Lean only.
-/
namespace KafVerif.StorageLog

/-! ### contiguous batch lists and segment chains -/

/-- batches are consecutive from offset `a` to offset `e`, each covering ≥ 1 offset and carrying a
non-empty payload (all `AppendBatch` lets in: `1 ≤ n`, `8 ≤ len`) -/
def Contig : List Batch → Nat → Nat → Prop
  | [], a, e => a = e
  | b :: bs, a, e => b.base = a ∧ (1 ≤ b.n ∧ 1 ≤ b.len) ∧ Contig bs (a + b.n) e

/-- segment ranges `(base, end)` are non-empty and consecutive from `a` to `e` -/
def Chain : List (Nat × Nat) → Nat → Nat → Prop
  | [], a, e => a = e
  | p :: ps, a, e => p.1 = a ∧ p.1 < p.2 ∧ Chain ps p.2 e

theorem Contig_append {xs ys : List Batch} {a e : Nat} :
    Contig (xs ++ ys) a e ↔ ∃ m, Contig xs a m ∧ Contig ys m e := by
  induction xs generalizing a with
  | nil => simp [Contig]
  | cons x xs ih =>
    simp only [List.cons_append, Contig, ih]
    constructor
    · rintro ⟨h1, h2, m, h3, h4⟩; exact ⟨m, ⟨h1, h2, h3⟩, h4⟩
    · rintro ⟨m, ⟨h1, h2, h3⟩, h4⟩; exact ⟨h1, h2, m, h3, h4⟩

theorem Contig_le {xs : List Batch} {a e : Nat} (h : Contig xs a e) : a ≤ e := by
  induction xs generalizing a with
  | nil => simp [Contig] at h; omega
  | cons x xs ih => obtain ⟨_, _, h3⟩ := h; have := ih h3; omega

theorem Contig_lt {xs : List Batch} {a e : Nat} (h : Contig xs a e) (hne : xs ≠ []) : a < e := by
  cases xs with
  | nil => exact absurd rfl hne
  | cons x xs => obtain ⟨_, h2, h3⟩ := h; have := Contig_le h3; omega

theorem Contig_endOf {xs : List Batch} {a e : Nat} (h : Contig xs a e) (hne : xs ≠ []) : endOf xs = e := by
  induction xs generalizing a with
  | nil => exact absurd rfl hne
  | cons x xs ih =>
    obtain ⟨h1, h2, h3⟩ := h
    cases xs with
    | nil => simp [Contig] at h3; simp [endOf, Batch.endOff]; omega
    | cons y ys => simp only [endOf]; exact ih h3 (by simp)

theorem Contig_baseOf {xs : List Batch} {a e : Nat} (h : Contig xs a e) (hne : xs ≠ []) : baseOf xs = a := by
  cases xs with
  | nil => exact absurd rfl hne
  | cons x xs => exact h.1

/-- a member of a contiguous list lies inside its range -/
theorem Contig_mem {xs : List Batch} {a e : Nat} (h : Contig xs a e) {b : Batch} (hb : b ∈ xs) :
    a ≤ b.base ∧ b.base + b.n ≤ e ∧ 1 ≤ b.n := by
  induction xs generalizing a with
  | nil => cases hb
  | cons x xs ih =>
    obtain ⟨h1, h2, h3⟩ := h
    rcases List.mem_cons.mp hb with rfl | hb
    · have := Contig_le h3; omega
    · have := ih h3 hb; omega

/-- every member has a non-empty payload -/
theorem Contig_len {xs : List Batch} {a e : Nat} (h : Contig xs a e) {b : Batch} (hb : b ∈ xs) : 1 ≤ b.len := by
  induction xs generalizing a with
  | nil => cases hb
  | cons x xs ih =>
    obtain ⟨_, h2, h3⟩ := h
    rcases List.mem_cons.mp hb with rfl | hb
    · exact h2.2
    · exact ih h3 hb

/-- **`BuildSegment` is total on what `AppendBatch` accepted** (the source's rule, `strict = false`):
a non-empty list of batches with non-empty payloads is never rejected. -/
theorem buildOk_of_lens {bs : List Batch} (hne : bs ≠ []) (hl : ∀ b ∈ bs, 1 ≤ b.len) : buildOk false bs = true := by
  cases bs with
  | nil => exact absurd rfl hne
  | cons x xs =>
    simp only [buildOk, List.isEmpty_cons, Bool.not_false, Bool.true_and, Bool.not_false, Bool.true_or, Bool.and_true,
      List.all_eq_true, decide_eq_true_eq]
    intro b hb; exact hl b hb

theorem buildOk_of_contig {bs : List Batch} {a e : Nat} (hne : bs ≠ []) (h : Contig bs a e) : buildOk false bs = true :=
  buildOk_of_lens hne (fun _ hb => Contig_len h hb)

/-- the variants the ∀-theorems are about: the three repairs are in, and `BuildSegment` either keeps to
the source's rule (then it cannot fail on accepted batches) or the error exit of `prepareFlush` re-queues -/
structure Sound (v : Variant) : Prop where
  requeue : v.requeue = true
  atomicTarget : v.atomicTarget = true
  monotone : v.monotone = true
  build : v.strictBuild = false ∨ v.requeueBuild = true

theorem sound_fixed : Sound fixed := ⟨rfl, rfl, rfl, Or.inl rfl⟩

/-- every offset of the range is covered by a member -/
theorem Contig_cover {xs : List Batch} {a e : Nat} (h : Contig xs a e) {o : Nat} (h1 : a ≤ o) (h2 : o < e) :
    ∃ b ∈ xs, b.base ≤ o ∧ o < b.endOff := by
  induction xs generalizing a with
  | nil => simp [Contig] at h; omega
  | cons x xs ih =>
    obtain ⟨hx1, hx2, hx3⟩ := h
    by_cases ho : o < a + x.n
    · exact ⟨x, List.mem_cons_self, by omega, by simp [Batch.endOff]; omega⟩
    · obtain ⟨b, hb, hb'⟩ := ih hx3 (by omega)
      exact ⟨b, List.mem_cons_of_mem _ hb, hb'⟩

theorem Chain_append {xs ys : List (Nat × Nat)} {a e : Nat} :
    Chain (xs ++ ys) a e ↔ ∃ m, Chain xs a m ∧ Chain ys m e := by
  induction xs generalizing a with
  | nil => simp [Chain]
  | cons x xs ih =>
    simp only [List.cons_append, Chain, ih]
    constructor
    · rintro ⟨h1, h2, m, h3, h4⟩; exact ⟨m, ⟨h1, h2, h3⟩, h4⟩
    · rintro ⟨m, ⟨h1, h2, h3⟩, h4⟩; exact ⟨h1, h2, m, h3, h4⟩

theorem Chain_le {xs : List (Nat × Nat)} {a e : Nat} (h : Chain xs a e) : a ≤ e := by
  induction xs generalizing a with
  | nil => simp [Chain] at h; omega
  | cons x xs ih => obtain ⟨h1, h2, h3⟩ := h; have := ih h3; omega

theorem Chain_mem {xs : List (Nat × Nat)} {a e : Nat} (h : Chain xs a e) {p : Nat × Nat} (hp : p ∈ xs) :
    a ≤ p.1 ∧ p.1 < p.2 ∧ p.2 ≤ e := by
  induction xs generalizing a with
  | nil => cases hp
  | cons x xs ih =>
    obtain ⟨h1, h2, h3⟩ := h
    rcases List.mem_cons.mp hp with rfl | hp
    · have := Chain_le h3; omega
    · have := ih h3 hp; omega

theorem Chain_cover {xs : List (Nat × Nat)} {a e : Nat} (h : Chain xs a e) {o : Nat} (h1 : a ≤ o) (h2 : o < e) :
    ∃ p ∈ xs, p.1 ≤ o ∧ o < p.2 := by
  induction xs generalizing a with
  | nil => simp [Chain] at h; omega
  | cons x xs ih =>
    obtain ⟨hx1, hx2, hx3⟩ := h
    by_cases ho : o < x.2
    · exact ⟨x, List.mem_cons_self, by omega, ho⟩
    · obtain ⟨p, hp, hp'⟩ := ih hx3 (by omega)
      exact ⟨p, List.mem_cons_of_mem _ hp, hp'⟩

theorem segEnd_append_singleton (l : List (Nat × Nat)) (p : Nat × Nat) : segEnd (l ++ [p]) = p.2 := by
  simp [segEnd]

theorem Chain_segEnd {xs : List (Nat × Nat)} {e : Nat} (h : Chain xs 0 e) : segEnd xs = e := by
  rcases List.eq_nil_or_concat xs with rfl | ⟨l, p, rfl⟩
  · simp [Chain] at h; simp [segEnd]; omega
  · simp only [List.concat_eq_append] at *
    rw [segEnd_append_singleton]
    obtain ⟨m, _, h2⟩ := Chain_append.mp h
    simp [Chain] at h2
    omega


/-! ### the invariant -/

abbrev S3 := Nat → Option (List Batch)

/-- batch `b` is in the S3 object of a registered segment that covers its base offset, and that
segment's index object exists (= `Readable`) -/
def Comm (segs idxs : S3) (L : List (Nat × Nat)) (b : Batch) : Prop :=
  ∃ p ∈ L, p.1 ≤ b.base ∧ b.base < p.2 ∧ ∃ o, segs p.1 = some o ∧ b ∈ o ∧ (idxs p.1).isSome = true

theorem Readable_iff (s : State) (m : Mem) (b : Batch) : Readable s m b ↔ Comm s.segs s.idxs m.segments b := Iff.rfl

/-- the S3 / store / acked part, relative to a list `L` of registered segments -/
structure Core (segs idxs : S3) (kb hw : Nat) (acked : List Batch) (L : List (Nat × Nat)) : Prop where
  keys : ∀ k, kb ≤ k → segs k = none ∧ idxs k = none
  wf : ∀ k o, segs k = some o → o ≠ [] ∧ Contig o k (endOf o)
  chain : Chain L 0 (segEnd L)
  objs : ∀ p ∈ L, ∃ o, segs p.1 = some o ∧ endOf o = p.2 ∧ (idxs p.1).isSome = true
  below : ∀ k, ((segs k).isSome = true ∨ (idxs k).isSome = true) →
    k ≤ segEnd L ∧ (k < segEnd L → ∃ p ∈ L, p.1 = k)
  hw : hw ≤ segEnd L
  acked : ∀ b ∈ acked, Comm segs idxs L b

def Live (segs idxs : S3) (m : Mem) (b : Batch) : Prop :=
  b ∈ m.inflight ∨ b ∈ m.buffer ∨ Comm segs idxs m.segments b

def PcOk (segs idxs : S3) (m : Mem) : Pc → Prop
  | .idle => True
  | .appended b => Live segs idxs m b
  | .waitF b => Live segs idxs m b
  | .emptyF _ => False
  | .acked _ => True
  | .failed _ => True
  | .pub inA b h => h ≤ segEnd m.segments ∧
      (if inA = true then Live segs idxs m b else Comm segs idxs m.segments b)
  | .up inA b art sg ix => m.flushing = true ∧ art = m.inflight ∧
      (sg = some true → segs (baseOf art) = some art) ∧
      (ix = some true → (idxs (baseOf art)).isSome = true) ∧
      (if inA = true then Live segs idxs m b else (b ∈ m.inflight ∨ Comm segs idxs m.segments b))

def isUp : Pc → Bool
  | .up .. => true
  | _ => false

structure MemInv (s : State) (m : Mem) : Prop where
  core : Core s.segs s.idxs s.kb s.hw s.acked m.segments
  contig : Contig (m.inflight ++ m.buffer) (segEnd m.segments) m.next
  infl : m.flushing = false → m.inflight = []
  infl' : m.flushing = true → m.inflight ≠ []
  pcs : ∀ t, PcOk s.segs s.idxs m (s.pcs t)
  uniq : ∀ t t', isUp (s.pcs t) = true → isUp (s.pcs t') = true → t = t'

def Inv (s : State) : Prop :=
  match s.mem with
  | some m => MemInv s m
  | none => (∃ L, Core s.segs s.idxs s.kb s.hw s.acked L) ∧ ∀ t, s.pcs t = .idle

/-! ### monotonicity of the per-thread facts -/

theorem Comm_append {segs idxs : S3} {L : List (Nat × Nat)} (x : List (Nat × Nat)) {b : Batch}
    (h : Comm segs idxs L b) : Comm segs idxs (L ++ x) b := by
  obtain ⟨p, hp, r⟩ := h
  exact ⟨p, List.mem_append_left _ hp, r⟩

theorem Comm_put_seg {segs idxs : S3} {L : List (Nat × Nat)} {k : Nat} {o : List Batch} {b : Batch}
    (hk : ∀ p ∈ L, p.1 ≠ k) (h : Comm segs idxs L b) : Comm (put segs k o) idxs L b := by
  obtain ⟨p, hp, h1, h2, o', h3, h4, h5⟩ := h
  refine ⟨p, hp, h1, h2, o', ?_, h4, h5⟩
  simp [put, hk p hp, h3]

theorem Comm_put_idx {segs idxs : S3} {L : List (Nat × Nat)} {k : Nat} {o : List Batch} {b : Batch}
    (h : Comm segs idxs L b) : Comm segs (put idxs k o) L b := by
  obtain ⟨p, hp, h1, h2, o', h3, h4, h5⟩ := h
  refine ⟨p, hp, h1, h2, o', h3, h4, ?_⟩
  simp only [put]; split <;> simp_all

/-- generic transfer of `PcOk` for a thread that is not uploading -/
theorem PcOk_mono_nonup {segs idxs segs' idxs' : S3} {m m' : Mem} {pc : Pc}
    (hup : isUp pc = false)
    (hL : ∀ b, Live segs idxs m b → Live segs' idxs' m' b)
    (hC : ∀ b, Comm segs idxs m.segments b → Comm segs' idxs' m'.segments b)
    (hE : segEnd m.segments ≤ segEnd m'.segments)
    (h : PcOk segs idxs m pc) : PcOk segs' idxs' m' pc := by
  cases pc with
  | idle => trivial
  | appended b => exact hL b h
  | waitF b => exact hL b h
  | emptyF b => exact h
  | acked b => trivial
  | failed b => trivial
  | pub inA b hh =>
    obtain ⟨h1, h2⟩ := h
    refine ⟨Nat.le_trans h1 hE, ?_⟩
    cases inA <;> simp at h2 ⊢
    · exact hC b h2
    · exact hL b h2
  | up inA b art sg ix => simp [isUp] at hup

/-- transfer of `PcOk` when the flushing state and S3 did not change -/
theorem PcOk_mono_same {segs idxs : S3} {m m' : Mem} {pc : Pc}
    (hf : m'.flushing = m.flushing) (hi : m'.inflight = m.inflight) (hs : m'.segments = m.segments)
    (hb : ∀ b, b ∈ m.buffer → b ∈ m'.buffer)
    (h : PcOk segs idxs m pc) : PcOk segs idxs m' pc := by
  have hL : ∀ b, Live segs idxs m b → Live segs idxs m' b := by
    intro b hb'
    rcases hb' with h1 | h1 | h1
    · exact Or.inl (hi ▸ h1)
    · exact Or.inr (Or.inl (hb b h1))
    · exact Or.inr (Or.inr (hs ▸ h1))
  cases pc with
  | up inA b art sg ix =>
    obtain ⟨h1, h2, h3, h4, h5⟩ := h
    refine ⟨hf ▸ h1, hi ▸ h2, h3, h4, ?_⟩
    cases inA <;> simp at h5 ⊢
    · rcases h5 with h5 | h5
      · exact Or.inl (hi ▸ h5)
      · exact Or.inr (hs ▸ h5)
    · exact hL b h5
  | _ =>
    exact PcOk_mono_nonup (by simp [isUp]) hL (fun b hb => hs ▸ hb) (by rw [hs]; exact Nat.le_refl _) h

/-! ### preservation, event by event -/


@[simp] theorem setPc_segs (s : State) (t : Nat) (pc : Pc) : (setPc s t pc).segs = s.segs := rfl
@[simp] theorem setPc_idxs (s : State) (t : Nat) (pc : Pc) : (setPc s t pc).idxs = s.idxs := rfl
@[simp] theorem setPc_kb (s : State) (t : Nat) (pc : Pc) : (setPc s t pc).kb = s.kb := rfl
@[simp] theorem setPc_hw (s : State) (t : Nat) (pc : Pc) : (setPc s t pc).hw = s.hw := rfl
@[simp] theorem setPc_acked (s : State) (t : Nat) (pc : Pc) : (setPc s t pc).acked = s.acked := rfl
@[simp] theorem setPc_mem (s : State) (t : Nat) (pc : Pc) : (setPc s t pc).mem = s.mem := rfl
@[simp] theorem setPc_pcs (s : State) (t : Nat) (pc : Pc) : (setPc s t pc).pcs = fun t' => if t' = t then pc else s.pcs t' := rfl

@[simp] theorem ackNow_segs (s : State) (t : Nat) (b : Batch) : (ackNow s t b).segs = s.segs := rfl
@[simp] theorem ackNow_idxs (s : State) (t : Nat) (b : Batch) : (ackNow s t b).idxs = s.idxs := rfl
@[simp] theorem ackNow_kb (s : State) (t : Nat) (b : Batch) : (ackNow s t b).kb = s.kb := rfl
@[simp] theorem ackNow_hw (s : State) (t : Nat) (b : Batch) : (ackNow s t b).hw = s.hw := rfl
@[simp] theorem ackNow_acked (s : State) (t : Nat) (b : Batch) : (ackNow s t b).acked = b :: s.acked := rfl
@[simp] theorem ackNow_mem (s : State) (t : Nat) (b : Batch) : (ackNow s t b).mem = s.mem := rfl
@[simp] theorem ackNow_pcs (s : State) (t : Nat) (b : Batch) : (ackNow s t b).pcs = fun t' => if t' = t then .acked b else s.pcs t' := rfl

def Uniq (pcs : Nat → Pc) : Prop := ∀ t t', isUp (pcs t) = true → isUp (pcs t') = true → t = t'

theorem pcs_set {segs idxs : S3} {m : Mem} {pcs : Nat → Pc} {t : Nat} {pc : Pc}
    (h : ∀ t', t' ≠ t → PcOk segs idxs m (pcs t')) (hpc : PcOk segs idxs m pc) :
    ∀ t', PcOk segs idxs m (if t' = t then pc else pcs t') := by
  intro t'
  by_cases ht : t' = t
  · simp [ht, hpc]
  · simp [ht, h t' ht]

theorem uniq_set_nonup {pcs : Nat → Pc} {t : Nat} {pc : Pc}
    (hu : ∀ t t', isUp (pcs t) = true → isUp (pcs t') = true → t = t') (hpc : isUp pc = false) :
    ∀ a b, isUp (if a = t then pc else pcs a) = true → isUp (if b = t then pc else pcs b) = true → a = b := by
  intro a b ha hb
  by_cases h1 : a = t <;> by_cases h2 : b = t <;> simp [h1, h2, hpc] at ha hb
  exact hu a b ha hb

theorem uniq_set_up {pcs : Nat → Pc} {t : Nat} {pc : Pc}
    (hnone : ∀ t', t' ≠ t → isUp (pcs t') = false) :
    ∀ a b, isUp (if a = t then pc else pcs a) = true → isUp (if b = t then pc else pcs b) = true → a = b := by
  intro a b ha hb
  by_cases h1 : a = t <;> by_cases h2 : b = t <;> simp [h1, h2] at ha hb
  · omega
  · simp [hnone b h2] at hb
  · simp [hnone a h1] at ha
  · simp [hnone a h1] at ha

/-- nobody is uploading when `flushing` is false -/
theorem no_up_of_not_flushing {s : State} {m : Mem} (hi : MemInv s m) (hf : m.flushing = false) (t : Nat) :
    isUp (s.pcs t) = false := by
  have := hi.pcs t
  cases h : s.pcs t with
  | up inA b art sg ix => rw [h] at this; simp [PcOk, hf] at this
  | _ => simp [isUp]

theorem Core_ack {segs idxs : S3} {kb hw : Nat} {acked : List Batch} {L : List (Nat × Nat)} {b : Batch}
    (h : Core segs idxs kb hw acked L) (hc : Comm segs idxs L b) : Core segs idxs kb hw (b :: acked) L := by
  have ha : ∀ b' ∈ b :: acked, Comm segs idxs L b' := by
    intro b' hb'
    rcases List.mem_cons.mp hb' with rfl | hb'
    · exact hc
    · exact h.acked b' hb'
  exact { h with acked := ha }

theorem inv_of {s' : State} {m' : Mem} (hm : s'.mem = some m') (h : MemInv s' m') : Inv s' := by
  simp only [Inv, hm]; exact h

/-- a `BuildSegment` failure on batches `AppendBatch` accepted happens only in shapes that re-queue -/
theorem requeue_of_buildFails {v : Variant} (hv : Sound v) {fault : Bool} {bs : List Batch} {a e : Nat}
    (hne : bs ≠ []) (hc : Contig bs a e) (h : buildFails v fault bs = true) : v.requeueBuild = true := by
  rcases hv.build with h1 | h1
  · simp [buildFails, h1, buildOk_of_contig hne hc] at h; exact h.1
  · exact h1

theorem inv_flushEnter {v : Variant} (hv : Sound v) {s : State} {m : Mem} {t : Nat} {b : Batch} (hm : s.mem = some m) (hi : MemInv s m)
    (hlive : Live s.segs s.idxs m b) :
    Inv (flushEnter v s m t b) := by
  unfold flushEnter
  by_cases hf : m.flushing = true
  · simp only [hf, if_true]
    refine inv_of (m' := m) (by simp [setPc, hm]) ?_
    exact { core := hi.core, contig := hi.contig, infl := hi.infl, infl' := hi.infl',
            pcs := pcs_set (fun t' _ => hi.pcs t') hlive,
            uniq := uniq_set_nonup hi.uniq (by simp [isUp]) }
  · have hf' : m.flushing = false := by simpa using hf
    have hinf : m.inflight = [] := hi.infl hf'
    simp only [hf', Bool.false_eq_true, if_false, prepareFlush]
    cases hbuf : m.buffer with
    | nil =>
      simp only [hv.atomicTarget, if_true, emptyTarget]
      have hE : segEnd m.segments = m.next := by
        have := hi.contig; rw [hinf, hbuf] at this; simpa [Contig] using this
      have hc : Comm s.segs s.idxs m.segments b := by
        rcases hlive with h | h | h
        · rw [hinf] at h; cases h
        · rw [hbuf] at h; cases h
        · exact h
      by_cases hn : 1 ≤ m.next
      · simp only [hn, if_true]
        refine inv_of (m' := m) (by simp [setPc, hm]) ?_
        exact { core := hi.core, contig := hi.contig, infl := hi.infl, infl' := hi.infl',
                pcs := pcs_set (fun t' _ => hi.pcs t') ⟨by omega, by simp; exact hc⟩,
                uniq := uniq_set_nonup hi.uniq (by simp [isUp]) }
      · simp only [hn, if_false]
        refine inv_of (m' := m) (by simp [ackNow, setPc, hm]) ?_
        exact { core := Core_ack hi.core hc,
                contig := hi.contig, infl := hi.infl, infl' := hi.infl',
                pcs := pcs_set (fun t' _ => hi.pcs t') trivial,
                uniq := uniq_set_nonup hi.uniq (by simp [isUp]) }
    | cons b0 bs =>
      have hcb : Contig (b0 :: bs) (segEnd m.segments) m.next := by
        have := hi.contig; rw [hinf, hbuf] at this; simpa using this
      by_cases hbf : buildFails v s.fault (b0 :: bs) = true
      · -- BuildSegment failed: only in a shape whose error exit re-queues; Flush returns the error
        have hrq := requeue_of_buildFails hv (by simp) hcb hbf
        simp only [hbf, if_true, hrq]
        have hmm : ({ next := m.next, buffer := b0 :: bs, flushing := false, inflight := m.inflight, segments := m.segments } : Mem) = m := by
          cases m; simp_all
        rw [hmm]
        refine inv_of (m' := m) (by simp) ?_
        exact { core := hi.core, contig := hi.contig, infl := hi.infl, infl' := hi.infl',
                pcs := pcs_set (fun t' _ => hi.pcs t') trivial,
                uniq := uniq_set_nonup hi.uniq (by simp [isUp]) }
      simp only [hbf]
      have hnone := no_up_of_not_flushing hi hf'
      let m' : Mem := { m with buffer := [], flushing := true, inflight := b0 :: bs }
      refine inv_of (m' := m') (by simp [m']) ?_
      have hcontig : Contig (m'.inflight ++ m'.buffer) (segEnd m'.segments) m'.next := by
        simpa [m'] using hcb
      have hL : ∀ b', Live s.segs s.idxs m b' → Live s.segs s.idxs m' b' := by
        intro b' hb'
        rcases hb' with h | h | h
        · rw [hinf] at h; cases h
        · exact Or.inl (by rw [hbuf] at h; exact h)
        · exact Or.inr (Or.inr h)
      have hpc : PcOk s.segs s.idxs m' (.up false b (b0 :: bs) none none) := by
        refine ⟨rfl, rfl, by simp, by simp, ?_⟩
        rcases hL b hlive with h | h | h
        · simp; exact Or.inl (by simpa [m'] using h)
        · simp [m'] at h
        · simp; exact Or.inr h
      exact { core := hi.core, contig := hcontig, infl := by simp [m'], infl' := by simp [m'],
              pcs := pcs_set (fun t' _ => PcOk_mono_nonup (m := m) (m' := m') (hnone t') hL (fun b h => h) (Nat.le_refl _) (hi.pcs t')) hpc,
              uniq := uniq_set_up (fun t' _ => hnone t') }

theorem Core_hw {segs idxs : S3} {kb hw hw' : Nat} {acked : List Batch} {L : List (Nat × Nat)}
    (h : Core segs idxs kb hw acked L) (hh : hw' ≤ segEnd L) : Core segs idxs kb hw' acked L :=
  { h with hw := hh }

theorem storePut_sound {v : Variant} (hv : Sound v) (hw h : Nat) : storePut v hw h = max hw h := by simp [storePut, hv.monotone]
theorem storePut_fixed (hw h : Nat) : storePut fixed hw h = max hw h := storePut_sound sound_fixed hw h

/-- when the broker is down every thread is idle -/
theorem pc_idle_of_down {s : State} (hi : Inv s) (hm : s.mem = none) (t : Nat) : s.pcs t = .idle := by
  simp only [Inv, hm] at hi; exact hi.2 t

theorem memInv_of {s : State} {m : Mem} (hi : Inv s) (hm : s.mem = some m) : MemInv s m := by
  simp only [Inv, hm] at hi; exact hi

theorem inv_pub {v : Variant} (hv : Sound v) {s s' : State} {t : Nat} {ok : Bool} (hi : Inv s) (h : step v s (.pub t ok) = some s') : Inv s' := by
  simp only [step] at h
  split at h
  case h_2 => simp at h
  case h_1 inA b hh hpc =>
    cases hmem : s.mem with
    | none => have := pc_idle_of_down hi hmem t; rw [hpc] at this; cases this
    | some m =>
      have mi := memInv_of hi hmem
      have hok := mi.pcs t
      rw [hpc] at hok
      obtain ⟨hE, hb⟩ := hok
      simp only [Option.some.injEq] at h
      subst h
      -- the store update
      let s1 : State := if ok = true then { s with hw := storePut v s.hw hh } else s
      have hs1 : MemInv s1 m := by
        by_cases hk : ok = true
        · simp only [s1, hk, if_true]
          exact { core := Core_hw (hw' := storePut v s.hw hh) mi.core (by rw [storePut_sound hv]; exact Nat.max_le.mpr ⟨mi.core.hw, hE⟩),
                  contig := mi.contig, infl := mi.infl, infl' := mi.infl', pcs := mi.pcs, uniq := mi.uniq }
        · simp only [s1, hk]; exact mi
      have hm1 : s1.mem = some m := by
        by_cases hk : ok = true <;> simp [s1, hk, hmem]
      show Inv (if inA = true then setPc s1 t (.appended b) else ackNow s1 t b)
      have hseg : s1.segs = s.segs := by by_cases hk : ok = true <;> simp [s1, hk]
      have hidx : s1.idxs = s.idxs := by by_cases hk : ok = true <;> simp [s1, hk]
      cases inA with
      | true =>
        simp only [if_true]
        refine inv_of (m' := m) (by simp [hm1]) ?_
        simp at hb
        exact { core := hs1.core, contig := hs1.contig, infl := hs1.infl, infl' := hs1.infl',
                pcs := pcs_set (fun t' _ => hs1.pcs t') (by simp [PcOk, hseg, hidx]; exact hb),
                uniq := uniq_set_nonup hs1.uniq (by simp [isUp]) }
      | false =>
        simp only [Bool.false_eq_true, if_false]
        simp at hb
        refine inv_of (m' := m) (by simp [hm1]) ?_
        exact { core := Core_ack (b := b) hs1.core (by simp only [ackNow_segs, ackNow_idxs, hseg, hidx]; exact hb),
                contig := hs1.contig, infl := hs1.infl, infl' := hs1.infl',
                pcs := pcs_set (fun t' _ => hs1.pcs t') trivial,
                uniq := uniq_set_nonup hs1.uniq (by simp [isUp]) }

theorem MemInv_congr {s s' : State} {m : Mem} (h : MemInv s m) (h1 : s'.segs = s.segs) (h2 : s'.idxs = s.idxs)
    (h3 : s'.kb = s.kb) (h4 : s'.hw = s.hw) (h5 : s'.acked = s.acked) (h6 : ∀ t, s'.pcs t = s.pcs t) :
    MemInv s' m := by
  refine { core := ?_, contig := h.contig, infl := h.infl, infl' := h.infl', pcs := ?_, uniq := ?_ }
  · rw [h1, h2, h3, h4, h5]; exact h.core
  · intro t; rw [h1, h2, h6]; exact h.pcs t
  · intro t t'; rw [h6, h6]; exact h.uniq t t'

theorem prepareFlush_cases (v : Variant) (fault : Bool) (m : Mem) :
    (prepareFlush v fault m = (m, .none) ∧ (m.flushing = true ∨ m.buffer = [])) ∨
    (m.flushing = false ∧ ∃ b0 bs, m.buffer = b0 :: bs ∧ buildFails v fault (b0 :: bs) = false ∧
      prepareFlush v fault m = ({ m with buffer := [], flushing := true, inflight := b0 :: bs }, .art (b0 :: bs))) ∨
    (m.flushing = false ∧ ∃ b0 bs, m.buffer = b0 :: bs ∧ buildFails v fault (b0 :: bs) = true ∧
      prepareFlush v fault m = ({ m with buffer := if v.requeueBuild then b0 :: bs else [] }, .err)) := by
  unfold prepareFlush
  by_cases hf : m.flushing = true
  · simp [hf]
  · have hf' : m.flushing = false := by simpa using hf
    cases hb : m.buffer with
    | nil => simp [hf']
    | cons b0 bs =>
      by_cases hbf : buildFails v fault (b0 :: bs) = true
      · simp only [hf', Bool.false_eq_true, if_false, hbf, if_true]
        exact Or.inr (Or.inr ⟨trivial, b0, bs, rfl, hbf, rfl⟩)
      · have hbf' : buildFails v fault (b0 :: bs) = false := by simpa using hbf
        simp only [hf', Bool.false_eq_true, if_false, hbf']
        exact Or.inr (Or.inl ⟨trivial, b0, bs, rfl, hbf', rfl⟩)

/-- a thread that is not uploading starts a flush: the whole buffer becomes the in-flight artifact -/
theorem memInv_drain {s s' : State} {m : Mem} {t : Nat} {b b0 : Batch} {bs : List Batch} {inA : Bool}
    (hi : MemInv s m) (hf : m.flushing = false) (hbuf : m.buffer = b0 :: bs)
    (hlive : Live s.segs s.idxs m b)
    (h1 : s'.segs = s.segs) (h2 : s'.idxs = s.idxs) (h3 : s'.kb = s.kb) (h4 : s'.hw = s.hw)
    (h5 : s'.acked = s.acked)
    (h6 : ∀ t', s'.pcs t' = if t' = t then .up inA b (b0 :: bs) none none else s.pcs t') :
    MemInv s' { m with buffer := [], flushing := true, inflight := b0 :: bs } := by
  have hinf : m.inflight = [] := hi.infl hf
  have hnone := no_up_of_not_flushing hi hf
  let m' : Mem := { m with buffer := [], flushing := true, inflight := b0 :: bs }
  show MemInv s' m'
  have hcontig : Contig (m'.inflight ++ m'.buffer) (segEnd m'.segments) m'.next := by
    have := hi.contig; rw [hinf, hbuf] at this; simpa [m'] using this
  have hL : ∀ b', Live s.segs s.idxs m b' → Live s.segs s.idxs m' b' := by
    intro b' hb'
    rcases hb' with h | h | h
    · rw [hinf] at h; cases h
    · exact Or.inl (by rw [hbuf] at h; exact h)
    · exact Or.inr (Or.inr h)
  have hpc : PcOk s.segs s.idxs m' (.up inA b (b0 :: bs) none none) := by
    refine ⟨rfl, rfl, by simp, by simp, ?_⟩
    cases inA with
    | true => simp; exact hL b hlive
    | false =>
      rcases hL b hlive with h | h | h
      · simp; exact Or.inl (by simpa [m'] using h)
      · simp [m'] at h
      · simp; exact Or.inr h
  refine { core := ?_, contig := hcontig, infl := by simp [m'], infl' := by simp [m'], pcs := ?_, uniq := ?_ }
  · rw [h1, h2, h3, h4, h5]; exact hi.core
  · intro t'; rw [h1, h2, h6]
    exact pcs_set (fun t' _ => PcOk_mono_nonup (m := m) (m' := m') (hnone t') hL (fun b h => h) (Nat.le_refl _) (hi.pcs t')) hpc t'
  · intro a c ha hc; rw [h6] at ha hc
    exact uniq_set_up (fun t' _ => hnone t') a c ha hc

theorem inv_append {v : Variant} (hv : Sound v) {s s' : State} {t n : Nat} {mc : Int} {len : Nat} (hi : Inv s)
    (h : step v s (.append t n mc len) = some s') : Inv s' := by
  simp only [step] at h
  split at h
  case h_2 => simp at h
  case h_1 m hmem hpc =>
    have mi := memInv_of hi hmem
    by_cases hn : 1 ≤ n ∧ 8 ≤ len
    case neg => simp [hn] at h
    simp only [hn, and_self, if_true] at h
    -- the state after the append proper, before a possible drain
    let b : Batch := { id := s.nextId, base := m.next, n := n, mc := mc, len := len }
    let m1 : Mem := { m with next := m.next + n, buffer := m.buffer ++ [b] }
    let sm : State := { setPc { s with nextId := s.nextId + 1 } t (.appended b) with mem := some m1 }
    have hc1 : Contig (m1.inflight ++ m1.buffer) (segEnd m1.segments) m1.next := by
      have h0 := mi.contig
      have : Contig [b] m.next (m.next + n) := by simp [Contig, b]; omega
      have := Contig_append.mpr ⟨m.next, h0, this⟩
      simpa [m1, List.append_assoc] using this
    have hpcs1 : ∀ t', t' ≠ t → PcOk s.segs s.idxs m1 (s.pcs t') := fun t' _ =>
      PcOk_mono_same (m := m) (m' := m1) rfl rfl rfl (fun b' hb' => by simp [m1, hb']) (mi.pcs t')
    have hmid : MemInv sm m1 := by
      refine { core := mi.core, contig := hc1, infl := mi.infl, infl' := mi.infl', pcs := ?_, uniq := ?_ }
      · refine pcs_set hpcs1 ?_
        exact Or.inr (Or.inl (by simp [m1]))
      · exact uniq_set_nonup mi.uniq (by simp [isUp])
    have hlive : Live sm.segs sm.idxs m1 b := Or.inr (Or.inl (by simp [m1]))
    have hm1 : ({ next := m.next + n, buffer := m.buffer ++ [{ id := s.nextId, base := m.next, n := n, mc := mc, len := len }],
                  flushing := m.flushing, inflight := m.inflight, segments := m.segments } : Mem) = m1 := rfl
    split at h
    · -- ShouldFlush
      rcases prepareFlush_cases v s.fault m1 with ⟨hp, _⟩ | ⟨hf, b0, bs, hbuf, _, hp⟩ | ⟨hf, b0, bs, hbuf, hbf, hp⟩
      · rw [hm1, hp] at h
        simp only [Option.some.injEq] at h
        subst h
        exact inv_of (m' := m1) rfl hmid
      · rw [hm1, hp] at h
        simp only [Option.some.injEq] at h
        subst h
        refine inv_of (m' := { m1 with buffer := [], flushing := true, inflight := b0 :: bs }) rfl ?_
        refine memInv_drain (s := sm) (t := t) (b := b) (inA := true) hmid hf hbuf hlive rfl rfl rfl rfl rfl ?_
        intro t'
        by_cases ht : t' = t <;> simp [sm, ht, b]
      · -- BuildSegment failed inside AppendBatch: only in a shape that re-queues; AppendBatch returns the error
        have hinf : m1.inflight = [] := mi.infl hf
        have hcb : Contig (b0 :: bs) (segEnd m1.segments) m1.next := by
          have := hc1; rw [hinf, hbuf] at this; simpa using this
        have hrq := requeue_of_buildFails hv (by simp) hcb hbf
        rw [hm1, hp] at h
        simp only [Option.some.injEq, hrq, if_true] at h
        subst h
        have hmm : ({ m1 with buffer := b0 :: bs } : Mem) = m1 := by
          rw [← hbuf]
        rw [hmm]
        refine inv_of (m' := m1) rfl ?_
        refine { core := mi.core, contig := hc1, infl := mi.infl, infl' := mi.infl', pcs := ?_, uniq := ?_ }
        · exact pcs_set hpcs1 trivial
        · exact uniq_set_nonup mi.uniq (by simp [isUp])
    · simp only [Option.some.injEq] at h
      subst h
      exact inv_of (m' := m1) rfl hmid


theorem flusher_facts {s : State} {m : Mem} {t : Nat} {inA : Bool} {b : Batch} {art : List Batch} {sg ix : Option Bool}
    (mi : MemInv s m) (hpc : s.pcs t = .up inA b art sg ix) :
    m.flushing = true ∧ art = m.inflight ∧ art ≠ [] ∧ baseOf art = segEnd m.segments ∧
    (∃ mid, Contig art (segEnd m.segments) mid ∧ Contig m.buffer mid m.next ∧ endOf art = mid ∧ segEnd m.segments < mid) ∧
    (∀ t', t' ≠ t → isUp (s.pcs t') = false) := by
  have hok := mi.pcs t
  rw [hpc] at hok
  obtain ⟨hf, ha, _, _, _⟩ := hok
  have hne : art ≠ [] := ha ▸ mi.infl' hf
  obtain ⟨mid, c1, c2⟩ := Contig_append.mp mi.contig
  rw [← ha] at c1
  refine ⟨hf, ha, hne, Contig_baseOf c1 hne, ⟨mid, c1, c2, Contig_endOf c1 hne, Contig_lt c1 hne⟩, ?_⟩
  intro t' ht'
  cases hu : isUp (s.pcs t') with
  | false => rfl
  | true => exact absurd (mi.uniq t' t hu (by rw [hpc]; rfl)) ht'

theorem inv_seg {v : Variant} {s s' : State} {t : Nat} {ok : Bool} (hi : Inv s) (h : step v s (.seg t ok) = some s') : Inv s' := by
  simp only [step] at h
  split at h
  case h_2 => simp at h
  case h_1 inA b art ix hpc =>
    cases hmem : s.mem with
    | none => have := pc_idle_of_down hi hmem t; rw [hpc] at this; cases this
    | some m =>
      have mi := memInv_of hi hmem
      obtain ⟨hf, ha, hne, hbase, ⟨mid, c1, c2, hend, hlt⟩, hnone⟩ := flusher_facts mi hpc
      have hok := mi.pcs t
      rw [hpc] at hok
      obtain ⟨_, _, _, hix, hlive⟩ := hok
      simp only [Option.some.injEq] at h
      subst h
      cases ok with
      | false =>
        simp only [Bool.false_eq_true, if_false]
        refine inv_of (m' := m) (by simp [hmem]) ?_
        exact { core := mi.core, contig := mi.contig, infl := mi.infl, infl' := mi.infl',
                pcs := pcs_set (fun t' _ => mi.pcs t') ⟨hf, ha, by simp, hix, hlive⟩,
                uniq := uniq_set_up hnone }
      | true =>
        simp only [if_true]
        refine inv_of (m' := m) (by simp [hmem]) ?_
        have hE := hbase
        have hkey : ∀ p ∈ m.segments, p.1 ≠ baseOf art := by
          intro p hp; have := Chain_mem mi.core.chain hp; omega
        have hC : ∀ b', Comm s.segs s.idxs m.segments b' → Comm (put s.segs (baseOf art) art) s.idxs m.segments b' :=
          fun b' hb' => Comm_put_seg hkey hb'
        have hL : ∀ b', Live s.segs s.idxs m b' → Live (put s.segs (baseOf art) art) s.idxs m b' := by
          intro b' hb'
          rcases hb' with h | h | h
          · exact Or.inl h
          · exact Or.inr (Or.inl h)
          · exact Or.inr (Or.inr (hC b' h))
        have hcore : Core (put s.segs (baseOf art) art) s.idxs (max s.kb (baseOf art + 1)) s.hw s.acked m.segments := by
          refine { keys := ?_, wf := ?_, chain := mi.core.chain, objs := ?_, below := ?_, hw := mi.core.hw, acked := fun b' hb' => hC b' (mi.core.acked b' hb') }
          · intro k hk
            have := mi.core.keys k (by omega)
            refine ⟨?_, this.2⟩
            simp only [put]; rw [if_neg (by omega)]; exact this.1
          · intro k o hko
            simp only [put] at hko
            split at hko
            · rename_i hk; subst hk; simp at hko; subst hko
              rw [hE, hend]; exact ⟨hne, c1⟩
            · exact mi.core.wf k o hko
          · intro p hp
            obtain ⟨o, h1, h2, h3⟩ := mi.core.objs p hp
            exact ⟨o, by simp [put, hkey p hp, h1], h2, h3⟩
          · intro k hk
            by_cases hkE : k = baseOf art
            · subst hkE; rw [hE]; exact ⟨Nat.le_refl _, fun h => absurd h (Nat.lt_irrefl _)⟩
            · apply mi.core.below k
              simpa [put, hkE] using hk
        exact { core := hcore, contig := mi.contig, infl := mi.infl, infl' := mi.infl',
                pcs := pcs_set (fun t' ht' => PcOk_mono_nonup (m := m) (m' := m) (hnone t' ht') hL hC (Nat.le_refl _) (mi.pcs t'))
                  ⟨hf, ha, by simp [put], hix, by
                    cases inA with
                    | true => simp at hlive ⊢; exact hL b hlive
                    | false =>
                      simp at hlive ⊢
                      rcases hlive with h | h
                      · exact Or.inl h
                      · exact Or.inr (hC b h)⟩,
                uniq := uniq_set_up hnone }

theorem inv_idx {v : Variant} {s s' : State} {t : Nat} {ok : Bool} (hi : Inv s) (h : step v s (.idx t ok) = some s') : Inv s' := by
  simp only [step] at h
  split at h
  case h_2 => simp at h
  case h_1 inA b art sg hpc =>
    cases hmem : s.mem with
    | none => have := pc_idle_of_down hi hmem t; rw [hpc] at this; cases this
    | some m =>
      have mi := memInv_of hi hmem
      obtain ⟨hf, ha, hne, hbase, ⟨mid, c1, c2, hend, hlt⟩, hnone⟩ := flusher_facts mi hpc
      have hok := mi.pcs t
      rw [hpc] at hok
      obtain ⟨_, _, hsg, _, hlive⟩ := hok
      simp only [Option.some.injEq] at h
      subst h
      cases ok with
      | false =>
        simp only [Bool.false_eq_true, if_false]
        refine inv_of (m' := m) (by simp [hmem]) ?_
        exact { core := mi.core, contig := mi.contig, infl := mi.infl, infl' := mi.infl',
                pcs := pcs_set (fun t' _ => mi.pcs t') ⟨hf, ha, hsg, by simp, hlive⟩,
                uniq := uniq_set_up hnone }
      | true =>
        simp only [if_true]
        refine inv_of (m' := m) (by simp [hmem]) ?_
        have hE := hbase
        have hC : ∀ b', Comm s.segs s.idxs m.segments b' → Comm s.segs (put s.idxs (baseOf art) art) m.segments b' :=
          fun b' hb' => Comm_put_idx hb'
        have hL : ∀ b', Live s.segs s.idxs m b' → Live s.segs (put s.idxs (baseOf art) art) m b' := by
          intro b' hb'
          rcases hb' with h | h | h
          · exact Or.inl h
          · exact Or.inr (Or.inl h)
          · exact Or.inr (Or.inr (hC b' h))
        have hcore : Core s.segs (put s.idxs (baseOf art) art) (max s.kb (baseOf art + 1)) s.hw s.acked m.segments := by
          refine { keys := ?_, wf := mi.core.wf, chain := mi.core.chain, objs := ?_, below := ?_, hw := mi.core.hw, acked := fun b' hb' => hC b' (mi.core.acked b' hb') }
          · intro k hk
            have := mi.core.keys k (by omega)
            refine ⟨this.1, ?_⟩
            simp only [put]; rw [if_neg (by omega)]; exact this.2
          · intro p hp
            obtain ⟨o, h1, h2, h3⟩ := mi.core.objs p hp
            refine ⟨o, h1, h2, ?_⟩
            simp only [put]; split <;> simp_all
          · intro k hk
            by_cases hkE : k = baseOf art
            · subst hkE; rw [hE]; exact ⟨Nat.le_refl _, fun h => absurd h (Nat.lt_irrefl _)⟩
            · apply mi.core.below k
              simpa [put, hkE] using hk
        exact { core := hcore, contig := mi.contig, infl := mi.infl, infl' := mi.infl',
                pcs := pcs_set (fun t' ht' => PcOk_mono_nonup (m := m) (m' := m) (hnone t' ht') hL hC (Nat.le_refl _) (mi.pcs t'))
                  ⟨hf, ha, hsg, by simp [put], by
                    cases inA with
                    | true => simp at hlive ⊢; exact hL b hlive
                    | false =>
                      simp at hlive ⊢
                      rcases hlive with h | h
                      · exact Or.inl h
                      · exact Or.inr (hC b h)⟩,
                uniq := uniq_set_up hnone }

theorem inv_finish {v : Variant} (hv : Sound v) {s s' : State} {t : Nat} (hi : Inv s) (h : step v s (.finish t) = some s') : Inv s' := by
  simp only [step] at h
  split at h
  case h_2 => simp at h
  case h_1 m inA b art so io hmem hpc =>
    have mi := memInv_of hi hmem
    obtain ⟨hf, ha, hne, hbase, ⟨mid, c1, c2, hend, hlt⟩, hnone⟩ := flusher_facts mi hpc
    have hok := mi.pcs t
    rw [hpc] at hok
    obtain ⟨_, _, hsg, hix, hlive⟩ := hok
    have hlive' : b ∈ art ∨ b ∈ m.buffer ∨ Comm s.segs s.idxs m.segments b := by
      cases inA with
      | true => simp at hlive; rcases hlive with h | h | h
                · exact Or.inl (ha ▸ h)
                · exact Or.inr (Or.inl h)
                · exact Or.inr (Or.inr h)
      | false => simp at hlive; rcases hlive with h | h
                 · exact Or.inl (ha ▸ h)
                 · exact Or.inr (Or.inr h)
    by_cases hboth : (so && io) = true
    · -- commit
      simp only [hboth, if_true, Option.some.injEq] at h
      subst h
      have hso : so = true := by simp at hboth; exact hboth.1
      have hio : io = true := by simp at hboth; exact hboth.2
      have hsegE := hsg (by rw [hso])
      have hidxE := hix (by rw [hio])
      let x : Nat × Nat := (baseOf art, endOf art)
      let m' : Mem := { m with segments := m.segments ++ [x], flushing := false, inflight := [] }
      refine inv_of (m' := m') (by simp [m', x]) ?_
      have hse : segEnd m'.segments = mid := by simp [m', x, segEnd_append_singleton, hend]
      have hC : ∀ b', Comm s.segs s.idxs m.segments b' → Comm s.segs s.idxs m'.segments b' :=
        fun b' hb' => Comm_append [x] hb'
      have hnew : ∀ b', b' ∈ art → Comm s.segs s.idxs m'.segments b' := by
        intro b' hb'
        have := Contig_mem c1 hb'
        refine ⟨x, by simp [m'], ?_, ?_, art, hsegE, hb', hidxE⟩
        · simp [x, hbase]; omega
        · simp [x, hend]; omega
      have hL : ∀ b', Live s.segs s.idxs m b' → Live s.segs s.idxs m' b' := by
        intro b' hb'
        rcases hb' with h | h | h
        · exact Or.inr (Or.inr (hnew b' (ha ▸ h)))
        · exact Or.inr (Or.inl h)
        · exact Or.inr (Or.inr (hC b' h))
      have hcore : Core s.segs s.idxs s.kb s.hw s.acked m'.segments := by
        refine { keys := mi.core.keys, wf := mi.core.wf, chain := ?_, objs := ?_, below := ?_, hw := ?_, acked := fun b' hb' => hC b' (mi.core.acked b' hb') }
        · rw [hse]
          exact Chain_append.mpr ⟨segEnd m.segments, mi.core.chain, by simp [Chain, x, hbase, hend]; omega⟩
        · intro p hp
          rcases List.mem_append.mp hp with hp | hp
          · exact mi.core.objs p hp
          · simp at hp; subst hp; exact ⟨art, hsegE, rfl, hidxE⟩
        · intro k hk
          have := mi.core.below k hk
          rw [hse]
          refine ⟨by omega, fun _ => ?_⟩
          by_cases hkE : k < segEnd m.segments
          · obtain ⟨p, hp, hpk⟩ := this.2 hkE
            exact ⟨p, List.mem_append_left _ hp, hpk⟩
          · exact ⟨x, by simp [m'], by simp [x, hbase]; omega⟩
        · rw [hse]; have := mi.core.hw; omega
      have hpc' : PcOk s.segs s.idxs m' (.pub inA b (endOf art)) := by
        refine ⟨by rw [hse, hend]; exact Nat.le_refl _, ?_⟩
        have hb' : Live s.segs s.idxs m' b ∧ (b ∈ m.buffer ∨ Comm s.segs s.idxs m'.segments b) := by
          rcases hlive' with h | h | h
          · exact ⟨Or.inr (Or.inr (hnew b h)), Or.inr (hnew b h)⟩
          · exact ⟨Or.inr (Or.inl h), Or.inl h⟩
          · exact ⟨Or.inr (Or.inr (hC b h)), Or.inr (hC b h)⟩
        cases inA with
        | true => simp; exact hb'.1
        | false =>
          simp
          simp at hlive
          rcases hlive with h | h
          · exact hnew b (ha ▸ h)
          · exact hC b h
      exact { core := hcore, contig := by simpa [m', hse] using c2, infl := by simp [m'], infl' := by simp [m'],
              pcs := pcs_set (fun t' ht' => PcOk_mono_nonup (m := m) (m' := m') (hnone t' ht') hL hC (by rw [hse]; omega) (mi.pcs t')) hpc',
              uniq := uniq_set_nonup mi.uniq (by simp [isUp]) }
    · -- upload failed: reset and re-queue
      simp only [hboth, Bool.false_eq_true, if_false, Option.some.injEq, hv.requeue, if_true] at h
      subst h
      let m' : Mem := { m with buffer := m.inflight ++ m.buffer, flushing := false, inflight := [] }
      refine inv_of (m' := m') (by simp [m']) ?_
      have hL : ∀ b', Live s.segs s.idxs m b' → Live s.segs s.idxs m' b' := by
        intro b' hb'
        rcases hb' with h | h | h
        · exact Or.inr (Or.inl (by simp [m', h]))
        · exact Or.inr (Or.inl (by simp [m', h]))
        · exact Or.inr (Or.inr h)
      exact { core := mi.core, contig := by simpa [m'] using mi.contig, infl := by simp [m'], infl' := by simp [m'],
              pcs := pcs_set (fun t' ht' => PcOk_mono_nonup (m := m) (m' := m') (hnone t' ht') hL (fun b h => h) (Nat.le_refl _) (mi.pcs t')) trivial,
              uniq := uniq_set_nonup mi.uniq (by simp [isUp]) }



/-! ### restore -/


/-- what the restore loop registers for key `k` -/
def pairAt (segs idxs : S3) (k : Nat) : List (Nat × Nat) :=
  match segs k, idxs k with
  | some o, some _ => [(k, endOf o)]
  | _, _ => []

theorem pairAt_nil_of_none {segs idxs : S3} {k : Nat} (h : segs k = none ∨ idxs k = none) : pairAt segs idxs k = [] := by
  unfold pairAt
  rcases h with h | h
  · simp [h]
  · cases hs : segs k <;> simp [h]

theorem scan_eq (segs idxs : S3) (hw n : Nat)
    (h : ∀ k, k < n → (segs k).isSome = true → idxs k = none → hw ≤ k) :
    scan segs idxs hw n = some ((List.range n).flatMap (pairAt segs idxs)) := by
  induction n with
  | zero => simp [scan]
  | succ n ih =>
    have ih' := ih (fun k hk => h k (by omega))
    simp only [scan, ih', List.range_succ, List.flatMap_append, List.flatMap_cons, List.flatMap_nil, List.append_nil]
    cases hs : segs n with
    | none => simp [pairAt, hs]
    | some o =>
      cases hx : idxs n with
      | some i => simp [pairAt, hs, hx]
      | none =>
        have := h n (by omega) (by simp [hs]) hx
        simp [pairAt, hs, hx, this]

theorem flatMap_chain {segs idxs : S3} {L : List (Nat × Nat)} {a e : Nat} (hc : Chain L a e)
    (hobjs : ∀ p ∈ L, ∃ o, segs p.1 = some o ∧ endOf o = p.2 ∧ (idxs p.1).isSome = true)
    (hbelow : ∀ k, a ≤ k → k < e → ((segs k).isSome = true ∨ (idxs k).isSome = true) → ∃ p ∈ L, p.1 = k) :
    (List.range' a (e - a)).flatMap (pairAt segs idxs) = L := by
  induction L generalizing a with
  | nil => simp [Chain] at hc; subst hc; simp
  | cons p ps ih =>
    obtain ⟨h1, h2, h3⟩ := hc
    have hle := Chain_le h3
    have hsplit : e - a = (p.2 - a - 1 + 1) + (e - p.2) := by omega
    rw [hsplit, ← List.range'_append_1, List.range'_succ, List.flatMap_append, List.flatMap_cons]
    have hfirst : pairAt segs idxs a = [p] := by
      obtain ⟨o, ho1, ho2, ho3⟩ := hobjs p List.mem_cons_self
      rw [h1] at ho1 ho3
      cases hx : idxs a with
      | none => simp [hx] at ho3
      | some i => simp only [pairAt, ho1, hx, ho2]; rw [← h1]
    have hmid : (List.range' (a + 1) (p.2 - a - 1)).flatMap (pairAt segs idxs) = [] := by
      rw [List.flatMap_eq_nil_iff]
      intro k hk
      simp [List.mem_range'_1] at hk
      cases hs : segs k with
      | none => exact pairAt_nil_of_none (Or.inl hs)
      | some o =>
        obtain ⟨q, hq, hqk⟩ := hbelow k (by omega) (by omega) (Or.inl (by simp [hs]))
        rcases List.mem_cons.mp hq with rfl | hq
        · omega
        · have := Chain_mem h3 hq; omega
    have hrest : (List.range' (a + (p.2 - a - 1 + 1)) (e - p.2)).flatMap (pairAt segs idxs) = ps := by
      have : a + (p.2 - a - 1 + 1) = p.2 := by omega
      rw [this]
      refine ih h3 (fun q hq => hobjs q (List.mem_cons_of_mem _ hq)) ?_
      intro k hk1 hk2 hk3
      obtain ⟨q, hq, hqk⟩ := hbelow k (by omega) hk2 hk3
      rcases List.mem_cons.mp hq with rfl | hq
      · omega
      · exact ⟨q, hq, hqk⟩
    rw [hfirst, hmid, hrest]; simp

/-- on a state that satisfies `Core`, the restore scan succeeds and registers exactly the
known segments plus a complete (segment + index) leftover at the end offset, if any -/
theorem scan_core {segs idxs : S3} {kb hw : Nat} {acked : List Batch} {L : List (Nat × Nat)}
    (hc : Core segs idxs kb hw acked L) :
    scan segs idxs hw kb = some (L ++ pairAt segs idxs (segEnd L)) := by
  have hE := hc.chain
  rw [scan_eq]
  · congr 1
    -- extend the scanned range beyond every key
    have hext : ∀ d, (List.range (kb + d)).flatMap (pairAt segs idxs) = (List.range kb).flatMap (pairAt segs idxs) := by
      intro d
      rw [List.range_add, List.flatMap_append]
      have : ((List.range d).map (kb + ·)).flatMap (pairAt segs idxs) = [] := by
        rw [List.flatMap_eq_nil_iff]
        intro k hk
        simp at hk
        obtain ⟨j, _, rfl⟩ := hk
        exact pairAt_nil_of_none (Or.inl (hc.keys _ (by omega)).1)
      rw [this]; simp
    rw [← hext (segEnd L + 1)]
    have hN : kb + (segEnd L + 1) = (segEnd L - 0) + (1 + kb) := by omega
    rw [hN, List.range_eq_range', ← List.range'_append_1, List.flatMap_append]
    have h1 := flatMap_chain (segs := segs) (idxs := idxs) hE hc.objs
      (fun k _ hk2 hk3 => (hc.below k hk3).2 hk2)
    rw [h1]
    congr 1
    rw [Nat.zero_add, Nat.sub_zero, Nat.add_comm 1 kb, List.range'_succ, List.flatMap_cons]
    have : (List.range' (segEnd L + 1) kb).flatMap (pairAt segs idxs) = [] := by
      rw [List.flatMap_eq_nil_iff]
      intro k hk
      simp [List.mem_range'_1] at hk
      cases hs : segs k with
      | none => exact pairAt_nil_of_none (Or.inl hs)
      | some o => have := (hc.below k (Or.inl (by simp [hs]))).1; omega
    rw [this]; simp
  · intro k _ hs hx
    have hb := hc.below k (Or.inl hs)
    by_cases hk : k < segEnd L
    · obtain ⟨p, hp, hpk⟩ := hb.2 hk
      obtain ⟨o, _, _, ho3⟩ := hc.objs p hp
      rw [hpk, hx] at ho3; simp at ho3
    · have := hc.hw; omega

/-- the registered list after a restore, with what is needed to re-establish the invariant -/
theorem core_after_restore {segs idxs : S3} {kb hw : Nat} {acked : List Batch} {L : List (Nat × Nat)}
    (hc : Core segs idxs kb hw acked L) :
    let l := L ++ pairAt segs idxs (segEnd L)
    Core segs idxs kb (max hw (segEnd l)) acked l ∧ hw ≤ segEnd l := by
  intro l
  have hE := hc.chain
  -- the leftover at the end offset
  have hJ : pairAt segs idxs (segEnd L) = [] ∨
      ∃ o, segs (segEnd L) = some o ∧ (idxs (segEnd L)).isSome = true ∧
        pairAt segs idxs (segEnd L) = [(segEnd L, endOf o)] ∧ segEnd L < endOf o := by
    cases hs : segs (segEnd L) with
    | none => exact Or.inl (pairAt_nil_of_none (Or.inl hs))
    | some o =>
      cases hx : idxs (segEnd L) with
      | none => exact Or.inl (pairAt_nil_of_none (Or.inr hx))
      | some i =>
        have hw' := hc.wf _ o hs
        exact Or.inr ⟨o, rfl, by simp, by simp [pairAt, hs, hx], Contig_lt hw'.2 hw'.1⟩
  rcases hJ with hJ | ⟨o, ho1, ho2, hJ, hlt⟩
  · have hl : l = L := by simp [l, hJ]
    rw [hl]
    have := hc.hw
    refine ⟨?_, this⟩
    rw [Nat.max_eq_right this]
    exact { hc with hw := Nat.le_refl _ }
  · have hl : l = L ++ [(segEnd L, endOf o)] := by simp [l, hJ]
    rw [hl]
    have hse : segEnd (L ++ [(segEnd L, endOf o)]) = endOf o := by simp [segEnd_append_singleton]
    rw [hse]
    have hhw := hc.hw
    refine ⟨?_, by omega⟩
    rw [Nat.max_eq_right (by omega)]
    refine { keys := hc.keys, wf := hc.wf, chain := ?_, objs := ?_, below := ?_, hw := (by rw [hse]; exact Nat.le_refl _),
             acked := fun b hb => Comm_append _ (hc.acked b hb) }
    · rw [hse]; exact Chain_append.mpr ⟨segEnd L, hE, by simp [Chain]; omega⟩
    · intro p hp
      rcases List.mem_append.mp hp with hp | hp
      · exact hc.objs p hp
      · simp at hp; subst hp; exact ⟨o, ho1, rfl, ho2⟩
    · intro k hk
      have := hc.below k hk
      rw [hse]
      refine ⟨by omega, fun _ => ?_⟩
      by_cases hkE : k < segEnd L
      · obtain ⟨p, hp, hpk⟩ := this.2 hkE
        exact ⟨p, List.mem_append_left _ hp, hpk⟩
      · exact ⟨(segEnd L, endOf o), by simp, by simp; omega⟩

theorem inv_crash {v : Variant} {s s' : State} (hi : Inv s) (h : step v s .crash = some s') : Inv s' := by
  simp only [step] at h
  split at h
  case h_2 => simp at h
  case h_1 m hmem =>
    have mi := memInv_of hi hmem
    simp only [Option.some.injEq] at h
    subst h
    unfold Inv
    simp only
    exact ⟨⟨m.segments, mi.core⟩, fun _ => trivial⟩

/-- the restore never fails on a reachable state, and re-establishes the invariant -/
theorem inv_restore_of {v : Variant} (hv : Sound v) {s s' : State} (hi : Inv s) (h : step v s .restore = some s') :
    Inv s' ∧ s'.mem.isSome = true := by
  simp only [step] at h
  split at h
  case h_1 => simp at h
  case h_2 hmem =>
    have hi' := hi
    simp only [Inv, hmem] at hi'
    obtain ⟨⟨L, hc⟩, hidle⟩ := hi'
    rw [scan_core hc] at h
    obtain ⟨hcore, hhw⟩ := core_after_restore hc
    generalize hl : L ++ pairAt s.segs s.idxs (segEnd L) = l at h hcore hhw
    have hidleOk : ∀ (m' : Mem) (t : Nat), PcOk s.segs s.idxs m' (s.pcs t) := by
      intro m' t; rw [hidle t]; trivial
    have huniq : ∀ t t', isUp (s.pcs t) = true → isUp (s.pcs t') = true → t = t' := by
      intro t t' ht; rw [hidle t] at ht; simp [isUp] at ht
    by_cases hlt : s.hw < segEnd l
    · simp only [hlt, if_true, Option.some.injEq] at h
      subst h
      refine ⟨inv_of (m' := { next := segEnd l, buffer := [], flushing := false, inflight := [], segments := l }) rfl ?_, rfl⟩
      refine { core := ?_, contig := by simp [Contig], infl := by simp, infl' := by simp, pcs := hidleOk _, uniq := huniq }
      show Core s.segs s.idxs s.kb (storePut v s.hw (segEnd l)) s.acked l
      rw [storePut_sound hv]; exact hcore
    · simp only [hlt, if_false, Option.some.injEq] at h
      subst h
      have heq : s.hw = segEnd l := by omega
      refine ⟨inv_of (m' := { next := s.hw, buffer := [], flushing := false, inflight := [], segments := l }) rfl ?_, rfl⟩
      refine { core := ?_, contig := by simp [Contig, heq], infl := by simp, infl' := by simp, pcs := hidleOk _, uniq := huniq }
      have : max s.hw (segEnd l) = s.hw := by omega
      rw [this] at hcore; exact hcore

theorem inv_restore {s s' : State} (hi : Inv s) (h : step fixed s .restore = some s') :
    Inv s' ∧ s'.mem.isSome = true := inv_restore_of sound_fixed hi h

/-- **the invariant is inductive**, for every sound shape of the code: `BuildSegment` keeps to the source's
rule, or may fail in any way (rule + fault oracle) and the error exit re-queues -/
theorem inv_step_of {v : Variant} (hv : Sound v) {s s' : State} {e : Ev} (hi : Inv s) (h : step v s e = some s') : Inv s' := by
  cases e with
  | append t n mc len => exact inv_append hv hi h
  | flush t =>
    simp only [step] at h
    split at h
    case h_2 => simp at h
    case h_1 m b hmem hpc =>
      have mi := memInv_of hi hmem
      simp only [Option.some.injEq] at h; subst h
      exact inv_flushEnter hv hmem mi (by have := mi.pcs t; rw [hpc] at this; exact this)
  | wake t =>
    simp only [step] at h
    split at h
    case h_2 => simp at h
    case h_1 m b hmem hpc =>
      have mi := memInv_of hi hmem
      simp only [Option.some.injEq] at h; subst h
      exact inv_flushEnter hv hmem mi (by have := mi.pcs t; rw [hpc] at this; exact this)
  | readNext t =>
    simp only [step] at h
    split at h
    case h_2 => simp at h
    case h_1 m b hmem hpc =>
      have mi := memInv_of hi hmem
      have := mi.pcs t; rw [hpc] at this; exact absurd this (by simp [PcOk])
  | seg t ok => exact inv_seg hi h
  | idx t ok => exact inv_idx hi h
  | finish t => exact inv_finish hv hi h
  | pub t ok => exact inv_pub hv hi h
  | crash => exact inv_crash hi h
  | restore => exact (inv_restore_of hv hi h).1
  | buildFault on =>
    simp only [step, Option.some.injEq] at h
    subst h
    cases hm : s.mem with
    | none => simp only [Inv, hm] at hi ⊢; exact hi
    | some m =>
      have mi := memInv_of hi hm
      exact inv_of (m' := m) rfl (MemInv_congr mi rfl rfl rfl rfl rfl (fun _ => rfl))

theorem inv_step {s s' : State} {e : Ev} (hi : Inv s) (h : step fixed s e = some s') : Inv s' := inv_step_of sound_fixed hi h

theorem inv_init (cfg : Cfg) : Inv (init cfg) := by
  simp only [Inv, init]
  refine ⟨⟨[], ?_⟩, fun _ => trivial⟩
  exact { keys := fun _ _ => ⟨rfl, rfl⟩, wf := fun _ _ h => (by simp at h), chain := (by simp [Chain, segEnd]),
          objs := fun _ h => (by cases h), below := fun _ h => (by simp at h), hw := Nat.zero_le _,
          acked := fun _ h => (by cases h) }

theorem reachable_inv_of {v : Variant} (hv : Sound v) {cfg : Cfg} {s : State} (h : Reachable v cfg s) : Inv s := by
  induction h with
  | init => exact inv_init cfg
  | step e _ hs ih => exact inv_step_of hv ih hs

theorem reachable_inv {cfg : Cfg} {s : State} (h : Reachable fixed cfg s) : Inv s := reachable_inv_of sound_fixed h



/-! ### consequences used by the property files -/


theorem reachable_run {v : Variant} {cfg : Cfg} {s s' : State} {evs : List Ev}
    (hs : Reachable v cfg s) (h : run v s evs = some s') : Reachable v cfg s' := by
  induction evs generalizing s with
  | nil => simp [run] at h; subst h; exact hs
  | cons e es ih =>
    simp only [run] at h
    split at h
    · rename_i s1 h1; exact ih (Reachable.step e hs h1) h
    · simp at h

/-- the S3/store/acked part of the invariant, whatever the broker's state -/
theorem core_of_inv {s : State} (hi : Inv s) :
    ∃ L, Core s.segs s.idxs s.kb s.hw s.acked L ∧ ∀ m, s.mem = some m → m.segments = L := by
  cases hm : s.mem with
  | none =>
    simp only [Inv, hm] at hi
    obtain ⟨⟨L, hc⟩, _⟩ := hi
    exact ⟨L, hc, fun m h => by cases h⟩
  | some m =>
    have mi := memInv_of hi hm
    exact ⟨m.segments, mi.core, fun m' h => by cases h; rfl⟩

theorem Comm_durable {segs idxs : S3} {L : List (Nat × Nat)} {b : Batch} (h : Comm segs idxs L b) :
    ∃ k o, segs k = some o ∧ b ∈ o ∧ (idxs k).isSome = true := by
  obtain ⟨p, _, _, _, o, h1, h2, h3⟩ := h
  exact ⟨p.1, o, h1, h2, h3⟩

/-- a committed batch ends at or before the end of the registered segments -/
theorem Comm_end_le {segs idxs : S3} {kb hw : Nat} {acked : List Batch} {L : List (Nat × Nat)} {b : Batch}
    (hc : Core segs idxs kb hw acked L) (h : Comm segs idxs L b) : b.endOff ≤ segEnd L := by
  obtain ⟨p, hp, _, _, o, h1, h2, _⟩ := h
  obtain ⟨o', ho1, ho2, _⟩ := hc.objs p hp
  rw [h1] at ho1; cases ho1
  have hwf := hc.wf _ _ h1
  have := Contig_mem hwf.2 h2
  have := Chain_mem hc.chain hp
  simp only [Batch.endOff]; omega

theorem step_crash_eq {v : Variant} {s c : State} (h : step v s .crash = some c) :
    c.acked = s.acked ∧ c.hw = s.hw ∧ c.segs = s.segs ∧ c.idxs = s.idxs ∧ c.mem = none := by
  simp only [step] at h
  split at h
  · simp only [Option.some.injEq] at h; subst h; exact ⟨rfl, rfl, rfl, rfl, rfl⟩
  · simp at h

theorem step_restore_eq {v : Variant} {c r : State} (h : step v c .restore = some r) :
    r.acked = c.acked ∧ r.segs = c.segs ∧ r.idxs = c.idxs := by
  simp only [step] at h
  split at h
  · simp at h
  · split at h
    · simp only [Option.some.injEq] at h; subst h; exact ⟨rfl, rfl, rfl⟩
    · split at h <;> (simp only [Option.some.injEq] at h; subst h; exact ⟨rfl, rfl, rfl⟩)


end KafVerif.StorageLog
