import KafVerif.Lemmas.PLogReadFallback
/-!
`findIndexEntry` (binary search as coded in log.go): what it guarantees for EVERY table.
-/
namespace KafVerif.PLog
open KafVerif KafVerif.RecBatch

/-! ### index lookup -/

theorem findLoop_spec (es : List (Int × Int)) (o : Int) (fuel : Nat) (lo hi : Int)
    (hlo : 0 ≤ lo) (hhi : hi < es.length) :
    (findLoop es o fuel lo hi ∈ es ∧ (findLoop es o fuel lo hi).1 ≤ o) ∨
      findLoop es o fuel lo hi = es.headD (0, 0) := by
  induction fuel generalizing lo hi with
  | zero => right; rfl
  | succ f ih =>
    unfold findLoop
    split
    · rename_i hle
      have hmid : 0 ≤ (lo + hi) / 2 ∧ (lo + hi) / 2 ≤ hi := by omega
      have hidx : ((lo + hi) / 2).toNat < es.length := by omega
      have hmem : es.getD ((lo + hi) / 2).toNat (0, 0) ∈ es := by
        simp [List.getD, List.getElem?_eq_getElem hidx]
      simp only
      split
      · rename_i heq; left; exact ⟨hmem, by omega⟩
      · split
        · rename_i hlt
          split
          · left; exact ⟨hmem, by omega⟩
          · exact ih _ _ (by omega) hhi
        · exact ih _ _ hlo (by omega)
    · right; rfl

/-- **C04 (index lookup).** For every index table and offset, `findIndexEntry` returns a member of the
table whose offset is at most `o`, or the table's first entry (the empty table gives `(0, 0)`). -/
theorem findIndexEntry_spec (es : List (Int × Int)) (o : Int) (hne : es ≠ []) :
    findIndexEntry es o ∈ es ∧ ((findIndexEntry es o).1 ≤ o ∨ findIndexEntry es o = es.headD (0, 0)) := by
  cases es with
  | nil => exact absurd rfl hne
  | cons e0 t =>
    unfold findIndexEntry
    simp only
    split
    · exact ⟨by simp, Or.inr rfl⟩
    · split
      · rename_i hge
        have hidx : (e0 :: t).length - 1 < (e0 :: t).length := by simp
        refine ⟨?_, Or.inl (by omega)⟩
        simp [List.getD]
      · rcases findLoop_spec (e0 :: t) o ((e0 :: t).length + 1) 0 (((e0 :: t).length : Int) - 1)
          (by omega) (by omega) with ⟨h1, h2⟩ | h
        · exact ⟨h1, Or.inl h2⟩
        · rw [h]; exact ⟨by simp, Or.inr rfl⟩

end KafVerif.PLog
