import KafVerif.Lemmas.GroupAssign
/-! Frame and case lemmas for the transitions of the group-coordinator model. -/
namespace KafVerif.Group

/-- the part of the state no membership request touches -/
structure Frame (s s' : State) : Prop where
  offsets : s'.offsets = s.offsets
  tmeta : s'.tmeta = s.tmeta
  clock : s'.clock = s.clock

theorem Frame.refl (s : State) : Frame s s := ⟨rfl, rfl, rfl⟩
theorem Frame.trans {a b c : State} (h1 : Frame a b) (h2 : Frame b c) : Frame a c :=
  ⟨h2.offsets.trans h1.offsets, h2.tmeta.trans h1.tmeta, h2.clock.trans h1.clock⟩

theorem persist_frame (v : Variant) (s : State) (g : Nat) (st : Option Group) : Frame s (persist v s g st).1 := by
  unfold persist
  cases st with
  | none => simp only; split <;> exact ⟨rfl, rfl, rfl⟩
  | some st' => simp only; split <;> split <;> exact ⟨rfl, rfl, rfl⟩

theorem persist_groups (v : Variant) (s : State) (g : Nat) (st : Option Group) : (persist v s g st).1.groups = s.groups := by
  unfold persist
  cases st with
  | none => simp only; split <;> rfl
  | some st' => simp only; split <;> split <;> rfl

theorem persist_joinLog (v : Variant) (s : State) (g : Nat) (st : Option Group) : (persist v s g st).1.joinLog = s.joinLog := by
  unfold persist
  cases st with
  | none => simp only; split <;> rfl
  | some st' => simp only; split <;> split <;> rfl

theorem persist_frame' {s0 : State} (v : Variant) (s : State) (g : Nat) (st : Option Group) (h : Frame s0 s) :
    Frame s0 (persist v s g st).1 := h.trans (persist_frame v s g st)

/-- what the store holds after `persistGroupLocked` depends only on the stored groups and the fault switches -/
theorem persist_persisted (v : Variant) (s : State) (g : Nat) (st : Option Group) :
    (persist v s g st).1.persisted =
      match st with
      | some st' =>
        if st'.members.isEmpty then (if s.faults.del then s.persisted else erase s.persisted g)
        else (if s.faults.put then s.persisted else insert s.persisted g (cloneGroup v (build st')))
      | none => if s.faults.del then s.persisted else erase s.persisted g := by
  unfold persist
  cases st with
  | none => simp only; split <;> rfl
  | some st' => simp only; split <;> split <;> rfl

theorem setGroup_frame (s : State) (g : Nat) (st : Group) : Frame s (setGroup s g st) := ⟨rfl, rfl, rfl⟩

theorem clearFetchGroup_frame (s : State) : Frame s (clearFetchGroup s) := ⟨rfl, rfl, rfl⟩

/-- the four outcomes of `loadGroupIfMissing` -/
theorem loadGroup_cases (v : Variant) (s : State) (g : Nat) :
    (∃ st, lookup s.groups g = some st ∧ loadGroup v s g = some (s, some st))
    ∨ (lookup s.groups g = none ∧ s.faults.fetchGroup = true ∧ loadGroup v s g = none)
    ∨ (lookup s.groups g = none ∧ s.faults.fetchGroup = false ∧ lookup s.persisted g = none ∧ loadGroup v s g = some (s, none))
    ∨ (∃ p, lookup s.groups g = none ∧ s.faults.fetchGroup = false ∧ lookup s.persisted g = some p ∧
        loadGroup v s g = some ({ s with groups := insert s.groups g (restore v (cloneGroup v p) s.clock) },
                                some (restore v (cloneGroup v p) s.clock))) := by
  unfold loadGroup
  cases h : lookup s.groups g with
  | some st => exact Or.inl ⟨st, rfl, rfl⟩
  | none =>
    right
    cases hf : s.faults.fetchGroup with
    | true => exact Or.inl ⟨rfl, rfl, by simp⟩
    | false =>
      right
      cases hp : lookup s.persisted g with
      | none => exact Or.inl ⟨rfl, rfl, rfl, by simp⟩
      | some p => exact Or.inr ⟨p, rfl, rfl, rfl, by simp⟩

theorem loadGroup_frame {v : Variant} {s s' : State} {g : Nat} {o : Option Group} (h : loadGroup v s g = some (s', o)) :
    Frame s s' := by
  rcases loadGroup_cases v s g with ⟨st, _, h'⟩ | ⟨_, _, h'⟩ | ⟨_, _, _, h'⟩ | ⟨p, _, _, _, h'⟩ <;> rw [h'] at h
  · cases h; exact Frame.refl s
  · cases h
  · cases h; exact Frame.refl s
  · cases h; exact ⟨rfl, rfl, rfl⟩

theorem loadGroup_faults {v : Variant} {s s' : State} {g : Nat} {o : Option Group} (h : loadGroup v s g = some (s', o)) :
    s'.faults = s.faults ∧ s'.persisted = s.persisted ∧ s'.joinLog = s.joinLog ∧ s'.used = s.used := by
  rcases loadGroup_cases v s g with ⟨st, _, h'⟩ | ⟨_, _, h'⟩ | ⟨_, _, _, h'⟩ | ⟨p, _, _, _, h'⟩ <;> rw [h'] at h
  · cases h; exact ⟨rfl, rfl, rfl, rfl⟩
  · cases h
  · cases h; exact ⟨rfl, rfl, rfl, rfl⟩
  · cases h; exact ⟨rfl, rfl, rfl, rfl⟩

/-- after a successful load the group table holds exactly what was returned -/
theorem loadGroup_lookup {v : Variant} {s s' : State} {g : Nat} {o : Option Group} (h : loadGroup v s g = some (s', o)) :
    lookup s'.groups g = o := by
  rcases loadGroup_cases v s g with ⟨st, hs, h'⟩ | ⟨_, _, h'⟩ | ⟨hs, _, _, h'⟩ | ⟨p, _, _, _, h'⟩ <;> rw [h'] at h
  · cases h; exact hs
  · cases h
  · cases h; exact hs
  · cases h; simp [lookup_insert]

theorem ensureGroup_frame {v : Variant} {s s' : State} {g : Nat} {st : Group} (h : ensureGroup v s g = some (s', st)) :
    Frame s s' := by
  unfold ensureGroup at h
  split at h
  · cases h
  · rename_i s1 st1 hl; cases h; exact loadGroup_frame hl
  · rename_i s1 hl; cases h
    exact loadGroup_frame hl

/-! ### frame of every request -/

theorem join_frame (v : Variant) (s : State) (g mid : Nat) (se rb : Int) (pt : Nat) (pr : Option (Nat × List Nat)) (nk : Nat) :
    Frame s (join v s g mid se rb pt pr nk).1 := by
  unfold join
  split
  · exact clearFetchGroup_frame s
  · rename_i s1 st1 he
    have h1 := ensureGroup_frame he
    exact h1.trans ((setGroup_frame _ _ _).trans ((persist_frame _ _ _ _).trans ⟨rfl, rfl, rfl⟩))

theorem leaderAssign_frame (s : State) (st : Group) : Frame s (leaderAssign s st).1 := ⟨rfl, rfl, rfl⟩

theorem syncFinish_frame (v : Variant) (s : State) (g : Nat) (st : Group) (mid : Nat) : Frame s (syncFinish v s g st mid).1 := by
  unfold syncFinish
  simp only
  split
  · exact setGroup_frame _ _ _
  · exact (setGroup_frame _ _ _).trans (persist_frame _ _ _ _)

theorem sync_frame (v : Variant) (s : State) (g mid : Nat) (gen : Int) : Frame s (sync v s g mid gen).1 := by
  unfold sync
  split
  · exact clearFetchGroup_frame s
  · rename_i s1 hl; exact loadGroup_frame hl
  · rename_i s1 st hl
    have h1 := loadGroup_frame hl
    split
    · exact h1
    · split
      · exact h1
      · split
        · exact h1
        · split
          · split
            · exact h1
            · exact h1.trans ((leaderAssign_frame _ _).trans (syncFinish_frame _ _ _ _ _))
          · exact h1.trans (syncFinish_frame _ _ _ _ _)

theorem heartbeat_frame (v : Variant) (s : State) (g mid : Nat) (gen : Int) : Frame s (heartbeat v s g mid gen).1 := by
  unfold heartbeat
  split
  · exact clearFetchGroup_frame s
  · rename_i s1 hl; exact loadGroup_frame hl
  · rename_i s1 st hl
    have h1 := loadGroup_frame hl
    simp only
    split
    · exact h1
    · split
      · exact h1
      · split
        · exact h1
        · exact h1.trans ((setGroup_frame _ _ _).trans (persist_frame _ _ _ _))

theorem leave_frame (v : Variant) (s : State) (g mid : Nat) : Frame s (leave v s g mid).1 := by
  unfold leave
  split
  · exact clearFetchGroup_frame s
  · rename_i s1 hl; exact loadGroup_frame hl
  · rename_i s1 st hl
    have h1 := loadGroup_frame hl
    simp only
    split
    · exact h1
    · split
      · exact h1.trans (persist_frame' _ _ _ _ ⟨rfl, rfl, rfl⟩)
      · exact h1.trans ((setGroup_frame _ _ _).trans (persist_frame _ _ _ _))

theorem cleanupGroup_frame (v : Variant) (s : State) (g : Nat) (st : Group) : Frame s (cleanupGroup v s g st) := by
  unfold cleanupGroup
  split
  · exact persist_frame' _ _ _ _ ⟨rfl, rfl, rfl⟩
  · exact (setGroup_frame _ _ _).trans (persist_frame _ _ _ _)
  · exact setGroup_frame _ _ _

theorem foldl_frame {α : Type} (f : State → α → State) (hf : ∀ s a, Frame s (f s a)) (l : List α) (s : State) :
    Frame s (l.foldl f s) := by
  induction l generalizing s with
  | nil => exact Frame.refl s
  | cons a t ih => exact (hf s a).trans (ih _)

theorem cleanup_frame (v : Variant) (s : State) : Frame s (cleanup v s) :=
  foldl_frame (fun acc (e : Nat × Group) => cleanupGroup v acc e.1 e.2) (fun acc e => cleanupGroup_frame v acc e.1 e.2) _ _

theorem fetchRows_offsets (v : Variant) (s : State) (g : Nat) (parts : List (Nat × Int)) :
    (fetchRows v s g parts).1.offsets = s.offsets := by
  induction parts generalizing s with
  | nil => rfl
  | cons e t ih =>
    obtain ⟨tp, p⟩ := e
    unfold fetchRows
    split
    · simp only; rw [ih]
    · simp only; rw [ih]

end KafVerif.Group
