import KafVerif.Model.ProduceGate
import KafVerif.Lemmas.Lease
/-! Facts about `runAcquire` / `acquireAll` over the lease model (used by C19). -/
namespace KafVerif.ProduceGate

open KafVerif.Lease

/-- the steps of an `Acquire` call never take anything OUT of an ownership set -/
theorem acqStep_owns_mono (s : State) (b r : Nat) (pc : PC) (c p : Nat) (h : owns s c p = true) :
    owns (acqStep s b r pc).1 c p = true := by
  cases pc with
  | g1 => simp only [acqStep]; split <;> simpa [owns] using h
  | grant => simpa [acqStep, owns] using h
  | g3 l =>
    simp only [acqStep]
    split
    · simpa [owns] using h
    · split
      · simpa [owns] using h
      · simp only [owns, setAcq_mgr, setMgr] at h ⊢
        by_cases hc : c = b
        · subst hc; simpa using h
        · simpa [hc] using h
  | txn l =>
    simp only [acqStep]
    split
    · split <;> simpa [owns, setKV] using h
    · split <;> simpa [owns] using h
  | ins l v =>
    simp only [acqStep, insertStep]
    split
    · simp only [owns, setAcq_mgr, setMgr, setOwned] at h ⊢
      by_cases hc : c = b
      · subst hc
        by_cases hp : p = r
        · simp [hp]
        · simpa [hp] using h
      · simpa [hc] using h
    · simpa [owns] using h
  | mine l => simpa [acqStep, owns] using h
  | notMine => simpa [acqStep, owns] using h
  | errR => simpa [acqStep, owns] using h
  | re l =>
    simp only [acqStep]
    split
    · split
      · split <;> simpa [owns, setKV] using h
      · simpa [owns] using h
    · simpa [owns] using h

theorem step_acq_owns_mono (s : State) (b r c p : Nat) (h : owns s c p = true) :
    owns (Lease.step .byRev s (.acquire b r)).1 c p = true ∧
    owns (Lease.step .byRev s (.step b r)).1 c p = true ∧
    owns (Lease.step .byRev s (.abort b r)).1 c p = true := by
  refine ⟨?_, ?_, ?_⟩
  · simp only [Lease.step]
    split
    · exact h
    · split
      · exact h
      · split
        · exact h
        · simpa [owns] using h
  · simp only [Lease.step]
    split
    · exact acqStep_owns_mono s b r _ c p h
    · exact h
  · simpa [Lease.step, owns] using h

theorem finishAcquire_spec (b r : Nat) (fail : Bool) (fuel : Nat) (l : State) :
    (∀ c p, owns l c p = true → owns (finishAcquire b r fail fuel l).1 c p = true) ∧
    ((finishAcquire b r fail fuel l).2 = some .ok → owns (finishAcquire b r fail fuel l).1 b r = true) := by
  induction fuel generalizing l with
  | zero => simp [finishAcquire]
  | succ fuel ih =>
    simp only [finishAcquire]
    split
    · simp
    · rename_i pc hpc
      by_cases hf : (fail && isTxnPC pc) = true
      · rw [if_pos hf]
        exact ⟨fun c p h => (step_acq_owns_mono l b r c p h).2.2, by simp⟩
      · rw [if_neg hf]
        split
        · rename_i l' x hstep
          refine ⟨fun c p h => ?_, fun hx => ?_⟩
          · have := (step_acq_owns_mono l b r c p h).2.1
            rw [hstep] at this; exact this
          · simp only [Option.some.injEq] at hx
            subst hx
            obtain ⟨b', r', hop, ho⟩ := step_ok_owns .byRev l (.step b r) l' hstep
            rcases hop with hop | hop <;> simp only [Op.step.injEq, reduceCtorEq] at hop
            obtain ⟨rfl, rfl⟩ := hop
            exact ho
        · rename_i l' hstep
          have hm : ∀ c p, owns l c p = true → owns l' c p = true := by
            intro c p h
            have := (step_acq_owns_mono l b r c p h).2.1
            rw [hstep] at this; exact this
          exact ⟨fun c p h => (ih l').1 c p (hm c p h), (ih l').2⟩

theorem runAcquire_spec (l : State) (b r : Nat) (fail : Bool) :
    (∀ c p, owns l c p = true → owns (runAcquire l b r fail).1 c p = true) ∧
    ((runAcquire l b r fail).2 = some .ok → owns (runAcquire l b r fail).1 b r = true) := by
  simp only [runAcquire]
  split
  · rename_i l1 x hstep
    refine ⟨fun c p h => ?_, fun hx => ?_⟩
    · have := (step_acq_owns_mono l b r c p h).1
      rw [hstep] at this; exact this
    · simp only [Option.some.injEq] at hx
      subst hx
      obtain ⟨b', r', hop, ho⟩ := step_ok_owns .byRev l (.acquire b r) l1 hstep
      rcases hop with hop | hop <;> simp only [Op.acquire.injEq, reduceCtorEq] at hop
      obtain ⟨rfl, rfl⟩ := hop
      exact ho
  · rename_i l1 hstep
    have hm : ∀ c p, owns l c p = true → owns l1 c p = true := by
      intro c p h
      have := (step_acq_owns_mono l b r c p h).1
      rw [hstep] at this; exact this
    exact ⟨fun c p h => (finishAcquire_spec b r fail 12 l1).1 c p (hm c p h), (finishAcquire_spec b r fail 12 l1).2⟩

theorem cancelAcquire_spec (b r : Nat) (k : Nat) (l : State) :
    (∀ c p, owns l c p = true → owns (cancelAcquire b r k l).1 c p = true) ∧
    ((cancelAcquire b r k l).2 = some .ok → owns (cancelAcquire b r k l).1 b r = true) := by
  induction k generalizing l with
  | zero =>
    simp only [cancelAcquire]
    exact ⟨fun c p h => (step_acq_owns_mono l b r c p h).2.2, by simp⟩
  | succ k ih =>
    simp only [cancelAcquire]
    split
    · simp
    · split
      · rename_i l' x hstep
        refine ⟨fun c p h => ?_, fun hx => ?_⟩
        · have := (step_acq_owns_mono l b r c p h).2.1
          rw [hstep] at this; exact this
        · simp only [Option.some.injEq] at hx
          subst hx
          obtain ⟨b', r', hop, ho⟩ := step_ok_owns .byRev l (.step b r) l' hstep
          rcases hop with hop | hop <;> simp only [Op.step.injEq, reduceCtorEq] at hop
          obtain ⟨rfl, rfl⟩ := hop
          exact ho
      · rename_i l' hstep
        have hm : ∀ c p, owns l c p = true → owns l' c p = true := by
          intro c p h
          have := (step_acq_owns_mono l b r c p h).2.1
          rw [hstep] at this; exact this
        exact ⟨fun c p h => (ih l').1 c p (hm c p h), (ih l').2⟩

theorem runAcquireCancel_spec (l : State) (b r k : Nat) :
    (∀ c p, owns l c p = true → owns (runAcquireCancel l b r k).1 c p = true) ∧
    ((runAcquireCancel l b r k).2 = some .ok → owns (runAcquireCancel l b r k).1 b r = true) := by
  simp only [runAcquireCancel]
  split
  · rename_i l1 x hstep
    refine ⟨fun c p h => ?_, fun hx => ?_⟩
    · have := (step_acq_owns_mono l b r c p h).1
      rw [hstep] at this; exact this
    · simp only [Option.some.injEq] at hx
      subst hx
      obtain ⟨b', r', hop, ho⟩ := step_ok_owns .byRev l (.acquire b r) l1 hstep
      rcases hop with hop | hop <;> simp only [Op.acquire.injEq, reduceCtorEq] at hop
      obtain ⟨rfl, rfl⟩ := hop
      exact ho
  · rename_i l1 hstep
    have hm : ∀ c p, owns l c p = true → owns l1 c p = true := by
      intro c p h
      have := (step_acq_owns_mono l b r c p h).1
      rw [hstep] at this; exact this
    exact ⟨fun c p h => (cancelAcquire_spec b r k l1).1 c p (hm c p h), (cancelAcquire_spec b r k l1).2⟩

theorem acquireOne_spec (l : State) (b r : Nat) (fail : Bool) (ck : Option Nat) :
    (∀ c p, owns l c p = true → owns (acquireOne l b r fail ck).1 c p = true) ∧
    ((acquireOne l b r fail ck).2 = some .ok → owns (acquireOne l b r fail ck).1 b r = true) := by
  cases ck with
  | none => exact runAcquire_spec l b r fail
  | some k => exact runAcquireCancel_spec l b r k

theorem ofRes_nil {r : Option Res} (h : ofRes r = .nil) : r = some .ok := by
  cases r with
  | none => simp [ofRes] at h
  | some x => cases x <;> simp_all [ofRes]

theorem acquireAll_mono (b : Nat) (fail : Bool) (cancel : Nat → Option Nat) (l : State) (ps : List Nat) :
    ∀ c p, owns l c p = true → owns (acquireAll b fail cancel l ps).1 c p = true := by
  induction ps generalizing l with
  | nil => intro c p h; simpa [acquireAll] using h
  | cons q ps ih =>
    intro c p h
    simp only [acquireAll]
    split
    · exact ih l c p h
    · exact ih _ c p ((acquireOne_spec l b q fail (cancel q)).1 c p h)

end KafVerif.ProduceGate
