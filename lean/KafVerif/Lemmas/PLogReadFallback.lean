import KafVerif.Props.C02
/-!
Lemmas about `recordsFrom` (`recordsFromBatches`) and the `!found` branch of `PartitionLog.Read`
on a chain of batches (used by Props/C03 and Props/C04).
-/
namespace KafVerif.PLog
open KafVerif KafVerif.RecBatch

theorem body_append (a b : List Batch) : body (a ++ b) = body a ++ body b := by simp [body]

theorem body_cons (a : Batch) (t : List Batch) : body (a :: t) = a.bytes ++ body t := by simp [body]

/-- batches whose last offset is before `o` are skipped -/
theorem go_skip (o m : Int) (pre t : List Batch) (out : Bytes) (h : ∀ b ∈ pre, b.last < o) :
    recordsFrom.go o m (pre ++ t) out = recordsFrom.go o m t out := by
  induction pre with
  | nil => rfl
  | cons x p ih =>
    have hx : x.base + x.lod < o := h x (by simp)
    simp only [List.cons_append, recordsFrom.go, hx, if_true]
    exact ih (fun b hb => h b (by simp [hb]))

/-- once every remaining batch reaches `o`, the loop appends a prefix of the remaining batches; the
first one is always taken when nothing was collected yet -/
theorem go_take (o m : Int) (t : List Batch) (out : Bytes) (h : ∀ b ∈ t, ¬ b.last < o) :
    ∃ k, recordsFrom.go o m t out = out ++ body (t.take k) ∧ k ≤ t.length ∧ (out = [] → t ≠ [] → 1 ≤ k) := by
  induction t generalizing out with
  | nil => exact ⟨0, by simp [recordsFrom.go, body], by simp, by simp⟩
  | cons x t ih =>
    have hx : ¬ x.base + x.lod < o := h x (by simp)
    simp only [recordsFrom.go, hx, if_false]
    split
    · rename_i hc
      refine ⟨0, by simp [body], by simp, ?_⟩
      intro ho; rw [ho] at hc; simp at hc
    · obtain ⟨k, hk, hkl, _⟩ := ih (out ++ x.bytes) (fun b hb => h b (by simp [hb]))
      refine ⟨k + 1, ?_, by simp; omega, by intros; omega⟩
      rw [hk, List.take_succ_cons, body_cons, List.append_assoc]

/-- in a chain, everything from the first batch that reaches `o` onwards reaches `o` -/
theorem dropWhile_all {s e : Int} {bs : List Batch} (h : Chain s bs e) (o : Int) :
    ∀ b ∈ bs.dropWhile (fun b => decide (b.last < o)), ¬ b.last < o := by
  induction bs generalizing s with
  | nil => simp
  | cons x t ih =>
    obtain ⟨h1, h2, h3⟩ := h
    simp only [List.dropWhile_cons]
    split
    · exact ih h3
    · rename_i hx
      have hx' : ¬ x.last < o := by simpa using hx
      intro b hb
      simp only [List.mem_cons] at hb
      rcases hb with rfl | hb
      · exact hx'
      · have := (KafVerif.C02.chain_strict h3).1 b hb
        simp only [Batch.last] at *; omega

theorem takeWhile_all (bs : List Batch) (o : Int) :
    ∀ b ∈ bs.takeWhile (fun b => decide (b.last < o)), b.last < o := by
  induction bs with
  | nil => simp
  | cons x t ih =>
    intro b hb
    simp only [List.takeWhile_cons] at hb
    split at hb
    · rename_i hx
      simp only [List.mem_cons] at hb
      rcases hb with rfl | hb
      · simpa using hx
      · exact ih b hb
    · simp at hb

/-- the batches a read at `o` is served from: the batch holding `o` (or the first one after `o`)
and everything behind it -/
def runFrom (bs : List Batch) (o : Int) : List Batch := bs.dropWhile (fun b => decide (b.last < o))

theorem mem_runFrom {bs : List Batch} {o : Int} {b : Batch} (h : b ∈ runFrom bs o) : b ∈ bs := by
  unfold runFrom at h
  induction bs with
  | nil => simp at h
  | cons x t ih =>
    simp only [List.dropWhile_cons] at h
    split at h
    · exact List.mem_cons_of_mem _ (ih h)
    · exact h

/-- `recordsFromBatches` on a chain returns the bytes of a non-empty prefix of `runFrom`. -/
theorem recordsFrom_chain {s e : Int} {bs : List Batch} (h : Chain s bs e) (o m : Int) :
    ∃ k, recordsFrom bs o m = body ((runFrom bs o).take k) ∧ k ≤ (runFrom bs o).length ∧
      (runFrom bs o ≠ [] → 1 ≤ k) := by
  have hsplit : bs = bs.takeWhile (fun b => decide (b.last < o)) ++ runFrom bs o :=
    (List.takeWhile_append_dropWhile).symm
  unfold recordsFrom
  rw [hsplit, go_skip o m _ _ _ (takeWhile_all bs o)]
  obtain ⟨k, hk, hkl, hk1⟩ := go_take o m (runFrom bs o) [] (dropWhile_all h o)
  refine ⟨k, ?_, ?_, ?_⟩
  · rw [← hsplit]; simpa using hk
  · rw [← hsplit]; exact hkl
  · rw [← hsplit]; exact hk1 rfl

theorem body_take_ne_nil {t : List Batch} {k : Nat} (hk : 1 ≤ k) (ht : t ≠ [])
    (hb : ∀ b ∈ t, b.bytes ≠ []) : body (t.take k) ≠ [] := by
  cases t with
  | nil => exact absurd rfl ht
  | cons x t' =>
    cases k with
    | zero => omega
    | succ k' =>
      rw [List.take_succ_cons, body_cons]
      have := hb x (by simp)
      intro hnil
      exact this (List.append_eq_nil_iff.mp hnil).1

theorem runFrom_append_left {a b : List Batch} {o : Int} (h : runFrom a o ≠ []) :
    runFrom (a ++ b) o = runFrom a o ++ b := by
  unfold runFrom at *
  induction a with
  | nil => simp at h
  | cons x t ih =>
    simp only [List.cons_append, List.dropWhile_cons] at *
    split
    · rename_i hx; simp only [hx, if_true] at h; exact ih h
    · rfl

theorem runFrom_append_right {a b : List Batch} {o : Int} (h : runFrom a o = []) :
    runFrom (a ++ b) o = runFrom b o := by
  unfold runFrom at *
  induction a with
  | nil => rfl
  | cons x t ih =>
    simp only [List.cons_append, List.dropWhile_cons] at *
    split
    · rename_i hx; simp only [hx, if_true] at h; exact ih h
    · rename_i hx; simp [hx] at h

/-- the `!found` branch of `Read` on a chain `fl ++ buf` -/
theorem fallback_chain {s e : Int} {fl buf : List Batch} (h : Chain s (fl ++ buf) e)
    (hb : ∀ b ∈ fl ++ buf, b.bytes ≠ []) (o m : Int) :
    (runFrom (fl ++ buf) o = [] → fallback fl buf o m = .oor) ∧
    (runFrom (fl ++ buf) o ≠ [] →
      ∃ k, 1 ≤ k ∧ fallback fl buf o m = .data (body ((runFrom (fl ++ buf) o).take k))) := by
  obtain ⟨mid, hfl, hbuf⟩ := chain_append.mp h
  obtain ⟨k1, e1, l1, p1⟩ := recordsFrom_chain hfl o m
  obtain ⟨k2, e2, l2, p2⟩ := recordsFrom_chain hbuf o m
  have hsub1 : ∀ b ∈ runFrom fl o, b.bytes ≠ [] := fun b hm =>
    hb b (List.mem_append_left _ (mem_runFrom hm))
  have hsub2 : ∀ b ∈ runFrom buf o, b.bytes ≠ [] := fun b hm =>
    hb b (List.mem_append_right _ (mem_runFrom hm))
  by_cases hf : runFrom fl o = []
  · -- nothing in flight reaches o: the buffer answers
    have r1 : recordsFrom fl o m = [] := by rw [e1, hf]; simp [body]
    rw [runFrom_append_right hf]
    unfold fallback
    simp only [r1, List.length_nil, Nat.lt_irrefl, if_false]
    constructor
    · intro hr
      rw [e2, hr]; simp [body]
    · intro hr
      refine ⟨k2, p2 hr, ?_⟩
      have hne := body_take_ne_nil (p2 hr) hr hsub2
      have : (body (List.take k2 (runFrom buf o))).length > 0 := List.length_pos_iff.mpr hne
      rw [e2, if_pos this]
  · -- an in-flight batch reaches o: it answers, and it precedes the whole buffer
    rw [runFrom_append_left hf]
    constructor
    · intro hr; simp at hr; exact absurd hr.1 hf
    · intro _
      refine ⟨k1, p1 hf, ?_⟩
      have hne := body_take_ne_nil (p1 hf) hf hsub1
      have hpos : (body (List.take k1 (runFrom fl o))).length > 0 := List.length_pos_iff.mpr hne
      unfold fallback
      simp only [e1, hpos, if_true]
      rw [List.take_append_of_le_length l1]

end KafVerif.PLog
