import KafVerif.Model.LeaseKey
/-! Injectivity of the key expressions of `Model/LeaseKey.lean` (C18), for ALL strings. -/
namespace KafVerif.LeaseKey
open KafVerif.MetaKeys

/-! ### formatted integers (same facts as in Props/C22.lean, restated here so that C18 does not depend on C22's files) -/

theorem natStr_digit {n : Nat} {c : Char} (h : c ∈ natStr n) : c.isDigit :=
  Nat.isDigit_of_mem_toDigits (by decide) (by decide) h

theorem natStr_inj {n m : Nat} (h : natStr n = natStr m) : n = m := by
  have := congrArg (fun l => Nat.ofDigitChars 10 l 0) h
  simpa [natStr] using this

theorem intStr_char {i : Int} {c : Char} (h : c ∈ intStr i) : c.isDigit ∨ c = '-' := by
  cases i with
  | ofNat n => exact Or.inl (natStr_digit h)
  | negSucc n =>
    simp only [intStr, List.mem_cons] at h
    rcases h with h | h
    · exact Or.inr h
    · exact Or.inl (natStr_digit h)

theorem intStr_inj {i j : Int} (h : intStr i = intStr j) : i = j := by
  cases i with
  | ofNat n =>
    cases j with
    | ofNat m => simp only [intStr] at h; rw [natStr_inj h]
    | negSucc m =>
      simp only [intStr] at h
      have : '-' ∈ natStr n := by rw [h]; simp
      have := natStr_digit this
      simp [Char.isDigit] at this
  | negSucc n =>
    cases j with
    | ofNat m =>
      simp only [intStr] at h
      have : '-' ∈ natStr m := by rw [← h]; simp
      have := natStr_digit this
      simp [Char.isDigit] at this
    | negSucc m =>
      simp only [intStr, List.cons.injEq, true_and] at h
      have := natStr_inj h
      have : n = m := by omega
      rw [this]

theorem intStr_no {i : Int} {c : Char} (hd : c.isDigit = false) (hm : c ≠ '-') : c ∉ intStr i := by
  intro h
  rcases intStr_char h with h | h
  · simp [hd] at h
  · exact hm h

/-! ### the id occurs once: injective in the id -/

theorem evalConcat_idFree {ps : List KPiece} (h : idFree ps = true) (pfx a b : List Char) (n : Int) :
    evalConcat ps pfx a n = evalConcat ps pfx b n := by
  induction ps with
  | nil => rfl
  | cons p r ih =>
    cases p with
    | id => simp [idFree] at h
    | pfx => simp only [idFree] at h; simp [evalConcat, pieceStr, ih h]
    | part => simp only [idFree] at h; simp [evalConcat, pieceStr, ih h]
    | lit s => simp only [idFree] at h; simp [evalConcat, pieceStr, ih h]

theorem evalConcat_idOnce_inj {ps : List KPiece} (h : idOnce ps = true) (pfx a b : List Char) (n : Int)
    (he : evalConcat ps pfx a n = evalConcat ps pfx b n) : a = b := by
  induction ps with
  | nil => simp [idOnce] at h
  | cons p r ih =>
    cases p with
    | id =>
      simp only [idOnce] at h
      simp only [evalConcat, pieceStr] at he
      rw [evalConcat_idFree h pfx a b n] at he
      exact List.append_cancel_right he
    | pfx =>
      simp only [idOnce] at h
      simp only [evalConcat, pieceStr] at he
      exact ih h (List.append_cancel_left he)
    | part =>
      simp only [idOnce] at h
      simp only [evalConcat, pieceStr] at he
      exact ih h (List.append_cancel_left he)
    | lit s =>
      simp only [idOnce] at h
      simp only [evalConcat, pieceStr] at he
      exact ih h (List.append_cancel_left he)

/-! ### `id ++ [c] ++ %d`: the LAST separator splits the key, whatever the id contains -/

theorem last_sep_inj {c : Char} {x x' : List Char} (hx : c ∉ x) (hx' : c ∉ x') :
    ∀ {t t' : List Char}, t ++ c :: x = t' ++ c :: x' → t = t' ∧ x = x' := by
  intro t
  induction t with
  | nil =>
    intro t' h
    cases t' with
    | nil => simpa using h
    | cons d t2 =>
      simp only [List.nil_append, List.cons_append, List.cons.injEq] at h
      exact absurd (by rw [h.2]; simp) hx
  | cons a t1 ih =>
    intro t' h
    cases t' with
    | nil =>
      simp only [List.nil_append, List.cons_append, List.cons.injEq] at h
      exact absurd (by rw [← h.2]; simp) hx'
    | cons d t2 =>
      simp only [List.cons_append, List.cons.injEq] at h
      obtain ⟨e1, e2⟩ := ih h.2
      exact ⟨by rw [h.1, e1], e2⟩

theorem evalConcat_sepSafe_inj {ps : List KPiece} (h : sepSafe ps = true) (pfx t t' : List Char) (n n' : Int)
    (he : evalConcat ps pfx t n = evalConcat ps pfx t' n') : t = t' ∧ n = n' := by
  match ps, h with
  | [.id, .lit [c], .part], h =>
    simp only [sepSafe, Bool.and_eq_true, Bool.not_eq_true', bne_iff_ne, ne_eq] at h
    simp only [evalConcat, pieceStr, List.append_nil, List.cons_append, List.nil_append] at he
    obtain ⟨e1, e2⟩ := last_sep_inj (intStr_no h.1 h.2) (intStr_no h.1 h.2) he
    exact ⟨e1, intStr_inj e2⟩

end KafVerif.LeaseKey
