import KafVerif.Lemmas.GroupStep
/-! Projections of the `groupState` methods of the model. -/
namespace KafVerif.Group
namespace Group

@[simp] theorem ensureLeader_members (s : Group) : s.ensureLeader.members = s.members := by
  unfold ensureLeader; split
  · rfl
  · split <;> rfl
@[simp] theorem ensureLeader_gen (s : Group) : s.ensureLeader.gen = s.gen := by
  unfold ensureLeader; split
  · rfl
  · split <;> rfl
@[simp] theorem ensureLeader_phase (s : Group) : s.ensureLeader.phase = s.phase := by
  unfold ensureLeader; split
  · rfl
  · split <;> rfl
@[simp] theorem ensureLeader_asg (s : Group) : s.ensureLeader.asg = s.asg := by
  unfold ensureLeader; split
  · rfl
  · split <;> rfl
@[simp] theorem ensureLeader_deadline (s : Group) : s.ensureLeader.deadline = s.deadline := by
  unfold ensureLeader; split
  · rfl
  · split <;> rfl
@[simp] theorem ensureLeader_rebTimeout (s : Group) : s.ensureLeader.rebTimeout = s.rebTimeout := by
  unfold ensureLeader; split
  · rfl
  · split <;> rfl

@[simp] theorem ensureLeader_protoName (s : Group) : s.ensureLeader.protoName = s.protoName := by
  unfold ensureLeader; split
  · rfl
  · split <;> rfl
@[simp] theorem ensureLeader_protoType (s : Group) : s.ensureLeader.protoType = s.protoType := by
  unfold ensureLeader; split
  · rfl
  · split <;> rfl

/-- after `ensureLeader` a non-empty leader is a member -/
theorem ensureLeader_valid (s : Group) : s.ensureLeader.leader ≠ 0 → (lookup s.ensureLeader.members s.ensureLeader.leader).isSome := by
  unfold ensureLeader
  split
  · rename_i h; intro _; exact h.2
  · split
    · simp
    · rename_i e t hm
      intro _
      simp only [hm]
      obtain ⟨k, v⟩ := e
      simp [lookup]

theorem startRebalance_of_nonempty (s : Group) (t now : Nat) (h : s.members ≠ []) :
    (s.startRebalance t now).gen = s.gen + 1 ∧ (s.startRebalance t now).phase = .preparing ∧
    (s.startRebalance t now).asg = [] ∧ (s.startRebalance t now).members = resetJoins s.members := by
  unfold startRebalance
  have : s.members.isEmpty = false := by cases hm : s.members <;> simp_all
  simp [this]

/-- `startRebalance` of a non-empty group: `ensureLeader` of an intermediate group, then the join markers reset -/
theorem startRebalance_eq (s : Group) (t now : Nat) (h : s.members ≠ []) :
    ∃ x : Group, x.members = s.members ∧
      x.rebTimeout = (if t > 0 then t else if s.rebTimeout = 0 then defaultRebalance else s.rebTimeout) ∧
      s.startRebalance t now = { x.ensureLeader with members := resetJoins x.ensureLeader.members } := by
  unfold startRebalance
  have : s.members.isEmpty = false := by cases hm : s.members <;> simp_all
  simp only [this, Bool.false_eq_true, if_false]
  exact ⟨{ s with rebTimeout := (if t > 0 then t else if s.rebTimeout = 0 then defaultRebalance else s.rebTimeout),
                  gen := s.gen + 1, phase := .preparing, asg := [],
                  deadline := now + (if t > 0 then t else if s.rebTimeout = 0 then defaultRebalance else s.rebTimeout) },
    rfl, rfl, rfl⟩

theorem startRebalance_gen_ge (s : Group) (t now : Nat) : s.gen ≤ (s.startRebalance t now).gen := by
  unfold startRebalance; split
  · exact Nat.le_refl _
  · simp

@[simp] theorem bump_gen (s : Group) (t now : Nat) : (s.bump t now).gen = s.gen := rfl
@[simp] theorem bump_members (s : Group) (t now : Nat) : (s.bump t now).members = s.members := rfl
@[simp] theorem bump_phase (s : Group) (t now : Nat) : (s.bump t now).phase = s.phase := rfl
@[simp] theorem bump_asg (s : Group) (t now : Nat) : (s.bump t now).asg = s.asg := rfl
@[simp] theorem bump_leader (s : Group) (t now : Nat) : (s.bump t now).leader = s.leader := rfl

theorem completeIfReady_gen (s : Group) : s.completeIfReady.1.gen = s.gen := by
  unfold completeIfReady; split
  · rfl
  · split <;> rfl
theorem completeIfReady_members (s : Group) : s.completeIfReady.1.members = s.members := by
  unfold completeIfReady; split
  · rfl
  · split <;> rfl
theorem completeIfReady_leader (s : Group) : s.completeIfReady.1.leader = s.leader := by
  unfold completeIfReady; split
  · rfl
  · split <;> rfl
theorem completeIfReady_asg (s : Group) : s.completeIfReady.1.asg = s.asg := by
  unfold completeIfReady; split
  · rfl
  · split <;> rfl

theorem markStable_of_not_dead (s : Group) (h : s.phase ≠ .dead) :
    s.markStable = { s with phase := .stable, deadline := 0 } := by
  unfold markStable; rw [if_neg h]

theorem lookup_resetJoins (ms : List (Nat × Member)) (k : Nat) :
    lookup (resetJoins ms) k = (lookup ms k).map fun m => { m with joinGen := 0 } := by
  unfold resetJoins
  exact lookup_map_val ms (fun e => { e.2 with joinGen := 0 }) k

theorem resetJoins_keys' (ms : List (Nat × Member)) (e' : Nat × Member) (h : e' ∈ resetJoins ms) :
    ∃ e ∈ ms, e.1 = e'.1 ∧ e'.2.joinGen = 0 := by
  unfold resetJoins at h
  obtain ⟨e, he, rfl⟩ := List.mem_map.mp h
  exact ⟨e, he, rfl, rfl⟩

/-! ### dropMembers -/

theorem dropMembers_members (s : Group) (gone : Member → Bool) :
    (s.dropMembers gone).1.members = s.members.filter fun e => !gone e.2 := rfl
theorem dropMembers_gen (s : Group) (gone : Member → Bool) : (s.dropMembers gone).1.gen = s.gen := rfl
theorem dropMembers_deadline (s : Group) (gone : Member → Bool) : (s.dropMembers gone).1.deadline = s.deadline := rfl

theorem dropMembers_changed (s : Group) (gone : Member → Bool) :
    (s.dropMembers gone).2 = true ↔ ∃ e ∈ s.members, gone e.2 = true := by
  unfold dropMembers
  simp only [keys]
  constructor
  · intro h
    have hne : (s.members.filter fun e => gone e.2) ≠ [] := by
      intro hnil; simp [hnil] at h
    obtain ⟨e, he⟩ := List.exists_mem_of_ne_nil _ hne
    exact ⟨e, (List.mem_filter.mp he).1, (List.mem_filter.mp he).2⟩
  · rintro ⟨e, he, hg⟩
    have : e ∈ s.members.filter fun e => gone e.2 := List.mem_filter.mpr ⟨he, hg⟩
    cases hm : (s.members.filter fun e => gone e.2) with
    | nil => rw [hm] at this; simp at this
    | cons a t => simp

/-- when nobody is selected the group is unchanged -/
theorem dropMembers_none (s : Group) (gone : Member → Bool) (h : ∀ e ∈ s.members, gone e.2 = false) (hne : s.members ≠ []) :
    (s.dropMembers gone).1 = s := by
  unfold dropMembers
  have h1 : (s.members.filter fun e => gone e.2) = [] := by
    apply List.filter_eq_nil_iff.mpr
    intro e he; simp [h e he]
  have h2 : (s.members.filter fun e => !gone e.2) = s.members := by
    apply List.filter_eq_self.mpr
    intro e he; simp [h e he]
  have h3 : s.members.isEmpty = false := by cases hm : s.members <;> simp_all
  have h4 : s.asg.filter (fun _ => true) = s.asg := List.filter_eq_self.mpr (by simp)
  simp [h1, h2, keys, h3, h4]

end Group

/-- the group an outcome of the cleanup pass leaves behind -/
def CleanupOutcome.group? : CleanupOutcome → Option Group
  | .gone => none
  | .rebalanced st => some st
  | .kept st => some st

/-- what `cleanupGroup` stores for the group it processes -/
theorem cleanupGroup_lookup (v : Variant) (s : State) (g : Nat) (st : Group) :
    lookup (cleanupGroup v s g st).groups g = (cleanupOutcome st s.clock).group? := by
  unfold cleanupGroup
  split <;> rename_i h <;> simp only [h, CleanupOutcome.group?, persist_groups, setGroup, lookup_insert, lookup_erase, if_true]

/-- the leader's sync of a CompletingRebalance group: Stable, same members and generation, the
assignment is `assignPartitions` of the members -/
theorem leaderAssign_spec (s : State) (st : Group) (h : st.phase = .completing) :
    (leaderAssign s st).2.phase = .stable ∧ (leaderAssign s st).2.members = st.members ∧
    (leaderAssign s st).2.gen = st.gen ∧ (leaderAssign s st).2.leader = st.leader ∧
    (leaderAssign s st).2.asg = assignPartitions st.members s.tmeta (s.faults.metaF && !(subscribedTopics st.members).isEmpty) := by
  unfold leaderAssign
  simp only
  rw [Group.markStable_of_not_dead _ (by simp [h])]
  exact ⟨rfl, rfl, rfl, rfl, rfl⟩

end KafVerif.Group
