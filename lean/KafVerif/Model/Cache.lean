import KafVerif.Prelude.Basic
/-!
Model of `pkg/cache/segment_cache.go` (SegmentCache).

Lean values are immutable, so aliasing between the cache's entry buffer and the slice a
reader was handed is modelled with an explicit heap `Nat ↦ bytes`.  `set`/`get` mirror
`SetSegment`/`GetSegment`/`evictIfNeeded` line by line.  Keys are abstract ids: `makeKey`
(`"%s:%d:%d"`) is injective on (topic, partition, base) because the two numeric fields contain
no ':' — the harness maps triples to ids itself and includes ':'-carrying topics.

`setOld` is the code before the "fix:" commit (in-place overwrite when capacity suffices).
-/
namespace KafVerif.Cache

-- keys and buffer ids are plain `Nat` (an `abbrev` hides `Nat` from `omega`)

structure Cache where
  capacity : Nat
  heap : List Bytes            -- Nat = index; what every byte slice ever allocated holds NOW
  caps : List Nat              -- Go capacity of each buffer (for the pre-fix model)
  lru  : List (Nat × Nat)    -- front = most recently used
  out  : List (Nat × Bytes)  -- ghost: slices handed to readers, with the bytes they saw
deriving Repr

/-- `NewSegmentCache`: non-positive capacity becomes 1. -/
def new (capacityBytes : Int) : Cache :=
  { capacity := if capacityBytes ≤ 0 then 1 else capacityBytes.toNat, heap := [], caps := [], lru := [], out := [] }

def bufLen (heap : List Bytes) (b : Nat) : Nat := (heap.getD b []).length

def sizeOf (heap : List Bytes) (lru : List (Nat × Nat)) : Nat :=
  (lru.map fun e => bufLen heap e.2).sum

def Cache.size (c : Cache) : Nat := sizeOf c.heap c.lru

/-- `evictIfNeeded`: drop from the back while size > capacity and the list is non-empty
(fuel = list length, so the definition is structural and reduces in the kernel). -/
def evictN (heap : List Bytes) (capacity : Nat) : Nat → List (Nat × Nat) → List (Nat × Nat)
  | 0, l => l
  | n + 1, l => if sizeOf heap l > capacity then evictN heap capacity n l.dropLast else l

def evict (heap : List Bytes) (capacity : Nat) (l : List (Nat × Nat)) : List (Nat × Nat) :=
  evictN heap capacity l.length l

def lookup (lru : List (Nat × Nat)) (k : Nat) : Option Nat :=
  (lru.find? fun e => e.1 == k).map (·.2)

def moveToFront (lru : List (Nat × Nat)) (k : Nat) (b : Nat) : List (Nat × Nat) :=
  (k, b) :: lru.filter fun e => e.1 != k

/-- `GetSegment`. -/
def get (c : Cache) (k : Nat) : Cache × Option Bytes :=
  match lookup c.lru k with
  | some b =>
    let data := c.heap.getD b []
    ({ c with lru := moveToFront c.lru k b, out := (b, data) :: c.out }, some data)
  | none => (c, none)

/-- `SetSegment` after the fix: always stores a fresh copy. -/
def set (c : Cache) (k : Nat) (data : Bytes) : Cache :=
  let b := c.heap.length
  let heap := c.heap ++ [data]
  let caps := c.caps ++ [data.length]
  let lru := moveToFront c.lru k b
  { c with heap := heap, caps := caps, lru := evict heap c.capacity lru }

/-- `SetSegment` before the fix: `append(entry.data[:0], data...)` reuses the buffer when it fits. -/
def setOld (c : Cache) (k : Nat) (data : Bytes) : Cache :=
  match lookup c.lru k with
  | some b =>
    if data.length ≤ c.caps.getD b 0 then
      let heap := c.heap.set b data
      { c with heap := heap, lru := evict heap c.capacity (moveToFront c.lru k b) }
    else set c k data
  | none => set c k data

inductive Op where
  | set (k : Nat) (data : Bytes)
  | get (k : Nat)
deriving Repr

def step (c : Cache) : Op → Cache
  | .set k d => set c k d
  | .get k => (get c k).1

def stepOld (c : Cache) : Op → Cache
  | .set k d => setOld c k d
  | .get k => (get c k).1

/-- Every slice handed out still holds the bytes its reader saw. -/
def Stable (c : Cache) : Prop := ∀ p ∈ c.out, c.heap.getD p.1 [] = p.2

def stableB (c : Cache) : Bool := c.out.all fun p => c.heap.getD p.1 [] == p.2

end KafVerif.Cache
