import KafVerif.Prelude.Basic
/-!
Model of the metadata side of `cmd/proxy/main.go`:

* `storeMetadata` / `filterTopics`  — `InMemoryStore.Metadata` + `filterTopics` (pkg/metadata/store.go),
  the part `loadMetadata` calls (EtcdStore.Metadata delegates to the same in-memory store);
* `scanReq`, `loadMetadata`         — `(*proxy).loadMetadata` (name list / topic-id filter / all);
* `buildResponse`                   — `buildProxyMetadataResponse` AFTER the proposed fix
  (fixes/C28-metadata-error-topic-leaders.patch): every topic goes through the rewrite;
* `buildResponseOld`                — the code as found: a topic with a non-zero error code is
  copied verbatim, partitions (real leader / replica / ISR ids) included;
* `findCoordinator`                 — `handleFindCoordinator`;
* `notReadyMetadata`, `notReadyCoordinator` — the Metadata / FindCoordinator arms of
  `buildNotReadyResponse`;
* `wire`                            — which response fields exist at a Metadata version (kmsg codec
  table; trusted, only used by the driver to print what a client decodes).

Topic ids are `TopicId`: the all-zero UUID, a literal UUID (a number), or the id the store
derives from a topic NAME when the snapshot carries none (`TopicIDForName`, a SHA-1 prefix —
modelled as an injective constructor disjoint from the literal ids; trusted).  Names are
`Option String` (`none` = nil pointer).  Core Lean only.
-/
namespace KafVerif.ProxyMetadata

inductive TopicId where
  | zero
  | lit (n : Nat)
  | ofName (name : String)
deriving Repr, DecidableEq, Inhabited

structure Part where
  err : Int
  id : Int
  leader : Int
  epoch : Int
  replicas : List Int
  isr : List Int
  offline : List Int
deriving Repr, DecidableEq, Inhabited

structure Topic where
  err : Int
  name : Option String
  tid : TopicId
  internal : Bool
  parts : List Part
deriving Repr, DecidableEq, Inhabited

structure Broker where
  node : Int
  host : String
  port : Int
deriving Repr, DecidableEq, Inhabited

/-- `metadata.ClusterMetadata` and (same shape) the decoded `kmsg.MetadataResponse`. -/
structure Meta where
  brokers : List Broker
  controller : Int
  cluster : Option String
  topics : List Topic
deriving Repr, DecidableEq, Inhabited

structure ReqTopic where
  name : Option String
  tid : TopicId
deriving Repr, DecidableEq, Inhabited

def NONE : Int := 0
def UNKNOWN_TOPIC_OR_PARTITION : Int := 3
def REQUEST_TIMED_OUT : Int := 7
def UNKNOWN_TOPIC_ID : Int := 100

/-! ### store -/

/-- A Go map built by `for _, t := range all { index[key t] = t }` and then read with
`index[k]`: the LAST element with that key wins. -/
def lastWith (p : Topic → Bool) : List Topic → Option Topic
  | [] => none
  | t :: ts => match lastWith p ts with
    | some x => some x
    | none => if p t then some t else none

/-- `filterTopics(all, requested)` for a non-empty `requested`. -/
def filterTopics (all : List Topic) (requested : List String) : List Topic :=
  requested.map fun n =>
    match lastWith (fun t => t.name == some n) all with
    | some t => t
    | none => { err := UNKNOWN_TOPIC_OR_PARTITION, name := some n, tid := .zero, internal := false, parts := [] }

/-- `cloneTopics` (applied by `NewInMemoryStore`, `Update` and every `Metadata` call): a topic
whose snapshot id is all-zero gets the id derived from its name.  (A nil name pointer panics
there; snapshots are assumed to name their topics.) -/
def normTopic (t : Topic) : Topic :=
  { t with name := some (t.name.getD ""),
           tid := if t.tid = .zero then .ofName (t.name.getD "") else t.tid }

/-- The cluster metadata as the store hands it out. -/
def storeView (s : Meta) : Meta := { s with topics := s.topics.map normTopic }

/-- `InMemoryStore.Metadata(ctx, topics)`: `len(topics) == 0` returns everything. -/
def storeMetadata (s : Meta) (names : List String) : Meta :=
  let v := storeView s
  if names.isEmpty then v else { v with topics := filterTopics v.topics names }

/-! ### loadMetadata -/

/-- The first loop of `loadMetadata`: stop at the first entry with a non-zero topic id
(`useIDs = true; break`), otherwise collect the non-nil names. -/
def scanReq : List ReqTopic → List String → Bool × List String
  | [], acc => (false, acc)
  | t :: ts, acc =>
    if t.tid ≠ .zero then (true, acc)
    else scanReq ts (match t.name with | some n => acc ++ [n] | none => acc)

/-- The by-id arm: every entry with a non-zero id, in request order. -/
def byId (all : List Topic) (req : List ReqTopic) : List Topic :=
  (req.filter fun t => t.tid != .zero).map fun t =>
    match lastWith (fun x => x.tid == t.tid) all with
    | some x => x
    | none => { err := UNKNOWN_TOPIC_ID, name := none, tid := t.tid, internal := false, parts := [] }

/-- `(*proxy).loadMetadata`; `req = none` is `req.Topics == nil`. -/
def loadMetadata (s : Meta) (req : Option (List ReqTopic)) : Meta :=
  match req with
  | none => storeMetadata s []
  | some ts =>
    let r := scanReq ts []
    if !r.1 then storeMetadata s r.2
    else
      let all := storeMetadata s []
      { brokers := all.brokers, controller := all.controller, cluster := all.cluster,
        topics := byId all.topics ts }

/-! ### buildProxyMetadataResponse -/

def rewritePart (p : Part) : Part :=
  { err := p.err, id := p.id, leader := 0, epoch := p.epoch, replicas := [0], isr := [0], offline := [] }

def rewriteTopic (t : Topic) : Topic :=
  { err := t.err, name := t.name, tid := t.tid, internal := t.internal, parts := t.parts.map rewritePart }

/-- After the fix: all topics are rewritten. -/
def buildResponse (m : Meta) (host : String) (port : Int) : Meta :=
  { brokers := [{ node := 0, host := host, port := port }],
    controller := 0,
    cluster := m.cluster,
    topics := m.topics.map rewriteTopic }

/-- As found: `if topic.ErrorCode != NONE { topics = append(topics, topic); continue }`. -/
def buildResponseOld (m : Meta) (host : String) (port : Int) : Meta :=
  { brokers := [{ node := 0, host := host, port := port }],
    controller := 0,
    cluster := m.cluster,
    topics := m.topics.map fun t => if t.err ≠ NONE then t else rewriteTopic t }

/-- `handleMetadata` = `loadMetadata` then `buildProxyMetadataResponse`. -/
def handleMetadata (s : Meta) (req : Option (List ReqTopic)) (host : String) (port : Int) : Meta :=
  buildResponse (loadMetadata s req) host port

def handleMetadataOld (s : Meta) (req : Option (List ReqTopic)) (host : String) (port : Int) : Meta :=
  buildResponseOld (loadMetadata s req) host port

/-! ### concurrent clients

`handleMetadata` reads `p.store`, `p.advertisedHost`, `p.advertisedPort` and nothing else of the
proxy: no cache, no in-flight table is shared between two Metadata requests.  Serving a batch of
overlapping requests is therefore the pointwise map. -/

def serveConcurrent (s : Meta) (reqs : List (Option (List ReqTopic))) (host : String) (port : Int) : List Meta :=
  reqs.map fun r => handleMetadata s r host port

/-- A (hypothetical) proxy that coalesces overlapping lookups: a request whose `key` equals the
key of an EARLIER request of the batch is answered from that request's load.  With an injective
key this is `serveConcurrent`; the seeded change C28-1 used `namesKey`. -/
def serveCoalesced {κ : Type} [DecidableEq κ] (key : Option (List ReqTopic) → κ) (s : Meta)
    (reqs : List (Option (List ReqTopic))) (host : String) (port : Int) : List Meta :=
  reqs.map fun r =>
    match reqs.find? (fun r' => key r' = key r) with
    | some r' => buildResponse (loadMetadata s r') host port
    | none => handleMetadata s r host port

/-- "metadata/*" for all-topics, else the requested NAMES joined (ids ignored). -/
def namesKey (r : Option (List ReqTopic)) : Option (List String) :=
  r.map fun ts => ts.filterMap (·.name)

/-! ### a session on ONE proxy: snapshot changes, cache refreshes, requests

The proxy object lives across requests and owns per-proxy state besides the store handle: the
topic-id → name cache `p.topicNames`, rebuilt wholesale by `updateTopicNames` (called from
`refreshMetadataCache` — the 10 s loop, start-up, `resolveTopicID` on a miss — and from
`currentBackends`).  `handleMetadata`/`loadMetadata` must NOT consult it: a Metadata reply is a
function of the CURRENT store snapshot.  The session model carries the cache as ghost state. -/

/-- `updateTopicNames(meta.Topics)` on what `store.Metadata(ctx, nil)` hands out: one entry per
topic with a non-zero id and a non-empty name, in snapshot order (the Go map keeps the LAST
entry of an id, see `cacheLookup`). -/
def cacheOf (s : Meta) : List (TopicId × String) :=
  (storeView s).topics.filterMap fun t =>
    if t.tid ≠ .zero ∧ t.name.getD "" ≠ "" then some (t.tid, t.name.getD "") else none

/-- `name, ok := p.topicNames[id]` for a map filled by `for … { names[id] = name }`. -/
def cacheLookup : List (TopicId × String) → TopicId → Option String
  | [], _ => none
  | (k, v) :: rest, id =>
    match cacheLookup rest id with
    | some x => some x
    | none => if k = id then some v else none

/-- Proxy state relevant to Metadata: the store's current snapshot and the (ghost) name cache. -/
structure Session where
  snap : Meta
  cache : List (TopicId × String)
deriving Repr, DecidableEq, Inhabited

inductive SOp where
  /-- the cluster metadata changes (`InMemoryStore.Update`, i.e. the etcd watch / a topic is
  deleted, re-created with a new id, renamed, added) -/
  | setSnapshot (m : Meta)
  /-- `refreshMetadataCache` / `currentBackends`: `updateTopicNames(store.Metadata(nil).Topics)` -/
  | warm
  /-- `resolveTopicID(id)` (Fetch / Produce by topic id): refresh on a cache miss -/
  | resolve (id : TopicId)
  /-- a Metadata request -/
  | request (req : Option (List ReqTopic))
deriving Repr, DecidableEq, Inhabited

/-- State transition of one op (independent of how requests are answered). -/
def advance (st : Session) : SOp → Session
  | .setSnapshot m => { st with snap := m }
  | .warm => { st with cache := cacheOf st.snap }
  | .resolve id => if (cacheLookup st.cache id).isSome then st else { st with cache := cacheOf st.snap }
  | .request _ => st

/-- The reply (if the op is a request) of a proxy whose `loadMetadata` is `load cache snapshot req`. -/
def replyWith (load : List (TopicId × String) → Meta → Option (List ReqTopic) → Meta)
    (host : String) (port : Int) (st : Session) : SOp → Option Meta
  | .request r => some (buildResponse (load st.cache st.snap r) host port)
  | _ => none

def runSessionWith (load : List (TopicId × String) → Meta → Option (List ReqTopic) → Meta)
    (host : String) (port : Int) : Session → List SOp → List (Option Meta)
  | _, [] => []
  | st, op :: ops => replyWith load host port st op :: runSessionWith load host port (advance st op) ops

/-- The code: `loadMetadata` reads the store, never the cache. -/
def runSession (host : String) (port : Int) (st : Session) (ops : List SOp) : List (Option Meta) :=
  runSessionWith (fun _ s r => loadMetadata s r) host port st ops

/-- The snapshot in force after a history. -/
def currentSnap (s0 : Meta) : List SOp → Meta
  | [] => s0
  | .setSnapshot m :: ops => currentSnap m ops
  | _ :: ops => currentSnap s0 ops

/-- The class of the seeded change C28-r2-1: a by-id request whose ids are ALL in the name cache
is translated to names and the store is asked BY NAME (`cachedTopicNames` walks every request
entry, zero ids included; one miss falls back to the by-id path). -/
def cachedNames (cache : List (TopicId × String)) : List ReqTopic → Option (List String)
  | [] => some []
  | t :: ts =>
    match cacheLookup cache t.tid, cachedNames cache ts with
    | some n, some ns => some (n :: ns)
    | _, _ => none

def loadViaNameCache (cache : List (TopicId × String)) (s : Meta) (req : Option (List ReqTopic)) : Meta :=
  match req with
  | none => storeMetadata s []
  | some ts =>
    let r := scanReq ts []
    if !r.1 then storeMetadata s r.2
    else
      match cachedNames cache ts with
      | some names => storeMetadata s names
      | none =>
        let all := storeMetadata s []
        { brokers := all.brokers, controller := all.controller, cluster := all.cluster,
          topics := byId all.topics ts }

def runSessionCached (host : String) (port : Int) (st : Session) (ops : List SOp) : List (Option Meta) :=
  runSessionWith loadViaNameCache host port st ops

/-- The cache agrees with the snapshot: whatever id it translates, the snapshot's topic of that
id exists and is the very topic the snapshot serves under the cached name. -/
def cacheAgrees (cache : List (TopicId × String)) (s : Meta) : Prop :=
  ∀ id n, cacheLookup cache id = some n →
    ∃ t, lastWith (fun x => x.tid == id) (storeView s).topics = some t ∧
         lastWith (fun x => x.name == some n) (storeView s).topics = some t

/-! ### FindCoordinator and the not-ready replies -/

structure Coord where
  err : Int
  node : Int
  host : String
  port : Int
deriving Repr, DecidableEq, Inhabited

/-- `handleFindCoordinator`. -/
def findCoordinator (host : String) (port : Int) : Coord :=
  { err := NONE, node := 0, host := host, port := port }

/-- `buildNotReadyResponse`, FindCoordinator arm (`NewPtrFindCoordinatorResponse` defaults). -/
def notReadyCoordinator : Coord :=
  { err := REQUEST_TIMED_OUT, node := -1, host := "", port := 0 }

/-- `buildNotReadyResponse`, Metadata arm: no brokers, controller -1, one errored topic per
requested entry, no partitions. -/
def notReadyMetadata (req : Option (List ReqTopic)) : Meta :=
  { brokers := [], controller := -1, cluster := none,
    topics := (req.getD []).map fun t =>
      { err := REQUEST_TIMED_OUT, name := t.name, tid := t.tid, internal := false, parts := [] } }

/-! ### what a client decodes at Metadata version `v` (kmsg field table, trusted) -/

def wirePart (v : Nat) (p : Part) : Part :=
  { p with epoch := if v ≥ 7 then p.epoch else -1, offline := if v ≥ 5 then p.offline else [] }

def wireTopic (v : Nat) (t : Topic) : Topic :=
  { t with name := if v ≥ 12 then t.name else some (t.name.getD ""),
           tid := if v ≥ 10 then t.tid else .zero,
           internal := if v ≥ 1 then t.internal else false,
           parts := t.parts.map (wirePart v) }

def wire (v : Nat) (m : Meta) : Meta :=
  { brokers := m.brokers,
    controller := if v ≥ 1 then m.controller else -1,
    cluster := if v ≥ 2 then m.cluster else none,
    topics := m.topics.map (wireTopic v) }

/-! ### the property as executable predicates (used by the theorems AND by the monitor) -/

/-- Every broker id a reply mentions is the proxy's (id 0, advertised host/port). -/
def partOnlyProxy (p : Part) : Bool :=
  p.leader == 0 && p.replicas == [0] && p.isr == [0] && p.offline == []

def onlyProxy (r : Meta) (host : String) (port : Int) : Bool :=
  r.brokers == [{ node := 0, host := host, port := port }] && r.controller == 0 &&
  r.topics.all fun t => t.parts.all partOnlyProxy

/-- The part of a partition / topic the property says must be kept. -/
def partShape (p : Part) : Int × Int × Int := (p.id, p.err, p.epoch)

abbrev Shape := Option String × TopicId × Int × Bool × List (Int × Int × Int)

def topicShape (t : Topic) : Shape :=
  (t.name, t.tid, t.err, t.internal, t.parts.map partShape)

/-- The reply a not-ready proxy may give: it names nobody. -/
def namesNobody (r : Meta) : Bool :=
  r.brokers == [] && r.topics.all fun t => t.parts == []

end KafVerif.ProxyMetadata
