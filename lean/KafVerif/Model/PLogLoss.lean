import KafVerif.Model.PLogRead
/-!
Object loss in S3 and the orphan rule of `RestoreFromS3` (pkg/storage/log.go), on top of
`Model/PLogRead.lean` (C03 / C04: a fetch in a HOLE of the restored segment list).

`PLog.s3` holds one entry per `.kfs` object of the partition (segment bytes + the index that was
uploaded with it).  `LLog.noIdx` lists the bases of the `.kfs` objects whose `.index` object is missing
or does not parse any more.  `RestoreFromS3` lists the `.kfs` objects, sorts them by base offset and
downloads every index: a segment without a usable index is *skipped* when its base is at or beyond the
log's start offset (the metadata store's next offset) and makes the restore fail otherwise.  The
restored segment list can therefore have a hole in the middle; `Read` must snap an offset inside
the hole forward to the next retained segment (`findSeg`).
-/
namespace KafVerif.PLog
open KafVerif.RecBatch

/-- a partition log + the bases of the S3 segment objects whose index object is lost / corrupt -/
structure LLog where
  l : PLog
  noIdx : List Int := []
deriving Repr

inductive RestoreOut where
  | ok (last : Int)
  | err
deriving Repr, DecidableEq

/-- the index loop of `RestoreFromS3` over the found segments (sorted by base): keep a segment whose
index parses; skip one without a usable index when `base ≥ nextOffset`; fail otherwise. -/
def scanIdx (noIdx : List Int) (next : Int) : List Seg → Option (List Seg)
  | [] => some []
  | g :: t =>
    if noIdx.contains g.base then
      (if g.base ≥ next then scanIdx noIdx next t else none)
    else (scanIdx noIdx next t).map (g :: ·)

/-- `NewPartitionLog(startOffset = st)` with nothing restored -/
def freshAt (l : PLog) (st : Int) : PLog :=
  { l with next := st, hw := st, segs := [], buf := [], fl := [], gated := false }

/-- process restart with object loss: `NewPartitionLog(st)` + `RestoreFromS3` (orphan rule) + the broker's
`UpdateOffsets` when the restored log is ahead of the store. -/
def restoreAt (x : LLog) (st : Int) : LLog × RestoreOut :=
  match scanIdx x.noIdx st (sortSegs x.l.s3) with
  | none => ({ x with l := freshAt x.l st }, .err)
  | some segs =>
    match segs.getLast? with
    | none => ({ x with l := freshAt x.l st }, .ok (-1))
    | some s =>
      ({ x with l := { x.l with next := if s.last ≥ st then s.last + 1 else st
                                hw := if s.last ≥ st then s.last + 1 else st
                                segs := segs, buf := [], fl := [], gated := false } }, .ok s.last)

/-- the `.index` object of the segment with base `b` is deleted or overwritten with garbage -/
def loseIndex (x : LLog) (b : Int) : LLog :=
  if x.l.s3.any (·.base == b) ∧ ¬ x.noIdx.contains b then { x with noIdx := b :: x.noIdx } else x

/-- the `.kfs` object with base `b` and its index are deleted -/
def loseSeg (x : LLog) (b : Int) : LLog :=
  { l := { x.l with s3 := x.l.s3.filter (·.base != b) }, noIdx := x.noIdx.filter (· != b) }

/-- after a step of the log that may have committed segments (`uploadFlush` writes the `.kfs` AND the `.index`
object): the new segments have an index again -/
def afterCommit (x : LLog) (l' : PLog) : LLog :=
  { l := l', noIdx := x.noIdx.filter fun b => !((l'.segs.drop x.l.segs.length).any (·.base == b)) }

/-- what is lost between a crash and the restart -/
inductive Loss where
  | index (base : Int)
  | seg (base : Int)
deriving Repr, DecidableEq

def lose (x : LLog) : Loss → LLog
  | .index b => loseIndex x b
  | .seg b => loseSeg x b

/-- `Read`'s segment lookup as rewritten with `sort.Search` on the base offsets (seeded change C04-r2-1):
the last segment starting at or before `o`; only the gap before the FIRST segment is snapped forward. -/
def findSegSearch (segs : List Seg) (o : Int) : Option (Seg × Int) :=
  match segs with
  | [] => none
  | s0 :: _ =>
    match (segs.filter (·.base ≤ o)).getLast? with
    | none => some (s0, s0.base)
    | some s => if o ≤ s.last then some (s, o) else none

/-! ### seeded changes to `RestoreFromS3` (round 3), modelled as variants -/

/-- highest footer last-offset over EVERY listed `.kfs` object (−1: none) -/
def maxFooter (ss : List Seg) : Int := ss.foldl (fun m g => if g.last > m then g.last else m) (-1)

/-- `RestoreFromS3` with the seeded change C02-r3-1: the restored last offset is the highest footer last-offset found while
probing every listed `.kfs` object, instead of the last offset of the last segment that SURVIVED the index check — an orphan
that is skipped still advances `nextOffset`. -/
def restoreAtMaxFooter (x : LLog) (st : Int) : LLog × RestoreOut :=
  match scanIdx x.noIdx st (sortSegs x.l.s3) with
  | none => ({ x with l := freshAt x.l st }, .err)
  | some segs =>
    if segs.isEmpty then ({ x with l := freshAt x.l st }, .ok (-1)) else
    let last := maxFooter x.l.s3
    ({ x with l := { x.l with next := if last ≥ st then last + 1 else st
                              hw := if last ≥ st then last + 1 else st
                              segs := segs, buf := [], fl := [], gated := false } }, .ok last)

/-- the index loop with the seeded change C04-r3-1: a COMMITTED segment (`base < nextOffset`) whose `.index` object is missing
is registered anyway, without index entries (`Read` then takes the no-index fallback `sliceFull`). -/
def scanIdxLenient (noIdx : List Int) (next : Int) : List Seg → List Seg
  | [] => []
  | g :: t =>
    if noIdx.contains g.base then
      (if g.base ≥ next then scanIdxLenient noIdx next t else { g with entries := [] } :: scanIdxLenient noIdx next t)
    else g :: scanIdxLenient noIdx next t

/-- `RestoreFromS3` with the seeded change C04-r3-1 (never fails on a missing index). -/
def restoreAtLenient (x : LLog) (st : Int) : LLog × RestoreOut :=
  let segs := scanIdxLenient x.noIdx st (sortSegs x.l.s3)
  match segs.getLast? with
  | none => ({ x with l := freshAt x.l st }, .ok (-1))
  | some s =>
    ({ x with l := { x.l with next := if s.last ≥ st then s.last + 1 else st
                              hw := if s.last ≥ st then s.last + 1 else st
                              segs := segs, buf := [], fl := [], gated := false } }, .ok s.last)

end KafVerif.PLog
